SPECIFICATION Spec
CONSTANT Deviations = {}
CONSTRAINT HW
POSTCONDITION Accepted
CHECK_DEADLOCK FALSE
