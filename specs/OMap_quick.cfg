SPECIFICATION Spec
CONSTANTS
  Keys = {"n1", "s1", "z"}
  Reps = {"a", "b"}
  Vals = {"v1", "v2"}
  NIter = 2
  MaxLen = 3
  MaxEs = 0
  Kinds = {"entries", "keys", "values"}
INVARIANTS NoDup PosOK SizeOK
PROPERTIES Yielded SizeStep
ACTION_CONSTRAINT Emit
VIEW View
CHECK_DEADLOCK FALSE
