SPECIFICATION Spec
CONSTANTS
  Keys = {"n1", "s1", "z"}
  Reps = {"a"}
  Vals = {"v1"}
  NIter = 2
  MaxLen = 3
  MaxEs = 6
  Kinds = {"entries"}
INVARIANTS NoDup PosOK SizeOK Refines
PROPERTIES Yielded SizeStep
CONSTRAINT EsBound
CHECK_DEADLOCK FALSE
