------------------------------- MODULE NumPool -------------------------------
(* Numbers that are mathematically equal (and have the same zero sign) are indistinguishable, however they were
   computed (property C05, first sentence), over a window of exactly representable values.

   Code anchors: vm.go arithmetic instructions (_add, _sub, _mul, _div, _mod, _inc, _dec, _neg, _or, _sar ...: each has an
   integer fast path and a float path whose result must be normalised with floatToValue / intToValue), value.go valueInt /
   valueFloat (SameAs / StrictEquals / hash), builtin_math.go, typed-array and JSON round trips, map.go (Map / Set keys).

   Domain: dyadic rationals m/4 with |m| <= Bound (every value and every result is exactly a double, so the exact
   rational result IS the IEEE-754 result), plus -0, NaN, +Infinity, -Infinity.  Two registers a, b hold values; an action
   assigns a literal or applies an operator to the registers.  An action whose exact result leaves the window is disabled.
   The replayer performs the same computation on the engine and checks, for the pairs (a, b), (a, fresh literal of a's
   value), (b, fresh literal of b's value): Object.is in both argument orders, ===, switch, Map.get, Set.has, indexOf,
   includes, property-key identity and String() -- all must answer as SameValue / SameValueZero / strict equality of the
   abstract values prescribe.  A non-canonical internal representation of an integer-valued result shows up there. *)
EXTENDS Integers, Sequences, TLC, Json

CONSTANTS Bound       \* bound on |m| (values are m/4)

VARIABLES a, b, act
vars == <<a, b, act>>

Fin(m) == [k |-> "fin", m |-> m]
NZ == [k |-> "nz", m |-> 0]            \* negative zero
NaN == [k |-> "nan", m |-> 0]
Inf == [k |-> "inf", m |-> 0]
NInf == [k |-> "ninf", m |-> 0]
IsZero(x) == x.k = "nz" \/ (x.k = "fin" /\ x.m = 0)
Neg0(x) == x.k = "nz" \/ x.k = "ninf" \/ (x.k = "fin" /\ x.m < 0)       \* sign bit
InWin(x) == IF x.k # "fin" THEN TRUE ELSE (x.m >= -Bound /\ x.m <= Bound)
Abs(n) == IF n < 0 THEN -n ELSE n
Zero(neg) == IF neg THEN NZ ELSE Fin(0)

NegV(x) == CASE x.k = "nan" -> NaN [] x.k = "inf" -> NInf [] x.k = "ninf" -> Inf [] x.k = "nz" -> Fin(0)
             [] OTHER -> IF x.m = 0 THEN NZ ELSE Fin(-x.m)
Add(x, y) ==
  IF x.k = "nan" \/ y.k = "nan" THEN NaN
  ELSE IF x.k \in {"inf", "ninf"} THEN (IF y.k \in {"inf", "ninf"} /\ y.k # x.k THEN NaN ELSE x)
  ELSE IF y.k \in {"inf", "ninf"} THEN y
  ELSE IF IsZero(x) /\ IsZero(y) THEN Zero(x.k = "nz" /\ y.k = "nz")
  ELSE Fin(x.m + y.m)                                    \* (x + (-x) = +0)
Sub(x, y) == Add(x, NegV(y))
Mul(x, y) ==
  IF x.k = "nan" \/ y.k = "nan" THEN NaN
  ELSE LET neg == Neg0(x) # Neg0(y) IN
       IF x.k \in {"inf", "ninf"} \/ y.k \in {"inf", "ninf"} THEN (IF IsZero(x) \/ IsZero(y) THEN NaN ELSE IF neg THEN NInf ELSE Inf)
       ELSE IF IsZero(x) \/ IsZero(y) THEN Zero(neg)
       ELSE Fin((x.m * y.m) \div 4)
\* (IF instead of \/: inside an action TLC explores the disjuncts of a disjunction separately)
MulExact(x, y) == IF x.k # "fin" THEN TRUE ELSE IF y.k # "fin" THEN TRUE ELSE (x.m * y.m) % 4 = 0
Div(x, y) ==
  IF x.k = "nan" \/ y.k = "nan" THEN NaN
  ELSE LET neg == Neg0(x) # Neg0(y) IN
       IF x.k \in {"inf", "ninf"} THEN (IF y.k \in {"inf", "ninf"} THEN NaN ELSE IF neg THEN NInf ELSE Inf)
       ELSE IF y.k \in {"inf", "ninf"} THEN Zero(neg)
       ELSE IF IsZero(y) THEN (IF IsZero(x) THEN NaN ELSE IF neg THEN NInf ELSE Inf)
       ELSE IF IsZero(x) THEN Zero(neg)
       ELSE Fin((IF neg THEN -1 ELSE 1) * ((Abs(x.m) * 4) \div Abs(y.m)))
DivExact(x, y) == IF x.k # "fin" THEN TRUE ELSE IF y.k # "fin" THEN TRUE ELSE IF y.m = 0 THEN TRUE ELSE (Abs(x.m) * 4) % Abs(y.m) = 0
\* JS remainder: sign of the dividend, a zero result keeps the dividend's sign
Rem(x, y) ==
  IF x.k = "nan" \/ y.k = "nan" \/ x.k \in {"inf", "ninf"} \/ IsZero(y) THEN NaN
  ELSE IF y.k \in {"inf", "ninf"} \/ IsZero(x) THEN x
  ELSE LET r == Abs(x.m) % Abs(y.m) IN IF r = 0 THEN Zero(x.m < 0) ELSE Fin(IF x.m < 0 THEN -r ELSE r)
One == Fin(4)
\* integer part toward zero of a finite value, as an integer
Trunc(x) == IF x.m >= 0 THEN x.m \div 4 ELSE -((-x.m) \div 4)
ToInt32(x) == IF x.k # "fin" THEN Fin(0) ELSE Fin(4 * Trunc(x))        \* window values are far below 2^31
Floor(x) == IF x.k # "fin" THEN x ELSE Fin(4 * (x.m \div 4))           \* TLA+ \div floors
Ceil(x) == IF x.k # "fin" THEN x ELSE LET c == -((-x.m) \div 4) IN IF c = 0 /\ x.m < 0 THEN NZ ELSE Fin(4 * c)
TruncV(x) == IF x.k # "fin" THEN x ELSE LET t == Trunc(x) IN IF t = 0 /\ x.m < 0 THEN NZ ELSE Fin(4 * t)
\* Math.round: floor(x + 0.5), but -0 for x in [-0.5, -0]
Round(x) == IF x.k # "fin" THEN x ELSE LET r == (x.m + 2) \div 4 IN IF r = 0 /\ x.m < 0 THEN NZ ELSE Fin(4 * r)
AbsV(x) == CASE x.k = "nz" -> Fin(0) [] x.k = "ninf" -> Inf [] x.k = "fin" -> Fin(Abs(x.m)) [] OTHER -> x
Sign(x) == CASE x.k = "nan" -> NaN [] x.k = "nz" -> NZ [] x.k = "inf" -> One [] x.k = "ninf" -> Fin(-4)
             [] OTHER -> IF x.m = 0 THEN x ELSE IF x.m > 0 THEN One ELSE Fin(-4)
Less(x, y) == \* x < y on non-NaN values, -0 < +0 for Math.max / Math.min
  LET r(v) == CASE v.k = "ninf" -> -100000 [] v.k = "inf" -> 100000 [] v.k = "nz" -> 0 [] OTHER -> v.m IN
  r(x) < r(y) \/ (r(x) = r(y) /\ x.k = "nz" /\ y.k # "nz")
Max(x, y) == IF x.k = "nan" \/ y.k = "nan" THEN NaN ELSE IF Less(x, y) THEN y ELSE x
Min(x, y) == IF x.k = "nan" \/ y.k = "nan" THEN NaN ELSE IF Less(y, x) THEN y ELSE x
\* Number(String(x)) and JSON.parse(JSON.stringify(x)) lose the sign of zero
ViaString(x) == IF x.k = "nz" THEN Fin(0) ELSE x
ToInt8(x) == IF x.k # "fin" THEN Fin(0) ELSE LET t == Trunc(x) u == ((t % 256) + 256) % 256 IN Fin(4 * (IF u >= 128 THEN u - 256 ELSE u))

Lits == {Fin(0), NZ, Fin(4), Fin(8), Fin(2), Fin(1), Fin(6), Fin(-4), Fin(-6), Fin(12), Fin(-2), NaN, Inf, NInf}
Bin == {"add", "sub", "mul", "div", "rem", "max", "min"}
Un == {"neg", "inc", "dec", "postinc", "or0", "not2", "shl0", "floor", "ceil", "round", "trunc", "abs", "sign", "plus", "viastr", "parsefloat", "json",
       "f64", "i8", "sq", "half", "dbl", "addeq1", "subeq1", "muleq1", "diveq1", "compoundneg"}

BinRes(op, x, y) == CASE op = "add" -> Add(x, y) [] op = "sub" -> Sub(x, y) [] op = "mul" -> Mul(x, y) [] op = "div" -> Div(x, y)
                      [] op = "rem" -> Rem(x, y) [] op = "max" -> Max(x, y) [] op = "min" -> Min(x, y)
BinOK(op, x, y) == (op = "mul" => MulExact(x, y)) /\ (op = "div" => DivExact(x, y))
UnRes(op, x) == CASE op = "neg" -> NegV(x) [] op \in {"inc", "postinc", "addeq1"} -> Add(x, One) [] op \in {"dec", "subeq1"} -> Sub(x, One)
                  [] op \in {"or0", "not2", "shl0"} -> ToInt32(x)
                  [] op = "floor" -> Floor(x) [] op = "ceil" -> Ceil(x) [] op = "round" -> Round(x) [] op = "trunc" -> TruncV(x)
                  [] op = "abs" -> AbsV(x) [] op = "sign" -> Sign(x) [] op \in {"plus", "f64", "muleq1", "diveq1"} -> x
                  [] op \in {"viastr", "parsefloat", "json"} -> ViaString(x)
                  [] op = "i8" -> ToInt8(x) [] op = "sq" -> Mul(x, x) [] op = "half" -> Div(x, Fin(8)) [] op = "dbl" -> Mul(x, Fin(8))
                  [] op = "compoundneg" -> NegV(NegV(x))
UnOK(op, x) == /\ (op = "sq" => MulExact(x, x)) /\ (op = "half" => DivExact(x, Fin(8)))
               /\ (op = "json" => x.k \in {"fin", "nz"}) /\ (op = "parsefloat" => TRUE)

Render(x) == CASE x.k = "nan" -> "NaN" [] x.k = "inf" -> "Infinity" [] x.k = "ninf" -> "-Infinity" [] x.k = "nz" -> "-0"
               [] OTHER -> (IF x.m < 0 THEN "-" ELSE "") \o ToString(Abs(x.m) \div 4) \o
                           (CASE Abs(x.m) % 4 = 0 -> "" [] Abs(x.m) % 4 = 1 -> ".25" [] Abs(x.m) % 4 = 2 -> ".5" [] OTHER -> ".75")

Init == a = Fin(0) /\ b = Fin(4) /\ act = [op |-> "init"]
\* literal forms: the same value written differently (decimal, exponent, hex, expression) -- chosen by the replayer
LitA(v, form) == a' = v /\ b' = b /\ act' = [op |-> "lit", reg |-> "a", v |-> Render(v), form |-> form]
LitB(v, form) == b' = v /\ a' = a /\ act' = [op |-> "lit", reg |-> "b", v |-> Render(v), form |-> form]
BinA(op) == /\ BinOK(op, a, b) /\ InWin(BinRes(op, a, b)) /\ a' = BinRes(op, a, b) /\ b' = b /\ act' = [op |-> "bin", reg |-> "a", o |-> op]
BinB(op) == /\ BinOK(op, b, a) /\ InWin(BinRes(op, b, a)) /\ b' = BinRes(op, b, a) /\ a' = a /\ act' = [op |-> "bin", reg |-> "b", o |-> op]
UnA(op) == /\ UnOK(op, a) /\ InWin(UnRes(op, a)) /\ a' = UnRes(op, a) /\ b' = b /\ act' = [op |-> "un", reg |-> "a", o |-> op]
UnB(op) == /\ UnOK(op, b) /\ InWin(UnRes(op, b)) /\ b' = UnRes(op, b) /\ a' = a /\ act' = [op |-> "un", reg |-> "b", o |-> op]
Next == \/ \E v \in Lits, f \in 0..2 : LitA(v, f) \/ LitB(v, f)
        \/ \E op \in Bin : BinA(op) \/ BinB(op)
        \/ \E op \in Un : UnA(op) \/ UnB(op)
Spec == Init /\ [][Next]_vars

\* the window is closed under the enabled actions, and -0 never hides inside a finite record
WinOK == InWin(a) /\ InWin(b)
\* algebraic sanity of the model itself (IEEE identities inside the window)
Laws == /\ Add(a, NegV(a)).k \in {"fin", "nan"} /\ (a.k = "fin" => Add(a, NegV(a)) = Fin(0))
        /\ (a.k \in {"fin", "nz"} /\ MulExact(a, One) => Mul(a, One) = a)
        /\ NegV(NegV(a)) = a
        /\ Max(a, b) = Max(b, a) /\ Min(a, b) = Min(b, a)

St == [a |-> Render(a), b |-> Render(b)]
StP == [a |-> Render(a'), b |-> Render(b')]
Emit == PrintT(ToJson([f |-> St, l |-> act', t |-> StP]))
View == <<a, b>>
=============================================================================
