------------------------------- MODULE NumConv -------------------------------
(* The modular integer conversions of ECMA-262 7.1.6 - 7.1.11 (ToInt32, ToUint32, ToInt16, ToUint16, ToInt8, ToUint8,
   ToUint8Clamp) on integer-valued doubles of large magnitude (property C05, second sentence).

   TLC's integers are 32-bit, so this module is evaluated by Apalache (unbounded integers): Init builds the table of
   specified results for the boundary inputs B, and the violated "invariant" Tabulated makes Apalache print the initial
   state as a counterexample (ITF JSON), from which lib/checks/c05.py reads the table.  Every input is an integer that is
   exactly representable as a double (k * 2^e with k < 2^53), so ToNumber is the identity and the mathematical modulo IS
   the specified result.
   Code anchors: runtime.go toInt32 / toUint32 / toInt16 / ... (used by the bitwise operators, typed-array stores,
   ExportTo), value.go valueFloat.ToInteger, floatToIntClip. *)
EXTENDS Integers

VARIABLE
  \* @type: Int -> { i32: Int, u32: Int, i16: Int, u16: Int, i8: Int, u8: Int, u8c: Int };
  tbl

Two32 == 4294967296
Two31 == 2147483648
\* x modulo m into [0, m) (TLA+'s % is already the mathematical modulo for m > 0)
ToUint(x, m) == x % m
ToInt(x, m) == LET r == x % m IN IF r >= m \div 2 THEN r - m ELSE r
Clamp(x) == IF x < 0 THEN 0 ELSE IF x > 255 THEN 255 ELSE x

Two53 == 9007199254740992
Two63 == 9223372036854775808
Two64 == 18446744073709551616
B == { 0, 1, -1, 127, 128, 255, 256, -128, -129, 32767, 32768, 65535, 65536, -32769,
       Two31 - 1, Two31, Two31 + 1, -Two31, -Two31 - 1, Two32 - 1, Two32, Two32 + 1, -Two32, Two32 + 5, 3 * Two32 + 7,
       Two53 - 1, Two53, Two53 + 2, -(Two53 + 2), 4 * Two53 + 8,
       Two63 - 1024, Two63, Two63 + 2048, -(Two63 + 2048), Two64, Two64 + 4096, -(Two64 + 4096), Two64 * 3 + 24576,
       1000000000000000000000, 1000000000000000000000 + 131072 }

Init == tbl = [x \in B |-> [i32 |-> ToInt(x, Two32), u32 |-> ToUint(x, Two32), i16 |-> ToInt(x, 65536), u16 |-> ToUint(x, 65536),
                            i8 |-> ToInt(x, 256), u8 |-> ToUint(x, 256), u8c |-> Clamp(x)]]
Next == UNCHANGED tbl

\* properties of the conversions themselves (checked by Apalache on the table)
RangeOK == \A x \in B : /\ tbl[x].i32 >= -Two31 /\ tbl[x].i32 < Two31 /\ tbl[x].u32 >= 0 /\ tbl[x].u32 < Two32
                       /\ (tbl[x].u32 - tbl[x].i32) % Two32 = 0 /\ (x - tbl[x].u32) % Two32 = 0
                       /\ tbl[x].i8 >= -128 /\ tbl[x].i8 < 128 /\ (x - tbl[x].u16) % 65536 = 0
\* deliberately false: its "counterexample" is the initial state, i.e. the table
Tabulated == FALSE
=============================================================================
