------------------------------ MODULE FieldSel ------------------------------
(* Which Go field a property of a wrapped struct denotes (property C13: "a wrapped struct ... is a live view"), for structs with
   embedded structs and embedded pointers to structs (Go specification, Selectors: x.f denotes the field f at the shallowest depth
   of the embedding tree; a field promoted through a nil embedded pointer cannot be reached).

   Code anchors: object_goreflect.go buildFieldInfo (name -> index path, "shallowest depth wins"), _getField (FieldByIndexErr: a nil
   embedded pointer on the path makes the property absent), _put, getOwnPropStr / hasOwnPropertyStr / stringKeys.

   The type family (constant Types) is written down twice: here as data and in harness/natives/fieldsel.go as Go types; every leaf
   field is an int.  Families are chosen so that no two fields of one name sit at the same depth (Go rejects such a selector; which
   one a wrapper shows is not specified).  State: the values of all leaf fields by path, and which embedded pointers are nil. *)
EXTENDS Integers, Sequences, FiniteSets, TLC, Json

CONSTANTS T           \* the struct type under test (name of an entry of Types)

\* a type: sequence of fields [n: name, k: "leaf" | "emb" | "embptr", ty: embedded type name]
F(n) == [n |-> n, k |-> "leaf", ty |-> ""]
E(ty) == [n |-> ty, k |-> "emb", ty |-> ty]
EP(ty) == [n |-> ty, k |-> "embptr", ty |-> ty]
Types == [
  \* the shallow X is declared first; the deep one sits two levels further down
  T1    |-> << F("X"), E("Mid") >>,
  Mid   |-> << F("Y"), E("Deep") >>,
  Deep  |-> << F("X"), F("Z") >>,
  \* siblings: V at depth 1 (through A) and at depth 3 (through B.C.D)
  T2    |-> << E("A"), E("B") >>,
  A     |-> << F("V") >>,
  B     |-> << E("C") >>,
  C     |-> << E("D") >>,
  D     |-> << F("V"), F("W") >>,
  \* an embedded pointer: its fields exist only while it is not nil; Q of the outer struct shadows the promoted one
  T3    |-> << EP("P"), F("Q") >>,
  P     |-> << F("G"), F("Q") >>,
  \* the deep field is declared first, the shallow one last
  T4    |-> << E("Deep2"), F("X") >>,
  Deep2 |-> << E("In") >>,
  In    |-> << F("X"), F("U") >>,
  \* a pointer below a pointer
  T5    |-> << EP("P5"), F("K") >>,
  P5    |-> << EP("P"), F("H") >>
]

\* all leaf paths of a type (a path is a sequence of field names), with the embedded pointers they cross
RECURSIVE Leaves(_, _, _)
Leaves(ty, prefix, ptrs) ==
  UNION { LET f == Types[ty][i] IN
          IF f.k = "leaf" THEN {[p |-> Append(prefix, f.n), ptrs |-> ptrs]}
          ELSE Leaves(f.ty, Append(prefix, f.n), IF f.k = "embptr" THEN ptrs \cup {Append(prefix, f.n)} ELSE ptrs)
        : i \in 1..Len(Types[ty]) }
AllLeaves == Leaves(T, <<>>, {})
AllPtrs == UNION {l.ptrs : l \in AllLeaves}
Names == {l.p[Len(l.p)] : l \in AllLeaves}
\* the selector rule: the candidates of least depth; the families have exactly one
Cands(n) == {l \in AllLeaves : l.p[Len(l.p)] = n}
Sel(n) == CHOOSE l \in Cands(n) : \A m \in Cands(n) : Len(l.p) <= Len(m.p)
Unambiguous == \A n \in Names : Cardinality({l \in Cands(n) : Len(l.p) = Len(Sel(n).p)}) = 1

VARIABLES val,      \* [leaf path -> value]
          nil,      \* set of embedded-pointer paths that are nil (a pointer below a nil pointer does not exist: kept out of the set)
          nops, act
vars == <<val, nil, nops, act>>
MaxOps == 3
Vals == {1, 2}
PathStr(p) == LET G[i \in 0..Len(p)] == IF i = 0 THEN "" ELSE G[i - 1] \o (IF i > 1 THEN "." ELSE "") \o p[i] IN G[Len(p)]

\* all pointers start nil (the zero value of the struct)
Init == val = [l \in {x.p : x \in AllLeaves} |-> 0] /\ nil = {q \in AllPtrs : \A r \in AllPtrs : ~(Len(r) < Len(q) /\ SubSeq(q, 1, Len(r)) = r)}
        /\ nops = 0 /\ act = [op |-> "init"]
\* a leaf is reachable iff no embedded pointer on its path is nil (nil holds the OUTERMOST nil pointer of each chain)
Reachable(l) == \A q \in l.ptrs : q \notin nil /\ (\A r \in nil : ~(Len(r) <= Len(q) /\ SubSeq(q, 1, Len(r)) = r))
Step(a) == nops < MaxOps /\ nops' = nops + 1 /\ act' = a

JsGet(n) == /\ UNCHANGED <<val, nil>>
            /\ Step([op |-> "get", n |-> n, res |-> IF Reachable(Sel(n)) THEN val[Sel(n).p] ELSE "u"])
JsHas(n) == /\ UNCHANGED <<val, nil>>
            /\ Step([op |-> "has", n |-> n, res |-> IF Reachable(Sel(n)) THEN "true" ELSE "false"])
\* a write lands in the selected field; through a nil pointer it cannot (strict code: TypeError or an expando refused -- the adaptor
\* only requires that no Go field changes and nothing panics)
JsSet(n, v) == /\ UNCHANGED nil
               /\ val' = IF Reachable(Sel(n)) THEN [val EXCEPT ![Sel(n).p] = v] ELSE val
               /\ Step([op |-> "set", n |-> n, v |-> v, res |-> IF Reachable(Sel(n)) THEN "ok" ELSE "unreachable"])
\* Go writes any leaf directly by its full path (also the shadowed ones)
GoSet(l, v) == /\ Reachable(l) /\ UNCHANGED nil
               /\ val' = [val EXCEPT ![l.p] = v]
               /\ Step([op |-> "goSet", p |-> PathStr(l.p), v |-> v, res |-> "ok"])
\* Go allocates a nil embedded pointer (zero pointee; pointers inside it are nil) or sets a pointer to nil
Below(q) == {x.p : x \in {l \in AllLeaves : q \in l.ptrs}}
GoAlloc(q) == /\ q \in nil
              /\ nil' = (nil \ {q}) \cup {r \in AllPtrs : Len(r) > Len(q) /\ SubSeq(r, 1, Len(q)) = q /\ \A m \in AllPtrs : ~(Len(m) > Len(q) /\ Len(m) < Len(r) /\ SubSeq(r, 1, Len(m)) = m)}
              /\ val' = [p \in DOMAIN val |-> IF p \in Below(q) THEN 0 ELSE val[p]]
              /\ Step([op |-> "goAlloc", p |-> PathStr(q), res |-> "ok"])
GoNil(q) == /\ q \in AllPtrs /\ q \notin nil /\ (\A r \in nil : ~(Len(r) < Len(q) /\ SubSeq(q, 1, Len(r)) = r))
            /\ nil' = {r \in nil : ~(Len(r) > Len(q) /\ SubSeq(r, 1, Len(q)) = q)} \cup {q}
            /\ val' = [p \in DOMAIN val |-> IF p \in Below(q) THEN 0 ELSE val[p]]
            /\ Step([op |-> "goNil", p |-> PathStr(q), res |-> "ok"])
Keys == /\ UNCHANGED <<val, nil>>
        /\ Step([op |-> "keys", res |-> [n \in Names |-> IF Reachable(Sel(n)) THEN "T" ELSE "F"]])

Next == \/ \E n \in Names : JsGet(n) \/ JsHas(n) \/ (\E v \in Vals : JsSet(n, v))
        \/ \E l \in AllLeaves, v \in Vals : GoSet(l, v)
        \/ \E q \in AllPtrs : GoAlloc(q) \/ GoNil(q)
        \/ Keys
Spec == Init /\ [][Next]_vars

\* a script write changes exactly the selected field; a read never changes anything
WriteFrame == [][act'.op = "set" => \A p \in DOMAIN val : p # Sel(act'.n).p => val'[p] = val[p]]_vars
ValsOK == \A p \in DOMAIN val : val[p] \in {0} \cup Vals
ASSUME Unambiguous

Obs(v, nl) == [val |-> [p \in {PathStr(x) : x \in DOMAIN v} |-> v[CHOOSE x \in DOMAIN v : PathStr(x) = p]], nil |-> {PathStr(q) : q \in nl}]
St == [o |-> Obs(val, nil), n |-> nops]
StP == [o |-> Obs(val', nil'), n |-> nops']
Emit == PrintT(ToJson([f |-> St, l |-> act', t |-> StP]))
View == <<val, nil, nops>>
=============================================================================
