------------------------------- MODULE StrPool -------------------------------
(* Strings are sequences of UTF-16 code units and nothing else (property C06).

   One register `a` holds a string; every action applies one string-producing operation of ECMA-262 22.1.3 to it, computed
   here exactly on sequences of code-unit TOKENS.  The replayer (harness/adaptors/strpool.js) performs the same operation
   on the real engine -- in each of several syntactic / library FORMS that the specification defines to be equivalent and
   that goja implements on different code paths (ASCII storage, UTF-16 storage, lazily imported Go strings, string
   builders, regexp-argument forms) -- and after every step compares
     * the code units of the engine's string with `a`,
     * the normal form of the representation (UTF-16 storage iff some unit >= 0x80),
     * the engine's string against REFERENCE strings of the same content built in every other way (fromCharCode, an
       evaluated literal, unit-by-unit concatenation, JSON.parse, ToValue(go string) short and long): ===, ==, SameValue,
       relational operators, switch, Map / Set / property keys, indexOf / includes, localeCompare, Go export,
     * the relational order against the operand menu (UTF-16 code unit order, ECMA-262 7.2.13).

   Tokens are chosen so that their numeric order is the order of the code units they stand for:
       1 ' ' (0x20)   2 'a' (0x61)   3 'b' (0x62)   4 'e-acute' (0xE9)   5 ALEF SYMBOL (0x2135)
       6 H = high surrogate 0xD835      7 L = low surrogate 0xDCB3         (H L = U+1D4B3, one astral code point)
   Lone surrogates are first-class: every operation must preserve them.

   Code anchors: string.go / string_ascii.go / string_unicode.go / string_imported.go (three representations, StringBuilder
   normalisation), builtin_string.go (every method below), value.go (StrictEquals / SameAs / hash), runtime.go ToValue(string).

   Bounds: Alpha (subset of tokens), MaxLen (maximal length of `a`; an operation whose result would be longer is not taken),
   Menu (operand strings).  Not modelled: case mapping and normalisation beyond the identities that hold on this alphabet,
   locale-sensitive comparison other than equality, regular expressions other than literal patterns (C20). *)
EXTENDS Integers, Sequences, FiniteSets, TLC, Json

CONSTANTS Alpha, MaxLen, Menu

VARIABLES a, act
vars == <<a, act>>

SP == 1
H == 6
L == 7
Min(x, y) == IF x < y THEN x ELSE y
Max(x, y) == IF x > y THEN x ELSE y

\* 0-based half-open substring [from, to)
Sub(s, from, to) == IF from < to THEN SubSeq(s, from + 1, to) ELSE <<>>
RelClamp(i, n) == IF i < 0 THEN Max(n + i, 0) ELSE Min(i, n)
Clamp0(i, n) == Max(0, Min(i, n))

\* 22.1.3.22 slice, .25 substring, B.2.2.1 substr
SliceOp(s, i, j) == Sub(s, RelClamp(i, Len(s)), RelClamp(j, Len(s)))
SubstringOp(s, i, j) == LET x == Clamp0(i, Len(s)) y == Clamp0(j, Len(s)) IN Sub(s, Min(x, y), Max(x, y))
SubstrOp(s, i, n) == LET st == RelClamp(i, Len(s)) c == Min(Max(n, 0), Len(s) - st) IN Sub(s, st, st + c)

\* 6.1.4.1 StringIndexOf and the lastIndexOf search
MatchAt(s, t, k) == k + Len(t) <= Len(s) /\ Sub(s, k, k + Len(t)) = t
IndexOfFrom(s, t, from) ==
  LET st == Clamp0(from, Len(s))
      c == {k \in st..Len(s) : MatchAt(s, t, k)}
  IN IF c = {} THEN -1 ELSE CHOOSE k \in c : \A j \in c : k <= j
LastIndexOfFrom(s, t, from) ==
  LET st == Clamp0(from, Len(s))
      c == {k \in 0..st : MatchAt(s, t, k)}
  IN IF c = {} THEN -1 ELSE CHOOSE k \in c : \A j \in c : k >= j

\* 22.1.3.19 replace / .20 replaceAll with string pattern and a replacement without $-patterns
ReplaceFirst(s, t, r) == LET k == IndexOfFrom(s, t, 0) IN
                         IF k = -1 THEN s ELSE Sub(s, 0, k) \o r \o Sub(s, k + Len(t), Len(s))
RECURSIVE RepAll(_, _, _, _)
RepAll(s, t, r, from) ==
  LET k == IndexOfFrom(s, t, from) IN
  IF k = -1 THEN Sub(s, from, Len(s))
  ELSE Sub(s, from, k) \o r \o
       (IF Len(t) = 0 THEN (IF k < Len(s) THEN <<s[k + 1]>> \o RepAll(s, t, r, k + 1) ELSE <<>>)   \* advance by one code UNIT
        ELSE RepAll(s, t, r, k + Len(t)))
ReplaceAllOp(s, t, r) == RepAll(s, t, r, 0)

\* 22.1.3.23 split with a string separator (no limit)
RECURSIVE SplitR(_, _, _)
SplitR(s, t, from) == LET k == IndexOfFrom(s, t, from) IN
                      IF k = -1 THEN <<Sub(s, from, Len(s))>> ELSE <<Sub(s, from, k)>> \o SplitR(s, t, k + Len(t))
SplitOp(s, t) == IF Len(t) = 0 THEN [i \in 1..Len(s) |-> <<s[i]>>] ELSE SplitR(s, t, 0)
RECURSIVE JoinOp(_, _)
JoinOp(ps, r) == IF Len(ps) = 0 THEN <<>> ELSE IF Len(ps) = 1 THEN ps[1] ELSE ps[1] \o r \o JoinOp(Tail(ps), r)

\* 22.1.3.16/.17 padEnd / padStart, .18 repeat
Fill(f, n) == [i \in 1..n |-> f[((i - 1) % Len(f)) + 1]]
PadStartOp(s, n, f) == IF n <= Len(s) \/ Len(f) = 0 THEN s ELSE Fill(f, n - Len(s)) \o s
PadEndOp(s, n, f) == IF n <= Len(s) \/ Len(f) = 0 THEN s ELSE s \o Fill(f, n - Len(s))
RECURSIVE RepeatOp(_, _)
RepeatOp(s, n) == IF n = 0 THEN <<>> ELSE s \o RepeatOp(s, n - 1)

\* 22.1.3.32-34 trim family (the only white space of the alphabet is SP)
RECURSIVE TrimStartOp(_), TrimEndOp(_)
TrimStartOp(s) == IF Len(s) > 0 /\ s[1] = SP THEN TrimStartOp(Tail(s)) ELSE s
TrimEndOp(s) == IF Len(s) > 0 /\ s[Len(s)] = SP THEN TrimEndOp(Sub(s, 0, Len(s) - 1)) ELSE s

\* 11.1.4 CodePointAt: the code points of a string (a surrogate pair is one, a lone surrogate is one)
RECURSIVE CPs(_, _)
CPs(s, i) == IF i > Len(s) THEN <<>>
             ELSE IF s[i] = H /\ i < Len(s) /\ s[i + 1] = L THEN <<<<H, L>>>> \o CPs(s, i + 2)
             ELSE <<<<s[i]>>>> \o CPs(s, i + 1)
CodePoints(s) == CPs(s, 1)
CodePointAtOp(s, i) == IF s[i + 1] = H /\ i + 1 < Len(s) /\ s[i + 2] = L THEN <<H, L>> ELSE <<s[i + 1]>>
WellFormed(s) == \A i \in 1..Len(CodePoints(s)) : LET p == CodePoints(s)[i] IN Len(p) = 2 \/ p[1] \notin {H, L}

\* 7.2.13 IsLessThan on strings: lexicographic on code units
RECURSIVE Cmp(_, _)
Cmp(s, t) == IF Len(s) = 0 /\ Len(t) = 0 THEN 0 ELSE IF Len(s) = 0 THEN -1 ELSE IF Len(t) = 0 THEN 1
             ELSE IF s[1] < t[1] THEN -1 ELSE IF s[1] > t[1] THEN 1 ELSE Cmp(Tail(s), Tail(t))

AlphaQuick == {1, 2, 4, 6, 7}
AlphaFull == 1..7
MenuQuick == {<<>>, <<1>>, <<2>>, <<4>>, <<6>>, <<7>>, <<6, 7>>, <<2, 4>>}
MenuFull == MenuQuick \cup {<<3>>, <<5>>, <<2, 3>>, <<7, 6>>}

---------------------------------------------------------------------------
Init == a = <<>> /\ act = [op |-> "init"]

\* a string-producing step (taken only if the result fits the bound) / a query that leaves the register alone
Put(l, v) == Len(v) <= MaxLen /\ a' = v /\ act' = [l EXCEPT !.res = v]
Ask(l) == a' = a /\ act' = l
Idx == -2..(MaxLen + 1)

Origins == {"fcc", "lit", "cat", "json", "go", "golong", "tmpl", "arrjoin"}
\* (JSON.parse of an escaped lone surrogate is a recorded finding of this tree, probed with its specific inputs by the check; the
\*  JSON forms are replayed on well-formed strings only so that every other JSON behaviour is still decided)
Lit == \E m \in Menu, o \in Origins : (o = "json" => WellFormed(m)) /\ Put([op |-> "lit", m |-> m, form |-> o, res |-> <<>>], m)

ConcatForms == {"plus", "pluseq", "concat", "tmpl", "join", "revplus"}
Concat == \E m \in Menu, f \in ConcatForms :
            IF f = "revplus" THEN Put([op |-> "concat", m |-> m, form |-> f, res |-> <<>>], m \o a)
            ELSE Put([op |-> "concat", m |-> m, form |-> f, res |-> <<>>], a \o m)

Cut == \E i \in Idx, j \in Idx :
         \/ Put([op |-> "slice", i |-> i, j |-> j, res |-> <<>>], SliceOp(a, i, j))
         \/ Put([op |-> "substring", i |-> i, j |-> j, res |-> <<>>], SubstringOp(a, i, j))
         \/ Put([op |-> "substr", i |-> i, j |-> j, res |-> <<>>], SubstrOp(a, i, j))
         \/ (j = 0 /\ Put([op |-> "slice1", i |-> i, j |-> 0, res |-> <<>>], SliceOp(a, i, Len(a))))

\* one code unit / code point: charAt, at, [], fromCharCode(charCodeAt), fromCodePoint(codePointAt), split("")[i], spread[i]
UnitForms == {"charAt", "at", "index", "fcc", "split", "substr1"}
Unit == \E i \in 0..MaxLen :
          /\ i < Len(a)
          /\ \/ \E f \in UnitForms : Put([op |-> "unit", i |-> i, form |-> f, res |-> <<>>], <<a[i + 1]>>)
             \/ Put([op |-> "cp", i |-> i, form |-> "fcp", res |-> <<>>], CodePointAtOp(a, i))
             \/ (i < Len(CodePoints(a)) /\ \E f \in {"spread", "from", "iter"} :
                   Put([op |-> "cp", i |-> i, form |-> f, res |-> <<>>], CodePoints(a)[i + 1]))
\* out of range: charAt gives "", at / [] give undefined
UnitOut == \E i \in {-1, MaxLen + 1} :
             \/ Put([op |-> "unit", i |-> i, form |-> "charAt", res |-> <<>>], IF i = -1 \/ i >= Len(a) THEN <<>> ELSE <<a[i + 1]>>)
             \/ Ask([op |-> "atout", i |-> i, res |-> IF i = -1 /\ Len(a) > 0 THEN "defined" ELSE "undefined"])

Pad == \E n \in 0..MaxLen, m \in Menu :
         \/ Put([op |-> "padStart", n |-> n, m |-> m, res |-> <<>>], PadStartOp(a, n, m))
         \/ Put([op |-> "padEnd", n |-> n, m |-> m, res |-> <<>>], PadEndOp(a, n, m))
Rep == \E n \in 0..MaxLen : Put([op |-> "repeat", n |-> n, res |-> <<>>], RepeatOp(a, n))
Trim == \/ Put([op |-> "trim", res |-> <<>>], TrimStartOp(TrimEndOp(a)))
        \/ Put([op |-> "trimStart", res |-> <<>>], TrimStartOp(a))
        \/ Put([op |-> "trimEnd", res |-> <<>>], TrimEndOp(a))

\* forms: string pattern; a global / non-global regular expression for the same literal pattern (only for patterns
\* without surrogates and not empty: there the regexp semantics coincide with the string semantics)
RxOK(m) == Len(m) > 0 /\ \A i \in 1..Len(m) : m[i] \notin {H, L}
Replace == \E m \in Menu, r \in Menu :
             \/ Put([op |-> "replace", m |-> m, r |-> r, form |-> "str", res |-> <<>>], ReplaceFirst(a, m, r))
             \/ Put([op |-> "replaceAll", m |-> m, r |-> r, form |-> "str", res |-> <<>>], ReplaceAllOp(a, m, r))
             \/ (Len(m) > 0 /\ Put([op |-> "replaceAll", m |-> m, r |-> r, form |-> "splitjoin", res |-> <<>>], ReplaceAllOp(a, m, r)))
             \/ (RxOK(m) /\ Put([op |-> "replace", m |-> m, r |-> r, form |-> "rx", res |-> <<>>], ReplaceFirst(a, m, r)))
             \/ (RxOK(m) /\ Put([op |-> "replaceAll", m |-> m, r |-> r, form |-> "rxg", res |-> <<>>], ReplaceAllOp(a, m, r)))
             \/ (RxOK(m) /\ Put([op |-> "replaceAll", m |-> m, r |-> r, form |-> "rxgu", res |-> <<>>], ReplaceAllOp(a, m, r)))
             \/ (RxOK(m) /\ Put([op |-> "replace", m |-> m, r |-> r, form |-> "fn", res |-> <<>>], ReplaceFirst(a, m, r)))
Split == \E m \in Menu, k \in 0..MaxLen :
           /\ k < Len(SplitOp(a, m))
           /\ \/ Put([op |-> "split", m |-> m, k |-> k, form |-> "str", res |-> <<>>], SplitOp(a, m)[k + 1])
              \/ (RxOK(m) /\ Put([op |-> "split", m |-> m, k |-> k, form |-> "rx", res |-> <<>>], SplitOp(a, m)[k + 1]))

\* operations that are the identity on this alphabet (and must in particular preserve lone surrogates)
IdForms == {"String", "toString", "valueOf", "concat0", "slice0", "json", "jsonkey", "key", "symdesc", "spreadjoin", "fromjoin", "splitjoin",
            "lower", "uplow", "normalize", "escape", "rxnoop", "replaceSelf", "padnoop", "repeat1", "tmpl", "objstr", "localeLower", "substringSwap",
            "mapjoin", "builder", "raw", "at0slice"}
Same == \E f \in IdForms : (f \in {"json", "jsonkey"} => WellFormed(a)) /\ Put([op |-> "id", form |-> f, res |-> <<>>], a)

Search == \E m \in Menu :
            \/ \E from \in Idx : Ask([op |-> "indexOf", m |-> m, from |-> from, res |-> IndexOfFrom(a, m, from)])
            \/ \E from \in Idx : Ask([op |-> "lastIndexOf", m |-> m, from |-> from, res |-> LastIndexOfFrom(a, m, from)])
            \/ Ask([op |-> "includes", m |-> m, res |-> IF IndexOfFrom(a, m, 0) >= 0 THEN "true" ELSE "false"])
            \/ Ask([op |-> "startsWith", m |-> m, res |-> IF MatchAt(a, m, 0) THEN "true" ELSE "false"])
            \/ Ask([op |-> "endsWith", m |-> m, res |-> IF Len(m) <= Len(a) /\ MatchAt(a, m, Len(a) - Len(m)) THEN "true" ELSE "false"])
            \/ Ask([op |-> "cmp", m |-> m, res |-> Cmp(a, m)])
            \/ (RxOK(m) /\ Ask([op |-> "search", m |-> m, res |-> IndexOfFrom(a, m, 0)]))
Measure == \/ Ask([op |-> "length", res |-> Len(a)])
           \/ Ask([op |-> "cpcount", res |-> Len(CodePoints(a))])
           \/ Ask([op |-> "wellformed", res |-> IF WellFormed(a) THEN "true" ELSE "false"])

Next == Lit \/ Concat \/ Cut \/ Unit \/ UnitOut \/ Pad \/ Rep \/ Trim \/ Replace \/ Split \/ Same \/ Search \/ Measure
Spec == Init /\ [][Next]_vars

---------------------------------------------------------------------------
\* properties of the operators themselves (checked by TLC in every reachable state, against the operand menu)
TypeOK == Len(a) <= MaxLen /\ \A i \in 1..Len(a) : a[i] \in Alpha
Laws ==
  /\ SliceOp(a, 0, Len(a)) = a /\ SubstringOp(a, Len(a), 0) = a /\ SubstrOp(a, 0, Len(a)) = a
  /\ JoinOp(CodePoints(a), <<>>) = a
  /\ JoinOp(SplitOp(a, <<>>), <<>>) = a
  /\ \A i \in 0..Len(a) : SliceOp(a, 0, i) \o SliceOp(a, i, Len(a)) = a
  /\ \A i \in 1..Len(a) : SliceOp(a, -i, Len(a)) = SliceOp(a, Len(a) - i, Len(a))
  /\ \A m \in Menu :
       /\ (Len(m) > 0 => JoinOp(SplitOp(a, m), m) = a /\ ReplaceAllOp(a, m, m) = a /\ JoinOp(SplitOp(a, m), <<>>) = ReplaceAllOp(a, m, <<>>))
       /\ ReplaceFirst(a, m, m) = a
       /\ Cmp(a, m) = -Cmp(m, a) /\ (Cmp(a, m) = 0 <=> a = m)
       /\ IndexOfFrom(a \o m, m, 0) >= 0 /\ LastIndexOfFrom(m \o a, m, Len(a) + Len(m)) >= 0
       /\ (IndexOfFrom(a, m, 0) = -1 <=> LastIndexOfFrom(a, m, Len(a)) = -1)
       /\ Len(PadStartOp(a, MaxLen, m)) = (IF Len(m) = 0 THEN Len(a) ELSE Max(Len(a), MaxLen))
  /\ TrimStartOp(TrimEndOp(a)) = TrimEndOp(TrimStartOp(a))
  /\ (WellFormed(a) <=> \A i \in 1..Len(a) : (a[i] = H => i < Len(a) /\ a[i + 1] = L) /\ (a[i] = L => i > 1 /\ a[i - 1] = H))

St == [a |-> a]
StP == [a |-> a']
Emit == PrintT(ToJson([f |-> St, l |-> act', t |-> StP]))
View == a
=============================================================================
