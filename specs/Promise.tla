------------------------------- MODULE Promise -------------------------------
(* Promises and the job queue (ECMA-262 27.2, 9.5 HostEnqueuePromiseJob, HostPromiseRejectionTracker): property C10.

   Code anchors: builtin_promise.go (Promise struct: state / result / fulfillReactions / rejectReactions / handled;
   createResolvingFunctions with the shared alreadyResolved latch; fulfill / reject / addReactions; promiseReaction
   jobs; newPromiseResolveThenableJob; Promise.all / allSettled / any / race; then / catch / finally),
   runtime.go enqueuePromiseJob / leave (FIFO drain before control returns to Go), SetPromiseRejectionTracker.

   The module is used in two ways (constant Mode):
     "explore": any enabled script operation may be taken (bounded): TLC checks the invariants below on every
                reachable state of the design;
     "oracle" : the script operations are those of a generated program (Progs[pi].ops, printed as JavaScript by
                lib/pmgen.py): the machine is deterministic and its event log (handler calls with arguments, thenable
                then() calls, tracker notifications, final states) is what goja must produce (binding C).
   Values are strings ("v1", "r7", "t7", ...); "P<k>" inside an operation denotes promise k; thenables are "Tok",
   "Tthrow", "Tget", "Tmulti", "Tnc". *)
EXTENDS Integers, Sequences, FiniteSets, TLC, Json, IOUtils

CONSTANTS Mode, NP, MaxOps

ProgFile == IF "PROGS" \in DOMAIN IOEnv THEN IOEnv.PROGS ELSE "progs.ndjson"
Progs == IF Mode = "oracle" THEN ndJsonDeserialize(ProgFile) ELSE <<>>

VARIABLES pi,      \* program index (oracle mode)
          ps,      \* Seq([st, res, fr, rr, handled]): promise records; fr / rr are sequences of reactions
          lt,      \* Seq(BOOLEAN): alreadyResolved latches (one per pair of resolving functions)
          plat,    \* Seq(Nat): latch of the resolving functions handed to the executor of promise k (0: none exposed)
          hs,      \* Seq(handler records)
          grp,     \* Seq(combinator groups [kind, cap, lat, remaining, vals, called])
          jobq,    \* FIFO of jobs
          log,     \* observable events
          nops,    \* script operations performed
          phase    \* "script" | "drain" | "idle" | "done"
vars == <<pi, ps, lt, plat, hs, grp, jobq, log, nops, phase>>

\* cls: the constructor, "P" = %Promise%, "S" = a subclass (class Sub extends Promise {}); a derived promise has the class of the
\* promise then() / finally() was called on (SpeciesConstructor), PromiseResolve(C, x) returns x itself only if x.constructor is C
NewRec(c) == [st |-> "pend", res |-> "u", fr |-> <<>>, rr |-> <<>>, handled |-> FALSE, cls |-> c]
IsPRef(x) == \E k \in 1..NP : x = "P" \o ToString(k)
PRef(x) == CHOOSE k \in 1..NP : x = "P" \o ToString(k)
IsRes(b) == \E k \in 1..NP : b = "res" \o ToString(k)
ResOf(b) == CHOOSE k \in 1..NP : b = "res" \o ToString(k)
Thenables == {"Tok", "Tthrow", "Tget", "Tmulti", "Tnc", "Trthrow"}

\* ---------------------------------------------------------------------------------------------------------------
\* The core algorithms as functions on a state record S = [ps, lt, jobq, log, grp]; they return the new record.
S0 == [ps |-> ps, lt |-> lt, jobq |-> jobq, log |-> log, grp |-> grp]
Log(S, e) == [S EXCEPT !.log = Append(@, e)]

\* TriggerPromiseReactions + FulfillPromise / RejectPromise (27.2.1.4, 27.2.1.7)
Settle(S, p, st, v) ==
  LET rs == IF st = "ful" THEN S.ps[p].fr ELSE S.ps[p].rr
      S1 == [S EXCEPT !.ps[p] = [@ EXCEPT !.st = st, !.res = v, !.fr = <<>>, !.rr = <<>>]]
      \* the tracker is told before the reactions are triggered
      S2 == IF st = "rej" /\ ~S.ps[p].handled THEN Log(S1, "track:reject:" \o ToString(p)) ELSE S1
  IN [S2 EXCEPT !.jobq = @ \o [i \in 1..Len(rs) |-> [k |-> "react", r |-> rs[i], arg |-> v]]]

\* promise resolve function (27.2.1.3.2) for latch l of promise p
ResolveFn(S, p, l, x) ==
  IF S.lt[l] THEN S
  ELSE LET S1 == [S EXCEPT !.lt[l] = TRUE] IN
       IF IsPRef(x) /\ PRef(x) = p THEN Settle(S1, p, "rej", "TypeError")
       ELSE IF IsPRef(x) THEN [S1 EXCEPT !.jobq = Append(@, [k |-> "thenable", p |-> p, t |-> x])]
       ELSE IF x = "Tget" THEN Settle(Log(S1, "th:Tget"), p, "rej", "tg")           \* Get(x, "then") throws
       ELSE IF x = "Tnc" THEN Settle(S1, p, "ful", x)                                \* then is not callable
       ELSE IF x \in Thenables THEN [S1 EXCEPT !.jobq = Append(@, [k |-> "thenable", p |-> p, t |-> x])]
       ELSE Settle(S1, p, "ful", x)
RejectFn(S, p, l, x) ==
  IF S.lt[l] THEN S ELSE Settle([S EXCEPT !.lt[l] = TRUE], p, "rej", x)

\* PerformPromiseThen (27.2.5.4.1): reactions fR / rR on promise p
PerformThen(S, p, fR, rR) ==
  LET S1 == IF S.ps[p].st = "pend" THEN [S EXCEPT !.ps[p] = [@ EXCEPT !.fr = Append(@, fR), !.rr = Append(@, rR)]]
            ELSE IF S.ps[p].st = "ful" THEN [S EXCEPT !.jobq = Append(@, [k |-> "react", r |-> fR, arg |-> S.ps[p].res])]
            ELSE LET S0r == IF ~S.ps[p].handled THEN Log(S, "track:handle:" \o ToString(p)) ELSE S IN
                 [S0r EXCEPT !.jobq = Append(@, [k |-> "react", r |-> rR, arg |-> S.ps[p].res])]
  IN [S1 EXCEPT !.ps[p].handled = TRUE]

\* a new pending promise with its own pair of resolving functions; returns <<S', id, latch>>
AllocC(S, c) == LET S1 == [S EXCEPT !.ps = Append(@, NewRec(c)), !.lt = Append(@, FALSE)] IN <<S1, Len(S1.ps), Len(S1.lt)>>
Alloc(S) == AllocC(S, "P")

\* ---------------------------------------------------------------------------------------------------------------
\* handler kinds (hs[h].kind):
\*   user(beh)      script handler: logs "h<id>:<arg>", then behaves as beh
\*   resolveFn/rejectFn(p, l)   resolving functions used as handlers (thenable jobs, race, all's reject)
\*   allElem/asFul/asRej/anyRej(g, i)   combinator element functions
\*   finF/finR(beh)  thenFinally / catchFinally closures;  thunkV(v) / thunkT(v)  value thunk / thrower
\* Calling handler h with argument a yields <<S', outcome, value>>, outcome in {"ret", "thr"}
JoinVals(vs) == LET F[n \in 0..Len(vs)] == IF n = 0 THEN "" ELSE F[n - 1] \o (IF n > 1 THEN "," ELSE "") \o vs[n] IN "[" \o F[Len(vs)] \o "]"

ElemDone(S, g, i, v) ==           \* shared bookkeeping of all / allSettled element functions
  LET G == S.grp[g] IN
  IF G.called[i] THEN S
  ELSE LET vals == [G.vals EXCEPT ![i] = v]
           rem == G.remaining - 1
           S1 == [S EXCEPT !.grp[g] = [@ EXCEPT !.called[i] = TRUE, !.vals = vals, !.remaining = rem]]
       IN IF rem = 0 THEN ResolveFn(S1, G.cap, G.lat, "A" \o JoinVals(vals)) ELSE S1
AnyRejected(S, g, i, v) ==
  LET G == S.grp[g] IN
  IF G.called[i] THEN S
  ELSE LET vals == [G.vals EXCEPT ![i] = v]
           rem == G.remaining - 1
           S1 == [S EXCEPT !.grp[g] = [@ EXCEPT !.called[i] = TRUE, !.vals = vals, !.remaining = rem]]
       IN IF rem = 0 THEN RejectFn(S1, G.cap, G.lat, "AggregateError" \o JoinVals(vals)) ELSE S1

UserBeh(S, h, beh, a) ==
  LET S1 == Log(S, "h" \o ToString(h) \o ":" \o a) IN
  CASE beh = "val" -> <<S1, "ret", "r" \o ToString(h)>>
    [] beh = "thr" -> <<S1, "thr", "t" \o ToString(h)>>
    [] beh = "undef" -> <<S1, "ret", "u">>
    [] IsPRef(beh) -> <<S1, "ret", beh>>
    [] beh \in Thenables -> <<S1, "ret", beh>>
    [] IsRes(beh) ->          \* calls the resolve function of promise k, returns undefined
         (LET kk == ResOf(beh) IN <<ResolveFn(S1, kk, plat[kk], "x" \o ToString(h)), "ret", "u">>)
    [] OTHER -> <<S1, "ret", "u">>

Call(S, h, a) ==
  LET H == hs[h] IN
  CASE H.kind = "user" -> UserBeh(S, h, H.beh, a)
    [] H.kind = "resolveFn" -> <<ResolveFn(S, H.p, H.l, a), "ret", "u">>
    [] H.kind = "rejectFn" -> <<RejectFn(S, H.p, H.l, a), "ret", "u">>
    [] H.kind = "allElem" -> <<ElemDone(S, H.g, H.i, a), "ret", "u">>
    [] H.kind = "asFul" -> <<ElemDone(S, H.g, H.i, "{f:" \o a \o "}"), "ret", "u">>
    [] H.kind = "asRej" -> <<ElemDone(S, H.g, H.i, "{r:" \o a \o "}"), "ret", "u">>
    [] H.kind = "anyRej" -> <<AnyRejected(S, H.g, H.i, a), "ret", "u">>
    [] H.kind = "thunkV" -> <<S, "ret", H.v>>
    [] H.kind = "thunkT" -> <<S, "thr", H.v>>

\* ---------------------------------------------------------------------------------------------------------------
\* script operations; each takes and returns the full variable tuple through primed assignments
Commit(S) == ps' = S.ps /\ lt' = S.lt /\ jobq' = S.jobq /\ log' = S.log /\ grp' = S.grp

\* op = [op |-> "new"]: new Promise(executor) exposing its resolving functions to the script
OpNew(c) ==
  LET a == AllocC(S0, c) IN Commit(a[1]) /\ plat' = Append(plat, a[3]) /\ UNCHANGED hs

\* resolve(p, x) / reject(p, x) through the exposed functions (also the Go-side NewPromise resolvers)
OpResolve(p, x) == Commit(ResolveFn(S0, p, plat[p], IF x = "self" THEN "P" \o ToString(p) ELSE x)) /\ UNCHANGED <<plat, hs>>
OpReject(p, x) == Commit(RejectFn(S0, p, plat[p], x)) /\ UNCHANGED <<plat, hs>>

\* p.then(hf, hr): behaviours "none" = argument absent
OpThen(p, bf, br) ==
  LET a == AllocC(S0, ps[p].cls)
      q == a[2]
      nh == Len(hs)
      hF == IF bf = "none" THEN 0 ELSE nh + 1
      hR == IF br = "none" THEN 0 ELSE nh + 2
      fR == [cap |-> q, lat |-> a[3], ty |-> "f", h |-> hF]
      rR == [cap |-> q, lat |-> a[3], ty |-> "r", h |-> hR]
  IN /\ Commit(PerformThen(a[1], p, fR, rR))
     /\ hs' = hs \o <<[kind |-> "user", beh |-> bf], [kind |-> "user", beh |-> br]>>
     /\ plat' = Append(plat, 0)

\* p.finally(h): then(thenFinally, catchFinally)
OpFinally(p, b) ==
  LET a == AllocC(S0, ps[p].cls)
      q == a[2]
      nh == Len(hs)
      fR == [cap |-> q, lat |-> a[3], ty |-> "f", h |-> nh + 1]
      rR == [cap |-> q, lat |-> a[3], ty |-> "r", h |-> nh + 2]
  IN /\ Commit(PerformThen(a[1], p, fR, rR))
     /\ hs' = hs \o <<[kind |-> "finF", beh |-> b, c |-> ps[p].cls], [kind |-> "finR", beh |-> b, c |-> ps[p].cls]>>
     /\ plat' = Append(plat, 0)

\* Promise.all / allSettled / any / race over the promises xs (a sequence of promise ids)
OpCombinator(kind, xs) ==
  LET a == Alloc(S0)
      q == a[2]
      lq == a[3]
      g == Len(grp) + 1
      n == Len(xs)
      G == [kind |-> kind, cap |-> q, lat |-> lq, remaining |-> n, vals |-> [i \in 1..n |-> "u"], called |-> [i \in 1..n |-> FALSE]]
      \* per element: one derived promise (result of the internal then call) and two handlers
      RECURSIVE Each(_, _, _)
      Each(S, H, i) ==
        IF i > n THEN <<S, H>>
        ELSE LET \* nextPromise = %Promise%.resolve(xs[i]): the element itself, or a new promise resolved with it (a thenable job)
                 w == IF S.ps[xs[i]].cls = "P" THEN <<S, xs[i]>>
                      ELSE LET a0 == Alloc(S) IN <<ResolveFn(a0[1], a0[2], a0[3], "P" \o ToString(xs[i])), a0[2]>>
                 d == Alloc(w[1])
                 hF == Len(H) + 1
                 hR == Len(H) + 2
                 pair == CASE kind = "all" -> <<[kind |-> "allElem", g |-> g, i |-> i], [kind |-> "rejectFn", p |-> q, l |-> lq]>>
                           [] kind = "allSettled" -> <<[kind |-> "asFul", g |-> g, i |-> i], [kind |-> "asRej", g |-> g, i |-> i]>>
                           [] kind = "any" -> <<[kind |-> "resolveFn", p |-> q, l |-> lq], [kind |-> "anyRej", g |-> g, i |-> i]>>
                           [] kind = "race" -> <<[kind |-> "resolveFn", p |-> q, l |-> lq], [kind |-> "rejectFn", p |-> q, l |-> lq]>>
                 fR == [cap |-> d[2], lat |-> d[3], ty |-> "f", h |-> hF]
                 rR == [cap |-> d[2], lat |-> d[3], ty |-> "r", h |-> hR]
             IN Each(PerformThen(d[1], w[2], fR, rR), H \o pair, i + 1)
      S1 == [a[1] EXCEPT !.grp = Append(@, G)]
      r == Each(S1, hs, 1)
      \* an empty input settles at once (all / allSettled: [], any: AggregateError; race: stays pending)
      S2 == IF n # 0 \/ kind = "race" THEN r[1]
            ELSE IF kind = "any" THEN RejectFn(r[1], q, lq, "AggregateError[]") ELSE ResolveFn(r[1], q, lq, "A[]")
  IN /\ Commit(S2) /\ hs' = r[2]
     /\ plat' = plat \o [i \in 1..(Len(S2.ps) - Len(ps)) |-> 0]

\* ---------------------------------------------------------------------------------------------------------------
\* jobs (27.2.2)
RunThenable(j, rest) ==
  \* NewPromiseResolveThenableJob: fresh resolving functions for j.p, then thenable.then(resolve, reject)
  LET S1 == [S0 EXCEPT !.jobq = rest, !.lt = Append(@, FALSE)]
      l == Len(S1.lt)
      t == j.t
  IN IF IsPRef(t)
     THEN \* Promise.prototype.then on the native promise: derived promise + reactions calling the resolving functions
          LET d == AllocC(S1, S1.ps[PRef(t)].cls)
              nh == Len(hs)
              fR == [cap |-> d[2], lat |-> d[3], ty |-> "f", h |-> nh + 1]
              rR == [cap |-> d[2], lat |-> d[3], ty |-> "r", h |-> nh + 2]
          IN /\ Commit(PerformThen(d[1], PRef(t), fR, rR))
             /\ hs' = hs \o <<[kind |-> "resolveFn", p |-> j.p, l |-> l], [kind |-> "rejectFn", p |-> j.p, l |-> l]>>
             /\ plat' = Append(plat, 0)
     ELSE /\ UNCHANGED <<hs, plat>>
          /\ LET SL == Log(S1, "th:" \o t) IN
             CASE t = "Tok" -> Commit(ResolveFn(SL, j.p, l, "tv"))
               [] t = "Tthrow" -> Commit(RejectFn(SL, j.p, l, "te"))                 \* then() throws before calling anything
               [] t = "Tmulti" -> Commit(ResolveFn(RejectFn(ResolveFn(SL, j.p, l, "m1"), j.p, l, "m2"), j.p, l, "m3"))
               \* then() settles and THEN throws: the job passes the exception to the same (already latched) reject function
               [] t = "Trthrow" -> Commit(RejectFn(ResolveFn(SL, j.p, l, "q1"), j.p, l, "qe"))

RunReaction(j, rest) ==
  LET rc == j.r
      S1 == [S0 EXCEPT !.jobq = rest]
  IN IF rc.h = 0
     THEN /\ UNCHANGED <<hs, plat>>
          /\ Commit(IF rc.ty = "f" THEN ResolveFn(S1, rc.cap, rc.lat, j.arg) ELSE RejectFn(S1, rc.cap, rc.lat, j.arg))
     ELSE IF hs[rc.h].kind \in {"finF", "finR"}
     THEN \* thenFinally / catchFinally: call onFinally(), then PromiseResolve(C, result).then(thunk)
          \* (onFinally is ONE script function: it logs the id of the finF slot on both paths)
          LET u == UserBeh(S1, IF hs[rc.h].kind = "finR" THEN rc.h - 1 ELSE rc.h, hs[rc.h].beh, "")
          IN IF u[2] = "thr" THEN Commit(RejectFn(u[1], rc.cap, rc.lat, u[3])) /\ UNCHANGED <<hs, plat>>
             ELSE LET C == hs[rc.h].c
                      same == IsPRef(u[3]) /\ u[1].ps[PRef(u[3])].cls = C
                      \* PromiseResolve(C, result): the result itself if it is a promise constructed by C, else a new C promise resolved with it
                      a == IF same THEN <<u[1], PRef(u[3]), 0>> ELSE AllocC(u[1], C)
                      S2 == IF same THEN u[1] ELSE ResolveFn(a[1], a[2], a[3], u[3])
                      d == AllocC(S2, C)                     \* promise.then(thunk): derived promise
                      nh == Len(hs)
                      th == IF hs[rc.h].kind = "finF" THEN [kind |-> "thunkV", v |-> j.arg] ELSE [kind |-> "thunkT", v |-> j.arg]
                      fR == [cap |-> d[2], lat |-> d[3], ty |-> "f", h |-> nh + 1]
                      rR == [cap |-> d[2], lat |-> d[3], ty |-> "r", h |-> 0]
                      S3 == PerformThen(d[1], a[2], fR, rR)
                  IN /\ Commit(ResolveFn(S3, rc.cap, rc.lat, "P" \o ToString(d[2])))       \* the closure returns that promise
                     /\ hs' = Append(hs, th) /\ plat' = plat \o (IF same THEN <<0>> ELSE <<0, 0>>)
     ELSE LET c == Call(S1, rc.h, j.arg)
          IN /\ UNCHANGED <<hs, plat>>
             /\ Commit(IF c[2] = "thr" THEN RejectFn(c[1], rc.cap, rc.lat, c[3]) ELSE ResolveFn(c[1], rc.cap, rc.lat, c[3]))

RunJob == /\ phase = "drain" /\ jobq # <<>>
          /\ (IF Head(jobq).k = "thenable" THEN RunThenable(Head(jobq), Tail(jobq)) ELSE RunReaction(Head(jobq), Tail(jobq)))
          /\ UNCHANGED <<pi, nops, phase>>

\* ---------------------------------------------------------------------------------------------------------------
\* driving
OpsOf == IF Mode = "oracle" THEN Progs[pi].ops ELSE <<>>
Want(o) == Mode = "explore" \/ (nops < Len(OpsOf) /\ OpsOf[nops + 1] = o)
Behs == {"none", "val", "thr", "P1", "Tok", "res1"}
ExploreOps == {[op |-> "new", c |-> "P"], [op |-> "new", c |-> "S"]} \cup {[op |-> "resolve", p |-> p, x |-> x] : p \in 1..NP, x \in {"v1", "P1", "P2", "self", "Tok", "Tmulti", "Tget"}}
              \cup {[op |-> "reject", p |-> p, x |-> "e0"] : p \in 1..NP}
              \cup {[op |-> "then", p |-> p, bf |-> bf, br |-> br] : p \in 1..NP, bf \in Behs, br \in {"none", "val", "thr"}}
              \cup {[op |-> "finally", p |-> p, b |-> b] : p \in 1..NP, b \in {"val", "thr", "P1"}}
              \cup {[op |-> k, xs |-> xs] : k \in {"all", "any", "race", "allSettled"}, xs \in {<<1, 2>>, <<2, 1>>, <<1>>}}
Candidates == IF Mode = "oracle" THEN (IF nops < Len(OpsOf) THEN {OpsOf[nops + 1]} ELSE {}) ELSE ExploreOps

Valid(o) == CASE o.op = "new" -> Len(ps) < NP
              [] o.op \in {"resolve", "reject"} -> o.p <= Len(ps) /\ plat[o.p] # 0 /\ (IsPRef(o.x) => PRef(o.x) <= Len(ps))
              [] o.op = "then" -> o.p <= Len(ps) /\ Len(ps) < NP /\ (IsPRef(o.bf) => PRef(o.bf) <= Len(ps))
                                  /\ (IsRes(o.bf) => ResOf(o.bf) <= Len(ps) /\ plat[ResOf(o.bf)] # 0)
              [] o.op = "finally" -> o.p <= Len(ps) /\ Len(ps) < NP /\ (IsPRef(o.b) => PRef(o.b) <= Len(ps))
              [] o.op \in {"all", "any", "race", "allSettled"} -> (\A i \in 1..Len(o.xs) : o.xs[i] <= Len(ps)) /\ Len(ps) + Len(o.xs) < NP
              [] OTHER -> TRUE

ScriptOp ==
  /\ phase \in {"script", "idle"} /\ (Mode = "explore" => nops < MaxOps)
  /\ \E o \in Candidates :
       /\ Valid(o) /\ o.op \notin {"run", "end"}
       /\ (phase = "idle" => o.op \in {"resolve", "reject"})         \* between runs only Go-side resolver calls
       /\ CASE o.op = "new" -> OpNew(o.c)
            [] o.op = "resolve" -> OpResolve(o.p, o.x)
            [] o.op = "reject" -> OpReject(o.p, o.x)
            [] o.op = "then" -> OpThen(o.p, o.bf, o.br)
            [] o.op = "finally" -> OpFinally(o.p, o.b)
            [] o.op \in {"all", "any", "race", "allSettled"} -> OpCombinator(o.op, o.xs)
  \* a Go-side resolver call (the functions returned by Runtime.NewPromise) is itself an outermost call into the
  \* runtime: the jobs it enqueues are drained before it returns
  /\ nops' = nops + 1 /\ phase' = (IF phase = "idle" THEN "drain" ELSE phase) /\ UNCHANGED pi

\* the script ends: control would return to Go, so the queue is drained first
EndScript == /\ phase = "script" /\ (Mode = "oracle" => nops = Len(OpsOf) \/ OpsOf[nops + 1].op \in {"end", "run"})
             /\ phase' = "drain" /\ UNCHANGED <<pi, ps, lt, plat, hs, grp, jobq, log, nops>>
\* ReturnToGo: only with an empty queue
ReturnToGo == /\ phase = "drain" /\ jobq = <<>>
              /\ phase' = (IF Mode = "oracle" /\ nops < Len(OpsOf) THEN "idle" ELSE IF Mode = "explore" /\ nops < MaxOps THEN "idle" ELSE "done")
              /\ log' = Append(log, "return")
              /\ nops' = (IF Mode = "oracle" /\ nops < Len(OpsOf) /\ OpsOf[nops + 1].op = "end" THEN nops + 1 ELSE nops)
              /\ UNCHANGED <<pi, ps, lt, plat, hs, grp, jobq>>
\* a new outermost call (e.g. RunString("")) after Go-side resolver calls
NextRun == /\ phase = "idle" /\ (Mode = "oracle" => nops < Len(OpsOf) /\ OpsOf[nops + 1].op = "run")
           /\ phase' = "drain" /\ nops' = nops + 1 /\ UNCHANGED <<pi, ps, lt, plat, hs, grp, jobq, log>>
IdleEnd == /\ phase = "idle" /\ Mode = "oracle" /\ nops = Len(OpsOf) /\ phase' = "done"
           /\ UNCHANGED <<pi, ps, lt, plat, hs, grp, jobq, log, nops>>

Init == /\ pi = 1 /\ ps = <<>> /\ lt = <<>> /\ plat = <<>> /\ hs = <<>> /\ grp = <<>> /\ jobq = <<>> /\ log = <<>> /\ nops = 0
        /\ phase = "script"
Finals == [i \in 1..Len(ps) |-> ps[i].st \o ":" \o ps[i].res]
Done == /\ phase = "done" /\ Mode = "oracle"
        /\ PrintT(ToJson([id |-> Progs[pi].id, log |-> log, finals |-> Finals, pending |-> Len(jobq)]))
        /\ pi < Len(Progs)
        /\ pi' = pi + 1 /\ ps' = <<>> /\ lt' = <<>> /\ plat' = <<>> /\ hs' = <<>> /\ grp' = <<>> /\ jobq' = <<>> /\ log' = <<>>
        /\ nops' = 0 /\ phase' = "script"

Next == ScriptOp \/ EndScript \/ RunJob \/ ReturnToGo \/ NextRun \/ IdleEnd \/ Done
Spec == Init /\ [][Next]_vars

\* ---------------------------------------------------------------------------------------------------------------
\* properties of the design
SettledStable == [][\A p \in 1..Len(ps) : ps[p].st # "pend" => ps'[p].st = ps[p].st /\ ps'[p].res = ps[p].res]_vars
NoReactionsWhenSettled == \A p \in 1..Len(ps) : ps[p].st # "pend" => ps[p].fr = <<>> /\ ps[p].rr = <<>>
\* control returns to Go (the "return" event) only with an empty queue
QueueEmptyAtReturn == [][(Len(log') = Len(log) + 1 /\ log'[Len(log')] = "return") => jobq' = <<>>]_vars
\* every reaction of a promise is for its current pending state only, and is consumed by exactly one job: the number of
\* queued + registered reactions never exceeds the number ever created (no duplication)
LatchMonotone == [][\A l \in 1..Len(lt) : lt[l] => lt'[l]]_vars
\* tracker protocol: "handle" only after "reject" for the same promise, each at most once
TrackOK == \A p \in 1..Len(ps) :
             LET rj == {i \in 1..Len(log) : log[i] = "track:reject:" \o ToString(p)}
                 hd == {i \in 1..Len(log) : log[i] = "track:handle:" \o ToString(p)}
             IN Cardinality(rj) <= 1 /\ Cardinality(hd) <= 1 /\ (hd # {} => rj # {} /\ \A i \in hd : \A k \in rj : k < i)
FIFO == [][jobq # <<>> /\ jobq' # <<>> /\ Len(jobq') < Len(jobq) + 0 => jobq' = Tail(jobq)]_vars
View == <<ps, lt, plat, hs, grp, jobq, nops, phase>>
=============================================================================
