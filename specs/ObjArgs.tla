------------------------------ MODULE ObjArgs ------------------------------
(* The arguments exotic object of a sloppy function with a simple parameter list (ECMA-262 10.4.4) -- the part of property C04
   that Obj.tla leaves out: the index keys that are MAPPED to the formal parameters.

   State: the ordinary property record of arguments["0"] (ObjBase: None / Data / Acc), whether index 0 is still in the parameter
   map, the value of the formal parameter p, and extensibility.  While the key is mapped, the visible value of arguments[0] is the
   value of p (10.4.4.1 [[GetOwnProperty]], 10.4.4.3 [[Get]]), writes through either side reach the other (10.4.4.4 [[Set]], 10.4.4.2
   [[DefineOwnProperty]] with a [[Value]]), and the mapping ends when the property is deleted, becomes an accessor, or becomes
   non-writable (the latter two in [[DefineOwnProperty]]; Object.freeze ends it through writable: false).
   Every action is issued on a real arguments object (harness/adaptors/objargs.js); the parameter is read and written through
   closures of the same function.

   Code anchors: object_args.go (argumentsObject: mappedProperty, getOwnPropStr, defineOwnPropertyStr, setOwnStr / setForeignStr, deleteStr,
   unmapping), vm.go createArgsMapped.

   Bounds: one mapped index, values v1 / v2, all 729 descriptor shapes of ObjBase.AllDescs, issuers Reflect / Object / syntax. *)
EXTENDS ObjBase, Json

VARIABLES prop,      \* the ordinary property record of arguments["0"] (its stored value is meaningful only when unmapped)
          mapped,    \* "T" while index 0 is in the parameter map
          pv,        \* value of the formal parameter
          ext,
          act
vars == <<prop, mapped, pv, ext, act>>

Vals == {"v1", "v2"}
Init == prop = Data("v1", "T", "T", "T") /\ mapped = "T" /\ pv = "v1" /\ ext = "T" /\ act = [op |-> "init"]

\* what script sees as the own property (10.4.4.1)
SeenOf(p, m, v) == IF p.k = "data" /\ m = "T" THEN [p EXCEPT !.v = v] ELSE p
Seen == SeenOf(prop, mapped, pv)

\* 10.4.4.2 [[DefineOwnProperty]]
Define(D, via) ==
  IF BadD(D) THEN act' = [op |-> "define", d |-> D, via |-> via, res |-> "TypeError"] /\ UNCHANGED <<prop, mapped, pv, ext>>
  ELSE
  LET isMapped == mapped = "T"
      \* step 4: a data descriptor without [[Value]] that makes the property non-writable captures the mapped value
      D1 == IF isMapped /\ IsDataD(D) /\ D.v = "abs" /\ D.w = "F" THEN [D EXCEPT !.v = pv] ELSE D
      \* the ordinary definition works on the stored record; while mapped, the stored value is the parameter's
      cur == IF isMapped /\ prop.k = "data" THEN [prop EXCEPT !.v = pv] ELSE prop
      r == Validate(cur, ext, D1)
  IN IF r[1] = "false"
     THEN act' = [op |-> "define", d |-> D, via |-> via, res |-> IF via = "obj" THEN "TypeError" ELSE "false"] /\ UNCHANGED <<prop, mapped, pv, ext>>
     ELSE /\ prop' = r[2] /\ UNCHANGED ext
          /\ mapped' = IF isMapped /\ (IsAccD(D) \/ D.w = "F") THEN "F" ELSE mapped
          /\ pv' = IF isMapped /\ ~IsAccD(D) /\ D.v # "abs" THEN D.v ELSE pv
          /\ act' = [op |-> "define", d |-> D, via |-> via, res |-> "true"]
GetOwn == UNCHANGED <<prop, mapped, pv, ext>> /\ act' = [op |-> "getown", res |-> Seen]
\* 10.4.4.3 [[Get]] (an accessor's getter runs: g1 returns "gv")
Get == /\ UNCHANGED <<prop, mapped, pv, ext>>
       /\ act' = [op |-> "get", res |-> IF prop.k = "none" THEN "u" ELSE IF prop.k = "acc" THEN (IF prop.g = "g1" THEN "gv" ELSE "u") ELSE Seen.v]
\* 10.4.4.4 [[Set]] with the arguments object as receiver: the map first, then OrdinarySet
Set(v, via) ==
  LET isMapped == mapped = "T"
      ok == CASE prop.k = "none" -> ext = "T"
              [] prop.k = "data" -> prop.w = "T"
              [] OTHER -> prop.s = "s1"
  IN /\ pv' = IF isMapped THEN v ELSE pv            \* step 4: Set(map, P, V) happens before OrdinarySet decides
     /\ prop' = IF prop.k = "none" /\ ok THEN Data(v, "T", "T", "T") ELSE IF prop.k = "data" /\ ok THEN [prop EXCEPT !.v = v] ELSE prop
     /\ UNCHANGED <<mapped, ext>>
     \* (a refused sloppy assignment is silent: its result is not observable)
     /\ act' = [op |-> "set", v |-> v, via |-> via, res |-> IF via = "sloppy" THEN "ok" ELSE IF ok THEN "true" ELSE IF via = "strict" THEN "TypeError" ELSE "false"]
\* 10.4.4.5 [[Delete]]
Delete(via) ==
  IF prop.k = "none" \/ prop.c = "T"
  THEN prop' = None /\ mapped' = "F" /\ UNCHANGED <<pv, ext>> /\ act' = [op |-> "delete", via |-> via, res |-> "true"]
  ELSE UNCHANGED <<prop, mapped, pv, ext>> /\ act' = [op |-> "delete", via |-> via, res |-> IF via = "strict" THEN "TypeError" ELSE "false"]
\* the function assigns to / reads its formal parameter
SetParam(v) == pv' = v /\ UNCHANGED <<prop, mapped, ext>> /\ act' = [op |-> "setparam", v |-> v, res |-> "ok"]
GetParam == UNCHANGED <<prop, mapped, pv, ext>> /\ act' = [op |-> "getparam", res |-> pv]
Prevent == ext' = "F" /\ UNCHANGED <<prop, mapped, pv>> /\ act' = [op |-> "prevent", res |-> "true"]
\* 7.3.16 SetIntegrityLevel: frozen defines {configurable: false, writable: false} for data properties (which ends the mapping),
\* sealed only {configurable: false}
Integrity(level) ==
  /\ ext' = "F"
  /\ IF prop.k = "none" THEN UNCHANGED <<prop, mapped, pv>>
     ELSE /\ prop' = IF prop.k = "data" /\ level = "frozen"
                     THEN [prop EXCEPT !.c = "F", !.w = "F", !.v = IF mapped = "T" THEN pv ELSE prop.v]
                     ELSE [prop EXCEPT !.c = "F"]
          /\ mapped' = IF prop.k = "data" /\ level = "frozen" THEN "F" ELSE mapped
          /\ UNCHANGED pv
  /\ act' = [op |-> "integrity", level |-> level, res |-> "ok"]
Keys == UNCHANGED <<prop, mapped, pv, ext>> /\ act' = [op |-> "ownkeys", res |-> IF prop.k = "none" THEN "absent" ELSE "present"]

Next == \/ \E D \in AllDescs, via \in {"refl", "obj"} : Define(D, via)
        \/ GetOwn \/ Get \/ GetParam \/ Keys \/ Prevent
        \/ \E v \in Vals, via \in {"refl", "sloppy", "strict"} : Set(v, via)
        \/ \E via \in {"refl", "sloppy", "strict"} : Delete(via)
        \/ \E v \in Vals : SetParam(v)
        \/ \E level \in {"sealed", "frozen"} : Integrity(level)
Spec == Init /\ [][Next]_vars

\* essential invariants (6.1.7.3) on what script sees, and the mapping discipline
Essential == [][EssentialProp(Seen, Seen') \/ act'.op = "setparam"]_vars
\* a non-writable or accessor property is never mapped (so a parameter write cannot change a frozen value)
MapOK == mapped = "T" => prop.k = "data" /\ prop.w = "T"
\* once unmapped always unmapped
Unmap == [][mapped = "F" => mapped' = "F"]_vars
\* writes to the parameter are invisible once unmapped
FrozenStays == [][(mapped = "F" /\ act'.op = "setparam") => Seen' = Seen]_vars

\* (the record stored under a mapped key is not observable: states are printed as script sees them)
St == [prop |-> Seen, mapped |-> mapped, pv |-> pv, ext |-> ext]
StP == [prop |-> SeenOf(prop', mapped', pv'), mapped |-> mapped', pv |-> pv', ext |-> ext']
Emit == PrintT(ToJson([f |-> St, l |-> act', t |-> StP]))
View == <<Seen, mapped, pv, ext>>
=============================================================================
