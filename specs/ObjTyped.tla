------------------------------ MODULE ObjTyped ------------------------------
(* The integer-indexed exotic object (ECMA-262 10.4.5: TypedArray instances) -- the part of property C04 that the ordinary-object
   module Obj.tla does not cover: property keys that are CANONICAL NUMERIC STRINGS are never ordinary properties of a typed array.

   State: a Uint8Array of 2 elements over a non-resizable buffer (values 0..3), possibly detached, plus one ordinary data property
   under the non-canonical key "01" (which IS an ordinary key) so that the boundary between the two regimes is exercised.
   Keys:   i0, i1     "0", "1"      valid integer indices
           oob        "5"           canonical numeric, out of range
           negz       "-0"          canonical numeric (CanonicalNumericIndexString("-0") = -0), never a valid index
           frac       "1.5"         canonical numeric, not an integer
           nan        "NaN"         canonical numeric
           lead0      "01"          NOT canonical: an ordinary property key
   Internal methods (10.4.5.1 - 10.4.5.7), each issued through Reflect.* (boolean results), through Object.* (throwing variants),
   and through strict / sloppy syntax where that exists:
     [[GetOwnProperty]]  a valid index has the descriptor {value, writable: true, enumerable: true, configurable: true}
     [[HasProperty]]     numeric keys: IsValidIntegerIndex, no prototype walk
     [[DefineOwnProperty]] numeric key: false unless valid index; false if the descriptor asks for configurable: false, enumerable:
                         false, an accessor, or writable: false; otherwise stores [[Value]] (if present) and returns true
     [[Get]]             numeric keys: the element or undefined, no prototype walk
     [[Set]]             numeric keys with the array itself as receiver: ToNumber(value), stored if the index is valid, result true;
                         invalid numeric key with another receiver: true without effect (ES2023)
     [[Delete]]          numeric keys: true iff the index is NOT valid
     [[OwnPropertyKeys]] the valid indices in ascending order, then string keys in creation order
   Object.freeze on an array with elements is a TypeError (the elements cannot be made non-writable); seal / preventExtensions work
   ([[PreventExtensions]] is ordinary; sealing redefines every own key with configurable: false, which a valid index refuses).
   Detaching the buffer makes every index invalid.

   Code anchors: typedarrays.go (typedArrayObject: getOwnPropIdx / getOwnPropStr, defineOwnPropertyIdx / ...Str, setOwnIdx, hasOwnPropertyIdx,
   deleteIdx, stringKeys, _getIdx, isValidIntegerIndex), value.go / object.go (toPropertyKey, strToInt / canonical numeric strings).

   Bounds: 2 elements, element values 0..3, the key set above, the descriptor menu Descs below (every combination of present /
   absent fields that matters for the rules above). *)
EXTENDS Integers, Sequences, FiniteSets, TLC, Json

VARIABLES el,        \* <<e0, e1>> element values
          det,       \* "T" if the buffer is detached
          ord,       \* the ordinary property "01": "absent" or its value ("v1" / "v2")
          ext,       \* "T" while extensible
          act
vars == <<el, det, ord, ext, act>>

NumKeys == {"i0", "i1", "oob", "negz", "frac", "nan"}
Keys == NumKeys \cup {"lead0"}
Idx(k) == IF k = "i0" THEN 1 ELSE 2
Valid(k) == det = "F" /\ k \in {"i0", "i1"}
Vals == {1, 2}                       \* values stored by this model (ToNumber / modulo conversions are C05's and C17's business)

\* descriptor menu: fields are "-" (absent), "T", "F"; v is "-" or a value; g = "T" for an accessor descriptor {get: f}
\* (v = 0: no [[Value]] field)
Descs == { [v |-> v, w |-> w, e |-> e, c |-> c, g |-> g] :
           v \in {0, 1, 2}, w \in {"-", "T", "F"}, e \in {"-", "T", "F"}, c \in {"-", "T", "F"}, g \in {"-", "T"} }
OkDesc(d) == ~(d.g = "T" /\ (d.v # 0 \/ d.w # "-"))          \* a descriptor cannot be both (TypeError before the internal method)

Init == el = <<0, 0>> /\ det = "F" /\ ord = "absent" /\ ext = "T" /\ act = [op |-> "init"]

\* 10.4.5.3 [[DefineOwnProperty]] on a numeric key
DefNum(k, d) == Valid(k) /\ d.c # "F" /\ d.e # "F" /\ d.g # "T" /\ d.w # "F"
Define(k, d, via) ==
  /\ OkDesc(d)
  /\ IF k \in NumKeys
     THEN /\ el' = IF DefNum(k, d) /\ d.v # 0 THEN [el EXCEPT ![Idx(k)] = d.v] ELSE el
          /\ UNCHANGED <<det, ord, ext>>
          /\ act' = [op |-> "define", k |-> k, d |-> d, via |-> via, res |-> IF DefNum(k, d) THEN "true" ELSE IF via = "obj" THEN "TypeError" ELSE "false"]
     ELSE \* the ordinary key: only fresh data definitions / value changes of a fully permissive property are modelled here
          /\ d.g = "-" /\ d.w \in {"-", "T"} /\ d.e \in {"-", "T"} /\ d.c \in {"-", "T"} /\ d.v # 0
          /\ (ord = "absent" => d.w = "T" /\ d.e = "T" /\ d.c = "T")
          /\ LET ok == ord # "absent" \/ ext = "T" IN
             /\ ord' = IF ok THEN (IF d.v = 1 THEN "v1" ELSE "v2") ELSE ord
             /\ act' = [op |-> "define", k |-> k, d |-> d, via |-> via, res |-> IF ok THEN "true" ELSE IF via = "obj" THEN "TypeError" ELSE "false"]
          /\ UNCHANGED <<el, det, ext>>

\* 10.4.5.1 [[GetOwnProperty]]
GetOwn(k) ==
  /\ UNCHANGED <<el, det, ord, ext>>
  /\ act' = [op |-> "getown", k |-> k,
             res |-> IF k \in NumKeys THEN (IF Valid(k) THEN [v |-> el[Idx(k)], w |-> "T", e |-> "T", c |-> "T"] ELSE "undefined")
                     ELSE IF ord = "absent" THEN "undefined" ELSE [v |-> ord, w |-> "T", e |-> "T", c |-> "T"]]
\* 10.4.5.2 [[HasProperty]] / 10.4.5.4 [[Get]]: numeric keys never reach the prototype (the adaptor puts all the keys on the prototype)
Has(k) == /\ UNCHANGED <<el, det, ord, ext>>
          /\ act' = [op |-> "has", k |-> k, res |-> IF k \in NumKeys THEN (IF Valid(k) THEN "true" ELSE "false") ELSE "true"]
Get(k, via) ==
  /\ UNCHANGED <<el, det, ord, ext>>
  /\ act' = [op |-> "get", k |-> k, via |-> via,
             res |-> IF k \in NumKeys THEN (IF Valid(k) THEN el[Idx(k)] ELSE "undefined") ELSE IF ord = "absent" THEN "proto" ELSE ord]
\* 10.4.5.5 [[Set]]
Set(k, v, recv, via) ==
  /\ (via # "refl" => recv = "self")
  /\ IF k \in NumKeys
     THEN /\ el' = IF recv = "self" /\ Valid(k) THEN [el EXCEPT ![Idx(k)] = v] ELSE el
          /\ UNCHANGED <<det, ord, ext>>
          \* another receiver: a valid index falls through to OrdinarySet (the receiver gets / changes its own property: true), an
          \* invalid numeric key answers true without any effect
          /\ act' = [op |-> "set", k |-> k, v |-> v, recv |-> recv, via |-> via,
                     res |-> [r |-> "true", other |-> IF recv = "other" /\ Valid(k) THEN v ELSE 0]]
     ELSE /\ recv = "self"
          /\ LET ok == ord # "absent" \/ ext = "T" IN
             /\ ord' = IF ok THEN (IF v = 1 THEN "v1" ELSE "v2") ELSE ord
             \* (the prototype holds a writable data property under this key, so OrdinarySet creates an own property if extensible)
             /\ act' = [op |-> "set", k |-> k, v |-> v, recv |-> recv, via |-> via,
                        res |-> [r |-> IF ok THEN "true" ELSE IF via = "strict" THEN "TypeError" ELSE "false", other |-> 0]]
          /\ UNCHANGED <<el, det, ext>>
\* 10.4.5.6 [[Delete]]
Delete(k, via) ==
  /\ IF k \in NumKeys
     THEN /\ UNCHANGED <<el, det, ord, ext>>
          /\ act' = [op |-> "delete", k |-> k, via |-> via, res |-> IF ~Valid(k) THEN "true" ELSE IF via = "strict" THEN "TypeError" ELSE "false"]
     ELSE /\ ord' = "absent" /\ UNCHANGED <<el, det, ext>>
          /\ act' = [op |-> "delete", k |-> k, via |-> via, res |-> "true"]
\* 10.4.5.7 [[OwnPropertyKeys]]
OwnKeys == /\ UNCHANGED <<el, det, ord, ext>>
           /\ act' = [op |-> "ownkeys", res |-> (IF det = "F" THEN <<"0", "1">> ELSE <<>>) \o (IF ord = "absent" THEN <<>> ELSE <<"01">>)]
\* integrity: preventExtensions is ordinary; seal / freeze redefine every own key (7.3.16 SetIntegrityLevel)
Prevent == ext' = "F" /\ UNCHANGED <<el, det, ord>> /\ act' = [op |-> "prevent", res |-> "true"]
Integrity(level) ==
  /\ ord = "absent"             \* (the attribute state of the ordinary key is Obj.tla's business)
  \* with valid indices present the redefinition with configurable: false is refused: TypeError, after [[PreventExtensions]] succeeded
  /\ ext' = "F" /\ UNCHANGED <<el, det>>
  /\ IF det = "F" THEN ord' = ord /\ act' = [op |-> "integrity", level |-> level, res |-> "TypeError"]
     ELSE ord' = ord /\ act' = [op |-> "integrity", level |-> level, res |-> "ok"]
Test(level) == /\ UNCHANGED <<el, det, ord, ext>>
               /\ act' = [op |-> "test", level |-> level,
                          res |-> IF ext = "T" \/ det = "F" \/ ord # "absent" THEN "false" ELSE "true"]
Detach == det = "F" /\ det' = "T" /\ UNCHANGED <<el, ord, ext>> /\ act' = [op |-> "detach", res |-> "ok"]

Next == \/ \E k \in Keys, d \in Descs, via \in {"refl", "obj"} : Define(k, d, via)
        \/ \E k \in Keys : GetOwn(k) \/ Has(k)
        \/ \E k \in Keys, via \in {"refl", "syntax"} : Get(k, via)
        \/ \E k \in Keys, v \in Vals, recv \in {"self", "other"}, via \in {"refl", "sloppy", "strict"} : Set(k, v, recv, via)
        \/ \E k \in Keys, via \in {"refl", "sloppy", "strict"} : Delete(k, via)
        \/ OwnKeys \/ Prevent \/ Detach
        \/ \E level \in {"sealed", "frozen"} : Integrity(level) \/ Test(level)
Spec == Init /\ [][Next]_vars

\* essential invariants (6.1.7.3) specialised: a numeric key never becomes an ordinary property; elements change only through a
\* successful define / set; nothing reports a non-configurable or non-writable index
TypeOK == el \in [1..2 -> 0..2] /\ det \in {"T", "F"} /\ ord \in {"absent", "v1", "v2"} /\ ext \in {"T", "F"}
ElemFrame == [][el' # el => /\ act'.k \in {"i0", "i1"}
                           /\ ((act'.op = "define" /\ act'.res = "true") \/ (act'.op = "set" /\ act'.res.r = "true"))]_vars
NoGrow == [][(ext = "F" /\ ord = "absent") => ord' = "absent"]_vars
DetachedEmpty == det = "T" => \A k \in NumKeys : ~Valid(k)

St == [el |-> el, det |-> det, ord |-> ord, ext |-> ext]
StP == [el |-> el', det |-> det', ord |-> ord', ext |-> ext']
Emit == PrintT(ToJson([f |-> St, l |-> act', t |-> StP]))
View == <<el, det, ord, ext>>
=============================================================================
