----------------------------- MODULE Interrupt -----------------------------
(* The two-goroutine interrupt protocol (property C15).

   Code anchors: vm.go  vm.Interrupt (lock; interruptVal = v; atomic store of the flag; unlock),
   vm.ClearInterrupt (one atomic store, no lock), vm.run (the flag is polled before EVERY instruction; building
   the InterruptedError re-takes the lock and reads interruptVal), runtime.go RunProgram / runWrapped deferred code
   (leaveAbrupt only at the outermost exit: drops the job queue and clears the flag), leave (job drain).

   Processes: NI interrupters (each performs one Interrupt(v) as four steps), one clearer (ClearInterrupt, at most
   MaxClear times), and the VM goroutine (idle / poll / exec / native stretch without polls / building the error /
   abrupt exit / normal exit with job drain).  Nested entries (a native function calling back into the runtime)
   are modelled by `depth`: a nested abrupt exit must NOT clear the flag.

   Binding to the code: the hook events IntSet (under the lock, after the flag store), IntSeen (poll result), IntLate
   (number of instructions that started while the flag was already set), LeaveAbrupt, ApiExit are checked on real
   executions by VMTrace.tla (IntSeen only after IntSet, nothing but uncatchable unwinding after IntSeen, flag and
   queue cleared exactly at the outermost exit) and by lib/checks/c15.py (IntLate <= 1, error carries the value). *)
EXTENDS Integers, Sequences, FiniteSets, TLC

CONSTANTS NI,         \* number of interrupters
          MaxInstr,   \* instruction budget of one run
          MaxRuns,    \* API calls
          MaxClear,   \* ClearInterrupt calls
          PollEvery   \* 1 = the real code (poll before every instruction); > 1 = seeded mutation for vacuity control

VARIABLES flag, val, lock, ipc, vpc, depth, instr, sinceSet, err, jobs, setDone, runs, clears, sincePoll
vars == <<flag, val, lock, ipc, vpc, depth, instr, sinceSet, err, jobs, setDone, runs, clears, sincePoll>>
I == 1..NI

Init == /\ flag = FALSE /\ val = 0 /\ lock = 0 /\ ipc = [i \in I |-> "idle"]
        /\ vpc = "idle" /\ depth = 0 /\ instr = 0 /\ sinceSet = -1 /\ err = -1 /\ jobs = 0 /\ setDone = {} /\ runs = 0
        /\ clears = 0 /\ sincePoll = 0

\* --- interrupter i: vm.Interrupt(i)
ILock(i) == /\ ipc[i] = "idle" /\ lock = 0 /\ lock' = i /\ ipc' = [ipc EXCEPT ![i] = "locked"]
            /\ UNCHANGED <<flag, val, vpc, depth, instr, sinceSet, err, jobs, setDone, runs, clears, sincePoll>>
ISetVal(i) == /\ ipc[i] = "locked" /\ val' = i /\ ipc' = [ipc EXCEPT ![i] = "valset"]
              /\ UNCHANGED <<flag, lock, vpc, depth, instr, sinceSet, err, jobs, setDone, runs, clears, sincePoll>>
ISetFlag(i) == /\ ipc[i] = "valset" /\ flag' = TRUE /\ ipc' = [ipc EXCEPT ![i] = "flagset"]
               /\ sinceSet' = (IF sinceSet = -1 /\ vpc # "idle" THEN 0 ELSE sinceSet)
               /\ UNCHANGED <<val, lock, vpc, depth, instr, err, jobs, setDone, runs, clears, sincePoll>>
IUnlock(i) == /\ ipc[i] = "flagset" /\ lock' = 0 /\ ipc' = [ipc EXCEPT ![i] = "done"] /\ setDone' = setDone \cup {i}
              /\ UNCHANGED <<flag, val, vpc, depth, instr, sinceSet, err, jobs, runs, clears, sincePoll>>
\* --- vm.ClearInterrupt from any goroutine: a single atomic store
Clear == /\ clears < MaxClear /\ clears' = clears + 1 /\ flag' = FALSE /\ sinceSet' = -1
         /\ UNCHANGED <<val, lock, ipc, vpc, depth, instr, err, jobs, setDone, runs, sincePoll>>

\* --- VM goroutine
ApiEnter == /\ vpc = "idle" /\ runs < MaxRuns /\ vpc' = "poll" /\ depth' = 1 /\ instr' = 0 /\ err' = -1 /\ runs' = runs + 1
            /\ sinceSet' = (IF flag THEN 0 ELSE -1) /\ sincePoll' = 0
            /\ UNCHANGED <<flag, val, lock, ipc, jobs, setDone, clears>>
\* the poll: every PollEvery-th iteration (always, in the real code)
Poll == /\ vpc = "poll"
        /\ IF sincePoll = 0 /\ flag THEN vpc' = "mkerr" ELSE vpc' = "exec"
        /\ UNCHANGED <<flag, val, lock, ipc, depth, instr, sinceSet, err, jobs, setDone, runs, clears, sincePoll>>
\* one instruction: plain, enqueue a job, call a native function (no polls inside), nested entry
Exec == /\ vpc = "exec" /\ instr < MaxInstr /\ instr' = instr + 1
        /\ sinceSet' = (IF sinceSet >= 0 THEN sinceSet + 1 ELSE sinceSet)
        /\ sincePoll' = (sincePoll + 1) % PollEvery
        /\ \/ vpc' = "poll" /\ jobs' = jobs /\ depth' = depth
           \/ vpc' = "poll" /\ jobs' = jobs + 1 /\ jobs < 2 /\ depth' = depth
           \/ vpc' = "native" /\ jobs' = jobs /\ depth' = depth
           \/ vpc' = "poll" /\ jobs' = jobs /\ depth < 2 /\ depth' = depth + 1      \* native -> nested RunProgram
        /\ UNCHANGED <<flag, val, lock, ipc, err, setDone, runs, clears>>
Halt == /\ vpc = "exec" /\ vpc' = "leave"
        /\ UNCHANGED <<flag, val, lock, ipc, depth, instr, sinceSet, err, jobs, setDone, runs, clears, sincePoll>>
NativeRet == /\ vpc = "native" /\ vpc' = "poll"
             /\ UNCHANGED <<flag, val, lock, ipc, depth, instr, sinceSet, err, jobs, setDone, runs, clears, sincePoll>>
\* building the InterruptedError takes the lock and reads the value
MkErr == /\ vpc = "mkerr" /\ lock = 0 /\ err' = val /\ vpc' = "abrupt"
         /\ UNCHANGED <<flag, val, lock, ipc, depth, instr, sinceSet, jobs, setDone, runs, clears, sincePoll>>
\* unwinding passes every nested exit (flag untouched) and ends at the outermost one: leaveAbrupt
NestedAbrupt == /\ vpc = "abrupt" /\ depth > 1 /\ depth' = depth - 1
                /\ UNCHANGED <<flag, val, lock, ipc, vpc, instr, sinceSet, err, jobs, setDone, runs, clears, sincePoll>>
LeaveAbrupt == /\ vpc = "abrupt" /\ depth = 1 /\ jobs' = 0 /\ flag' = FALSE /\ vpc' = "idle" /\ depth' = 0 /\ sinceSet' = -1
               /\ UNCHANGED <<val, lock, ipc, instr, err, setDone, runs, clears, sincePoll>>
\* normal exit: a nested call just returns; the outermost drains the jobs (each job is script code that polls)
Leave == /\ vpc = "leave"
         /\ IF depth > 1 THEN depth' = depth - 1 /\ vpc' = "poll" /\ UNCHANGED <<jobs, sinceSet>>
            ELSE IF jobs > 0 THEN jobs' = jobs - 1 /\ vpc' = "poll" /\ UNCHANGED <<depth, sinceSet>>
            ELSE jobs' = 0 /\ vpc' = "idle" /\ depth' = 0 /\ sinceSet' = -1
         /\ UNCHANGED <<flag, val, lock, ipc, instr, err, setDone, runs, clears, sincePoll>>

Next == \/ \E i \in I : ILock(i) \/ ISetVal(i) \/ ISetFlag(i) \/ IUnlock(i)
        \/ Clear
        \/ ApiEnter \/ Poll \/ Exec \/ Halt \/ NativeRet \/ MkErr \/ NestedAbrupt \/ LeaveAbrupt \/ Leave
Fair == /\ WF_vars(Poll) /\ WF_vars(MkErr) /\ WF_vars(LeaveAbrupt) /\ WF_vars(NestedAbrupt) /\ WF_vars(NativeRet)
        /\ WF_vars(Leave) /\ WF_vars(Exec \/ Halt)
        /\ \A i \in I : WF_vars(ISetVal(i) \/ ISetFlag(i) \/ IUnlock(i))
Spec == Init /\ [][Next]_vars /\ Fair

\* --- safety
Prompt == sinceSet <= 1                               \* at most one instruction starts after the flag became visible
CarriesSetValue == (err # -1) => err \in I             \* the error carries a value some interrupter wrote
ErrFromStarted == (vpc = "abrupt") => \E i \in I : ipc[i] # "idle"
IdleClean == (vpc = "idle" /\ err # -1) => jobs = 0     \* the queue was dropped by the abrupt exit
NestedKeepsFlag == [][(vpc = "abrupt" /\ depth > 1 /\ flag /\ clears' = clears) => flag']_vars   \* only the outermost exit (or ClearInterrupt) clears
\* --- liveness: a completed Interrupt during a run leads to that run ending (unless cleared meanwhile)
Stops == \A i \in I : (i \in setDone /\ vpc # "idle" /\ flag) ~> (vpc = "idle" \/ ~flag)
=============================================================================
