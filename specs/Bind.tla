-------------------------------- MODULE Bind --------------------------------
(* Definitional ENVIRONMENT-RECORD interpreter of a JavaScript subset about BINDINGS, used as an oracle (binding C of
   DESIGN.md) for property C02: "the observable behaviour of a program is what a straightforward environment-record
   interpreter of the same syntax tree produces; it does not change under rewrites that only alter compiler decisions".

   The subset: var / let / const with hoisting and temporal dead zones, function declarations (hoisted), function
   expressions, arrows and NAMED function expressions (immutable own-name binding), closures capturing environments,
   blocks, if, for(let ..;..;..) with per-iteration environments (ECMA-262 14.7.4.3 CreatePerIterationEnvironment) and
   for(var ...) with break / continue, switch (one block scope for all clauses, fall-through), try / catch (parameter scope) /
   finally, return, throw; parameters with DEFAULT VALUE expressions (10.2.11 steps 19-28: parameter scope, separate variable
   environment for the body), the ARGUMENTS object (mapped in sloppy functions with simple parameter lists: arguments[i] and the
   i-th parameter are one location; unmapped otherwise; lexical in arrow functions), redeclarations (var over parameter, var
   over function, several function declarations of one name), for (let / const / var x of [list]) with a fresh binding per iteration,
   direct eval code (EvalDeclarationInstantiation: sloppy var declarations land in the caller's variable environment at run time);
   logical assignment (||= &&= ??=), && || ?? ?:, prefix / postfix ++ --; object literals with data properties and getters, property
   reads, destructuring (object patterns in declarations, parameters and assignments with defaults; array patterns against array
   literals); expressions: number literals, identifier reference,
   typeof identifier, =, +=, postfix ++, +, <, comma, calls, log(e); strict and sloppy code (assignment to an undeclared
   name, to a const, to the own name of a named function expression).

   This module evaluates each program of the input file with recursive operators in store-passing style (big-step): the
   store holds the environment records (append-only, addressed by index), the closures, the log and a fuel counter.
   The SAME syntax tree is printed as JavaScript by lib/bindgen.py in several variants that only change what goja's compiler
   decides (stack slot vs. stash slot vs. dynamic lookup: never-called capturing closure, direct eval(""), with({}) wrapper,
   statement vs. expression position, re-evaluation of toString(), IIFE / arrow wrappers, eval / global placement, dead code):
   every variant must produce exactly the behaviour computed here.

   Code anchors: compiler.go (scope / binding resolution, stack vs stash allocation, emitVarRef, binding.emitGet/emitSet/
   emitSetP/emitInit, dynamic scopes), compiler_expr.go (compiledIdentifierExpr, compiledAssignExpr, function literals and
   enterFunc), compiler_stmt.go (compileLabeledForStatement: copyStash per iteration, compileLexicalDeclaration, try/catch
   scopes), vm.go (loadStash / storeStash / initStash, loadDynamic, resolveVar*, newFunc / closures, TDZ checks).

   Values are records [t, v]: num (v = the integer; NaN is v = -999), bool, undef, fn (v = closure index), err (v = 9998
   ReferenceError / 9999 TypeError), other (anything string-like that arithmetic on functions produces).
   A logged / returned / thrown value is observed through its integer CODE (operator Code, mirrored by L() in the prelude). *)
EXTENDS Integers, Sequences, FiniteSets, TLC, Json, IOUtils

ProgFile == IF "PROGS" \in DOMAIN IOEnv THEN IOEnv.PROGS ELSE "progs.ndjson"
Progs == ndJsonDeserialize(ProgFile)

\* Deviation switches: named defects of the pinned tree that the oracle can reproduce (known findings, see known_findings.json)
\*   "calleeLate": a call whose callee is an unresolvable identifier evaluates its arguments BEFORE throwing the ReferenceError
CONSTANT Deviations

VARIABLES pi
vars == <<pi>>

Names == {"x", "y", "z", "w", "g", "h", "e", "p", "q"}
NaNv == -999
Undef == [t |-> "undef", v |-> 0]
Num(n) == [t |-> "num", v |-> n]
Bool(b) == [t |-> "bool", v |-> IF b THEN 1 ELSE 0]
Fn(i) == [t |-> "fn", v |-> i]
Err(c) == [t |-> "err", v |-> c]
Other == [t |-> "other", v |-> 0]
Obj(i) == [t |-> "obj", v |-> i]
RefErr == Err(9998)
TypeErr == Err(9999)

Code(v) == CASE v.t = "num" -> v.v
              [] v.t = "bool" -> 2000 + v.v
              [] v.t = "undef" -> -1000
              [] v.t = "fn" -> -1001
              [] v.t = "err" -> v.v
              [] v.t = "obj" -> -1003
              [] OTHER -> -1002
IsNaN(v) == v.t = "num" /\ v.v = NaNv
\* 7.1.4 ToNumber
ToNum(v) == CASE v.t = "num" -> v.v
               [] v.t = "bool" -> v.v
               [] OTHER -> NaNv          \* undefined, functions, error objects
\* 13.15.3 ApplyStringOrNumericBinaryOperator for +
Stringy == {"fn", "err", "other", "obj"}          \* ToPrimitive gives a string
ValAdd(a, b) == IF a.t \in Stringy \/ b.t \in Stringy THEN Other      \* string concatenation
                ELSE IF ToNum(a) = NaNv \/ ToNum(b) = NaNv THEN Num(NaNv) ELSE Num(ToNum(a) + ToNum(b))
ValLt(a, b) == IF a.t \in Stringy /\ b.t \in Stringy THEN Other     \* string comparison: not modelled
               ELSE IF ToNum(a) = NaNv \/ ToNum(b) = NaNv THEN Bool(FALSE) ELSE Bool(ToNum(a) < ToNum(b))
Truthy(v) == CASE v.t = "num" -> v.v # 0 /\ v.v # NaNv
                [] v.t = "bool" -> v.v = 1
                [] v.t = "undef" -> FALSE
                [] OTHER -> TRUE
TypeofCode(v) == CASE v.t = "num" -> 1 [] v.t = "undef" -> 2 [] v.t = "fn" -> 3 [] v.t = "bool" -> 4 [] v.t \in {"err", "obj"} -> 6 [] OTHER -> 5

-----------------------------------------------------------------------------
\* Store and environment records
Absent == [s |-> "absent", v |-> Undef, m |-> "mut"]
NoVars == [n \in Names |-> Absent]
\* fenv: the environment of the nearest enclosing non-arrow function (it owns `arguments`); args / ps / nmap are meaningful in
\* such an environment only: the argument values as passed, the parameter names, the number of MAPPED arguments
\* venv: the variable environment that sloppy direct eval code adds its var declarations to (the function's, or the global one)
\* th: the this value (meaningful in the environment of a non-arrow function call; arrows read it through fenv)
\* wobj: the binding object of an object environment record (9.1.1.2, created by a with statement), 0 for declarative records
Env(parent, vs, fenv, venv) == [parent |-> parent, vars |-> vs, fenv |-> fenv, venv |-> venv, args |-> <<>>, alen |-> 0, ps |-> <<>>, nmap |-> 0, th |-> Undef, wobj |-> 0, fid |-> 0, nt |-> 0]
\* objects (literals with the keys a / b): [a, b |-> [k: "none" | "data" | "acc", v: the value, g / s: getter / setter function id, 0 = absent]]
\* objs[1] is the global object (the this value of a sloppy function called without a receiver)
PropNone == [k |-> "none", v |-> Undef, g |-> 0, s |-> 0]
DataProp(v) == [k |-> "data", v |-> v, g |-> 0, s |-> 0]
\* property keys: a, b, and x, y -- the latter coincide with variable names, so that an object can shadow variables in a with statement
\* p: the [[Prototype]] among the modelled objects (0: Object.prototype / Function.prototype, which have none of the modelled keys)
EmptyObj == [a |-> PropNone, b |-> PropNone, x |-> PropNone, y |-> PropNone, p |-> 0]
ObjWithProto(pr) == [EmptyObj EXCEPT !.p = pr]
ObjKeys == {"a", "b", "x", "y"}
Store0 == [envs |-> <<Env(0, NoVars, 1, 1)>>, fns |-> <<>>, objs |-> <<EmptyObj>>, log |-> <<>>, fuel |-> 400]    \* envs[1]: the global environment
GlobalObj == Obj(1)

Ok(st, v) == [st |-> st, c |-> [ty |-> "normal", v |-> v]]
Thr(st, v) == [st |-> st, c |-> [ty |-> "throw", v |-> v]]
Ret(st, v) == [st |-> st, c |-> [ty |-> "return", v |-> v]]
Brk(st) == [st |-> st, c |-> [ty |-> "break", v |-> Undef]]
Cont(st) == [st |-> st, c |-> [ty |-> "continue", v |-> Undef]]
Abrupt(r) == r.c.ty # "normal"

\* 9.1.2.1 GetIdentifierReference: the environment that holds x, 0 = unresolvable
RECURSIVE Resolve(_, _, _)
RECURSIVE FindProp(_, _, _)
FindProp(st, i, key) == IF i = 0 THEN PropNone ELSE IF st.objs[i][key].k # "none" THEN st.objs[i][key] ELSE FindProp(st, st.objs[i].p, key)
\* the modelled object behind a value: an object, or the static side of a class constructor
ObjOf(st, v) == IF v.t = "obj" THEN v.v ELSE IF v.t = "fn" THEN st.fns[v.v].so ELSE 0
Resolve(st, env, x) == IF env = 0 THEN 0
                       ELSE IF st.envs[env].wobj # 0
                       THEN (IF x \in ObjKeys /\ FindProp(st, st.envs[env].wobj, x).k # "none" THEN env ELSE Resolve(st, st.envs[env].parent, x))   \* HasProperty
                       ELSE IF st.envs[env].vars[x].s # "absent" THEN env ELSE Resolve(st, st.envs[env].parent, x)
NewWithEnv(st, parent, w) == [st EXCEPT !.envs = Append(@, [Env(parent, NoVars, st.envs[parent].fenv, st.envs[parent].venv) EXCEPT !.wobj = w])]

NewEnv(st, parent, vs) == [st EXCEPT !.envs = Append(@, Env(parent, vs, st.envs[parent].fenv, st.envs[parent].venv))]
\* the newest environment is a variable environment of its own (function body)
AsVarEnv(st) == [st EXCEPT !.envs[Len(st.envs)].venv = Len(st.envs)]
\* the environment of a non-arrow function call: it is its own fenv
\* fid: the function object whose call this is; nt: new.target (0: an ordinary call)
NewFEnv(st, parent, vs, args, ps, nmap, th, fid, nt) ==
  [st EXCEPT !.envs = Append(@, [parent |-> parent, vars |-> vs, fenv |-> Len(st.envs) + 1, venv |-> Len(st.envs) + 1, args |-> args,
                                  alen |-> Len(args), ps |-> ps, nmap |-> nmap, th |-> th, wobj |-> 0, fid |-> fid, nt |-> nt])]
Top(st) == Len(st.envs)
SetB(st, env, x, b) == [st EXCEPT !.envs[env].vars[x] = b]
Init(v, m) == [s |-> "init", v |-> v, m |-> m]
TDZ(m) == [s |-> "tdz", v |-> Undef, m |-> m]

\* static semantics: VarDeclaredNames / LexicallyDeclaredNames / hoisted function declarations of a statement list
RECURSIVE VarNames(_), VarNamesL(_, _)
PatTargets(pat) == {pat.k[j].x : j \in 1..Len(pat.k)}
VarNames(s) == CASE s.t = "var" -> {s.x}
                 [] s.t = "varp" -> PatTargets(s.pat)
                 [] s.t \in {"block", "if"} -> VarNamesL(s.k, IF s.t = "if" THEN 2 ELSE 1)
                 [] s.t = "for" -> (IF s.n = 1 THEN {s.x} ELSE {}) \cup VarNames(s.k[4])
                 [] s.t = "try" -> VarNamesL(s.k, 1)
                 [] s.t = "with" -> VarNames(s.k[2])
                 [] s.t = "forof" -> (IF s.n = 1 THEN {s.x} ELSE {}) \cup VarNames(s.k[2])
                 [] s.t = "switch" -> VarNamesL(s.k, 2)
                 [] s.t = "case" -> VarNamesL(s.k, 2)
                 [] OTHER -> {}
VarNamesL(l, i) == IF i > Len(l) THEN {} ELSE VarNames(l[i]) \cup VarNamesL(l, i + 1)
LexDecls(l) == {i \in 1..Len(l) : l[i].t \in {"let", "const", "letp", "constp", "classd"}}
DeclTargets(d) == IF d.t \in {"letp", "constp"} THEN PatTargets(d.pat) ELSE {d.x}
FDecls(l) == {i \in 1..Len(l) : l[i].t = "fdecl"}
\* a fresh declarative environment with the lexical declarations of the list in their temporal dead zone
LexVars(l, base) == [n \in Names |-> IF \E i \in LexDecls(l) : n \in DeclTargets(l[i])
                                     THEN TDZ(IF \E i \in LexDecls(l) : n \in DeclTargets(l[i]) /\ l[i].t \in {"const", "constp"} THEN "const" ELSE "mut")
                                     ELSE base[n]]

-----------------------------------------------------------------------------
RECURSIVE EvalE(_, _, _, _), EvalS(_, _, _, _), EvalL(_, _, _, _, _), EvalArgs(_, _, _, _, _, _), CallFn(_, _, _, _),
          EvalBlock(_, _, _, _), ForLoop(_, _, _, _, _), EvalProps(_, _, _, _, _, _), GetV(_, _, _), PutV(_, _, _, _, _), GetRef(_, _, _), PutRef(_, _, _, _, _), RunFn(_, _, _, _, _), Construct(_, _, _, _), SuperGet(_, _, _, _), RunFields(_, _, _, _, _), MkClass(_, _, _), DefMembers(_, _, _, _, _, _), BindPat(_, _, _, _, _, _, _), HoistF(_, _, _, _, _), BindParams(_, _, _, _, _, _),
          FindCase(_, _, _, _, _, _), RunCases(_, _, _, _, _), ForOf(_, _, _, _, _, _)

\* closures: [p: parameter names, body: statement list, env, kind: "arrow" | "func" | "named", name, strict]
MkFn(st, e, env, strict) ==
  \* so / po: the objects holding a class constructor's static members / its prototype property; par: the superclass constructor; der: derived
  LET cl == [p |-> e.p, d |-> e.d, pp |-> e.pp, body |-> e.k, env |-> env, kind |-> e.kind, name |-> e.x, strict |-> strict \/ e.s = 1,
             so |-> 0, po |-> 0, par |-> 0, der |-> FALSE, home |-> 0, flds |-> <<>>]
  IN [st |-> [st EXCEPT !.fns = Append(@, cl)], id |-> Len(st.fns) + 1]

EvalE(e, env, st, sm) ==
  CASE e.t = "num" -> Ok(st, Num(e.n))
    [] e.t = "ref" -> GetRef(st, Resolve(st, env, e.x), e.x)
    [] e.t = "typeof" -> (LET r == Resolve(st, env, e.x) IN
                          IF r = 0 THEN Ok(st, Num(2))
                          ELSE LET g == GetRef(st, r, e.x) IN IF Abrupt(g) THEN g ELSE Ok(g.st, Num(TypeofCode(g.c.v))))
    [] e.t = "assign" -> (LET r == Resolve(st, env, e.x)
                              rv == EvalE(e.k[1], env, st, sm)
                          IN IF Abrupt(rv) THEN rv ELSE PutRef(rv.st, r, e.x, rv.c.v, sm))
    [] e.t = "addassign" -> (LET r == Resolve(st, env, e.x)
                                 old == GetRef(st, r, e.x)
                             IN IF Abrupt(old) THEN old
                                ELSE LET rv == EvalE(e.k[1], env, old.st, sm) IN
                                     IF Abrupt(rv) THEN rv ELSE PutRef(rv.st, r, e.x, ValAdd(old.c.v, rv.c.v), sm))
    [] e.t = "postinc" -> (LET r == Resolve(st, env, e.x)
                               old == GetRef(st, r, e.x)
                           IN IF Abrupt(old) THEN old
                              ELSE LET o == ToNum(old.c.v)
                                       p == PutRef(old.st, r, e.x, Num(IF o = NaNv THEN NaNv ELSE o + 1), sm)
                                   IN IF Abrupt(p) THEN p ELSE Ok(p.st, Num(o)))
    \* 13.15.2 logical assignment: the right-hand side and the PutValue happen only if the left value does not short-circuit
    [] e.t = "logassign" -> (LET r == Resolve(st, env, e.x)
                                 old == GetRef(st, r, e.x)
                             IN IF Abrupt(old) THEN old
                                ELSE IF (e.op = "or" /\ Truthy(old.c.v)) \/ (e.op = "and" /\ ~Truthy(old.c.v)) \/ (e.op = "nullish" /\ old.c.v.t # "undef")
                                     THEN Ok(old.st, old.c.v)
                                ELSE LET rv == EvalE(e.k[1], env, old.st, sm) IN
                                     IF Abrupt(rv) THEN rv ELSE PutRef(rv.st, r, e.x, rv.c.v, sm))
    [] e.t = "incdec" -> (LET r == Resolve(st, env, e.x)             \* e.n: +1 / -1;  e.op: "pre" | "post"
                              old == GetRef(st, r, e.x)
                          IN IF Abrupt(old) THEN old
                             ELSE LET o == ToNum(old.c.v)
                                      nv == IF o = NaNv THEN NaNv ELSE o + e.n
                                      p == PutRef(old.st, r, e.x, Num(nv), sm)
                                  IN IF Abrupt(p) THEN p ELSE Ok(p.st, Num(IF e.op = "pre" THEN nv ELSE o)))
    [] e.t \in {"and", "or", "nullish"} ->
         (LET a == EvalE(e.k[1], env, st, sm) IN
          IF Abrupt(a) THEN a
          ELSE IF (e.t = "or" /\ Truthy(a.c.v)) \/ (e.t = "and" /\ ~Truthy(a.c.v)) \/ (e.t = "nullish" /\ a.c.v.t # "undef") THEN a
          ELSE EvalE(e.k[2], env, a.st, sm))
    [] e.t = "cond" -> (LET c == EvalE(e.k[1], env, st, sm) IN
                        IF Abrupt(c) THEN c ELSE EvalE(IF Truthy(c.c.v) THEN e.k[2] ELSE e.k[3], env, c.st, sm))
    [] e.t = "sub" -> (LET a == EvalE(e.k[1], env, st, sm) IN
                       IF Abrupt(a) THEN a
                       ELSE LET b == EvalE(e.k[2], env, a.st, sm) IN
                            IF Abrupt(b) THEN b
                            ELSE Ok(b.st, Num(IF ToNum(a.c.v) = NaNv \/ ToNum(b.c.v) = NaNv THEN NaNv ELSE ToNum(a.c.v) - ToNum(b.c.v))))
    \* 13.2.5 object literal: properties in order, a getter is a function object created here
    [] e.t = "objlit" -> (LET r == EvalProps(e.k, 1, env, st, sm, EmptyObj) IN
                          IF Abrupt(r.r) THEN r.r
                          ELSE LET st2 == [r.r.st EXCEPT !.objs = Append(@, r.rec)] IN Ok(st2, Obj(Len(st2.objs))))
    [] e.t = "mget" -> (LET o == EvalE(e.k[1], env, st, sm) IN IF Abrupt(o) THEN o ELSE GetV(o.st, o.c.v, e.x))
    \* 13.15.5 destructuring assignment: the right-hand side first, then for every property: target reference, GetV, default, PutValue
    [] e.t = "passign" -> (LET rv == EvalE(e.k[1], env, st, sm) IN
                           IF Abrupt(rv) THEN rv
                           ELSE LET b == BindPat(e.pat, 1, rv.c.v, env, rv.st, sm, "assign") IN
                                IF Abrupt(b) THEN b ELSE Ok(b.st, rv.c.v))
    [] e.t = "fn" -> (LET m == MkFn(st, e, env, sm) IN Ok(m.st, Fn(m.id)))
    [] e.t = "call" -> (LET f == EvalE(e.k[1], env, st, sm) IN
                        IF "calleeLate" \in Deviations /\ e.k[1].t = "ref" /\ Resolve(st, env, e.k[1].x) = 0
                        THEN (LET as == EvalArgs(e.k, 2, env, st, sm, <<>>) IN IF Abrupt(as.r) THEN as.r ELSE Thr(as.r.st, RefErr))
                        ELSE IF Abrupt(f) THEN f
                        ELSE LET as == EvalArgs(e.k, 2, env, f.st, sm, <<>>) IN
                             IF Abrupt(as.r) THEN as.r
                             ELSE IF f.c.v.t # "fn" THEN Thr(as.r.st, TypeErr)
                             \* (13.3.6.2: a callee found in an object environment record is called with that object as this -- WithBaseObject)
                             ELSE CallFn(as.r.st, f.c.v.v, as.vals,
                                         IF e.k[1].t = "ref" /\ Resolve(st, env, e.k[1].x) # 0 /\ st.envs[Resolve(st, env, e.k[1].x)].wobj # 0
                                         THEN Obj(st.envs[Resolve(st, env, e.k[1].x)].wobj) ELSE Undef))
    \* 13.3.6 a call through a property reference: the base is the this value; GetValue (a getter may run) precedes the arguments,
    \* the callability check follows them
    [] e.t = "mcall" -> (LET o == EvalE(e.k[1], env, st, sm) IN
                         IF Abrupt(o) THEN o
                         ELSE LET f == GetV(o.st, o.c.v, e.x) IN
                              IF Abrupt(f) THEN f
                              ELSE LET as == EvalArgs(e.k, 2, env, f.st, sm, <<>>) IN
                                   IF Abrupt(as.r) THEN as.r
                                   ELSE IF f.c.v.t # "fn" THEN Thr(as.r.st, TypeErr)
                                   ELSE CallFn(as.r.st, f.c.v.v, as.vals, o.c.v))
    [] e.t = "this" -> (LET th == st.envs[st.envs[env].fenv].th IN IF th.t = "tdz" THEN Thr(st, RefErr) ELSE Ok(st, th))
    [] e.t = "classe" -> MkClass(e, env, st)
    \* 13.3.7 super.key / super.key(args) / super.key = v in a method or constructor: the lookup starts at the prototype of the
    \* [[HomeObject]], the receiver is the current this (GetThisBinding first: ReferenceError before super() returned)
    [] e.t \in {"superget", "supermcall", "superset"} ->
         (LET fe == st.envs[env].fenv
              th == st.envs[fe].th
              home == IF st.envs[fe].fid = 0 THEN 0 ELSE st.fns[st.envs[fe].fid].home
          IN IF th.t = "tdz" THEN Thr(st, RefErr)
             ELSE IF home = 0 THEN Thr(st, Err(7777))                    \* (only generated in class members and constructors)
             ELSE IF e.t = "superget" THEN SuperGet(st, st.objs[home].p, e.x, th)
             ELSE IF e.t = "supermcall"
             THEN LET f == SuperGet(st, st.objs[home].p, e.x, th) IN
                  IF Abrupt(f) THEN f
                  ELSE LET as == EvalArgs(e.k, 1, env, f.st, sm, <<>>) IN
                       IF Abrupt(as.r) THEN as.r
                       ELSE IF f.c.v.t # "fn" THEN Thr(as.r.st, TypeErr)
                       ELSE CallFn(as.r.st, f.c.v.v, as.vals, th)
             ELSE LET rv == EvalE(e.k[1], env, st, sm) IN
                  IF Abrupt(rv) THEN rv
                  ELSE LET th2 == rv.st.envs[fe].th            \* (the right-hand side may have called super())
                           pr == FindProp(rv.st, rv.st.objs[home].p, e.x)
                       IN \* 10.1.9.2 with the parent as the object and this as the receiver: an inherited setter runs with the receiver; otherwise
                          \* the property is created / overwritten on the receiver
                          IF pr.k = "acc" THEN (IF pr.s = 0 THEN Thr(rv.st, TypeErr)        \* (class code is strict)
                                                ELSE LET c == CallFn(rv.st, pr.s, <<rv.c.v>>, th2) IN IF Abrupt(c) THEN c ELSE Ok(c.st, rv.c.v))
                          ELSE IF ObjOf(rv.st, th2) = 0 THEN Thr(rv.st, Err(7777))
                          ELSE LET own == rv.st.objs[ObjOf(rv.st, th2)][e.x] IN
                               IF own.k = "acc" THEN Thr(rv.st, TypeErr)                     \* (the receiver's own accessor refuses a data write)
                               ELSE Ok([rv.st EXCEPT !.objs[ObjOf(rv.st, th2)][e.x] = DataProp(rv.c.v)], rv.c.v))
    \* 13.3.7.1 SuperCall: arguments, Construct(parent, args, new.target), then BindThisValue (a second super() constructs again and
    \* only then fails with a ReferenceError)
    [] e.t = "supercall" ->
         (LET fe == st.envs[env].fenv
              as == IF e.spread = 1 THEN [r |-> Ok(st, Undef), vals |-> st.envs[fe].args] ELSE EvalArgs(e.k, 1, env, st, sm, <<>>)
          IN IF Abrupt(as.r) THEN as.r
             ELSE IF as.r.st.envs[fe].fid = 0 \/ as.r.st.fns[as.r.st.envs[fe].fid].par = 0 THEN Thr(as.r.st, Err(7777))     \* (only generated in derived constructors)
             ELSE LET F == as.r.st.envs[fe]
                      r == Construct(as.r.st, as.r.st.fns[F.fid].par, as.vals, F.nt)
                  IN IF Abrupt(r) THEN r
                     ELSE IF r.st.envs[fe].th.t # "tdz" THEN Thr(r.st, RefErr)
                     ELSE LET bound == [r.st EXCEPT !.envs[fe].th = r.c.v]
                              cf == bound.fns[F.fid]
                              \* (the fields of a derived class are installed on what super() returned, if that is one of the modelled objects)
                              fi == IF ObjOf(bound, r.c.v) = 0 THEN (IF Len(cf.flds) = 0 THEN Ok(bound, Undef) ELSE Thr(bound, Err(7777)))
                                    ELSE RunFields(bound, cf.flds, 1, cf.env, r.c.v)
                          IN IF Abrupt(fi) THEN fi ELSE Ok(fi.st, r.c.v))
    \* 13.3.5 new: callee, arguments, IsConstructor (arrows and accessor functions are not), 10.2.2 [[Construct]] of an ordinary
    \* function: a fresh object is this; an object returned by the body replaces it
    [] e.t = "new" -> (LET f == EvalE(e.k[1], env, st, sm) IN
                       IF Abrupt(f) THEN f
                       ELSE LET as == EvalArgs(e.k, 2, env, f.st, sm, <<>>) IN
                            IF Abrupt(as.r) THEN as.r
                            ELSE IF f.c.v.t # "fn" \/ as.r.st.fns[f.c.v.v].kind \notin {"func", "named", "class"} THEN Thr(as.r.st, TypeErr)
                            ELSE Construct(as.r.st, f.c.v.v, as.vals, f.c.v.v))
    \* 13.15.2 assignment to a property reference: base, right-hand side, PutValue (ToObject(base) fails only now)
    [] e.t = "mset" -> (LET o == EvalE(e.k[1], env, st, sm) IN
                        IF Abrupt(o) THEN o
                        ELSE LET rv == EvalE(e.k[2], env, o.st, sm) IN
                             IF Abrupt(rv) THEN rv
                             ELSE LET pv == PutV(rv.st, o.c.v, e.x, rv.c.v, sm) IN IF Abrupt(pv) THEN pv ELSE Ok(pv.st, rv.c.v))
    \* o.a += rhs: base, GetValue (getter), right-hand side, PutValue (setter)
    [] e.t = "maddassign" -> (LET o == EvalE(e.k[1], env, st, sm) IN
                              IF Abrupt(o) THEN o
                              ELSE LET old == GetV(o.st, o.c.v, e.x) IN
                                   IF Abrupt(old) THEN old
                                   ELSE LET rv == EvalE(e.k[2], env, old.st, sm) IN
                                        IF Abrupt(rv) THEN rv
                                        ELSE LET nv == ValAdd(old.c.v, rv.c.v)
                                                 pv == PutV(rv.st, o.c.v, e.x, nv, sm)
                                             IN IF Abrupt(pv) THEN pv ELSE Ok(pv.st, nv))
    \* o.a++ / ++o.a
    [] e.t = "mincdec" -> (LET o == EvalE(e.k[1], env, st, sm) IN
                           IF Abrupt(o) THEN o
                           ELSE LET old == GetV(o.st, o.c.v, e.x) IN
                                IF Abrupt(old) THEN old
                                ELSE LET n0 == ToNum(old.c.v)
                                         nv == IF n0 = NaNv THEN NaNv ELSE n0 + e.n
                                         pv == PutV(old.st, o.c.v, e.x, Num(nv), sm)
                                     IN IF Abrupt(pv) THEN pv ELSE Ok(pv.st, Num(IF e.op = "pre" THEN nv ELSE n0)))
    [] e.t = "log" -> (LET r == EvalE(e.k[1], env, st, sm) IN
                       IF Abrupt(r) THEN r ELSE Ok([r.st EXCEPT !.log = Append(@, Code(r.c.v))], r.c.v))
    [] e.t \in {"add", "lt"} -> (LET a == EvalE(e.k[1], env, st, sm) IN
                                 IF Abrupt(a) THEN a
                                 ELSE LET b == EvalE(e.k[2], env, a.st, sm) IN
                                      IF Abrupt(b) THEN b
                                      ELSE IF e.t = "add" THEN Ok(b.st, ValAdd(a.c.v, b.c.v))
                                      ELSE IF ValLt(a.c.v, b.c.v) = Other THEN Thr(b.st, Err(7777))      \* comparison of two strings: outside the model
                                      ELSE Ok(b.st, ValLt(a.c.v, b.c.v)))
    [] e.t = "seq" -> (LET a == EvalE(e.k[1], env, st, sm) IN IF Abrupt(a) THEN a ELSE EvalE(e.k[2], env, a.st, sm))
    \* the arguments object of the nearest enclosing non-arrow function (10.4.4: a mapped index and its parameter are one location)
    [] e.t = "arglen" -> Ok(st, Num(st.envs[st.envs[env].fenv].alen))
    [] e.t = "argget" -> (LET fe == st.envs[env].fenv F == st.envs[fe] IN
                          IF e.n < F.nmap THEN Ok(st, F.vars[F.ps[e.n + 1]].v)
                          ELSE IF e.n < Len(F.args) THEN Ok(st, F.args[e.n + 1]) ELSE Ok(st, Undef))
    [] e.t = "argset" -> (LET r == EvalE(e.k[1], env, st, sm) IN
                          IF Abrupt(r) THEN r
                          ELSE LET fe == r.st.envs[env].fenv F == r.st.envs[fe] IN
                               IF e.n < F.nmap THEN Ok(SetB(r.st, fe, F.ps[e.n + 1], Init(r.c.v, "mut")), r.c.v)
                               ELSE LET padded == [i \in 1..(IF e.n + 1 > Len(F.args) THEN e.n + 1 ELSE Len(F.args)) |->
                                                     IF i = e.n + 1 THEN r.c.v ELSE IF i <= Len(F.args) THEN F.args[i] ELSE Undef]
                                    IN Ok([r.st EXCEPT !.envs[fe].args = padded], r.c.v))

\* 6.2.5.5 GetValue on a resolved identifier reference (an object environment record reads the property: a getter may run)
GetRef(st, r, x) == IF r = 0 THEN Thr(st, RefErr)
                    ELSE IF st.envs[r].wobj # 0 THEN GetV(st, Obj(st.envs[r].wobj), x)
                    ELSE IF st.envs[r].vars[x].s = "tdz" THEN Thr(st, RefErr)
                    ELSE Ok(st, st.envs[r].vars[x].v)
\* 6.2.5.6 PutValue / 9.1.1.1.5 SetMutableBinding; r was resolved BEFORE the right-hand side was evaluated
PutRef(st, r, x, v, strict) ==
  IF r = 0 THEN (IF strict THEN Thr(st, RefErr) ELSE Ok(SetB(st, 1, x, Init(v, "mut")), v))        \* sloppy: a property of the global object
  ELSE IF st.envs[r].wobj # 0 THEN PutV(st, Obj(st.envs[r].wobj), x, v, strict)                   \* 9.1.1.2.5: Set(bindingObject, N, V, S)
  ELSE LET b == st.envs[r].vars[x] IN
       IF b.s = "tdz" THEN Thr(st, RefErr)
       ELSE IF b.m = "const" THEN Thr(st, TypeErr)
       ELSE IF b.m = "fname" THEN (IF strict THEN Thr(st, TypeErr) ELSE Ok(st, v))
       ELSE Ok(SetB(st, r, x, Init(v, "mut")), v)

EvalProps(k, i, env, st, sm, rec) ==
  IF i > Len(k) THEN [r |-> Ok(st, Undef), rec |-> rec]
  ELSE LET pr == k[i] IN
       IF pr.kind \in {"get", "set"}
       THEN \* a getter / setter definition keeps the other half of an accessor defined earlier under the same key, and replaces a data property
            LET m == MkFn(st, [pr.k[1] EXCEPT !.kind = "acc"], env, sm)       \* (accessor functions are not constructors)
                old == rec[pr.x]
                g == IF pr.kind = "get" THEN m.id ELSE IF old.k = "acc" THEN old.g ELSE 0
                sv == IF pr.kind = "set" THEN m.id ELSE IF old.k = "acc" THEN old.s ELSE 0
            IN EvalProps(k, i + 1, env, m.st, sm, [rec EXCEPT ![pr.x] = [k |-> "acc", v |-> Undef, g |-> g, s |-> sv]])
       ELSE LET v == EvalE(pr.k[1], env, st, sm) IN
            IF Abrupt(v) THEN [r |-> v, rec |-> rec]
            ELSE EvalProps(k, i + 1, env, v.st, sm, [rec EXCEPT ![pr.x] = DataProp(v.c.v)])

\* a property read that starts at object i with receiver th
SuperGet(st, i, key, th) ==
  LET pr == FindProp(st, i, key) IN
  IF pr.k = "none" THEN Ok(st, Undef) ELSE IF pr.k = "data" THEN Ok(st, pr.v) ELSE IF pr.g = 0 THEN Ok(st, Undef) ELSE CallFn(st, pr.g, <<>>, th)
\* 7.3.3 GetV: ToObject(undefined) throws; the keys a / b exist on object literals only; a getter runs
GetV(st, v, key) ==
  IF v.t = "undef" THEN Thr(st, TypeErr)
  ELSE IF ObjOf(st, v) = 0 THEN Ok(st, Undef)
  \* (the properties x / y of the global object are the global variables of those names: that identification is not modelled)
  ELSE IF v = GlobalObj /\ key \in {"x", "y"} THEN Thr(st, Err(7777))
  ELSE LET pr == FindProp(st, ObjOf(st, v), key) IN
       IF pr.k = "none" THEN Ok(st, Undef) ELSE IF pr.k = "data" THEN Ok(st, pr.v)
       ELSE IF pr.g = 0 THEN Ok(st, Undef) ELSE CallFn(st, pr.g, <<>>, v)

\* 7.3.4 Set / 10.1.9 OrdinarySet through a property reference (6.2.5.6 PutValue): undefined base -> TypeError; a primitive base cannot
\* take a property (strict: TypeError); functions and errors as bases are outside the model
PutV(st, b, key, v, strict) ==
  IF b.t = "undef" THEN Thr(st, TypeErr)
  ELSE IF b.t = "err" \/ (b.t = "fn" /\ ObjOf(st, b) = 0) THEN Thr(st, Err(7777))
  ELSE IF b.t \notin {"obj", "fn"} THEN (IF strict THEN Thr(st, TypeErr) ELSE Ok(st, v))
  ELSE IF b = GlobalObj /\ key \in {"x", "y"} THEN Thr(st, Err(7777))
  ELSE LET i == ObjOf(st, b)
           pr == FindProp(st, i, key)            \* 10.1.9.2 OrdinarySetWithOwnDescriptor: an inherited accessor takes the write
       IN IF pr.k \in {"none", "data"} THEN Ok([st EXCEPT !.objs[i][key] = DataProp(v)], v)
          ELSE IF pr.s = 0 THEN (IF strict THEN Thr(st, TypeErr) ELSE Ok(st, v))
          ELSE LET c == CallFn(st, pr.s, <<v>>, b) IN IF Abrupt(c) THEN c ELSE Ok(c.st, v)

\* 8.6.2 / 14.3.3 BindingInitialization and 13.15.5.x for a pattern  pat = [t: "opat" | "apat", k: elements [x: target, key | n, k: <<default>>]]
\* against a value (an array pattern is matched against the list of element values of an array literal).  mode: "let" / "const" /
\* "param" initialise the binding in env; "var" / "assign" resolve the target FIRST, then read the property, then PutValue
ElemV(st, pat, val, pe) == IF pat.t = "apat" THEN Ok(st, IF pe.n <= Len(val.l) THEN val.l[pe.n] ELSE Undef) ELSE GetV(st, val, pe.key)
BindPat(pat, i, val, env, st, sm, mode) ==
  IF i = 1 /\ pat.t = "opat" /\ val.t = "undef" THEN Thr(st, TypeErr)                  \* RequireObjectCoercible
  ELSE IF i > Len(pat.k) THEN Ok(st, Undef)
  ELSE LET pe == pat.k[i]
           r0 == IF mode \in {"var", "assign"} THEN Resolve(st, env, pe.x) ELSE 0
           g == ElemV(st, pat, val, pe)
       IN IF Abrupt(g) THEN g
          ELSE LET dv == IF g.c.v.t = "undef" /\ Len(pe.k) > 0 THEN EvalE(pe.k[1], env, g.st, sm) ELSE g IN
               IF Abrupt(dv) THEN dv
               ELSE LET b == IF mode \in {"var", "assign"} THEN PutRef(dv.st, r0, pe.x, dv.c.v, sm)
                             ELSE Ok(SetB(dv.st, env, pe.x, Init(dv.c.v, IF mode = "const" THEN "const" ELSE "mut")), Undef)
                    IN IF Abrupt(b) THEN b ELSE BindPat(pat, i + 1, val, env, b.st, sm, mode)

\* arguments left to right; result [r: last evaluation (for the store / an abrupt completion), vals]
EvalArgs(k, i, env, st, sm, acc) ==
  IF i > Len(k) THEN [r |-> Ok(st, Undef), vals |-> acc]
  ELSE LET a == EvalE(k[i], env, st, sm) IN
       IF Abrupt(a) THEN [r |-> a, vals |-> acc] ELSE EvalArgs(k, i + 1, env, a.st, sm, Append(acc, a.c.v))

\* 10.2.11 FunctionDeclarationInstantiation for simple parameter lists + 10.2.1 [[Call]]
HoistF(l, idx, env, st, sm) ==       \* instantiate the function declarations of the list in env (they see env)
  IF idx > Len(l) THEN st
  ELSE IF l[idx].t # "fdecl" THEN HoistF(l, idx + 1, env, st, sm)
  ELSE LET m == MkFn(st, l[idx], env, sm) IN HoistF(l, idx + 1, env, SetB(m.st, env, l[idx].x, Init(Fn(m.id), "mut")), sm)

HasDefaults(cl) == (\E i \in 1..Len(cl.d) : cl.d[i].t # "none") \/ (\E i \in 1..Len(cl.pp) : cl.pp[i].t # "none")
IsParam(cl, n) == (\E i \in 1..Len(cl.p) : cl.p[i] = n) \/ (\E i \in 1..Len(cl.pp) : cl.pp[i].t # "none" /\ n \in PatTargets(cl.pp[i]))
MinI(a, b) == IF a < b THEN a ELSE b

\* 10.2.11 steps 24-26 with parameter expressions: parameters are initialised left to right in the parameter scope; a default
\* value expression is evaluated there (earlier parameters visible, later ones in their temporal dead zone)
BindParams(cl, i, args, penv, st, sm) ==
  IF i > Len(cl.p) THEN Ok(st, Undef)
  ELSE LET given == i <= Len(args) /\ args[i].t # "undef"
           r == IF given THEN Ok(st, args[i])
                ELSE IF cl.d[i].t = "none" THEN Ok(st, Undef)
                ELSE EvalE(cl.d[i], penv, st, sm)
       IN IF Abrupt(r) THEN r
          ELSE IF i <= Len(cl.pp) /\ cl.pp[i].t # "none"
          THEN LET b == BindPat(cl.pp[i], 1, r.c.v, penv, r.st, sm, "param") IN IF Abrupt(b) THEN b ELSE BindParams(cl, i + 1, args, penv, b.st, sm)
          ELSE BindParams(cl, i + 1, args, penv, SetB(r.st, penv, cl.p[i], Init(r.c.v, "mut")), sm)

\* 15.7.14 ClassDefinitionEvaluation (reduced): e = [x: name or "", ext: <<heritage expression>>, ctor: <<function node>>,
\* k: members [x: key, kind: "m" | "get" | "set", st: 1 static, k: <<function node>>]]. Everything inside is strict mode code.
DefMembers(k, i, cenv, st, po, so) ==
  IF i > Len(k) THEN st
  ELSE IF k[i].kind = "field" THEN DefMembers(k, i + 1, cenv, st, po, so)
  ELSE LET mb == k[i]
           tgt == IF mb.st = 1 THEN so ELSE po
           m0 == MkFn(st, [mb.k[1] EXCEPT !.kind = IF mb.kind = "m" THEN "meth" ELSE "acc"], cenv, TRUE)
           m == [st |-> [m0.st EXCEPT !.fns[m0.id].home = tgt], id |-> m0.id]           \* [[HomeObject]]
           old == m.st.objs[tgt][mb.x]
           pr == IF mb.kind = "m" THEN DataProp(Fn(m.id))
                 ELSE [k |-> "acc", v |-> Undef, g |-> IF mb.kind = "get" THEN m.id ELSE IF old.k = "acc" THEN old.g ELSE 0,
                                                 s |-> IF mb.kind = "set" THEN m.id ELSE IF old.k = "acc" THEN old.s ELSE 0]
       IN DefMembers(k, i + 1, cenv, [m.st EXCEPT !.objs[tgt][mb.x] = pr], po, so)
\* 7.3.34 DefineField for the field definitions fs[i..] on the object behind th: the initialiser runs like a method body (this = th,
\* scope = the class scope); the value becomes an OWN data property (CreateDataPropertyOrThrow: an inherited accessor is not consulted)
RunFields(st, fs, i, cenv, th) ==
  IF i > Len(fs) THEN Ok(st, Undef)
  ELSE LET st1 == NewFEnv(st, cenv, NoVars, <<>>, <<>>, 0, th, 0, 0)
           v == IF Len(fs[i].k) = 0 THEN Ok(st1, Undef) ELSE EvalE(fs[i].k[1], Top(st1), st1, TRUE)
       IN IF Abrupt(v) THEN v
          ELSE RunFields([v.st EXCEPT !.objs[ObjOf(v.st, th)][fs[i].x] = DataProp(v.c.v)], fs, i + 1, cenv, th)
MkClass(e, env, st) ==
  LET st1 == IF e.x # "" THEN NewEnv(st, env, [NoVars EXCEPT ![e.x] = TDZ("const")]) ELSE st
      cenv == IF e.x # "" THEN Top(st1) ELSE env
      h == IF Len(e.ext) = 0 THEN Ok(st1, Undef) ELSE EvalE(e.ext[1], cenv, st1, TRUE)
  IN IF Abrupt(h) THEN h
     ELSE IF Len(e.ext) > 0 /\ h.c.v.t # "fn" THEN Thr(h.st, TypeErr)                                       \* not a constructor
     ELSE IF Len(e.ext) > 0 /\ h.st.fns[h.c.v.v].kind \in {"arrow", "meth", "acc"} THEN Thr(h.st, TypeErr)
     ELSE IF Len(e.ext) > 0 /\ h.st.fns[h.c.v.v].kind # "class" THEN Thr(h.st, Err(7777))                   \* (prototype objects of plain functions: not modelled)
     ELSE LET der == Len(e.ext) > 0
              par == IF der THEN h.c.v.v ELSE 0
              st2 == [h.st EXCEPT !.objs = @ \o <<ObjWithProto(IF der THEN h.st.fns[par].po ELSE 0), ObjWithProto(IF der THEN h.st.fns[par].so ELSE 0)>>]
              po == Len(st2.objs) - 1
              so == Len(st2.objs)
              cn == IF Len(e.ctor) > 0 THEN e.ctor[1]
                    ELSE [p |-> <<>>, d |-> <<>>, pp |-> <<>>, x |-> "", s |-> 1,
                          k |-> IF der THEN << [t |-> "expr", k |-> << [t |-> "supercall", spread |-> 1, k |-> <<>>] >>] >> ELSE <<>>]
              cl == [p |-> cn.p, d |-> cn.d, pp |-> cn.pp, body |-> cn.k, env |-> cenv, kind |-> "class", name |-> e.x, strict |-> TRUE,
                     so |-> so, po |-> po, par |-> par, der |-> der, home |-> po,
                     flds |-> SelectSeq(e.k, LAMBDA mb : mb.kind = "field" /\ mb.st = 0)]
              st3 == [st2 EXCEPT !.fns = Append(@, cl)]
              id == Len(st3.fns)
              st4 == DefMembers(e.k, 1, cenv, st3, po, so)
              st5 == IF e.x # "" THEN SetB(st4, cenv, e.x, Init(Fn(id), "const")) ELSE st4
              \* static fields: after all methods exist and the class binding is initialised, in order, with the constructor as this
              sf == RunFields(st5, SelectSeq(e.k, LAMBDA mb : mb.kind = "field" /\ mb.st = 1), 1, cenv, Fn(id))
          IN IF Abrupt(sf) THEN sf ELSE Ok(sf.st, Fn(id))

\* 10.2.1 [[Call]]: a class constructor cannot be called; 10.2.1.2 OrdinaryCallBindThis: sloppy functions see the global object
CallFn(st0, id, args, tv) ==
  LET cl == st0.fns[id] IN
  IF cl.kind = "class" THEN Thr(st0, TypeErr)
  ELSE RunFn(st0, id, args, IF cl.strict \/ tv.t # "undef" THEN tv ELSE GlobalObj, 0)

\* 10.2.2 [[Construct]] with new.target nt. Ordinary functions and base classes: a fresh object (prototype: new.target's prototype
\* property for classes) is this; an object returned by the body replaces it. Derived classes: this is uninitialised until super()
\* returns; a returned non-object other than undefined is a TypeError; no this at the end is a ReferenceError.
TdzThis == [t |-> "tdz", v |-> 0]
IsObjV(v) == v.t \in {"obj", "fn", "err"}          \* (functions and error objects are objects too)
Construct(st00, id, args, nt) ==
  LET cl == st00.fns[id]
      st == [st00 EXCEPT !.fuel = @ - 1] IN          \* (a field initialiser may construct its own class: bounded like calls)
  IF st00.fuel <= 0 THEN Thr(st00, Err(7777))
  ELSE IF ~cl.der
  THEN LET st1 == [st EXCEPT !.objs = Append(@, ObjWithProto(IF cl.kind = "class" THEN st.fns[nt].po ELSE 0))]
           o == Obj(Len(st1.objs))
           fi == IF cl.kind = "class" THEN RunFields(st1, cl.flds, 1, cl.env, o) ELSE Ok(st1, Undef)     \* InitializeInstanceElements
           r == IF Abrupt(fi) THEN fi ELSE RunFn(fi.st, id, args, o, nt)
       IN IF Abrupt(r) THEN r ELSE IF IsObjV(r.c.v) THEN r ELSE Ok(r.st, o)
  ELSE LET fe == Len(st.envs) + 1                       \* (the function environment is the first one the call creates)
           r == RunFn(st, id, args, TdzThis, nt)
       IN IF Abrupt(r) THEN r
          ELSE IF IsObjV(r.c.v) THEN r
          ELSE IF r.c.v.t # "undef" THEN Thr(r.st, TypeErr)
          ELSE IF r.st.envs[fe].th.t = "tdz" THEN Thr(r.st, RefErr)
          ELSE Ok(r.st, r.st.envs[fe].th)

RunFn(st0, id, args, th, nt) ==
  LET cl == st0.fns[id] IN
  IF st0.fuel <= 0 THEN Thr(st0, Err(7777))
  ELSE
  LET st == [st0 EXCEPT !.fuel = @ - 1]
      \* a named function expression sees its own name in an extra scope, as an immutable binding
      st1 == IF cl.kind = "named" THEN NewEnv(st, cl.env, [NoVars EXCEPT ![cl.name] = Init(Fn(id), "fname")]) ELSE st
      outer == IF cl.kind = "named" THEN Top(st1) ELSE cl.env
      vnames == VarNamesL(cl.body, 1)
      arrow == cl.kind = "arrow"
      Finish(r) == IF r.c.ty = "return" THEN Ok(r.st, r.c.v) ELSE IF r.c.ty = "throw" THEN r ELSE Ok(r.st, Undef)
  IN
  IF ~HasDefaults(cl)
  THEN \* simple parameter list: parameters, vars and top-level lexical declarations of the body share one environment
       LET pv == [n \in Names |-> IF IsParam(cl, n)
                                   THEN (LET i == CHOOSE j \in 1..Len(cl.p) : cl.p[j] = n IN Init(IF i <= Len(args) THEN args[i] ELSE Undef, "mut"))
                                   ELSE IF n \in vnames THEN Init(Undef, "mut") ELSE Absent]
           nmap == IF cl.strict THEN 0 ELSE MinI(Len(cl.p), Len(args))      \* sloppy + simple parameters: mapped arguments object
           st2 == IF arrow THEN AsVarEnv(NewEnv(st1, outer, LexVars(cl.body, pv))) ELSE NewFEnv(st1, outer, LexVars(cl.body, pv), args, cl.p, nmap, th, id, nt)
           fenv == Top(st2)
           st3 == HoistF(cl.body, 1, fenv, st2, cl.strict)
       IN Finish(EvalL(cl.body, 1, fenv, st3, cl.strict))
  ELSE \* parameter scope + separate variable environment (the arguments object is unmapped)
       LET pt == [n \in Names |-> IF IsParam(cl, n) THEN TDZ("mut") ELSE Absent]
           stP == IF arrow THEN NewEnv(st1, outer, pt) ELSE NewFEnv(st1, outer, pt, args, cl.p, 0, th, id, nt)
           penv == Top(stP)
           bp == BindParams(cl, 1, args, penv, stP, cl.strict)
       IN IF Abrupt(bp) THEN bp
          ELSE LET vv == [n \in Names |-> IF n \in vnames
                                            THEN Init(IF IsParam(cl, n) THEN bp.st.envs[penv].vars[n].v ELSE Undef, "mut") ELSE Absent]
                   stV == AsVarEnv(NewEnv(bp.st, penv, LexVars(cl.body, vv)))
                   venv == Top(stV)
                   st3 == HoistF(cl.body, 1, venv, stV, cl.strict)
               IN Finish(EvalL(cl.body, 1, venv, st3, cl.strict))

EvalL(l, i, env, st, sm) ==
  IF i > Len(l) THEN Ok(st, Undef)
  ELSE LET r == EvalS(l[i], env, st, sm) IN IF Abrupt(r) THEN r ELSE EvalL(l, i + 1, env, r.st, sm)

\* 14.2.2 Block: a new declarative environment with the block's lexical declarations uninitialised
EvalBlock(l, env, st, sm) ==
  IF LexDecls(l) = {} THEN EvalL(l, 1, env, st, sm)
  ELSE LET st1 == NewEnv(st, env, LexVars(l, NoVars)) IN EvalL(l, 1, Top(st1), st1, sm)

\* 14.7.4.3 CreatePerIterationEnvironment: a copy of the current iteration's bindings in a new environment
CopyEnv(st, env) == [st EXCEPT !.envs = Append(@, [st.envs[env] EXCEPT !.args = <<>>])]

\* 14.7.4.2 ForBodyEvaluation; per = TRUE for let loops
ForLoop(s, env, st, sm, per) ==
  IF st.fuel <= 0 THEN Thr(st, Err(7777))
  ELSE
  LET t == EvalE(s.k[2], env, [st EXCEPT !.fuel = @ - 1], sm) IN
  IF Abrupt(t) THEN t
  ELSE IF ~Truthy(t.c.v) THEN Ok(t.st, Undef)
  ELSE LET b == EvalBlock(s.k[4].k, env, t.st, sm) IN
       IF b.c.ty = "break" THEN Ok(b.st, Undef)
       ELSE IF b.c.ty \in {"return", "throw"} THEN b
       ELSE LET st1 == IF per THEN CopyEnv(b.st, env) ELSE b.st
                env1 == IF per THEN Top(st1) ELSE env
                u == EvalE(s.k[3], env1, st1, sm)
            IN IF Abrupt(u) THEN u ELSE ForLoop(s, env1, u.st, sm, per)

\* switch helpers: k = <<discriminant, clause...>>, clause = [t |-> "case", n |-> 1 for default, k |-> <<test, stmt...>>]
RECURSIVE AllCaseStmts(_, _)
AllCaseStmts(k, i) == IF i > Len(k) THEN <<>> ELSE SubSeq(k[i].k, 2, Len(k[i].k)) \o AllCaseStmts(k, i + 1)
DefaultIdx(k) == IF \E i \in 2..Len(k) : k[i].n = 1 THEN CHOOSE i \in 2..Len(k) : k[i].n = 1 ELSE 0
StrictEq(a, b) == a.t = b.t /\ a.v = b.v /\ ~IsNaN(a) /\ a.t \in {"num", "bool", "undef", "fn"}
FindCase(k, i, dv, env, st, sm) ==
  IF i > Len(k) THEN [r |-> Ok(st, Undef), idx |-> 0]
  ELSE IF k[i].n = 1 THEN FindCase(k, i + 1, dv, env, st, sm)
  ELSE LET t == EvalE(k[i].k[1], env, st, sm) IN
       IF Abrupt(t) THEN [r |-> t, idx |-> 0]
       ELSE IF StrictEq(t.c.v, dv) THEN [r |-> Ok(t.st, Undef), idx |-> i]
       ELSE FindCase(k, i + 1, dv, env, t.st, sm)
ForOf(s, vals, i, env, st, sm) ==
  IF i > Len(vals) THEN Ok(st, Undef)
  ELSE IF st.fuel <= 0 THEN Thr(st, Err(7777))
  ELSE LET lex == s.n # 1
           st0 == [st EXCEPT !.fuel = @ - 1]
           st1 == IF lex THEN NewEnv(st0, env, [NoVars EXCEPT ![s.x] = Init(vals[i], IF s.n = 2 THEN "const" ELSE "mut")]) ELSE st0
           ienv == IF lex THEN Top(st1) ELSE env
           p == IF lex THEN Ok(st1, Undef) ELSE PutRef(st1, Resolve(st1, env, s.x), s.x, vals[i], sm)
       IN IF Abrupt(p) THEN p
          ELSE LET b == EvalBlock(s.k[2].k, ienv, p.st, sm) IN
               IF b.c.ty = "break" THEN Ok(b.st, Undef)
               ELSE IF b.c.ty \in {"return", "throw"} THEN b
               ELSE ForOf(s, vals, i + 1, env, b.st, sm)
RunCases(k, i, env, st, sm) ==
  IF i > Len(k) THEN Ok(st, Undef)
  ELSE LET r == EvalL(SubSeq(k[i].k, 2, Len(k[i].k)), 1, env, st, sm) IN IF Abrupt(r) THEN r ELSE RunCases(k, i + 1, env, r.st, sm)

EvalS(s, env, st, sm) ==
  CASE s.t = "expr" -> (LET r == EvalE(s.k[1], env, st, sm) IN IF Abrupt(r) THEN r ELSE Ok(r.st, Undef))
    [] s.t = "var" -> (IF Len(s.k) = 0 THEN Ok(st, Undef)
                       ELSE LET r == Resolve(st, env, s.x)
                                rv == EvalE(s.k[1], env, st, sm)
                            IN IF Abrupt(rv) THEN rv ELSE PutRef(rv.st, r, s.x, rv.c.v, sm))
    [] s.t \in {"let", "const"} ->
         (LET rv == IF Len(s.k) = 0 THEN Ok(st, Undef) ELSE EvalE(s.k[1], env, st, sm) IN
          IF Abrupt(rv) THEN rv
          ELSE Ok(SetB(rv.st, env, s.x, Init(rv.c.v, IF s.t = "const" THEN "const" ELSE "mut")), Undef))     \* InitializeBinding
    \* declarations with a pattern: let / const / var {a: x = d, b: y} = e   and   [x = d, y] = [e1, e2]
    [] s.t \in {"letp", "constp", "varp"} ->
         (LET rv == IF s.pat.t = "apat"
                    THEN (LET vs == EvalArgs(s.k[1].k, 1, env, st, sm, <<>>) IN
                          IF Abrupt(vs.r) THEN vs.r ELSE Ok(vs.r.st, [t |-> "list", l |-> vs.vals, v |-> 0]))
                    ELSE EvalE(s.k[1], env, st, sm)
          IN IF Abrupt(rv) THEN rv
             ELSE LET b == BindPat(s.pat, 1, rv.c.v, env, rv.st, sm, IF s.t = "letp" THEN "let" ELSE IF s.t = "constp" THEN "const" ELSE "var") IN
                  IF Abrupt(b) THEN b ELSE Ok(b.st, Undef))
    [] s.t = "fdecl" -> Ok(st, Undef)                       \* instantiated on entry
    \* 15.7.15 class declaration: the outer binding (let-like) is initialised with the constructor
    [] s.t = "classd" -> (LET c == MkClass(s, env, st) IN
                          IF Abrupt(c) THEN c ELSE Ok(SetB(c.st, env, s.x, Init(c.c.v, "mut")), Undef))
    \* 14.11 with (sloppy code only): ToObject(value) becomes the binding object of an object environment record; a primitive's wrapper
    \* object has none of the modelled keys
    [] s.t = "with" -> (LET o == EvalE(s.k[1], env, st, sm) IN
                        IF Abrupt(o) THEN o
                        ELSE IF o.c.v.t = "undef" THEN Thr(o.st, TypeErr)
                        \* (a function object inherits the accessor `arguments` from Function.prototype, which shadows the arguments object: not modelled)
                        ELSE IF o.c.v.t = "fn" \/ o.c.v = GlobalObj THEN Thr(o.st, Err(7777))
                        ELSE LET st0 == IF o.c.v.t = "obj" THEN o.st ELSE [o.st EXCEPT !.objs = Append(@, EmptyObj)]
                                 w == IF o.c.v.t = "obj" THEN o.c.v.v ELSE Len(st0.objs)
                                 st1 == NewWithEnv(st0, env, w)
                             IN EvalBlock(s.k[2].k, Top(st1), st1, sm))
    [] s.t = "block" -> EvalBlock(s.k, env, st, sm)
    [] s.t = "if" -> (LET c == EvalE(s.k[1], env, st, sm) IN
                      IF Abrupt(c) THEN c
                      ELSE IF Truthy(c.c.v) THEN EvalS(s.k[2], env, c.st, sm)
                      ELSE IF Len(s.k) >= 3 THEN EvalS(s.k[3], env, c.st, sm) ELSE Ok(c.st, Undef))
    [] s.t = "for" ->
         (IF s.n = 1
          THEN \* for (var x = init; test; update) body
               LET r == Resolve(st, env, s.x)
                   iv == EvalE(s.k[1], env, st, sm)
               IN IF Abrupt(iv) THEN iv
                  ELSE LET p == PutRef(iv.st, r, s.x, iv.c.v, sm) IN IF Abrupt(p) THEN p ELSE ForLoop(s, env, p.st, sm, FALSE)
          ELSE \* for (let x = init; test; update) body: loopEnv for the initialiser, then one environment per iteration
               LET st1 == NewEnv(st, env, [NoVars EXCEPT ![s.x] = TDZ("mut")])
                   loopEnv == Top(st1)
                   iv == EvalE(s.k[1], loopEnv, st1, sm)
               IN IF Abrupt(iv) THEN iv
                  ELSE LET st2 == CopyEnv(SetB(iv.st, loopEnv, s.x, Init(iv.c.v, "mut")), loopEnv)
                       IN ForLoop(s, Top(st2), st2, sm, TRUE))
    \* 14.7.5.6 / .7: for (let|const|var x of [e1, ..., en]) body.  The list is evaluated with x in its temporal dead zone, every
    \* iteration gets a fresh environment for x
    [] s.t = "forof" ->
         (LET lex == s.n # 1
              st1 == IF lex THEN NewEnv(st, env, [NoVars EXCEPT ![s.x] = TDZ("mut")]) ELSE st
              henv == IF lex THEN Top(st1) ELSE env
              vs == EvalArgs(s.k[1].k, 1, henv, st1, sm, <<>>)
          IN IF Abrupt(vs.r) THEN vs.r ELSE ForOf(s, vs.vals, 1, env, vs.r.st, sm))
    \* 19.2.1.3 EvalDeclarationInstantiation for direct eval code: strict code has its own variable environment, sloppy code adds its
    \* var declarations to the variable environment of the caller (existing bindings are kept); let / const are local to the eval code
    [] s.t = "evalcode" ->
         (LET vn == VarNamesL(s.k, 1)
              stv == IF sm THEN st
                     ELSE LET ve == st.envs[env].venv IN
                          [st EXCEPT !.envs[ve].vars = [n \in Names |-> IF n \in vn /\ st.envs[ve].vars[n].s = "absent" THEN Init(Undef, "mut") ELSE @[n]]]
              base == IF sm THEN [n \in Names |-> IF n \in vn THEN Init(Undef, "mut") ELSE Absent] ELSE NoVars
              st1 == NewEnv(stv, env, LexVars(s.k, base))
              r == EvalL(s.k, 1, Top(st1), st1, sm)
          IN IF r.c.ty \in {"throw"} THEN r ELSE Ok(r.st, Undef))
    [] s.t = "break" -> Brk(st)
    [] s.t = "continue" -> Cont(st)
    \* 14.12.4: one block scope for the whole CaseBlock; the clause tests are evaluated in order until one is strictly equal
    [] s.t = "switch" ->
         (LET d == EvalE(s.k[1], env, st, sm) IN
          IF Abrupt(d) THEN d
          ELSE LET all == AllCaseStmts(s.k, 2)
                   st1 == IF LexDecls(all) = {} THEN d.st ELSE NewEnv(d.st, env, LexVars(all, NoVars))
                   benv == IF LexDecls(all) = {} THEN env ELSE Top(st1)
                   fc == FindCase(s.k, 2, d.c.v, benv, st1, sm)
               IN IF Abrupt(fc.r) THEN fc.r
                  ELSE LET start == IF fc.idx # 0 THEN fc.idx ELSE DefaultIdx(s.k)
                           r == IF start = 0 THEN Ok(fc.r.st, Undef) ELSE RunCases(s.k, start, benv, fc.r.st, sm)
                       IN IF r.c.ty = "break" THEN Ok(r.st, Undef) ELSE r)
    [] s.t = "return" -> (LET r == EvalE(s.k[1], env, st, sm) IN IF Abrupt(r) THEN r ELSE Ret(r.st, r.c.v))
    [] s.t = "throw" -> (LET r == EvalE(s.k[1], env, st, sm) IN IF Abrupt(r) THEN r ELSE Thr(r.st, r.c.v))
    [] s.t = "try" ->
         (LET b == EvalBlock(s.k[1].k, env, st, sm)
              c == IF b.c.ty = "throw" /\ b.c.v # Err(7777)
                   THEN (IF s.cp.t = "none"
                         THEN LET st1 == NewEnv(b.st, env, [NoVars EXCEPT ![s.x] = Init(b.c.v, "mut")])
                              IN EvalBlock(s.k[2].k, Top(st1), st1, sm)
                         ELSE \* 14.15.2 CatchClauseEvaluation with a binding pattern: the names are created uninitialised, then bound
                              LET st1 == NewEnv(b.st, env, [n \in Names |-> IF n \in PatTargets(s.cp) THEN TDZ("mut") ELSE Absent])
                                  bp == BindPat(s.cp, 1, b.c.v, Top(st1), st1, sm, "let")
                              IN IF Abrupt(bp) THEN bp ELSE EvalBlock(s.k[2].k, Top(st1), bp.st, sm))
                   ELSE b
          IN IF Len(s.k) < 3 \/ (c.c.ty = "throw" /\ c.c.v = Err(7777)) THEN c
             ELSE LET f == EvalBlock(s.k[3].k, env, c.st, sm) IN IF Abrupt(f) THEN f ELSE [st |-> f.st, c |-> c.c])

-----------------------------------------------------------------------------
\* a program is the body of a parameterless top-level function: [id, strict, body]
Run(p) ==
  LET top == [p |-> <<>>, d |-> <<>>, pp |-> <<>>, k |-> p.body, kind |-> "func", x |-> "f", s |-> p.strict]
      m == MkFn(Store0, top, 1, FALSE)
      r == CallFn(m.st, m.id, <<>>, Undef)
  IN [id |-> p.id, log |-> r.st.log,
      ty |-> IF r.c.ty = "throw" THEN (IF r.c.v = Err(7777) THEN "fuel" ELSE "throw") ELSE "return",
      v |-> Code(r.c.v), envs |-> Len(r.st.envs), fns |-> Len(r.st.fns)]

Init0 == pi = 0
Next == pi < Len(Progs) /\ pi' = pi + 1 /\ PrintT(ToJson(Run(Progs[pi + 1])))
Spec == Init0 /\ [][Next]_vars
=============================================================================
