-------------------------------- MODULE Obj --------------------------------
(* Ordinary-object internal methods (ECMA-262 10.1) over a few objects and keys (properties C04, C11).

   Code anchors: object.go baseObject: getOwnPropStr/Idx/Sym, getStr, setOwnStr/_setForeignStr/setForeignSym,
   defineOwnPropertyStr/_defineOwnProperty, deleteStr, hasPropertyStr, keys/stringKeys/symbols + ensurePropOrder,
   preventExtensions, setProto; builtin_object.go / builtin_reflect.go (issuers); runtime.go Object.Get/Set/
   Delete/DefineDataProperty (Go API issuer).

   One action = one internal-method call with ALL of its arguments enumerated, plus the issuer ("via") that
   determines how the abstract outcome (true / false / TypeError) surfaces.  The replayer maps abstract keys to
   concrete keys of every kind (string, symbol, array index, 2^32-1, "-0") and objects to every object kind for
   which these algorithms are the specified behaviour.  *)
EXTENDS ObjBase, Json

CONSTANTS Objs,        \* object names (strings)
          Keys,        \* abstract keys (strings); "i*" sort as indices, "y*" are symbols, others strings
          DescSet,     \* the descriptors Define is enumerated over
          Vias,        \* issuers enabled: subset of {"obj","refl","sloppy","strict","go"}
          Recvs,       \* receivers for Reflect.get / Reflect.set: subset of Objs \cup {"prim"}
          InitProto,   \* [Objs -> Objs \cup {"null"}]
          InitProp,    \* the property every key starts with (None; or a fixed data property: exotic objects whose index keys exist
                       \* from the start, e.g. the characters of a String object) -- single-key configurations only
          ProtoOps,    \* BOOLEAN: enable SetProto
          Ops          \* enabled operations (subset of AllOps)

VARIABLES objs,   \* [Objs -> [props : [Keys -> Prop], order : Seq(Keys), ext : {"T","F"}, proto]]
          act     \* last action + specified result (output only)

vars == <<objs, act>>

IsIdx(k) == k \in {"i0", "i1", "i2"}
IsSym(k) == k \in {"y", "z"}
IdxRank(k) == CASE k = "i0" -> 0 [] k = "i1" -> 1 [] k = "i2" -> 2 [] OTHER -> 9

FrozenV1 == Data("v1", "F", "T", "F")
Init == /\ objs = [o \in Objs |-> [props |-> [k \in Keys |-> InitProp],
                                    order |-> IF InitProp = None THEN <<>> ELSE <<CHOOSE k \in Keys : TRUE>>,
                                    ext |-> "T", proto |-> InitProto[o]]]
        /\ act = [op |-> "init"]

SelectSeq2(s, T(_)) == SelectSeq(s, T)
SortedIdx(S) == LET F[n \in 0..2] == IF n = 0 THEN (IF "i0" \in S THEN <<"i0">> ELSE <<>>)
                                     ELSE IF n = 1 THEN F[0] \o (IF "i1" \in S THEN <<"i1">> ELSE <<>>)
                                     ELSE F[1] \o (IF "i2" \in S THEN <<"i2">> ELSE <<>>)
                IN F[2]
\* OrdinaryOwnPropertyKeys: integer indices ascending, then strings, then symbols, both in creation order
OwnKeysOf(ob) == LET present == {ob.order[i] : i \in 1..Len(ob.order)}
                     isStr(k) == ~IsIdx(k) /\ ~IsSym(k)
                 IN SortedIdx({k \in present : IsIdx(k)}) \o SelectSeq(ob.order, isStr) \o SelectSeq(ob.order, IsSym)

RemoveKey(s, k) == LET ne(x) == x # k IN SelectSeq(s, ne)

\* how an abstract boolean outcome surfaces for an issuer
\*   obj:    Object.defineProperty / Object.setPrototypeOf ...: false => TypeError, true => "ok"
\*   refl:   Reflect.*: the boolean
\*   sloppy: syntax in sloppy code: failures are silent ("ok")
\*   strict: syntax in strict code: false => TypeError
\*   go:     Go API: false => error (TypeError exception)
Surface(via, r) == CASE via = "refl" -> r
                     [] via = "sloppy" -> "ok"
                     [] OTHER -> IF r = "true" THEN "ok" ELSE "TypeError"

---------------------------------------------------------------------------
\* [[DefineOwnProperty]]
DefineIn(os, o, k, D) ==
  LET r == Validate(os[o].props[k], os[o].ext, D)
      created == os[o].props[k].k = "none" /\ r[1] = "true"
  IN <<r[1], [os EXCEPT ![o].props[k] = r[2], ![o].order = IF created THEN Append(@, k) ELSE @]>>

Define(o, k, D, via) ==
  /\ via \in {"obj", "refl"}
  /\ IF BadD(D)
     THEN /\ UNCHANGED objs
          /\ act' = [op |-> "define", o |-> o, k |-> k, d |-> D, via |-> via, res |-> "TypeError"]
     ELSE LET r == DefineIn(objs, o, k, D) IN
          /\ objs' = r[2]
          /\ act' = [op |-> "define", o |-> o, k |-> k, d |-> D, via |-> via, res |-> Surface(via, r[1])]

\* [[Delete]]
Delete(o, k, via) ==
  LET p == objs[o].props[k]
      ok == p.k = "none" \/ p.c = "T"
  IN /\ via \in {"sloppy", "strict", "refl", "go"}
     /\ objs' = IF ok /\ p.k # "none" THEN [objs EXCEPT ![o].props[k] = None, ![o].order = RemoveKey(@, k)] ELSE objs
     /\ act' = [op |-> "delete", o |-> o, k |-> k, via |-> via,
                res |-> IF via = "sloppy" THEN (IF ok THEN "true" ELSE "false")
                        ELSE IF via = "refl" THEN (IF ok THEN "true" ELSE "false")
                        ELSE (IF ok THEN "true" ELSE "TypeError")]

\* [[GetOwnProperty]]
GetOwn(o, k) == /\ UNCHANGED objs
                /\ act' = [op |-> "getown", o |-> o, k |-> k, res |-> objs[o].props[k]]

\* [[HasProperty]] along the prototype chain
RECURSIVE HasIn(_, _)
HasIn(o, k) == IF o = "null" THEN FALSE
               ELSE IF objs[o].props[k].k # "none" THEN TRUE ELSE HasIn(objs[o].proto, k)
Has(o, k) == /\ UNCHANGED objs
             /\ act' = [op |-> "has", o |-> o, k |-> k, res |-> IF HasIn(o, k) THEN "true" ELSE "false"]

\* [[Get]](k, receiver): value and the getter call it makes ("g1@recv")
RECURSIVE GetIn(_, _, _)
GetIn(o, k, recv) ==
  IF o = "null" THEN <<"u", <<>>>>
  ELSE LET p == objs[o].props[k] IN
       IF p.k = "none" THEN GetIn(objs[o].proto, k, recv)
       ELSE IF p.k = "data" THEN <<p.v, <<>>>>
       ELSE IF p.g = "u" THEN <<"u", <<>>>> ELSE <<"gv", <<p.g \o "@" \o recv>>>>
Get(o, k, recv, via) ==
  /\ (via \in {"sloppy", "go"} => recv = o)
  /\ via \in {"sloppy", "refl", "go"}
  /\ UNCHANGED objs
  /\ LET r == GetIn(o, k, recv) IN
     act' = [op |-> "get", o |-> o, k |-> k, recv |-> recv, via |-> via, res |-> [v |-> r[1], log |-> r[2]]]

\* [[Set]](k, v, receiver) = OrdinarySet / OrdinarySetWithOwnDescriptor (10.1.9.2)
\* returns <<"true"|"false", objects, log>>
SetOnReceiver(os, recv, k, v) ==
  IF recv = "prim" THEN <<"false", os, <<>>>>
  ELSE LET ex == os[recv].props[k] IN
       IF ex.k = "acc" THEN <<"false", os, <<>>>>
       ELSE IF ex.k = "data" THEN
            IF ex.w = "F" THEN <<"false", os, <<>>>>
            ELSE <<"true", [os EXCEPT ![recv].props[k].v = v], <<>>>>
       ELSE IF os[recv].ext # "T" THEN <<"false", os, <<>>>>
            ELSE <<"true", [os EXCEPT ![recv].props[k] = Data(v, "T", "T", "T"), ![recv].order = Append(@, k)], <<>>>>
RECURSIVE SetIn(_, _, _, _)
SetIn(o, k, v, recv) ==
  IF o = "null" THEN SetOnReceiver(objs, recv, k, v)
  ELSE LET p == objs[o].props[k] IN
       IF p.k = "none" THEN SetIn(objs[o].proto, k, v, recv)
       ELSE IF p.k = "data" THEN
            IF p.w = "F" THEN <<"false", objs, <<>>>> ELSE SetOnReceiver(objs, recv, k, v)
       ELSE IF p.s = "u" THEN <<"false", objs, <<>>>>
            ELSE <<"true", objs, <<p.s \o "@" \o recv \o "=" \o v>>>>
Set(o, k, v, recv, via) ==
  /\ (via # "refl" => recv = o)
  /\ via \in {"sloppy", "strict", "refl", "go"}
  /\ LET r == SetIn(o, k, v, recv) IN
     /\ objs' = r[2]
     /\ act' = [op |-> "set", o |-> o, k |-> k, v |-> v, recv |-> recv, via |-> via,
                res |-> [r |-> Surface(via, r[1]), log |-> r[3]]]

\* [[OwnPropertyKeys]]
OwnKeys(o) == /\ UNCHANGED objs
              /\ act' = [op |-> "ownkeys", o |-> o, res |-> OwnKeysOf(objs[o])]

\* [[PreventExtensions]] / [[IsExtensible]]
Prevent(o, via) == /\ via \in {"obj", "refl"}
                   /\ objs' = [objs EXCEPT ![o].ext = "F"]
                   /\ act' = [op |-> "prevent", o |-> o, via |-> via, res |-> Surface(via, "true")]

\* SetIntegrityLevel / TestIntegrityLevel (7.3.15, 7.3.16) derived from the above
FreezeProp(p) == IF p.k = "none" THEN p ELSE IF p.k = "data" THEN [p EXCEPT !.c = "F", !.w = "F"] ELSE [p EXCEPT !.c = "F"]
SealProp(p) == IF p.k = "none" THEN p ELSE [p EXCEPT !.c = "F"]
Integrity(o, level) ==
  /\ objs' = [objs EXCEPT ![o].ext = "F",
                          ![o].props = [k \in Keys |-> IF level = "frozen" THEN FreezeProp(@[k]) ELSE SealProp(@[k])]]
  /\ act' = [op |-> "integrity", o |-> o, level |-> level, res |-> "ok"]
IsFrozen(ob) == ob.ext = "F" /\ \A k \in Keys : ob.props[k].k = "none" \/ (ob.props[k].c = "F" /\ (ob.props[k].k = "data" => ob.props[k].w = "F"))
IsSealed(ob) == ob.ext = "F" /\ \A k \in Keys : ob.props[k].k = "none" \/ ob.props[k].c = "F"
TestIntegrity(o) ==
  /\ UNCHANGED objs
  /\ act' = [op |-> "testintegrity", o |-> o,
             res |-> [frozen |-> IF IsFrozen(objs[o]) THEN "true" ELSE "false",
                      sealed |-> IF IsSealed(objs[o]) THEN "true" ELSE "false", ext |-> objs[o].ext]]

\* [[SetPrototypeOf]] (10.1.2) with the cycle check; [[GetPrototypeOf]] is part of the observation
RECURSIVE Reaches(_, _)
Reaches(from, target) == IF from = "null" THEN FALSE ELSE IF from = target THEN TRUE ELSE Reaches(objs[from].proto, target)
SetProto(o, p, via) ==
  /\ ProtoOps /\ via \in {"obj", "refl"}
  /\ LET r == IF objs[o].proto = p THEN "true"
              ELSE IF objs[o].ext # "T" THEN "false"
              ELSE IF p # "null" /\ Reaches(p, o) THEN "false" ELSE "true"
     IN /\ objs' = IF r = "true" THEN [objs EXCEPT ![o].proto = p] ELSE objs
        /\ act' = [op |-> "setproto", o |-> o, p |-> p, via |-> via, res |-> Surface(via, r)]

Next ==
  \E o \in Objs :
     \/ \E k \in Keys :
          \/ "define" \in Ops /\ \E D \in DescSet, via \in Vias : Define(o, k, D, via)
          \/ "delete" \in Ops /\ \E via \in Vias : Delete(o, k, via)
          \/ "getown" \in Ops /\ GetOwn(o, k)
          \/ "has" \in Ops /\ Has(o, k)
          \/ "get" \in Ops /\ \E recv \in Recvs, via \in Vias : Get(o, k, recv, via)
          \/ "set" \in Ops /\ \E recv \in Recvs, via \in Vias, v \in {"v1", "v2"} : Set(o, k, v, recv, via)
     \/ "ownkeys" \in Ops /\ OwnKeys(o)
     \/ "prevent" \in Ops /\ \E via \in Vias : Prevent(o, via)
     \/ "integrity" \in Ops /\ (Integrity(o, "frozen") \/ Integrity(o, "sealed") \/ TestIntegrity(o))
     \/ \E p \in Objs \cup {"null"}, via \in Vias : SetProto(o, p, via)

AllOps == {"define", "delete", "getown", "has", "get", "set", "ownkeys", "prevent", "integrity"}

Spec == Init /\ [][Next]_vars

---------------------------------------------------------------------------
\* Essential invariants (6.1.7.3), checked on every transition of the model
Essential == [][\A o \in Objs : \A k \in Keys : EssentialProp(objs[o].props[k], objs'[o].props[k])]_vars
NoGrow == [][\A o \in Objs : objs[o].ext = "F" =>
                 /\ objs'[o].ext = "F" /\ objs'[o].proto = objs[o].proto
                 /\ \A k \in Keys : objs[o].props[k].k = "none" => objs'[o].props[k].k = "none"]_vars
OrderOK == \A o \in Objs :
             /\ \A i, j \in 1..Len(objs[o].order) : i # j => objs[o].order[i] # objs[o].order[j]
             /\ {objs[o].order[i] : i \in 1..Len(objs[o].order)} = {k \in Keys : objs[o].props[k].k # "none"}
NoProtoCycle == \A o \in Objs : objs[o].proto = "null" \/ ~Reaches(objs[o].proto, o)
\* only the addressed object (or the receiver of a Set) changes
Frame == [][\A o \in Objs : objs'[o] # objs[o] =>
              (act'.o = o \/ (act'.op = "set" /\ act'.recv = o))]_vars

NullProto == [o \in Objs |-> "null"]
ChainProto == [o \in Objs |-> IF o = "o1" THEN "o2" ELSE "null"]

MenuDescs == { [NoD EXCEPT !.v = "v1", !.w = "T", !.e = "T", !.c = "T"],
               [NoD EXCEPT !.v = "v2", !.w = "F", !.e = "T", !.c = "T"],
               [NoD EXCEPT !.v = "v1", !.w = "T", !.e = "F", !.c = "F"],
               [NoD EXCEPT !.v = "v2", !.w = "F", !.e = "F", !.c = "F"],
               [NoD EXCEPT !.g = "g1", !.s = "s1", !.e = "T", !.c = "T"],
               [NoD EXCEPT !.g = "g1", !.e = "T", !.c = "T"],
               [NoD EXCEPT !.s = "s1", !.e = "F", !.c = "F"] }
SimpleDescs == { [NoD EXCEPT !.v = "v1", !.w = "T", !.e = "T", !.c = "T"],
                 [NoD EXCEPT !.v = "v1", !.w = "T", !.e = "F", !.c = "T"] }

OneDesc == { [NoD EXCEPT !.v = "v1", !.w = "T", !.e = "T", !.c = "T"] }

St(os) == os
\* observation: like the state, but the key list is [[OwnPropertyKeys]] order instead of creation order
Obs(os) == [o \in Objs |-> [props |-> os[o].props, order |-> OwnKeysOf(os[o]), ext |-> os[o].ext, proto |-> os[o].proto]]
Emit == PrintT(ToJson([f |-> St(objs), l |-> act', t |-> St(objs'), o |-> Obs(objs')]))
View == objs
=============================================================================
