------------------------------ MODULE ObjBase ------------------------------
(* Property records and ValidateAndApplyPropertyDescriptor (ECMA-262 10.1.6.3), shared by Obj, ObjArray,
   ObjTyped, ObjString, ObjArgs, ObjProxy.  Every field value is a string so that TLC never compares a
   string with a value of another type.
   Code anchors: object.go baseObject._defineOwnProperty / defineOwnPropertyStr / deleteStr,
   valueProperty {getterFunc, setterFunc, writable, configurable, enumerable, accessor}. *)
EXTENDS Integers, Sequences, FiniteSets, TLC

None == [k |-> "none", v |-> "-", w |-> "-", g |-> "-", s |-> "-", e |-> "-", c |-> "-"]
Data(v, w, e, c) == [k |-> "data", v |-> v, w |-> w, g |-> "-", s |-> "-", e |-> e, c |-> c]
Acc(g, s, e, c) == [k |-> "acc", v |-> "-", w |-> "-", g |-> g, s |-> s, e |-> e, c |-> c]

B3 == {"abs", "T", "F"}
\* a descriptor: every field absent ("abs") or present; `g: "u"` is a PRESENT field holding undefined
AllDescs == [v : {"abs", "v1", "v2"}, g : {"abs", "g1", "u"}, s : {"abs", "s1", "u"}, w : B3, e : B3, c : B3]
NoD == [v |-> "abs", g |-> "abs", s |-> "abs", w |-> "abs", e |-> "abs", c |-> "abs"]

IsAccD(D) == D.g # "abs" \/ D.s # "abs"
IsDataD(D) == D.v # "abs" \/ D.w # "abs"
IsGenD(D) == ~IsAccD(D) /\ ~IsDataD(D)
BadD(D) == IsAccD(D) /\ IsDataD(D)          \* ToPropertyDescriptor throws TypeError
Dflt(x, d) == IF x = "abs" THEN d ELSE x

\* <<result, new property>>; result in {"true","false"}
Validate(cur, extensible, D) ==
  IF cur.k = "none" THEN
     IF extensible # "T" THEN <<"false", cur>>
     ELSE IF IsAccD(D) THEN <<"true", Acc(Dflt(D.g, "u"), Dflt(D.s, "u"), Dflt(D.e, "F"), Dflt(D.c, "F"))>>
     ELSE <<"true", Data(Dflt(D.v, "u"), Dflt(D.w, "F"), Dflt(D.e, "F"), Dflt(D.c, "F"))>>
  ELSE
     LET kindChange == ~IsGenD(D) /\ (IsAccD(D) # (cur.k = "acc"))
         rejectNC == cur.c = "F" /\
              (\/ D.c = "T"
               \/ (D.e # "abs" /\ D.e # cur.e)
               \/ kindChange
               \/ (cur.k = "acc" /\ IsAccD(D) /\ ((D.g # "abs" /\ D.g # cur.g) \/ (D.s # "abs" /\ D.s # cur.s)))
               \/ (cur.k = "data" /\ IsDataD(D) /\ cur.w = "F" /\ (D.w = "T" \/ (D.v # "abs" /\ D.v # cur.v))))
         e2 == Dflt(D.e, cur.e)
         c2 == Dflt(D.c, cur.c)
     IN IF rejectNC THEN <<"false", cur>>
        ELSE IF IsGenD(D) THEN <<"true", [cur EXCEPT !.e = e2, !.c = c2]>>
        ELSE IF IsAccD(D) THEN
             IF cur.k = "acc" THEN <<"true", Acc(Dflt(D.g, cur.g), Dflt(D.s, cur.s), e2, c2)>>
             ELSE <<"true", Acc(Dflt(D.g, "u"), Dflt(D.s, "u"), e2, c2)>>
        ELSE IF cur.k = "data" THEN <<"true", Data(Dflt(D.v, cur.v), Dflt(D.w, cur.w), e2, c2)>>
             ELSE <<"true", Data(Dflt(D.v, "u"), Dflt(D.w, "F"), e2, c2)>>

\* the essential invariants of 6.1.7.3 for one property between two states
EssentialProp(p, q) ==
  (p.k # "none" /\ p.c = "F") =>
     /\ q.k = p.k /\ q.e = p.e /\ q.c = "F"
     /\ (p.k = "data" /\ p.w = "F" => q.v = p.v /\ q.w = "F")
     /\ (p.k = "acc" => q.g = p.g /\ q.s = p.s)
=============================================================================
