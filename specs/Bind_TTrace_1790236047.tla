---- MODULE Bind_TTrace_1790236047 ----
EXTENDS Sequences, Bind, TLCExt, Toolbox, Naturals, TLC

_expression ==
    LET Bind_TEExpression == INSTANCE Bind_TEExpression
    IN Bind_TEExpression!expression
----

_trace ==
    LET Bind_TETrace == INSTANCE Bind_TETrace
    IN Bind_TETrace!trace
----

_inv ==
    ~(
        TLCGet("level") = Len(_TETrace)
        /\
        pi = (67)
    )
----

_init ==
    /\ pi = _TETrace[1].pi
----

_next ==
    /\ \E i,j \in DOMAIN _TETrace:
        /\ \/ /\ j = i + 1
              /\ i = TLCGet("level")
        /\ pi  = _TETrace[i].pi
        /\ pi' = _TETrace[j].pi

\* Uncomment the ASSUME below to write the states of the error trace
\* to the given file in Json format. Note that you can pass any tuple
\* to `JsonSerialize`. For example, a sub-sequence of _TETrace.
    \* ASSUME
    \*     LET J == INSTANCE Json
    \*         IN J!JsonSerialize("Bind_TTrace_1790236047.json", _TETrace)

=============================================================================

 Note that you can extract this module `Bind_TEExpression`
  to a dedicated file to reuse `expression` (the module in the 
  dedicated `Bind_TEExpression.tla` file takes precedence 
  over the module `Bind_TEExpression` below).

---- MODULE Bind_TEExpression ----
EXTENDS Sequences, Bind, TLCExt, Toolbox, Naturals, TLC

expression == 
    [
        \* To hide variables of the `Bind` spec from the error trace,
        \* remove the variables below.  The trace will be written in the order
        \* of the fields of this record.
        pi |-> pi
        
        \* Put additional constant-, state-, and action-level expressions here:
        \* ,_stateNumber |-> _TEPosition
        \* ,_piUnchanged |-> pi = pi'
        
        \* Format the `pi` variable as Json value.
        \* ,_piJson |->
        \*     LET J == INSTANCE Json
        \*     IN J!ToJson(pi)
        
        \* Lastly, you may build expressions over arbitrary sets of states by
        \* leveraging the _TETrace operator.  For example, this is how to
        \* count the number of times a spec variable changed up to the current
        \* state in the trace.
        \* ,_piModCount |->
        \*     LET F[s \in DOMAIN _TETrace] ==
        \*         IF s = 1 THEN 0
        \*         ELSE IF _TETrace[s].pi # _TETrace[s-1].pi
        \*             THEN 1 + F[s-1] ELSE F[s-1]
        \*     IN F[_TEPosition - 1]
    ]

=============================================================================



Parsing and semantic processing can take forever if the trace below is long.
 In this case, it is advised to uncomment the module below to deserialize the
 trace from a generated binary file.

\*
\*---- MODULE Bind_TETrace ----
\*EXTENDS IOUtils, Bind, TLC
\*
\*trace == IODeserialize("Bind_TTrace_1790236047.bin", TRUE)
\*
\*=============================================================================
\*

---- MODULE Bind_TETrace ----
EXTENDS Bind, TLC

trace == 
    <<
    ([pi |-> 0]),
    ([pi |-> 1]),
    ([pi |-> 2]),
    ([pi |-> 3]),
    ([pi |-> 4]),
    ([pi |-> 5]),
    ([pi |-> 6]),
    ([pi |-> 7]),
    ([pi |-> 8]),
    ([pi |-> 9]),
    ([pi |-> 10]),
    ([pi |-> 11]),
    ([pi |-> 12]),
    ([pi |-> 13]),
    ([pi |-> 14]),
    ([pi |-> 15]),
    ([pi |-> 16]),
    ([pi |-> 17]),
    ([pi |-> 18]),
    ([pi |-> 19]),
    ([pi |-> 20]),
    ([pi |-> 21]),
    ([pi |-> 22]),
    ([pi |-> 23]),
    ([pi |-> 24]),
    ([pi |-> 25]),
    ([pi |-> 26]),
    ([pi |-> 27]),
    ([pi |-> 28]),
    ([pi |-> 29]),
    ([pi |-> 30]),
    ([pi |-> 31]),
    ([pi |-> 32]),
    ([pi |-> 33]),
    ([pi |-> 34]),
    ([pi |-> 35]),
    ([pi |-> 36]),
    ([pi |-> 37]),
    ([pi |-> 38]),
    ([pi |-> 39]),
    ([pi |-> 40]),
    ([pi |-> 41]),
    ([pi |-> 42]),
    ([pi |-> 43]),
    ([pi |-> 44]),
    ([pi |-> 45]),
    ([pi |-> 46]),
    ([pi |-> 47]),
    ([pi |-> 48]),
    ([pi |-> 49]),
    ([pi |-> 50]),
    ([pi |-> 51]),
    ([pi |-> 52]),
    ([pi |-> 53]),
    ([pi |-> 54]),
    ([pi |-> 55]),
    ([pi |-> 56]),
    ([pi |-> 57]),
    ([pi |-> 58]),
    ([pi |-> 59]),
    ([pi |-> 60]),
    ([pi |-> 61]),
    ([pi |-> 62]),
    ([pi |-> 63]),
    ([pi |-> 64]),
    ([pi |-> 65]),
    ([pi |-> 66]),
    ([pi |-> 67])
    >>
----


=============================================================================

---- CONFIG Bind_TTrace_1790236047 ----
CONSTANTS
    Deviations = { }

INVARIANT
    _inv

CHECK_DEADLOCK
    \* CHECK_DEADLOCK off because of PROPERTY or INVARIANT above.
    FALSE

INIT
    _init

NEXT
    _next

CONSTANT
    _TETrace <- _trace

ALIAS
    _expression
=============================================================================
\* Generated on Thu Sep 24 07:47:32 UTC 2026