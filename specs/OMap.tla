------------------------------- MODULE OMap -------------------------------
(* Insertion-ordered SameValueZero dictionary with live cursors (property C18).

   Code anchors: map.go orderedMap (set / get / remove / has / clear / newIter / orderedMapIter.next),
   builtin_map.go, builtin_set.go, object.go symbol-property table (same structure, no cursors).

   Two state representations are kept side by side:
     * entries / its   -- the compact model: only live entries, a cursor is the number of live entries
                          already passed.  This is what the replayer compares the engine against.
     * es / esIdx      -- ECMA-262's literal List with emptied slots (24.1.3 / 24.1.5.1: deletion sets the
                          slot to ~empty~, the iterator keeps an index into the list, clear empties all
                          slots).  The invariant Refines states that both agree; goja's linked list with
                          tombstones (iterPrev walk-back in orderedMapIter.next) is a third representation
                          of the same thing.
   Key representations (valueInt 1 vs. float-produced 1, ASCII vs. imported string, +0 / -0, NaN variants) are
   arguments of actions only: SameValueZero makes them indistinguishable, so they are not part of the state. *)
EXTENDS Integers, Sequences, FiniteSets, TLC, Json

CONSTANTS Keys,      \* abstract keys (strings)
          Reps,      \* representations of a key passed by the caller (strings)
          Vals,      \* values (strings)
          NIter,     \* number of cursor slots
          MaxLen,    \* bound on live entries
          MaxEs,     \* bound on the literal ES list (refinement config only; 0 = do not track)
          Kinds      \* iterator kinds

VARIABLES entries,   \* Seq([k, v])
          its,       \* [1..NIter -> [st : {"none","active","done"}, pos : Nat, kind]]
          es,        \* Seq([k, v, live])  literal ES list (tracked iff MaxEs > 0)
          esIdx,     \* [1..NIter -> Nat]  ES iterator index (number of slots passed)
          act        \* last action with its specified result (output only, hidden by VIEW)

vars == <<entries, its, es, esIdx, act>>

IdxOf(k) == IF \E i \in 1..Len(entries) : entries[i].k = k
            THEN CHOOSE i \in 1..Len(entries) : entries[i].k = k ELSE 0
Size == Len(entries)
Track == MaxEs > 0

Init == /\ entries = <<>>
        /\ its = [i \in 1..NIter |-> [st |-> "none", pos |-> 0, kind |-> "entries"]]
        /\ es = <<>> /\ esIdx = [i \in 1..NIter |-> 0]
        /\ act = [op |-> "init"]

RemoveAt(s, j) == [i \in 1..(Len(s) - 1) |-> IF i < j THEN s[i] ELSE s[i + 1]]

EsLiveIdx(k) == {i \in 1..Len(es) : es[i].live /\ es[i].k = k}

Set(k, r, v) ==
  LET j == IdxOf(k) IN
  /\ j # 0 \/ Len(entries) < MaxLen
  /\ entries' = IF j # 0 THEN [entries EXCEPT ![j].v = v] ELSE Append(entries, [k |-> k, v |-> v])
  /\ UNCHANGED <<its, esIdx>>
  /\ es' = IF ~Track THEN es
           ELSE IF j # 0 THEN [i \in 1..Len(es) |-> IF i \in EsLiveIdx(k) THEN [es[i] EXCEPT !.v = v] ELSE es[i]]
           ELSE Append(es, [k |-> k, v |-> v, live |-> TRUE])
  /\ act' = [op |-> "set", k |-> k, r |-> r, v |-> v, res |-> Len(entries')]

Get(k, r) ==
  /\ UNCHANGED <<entries, its, es, esIdx>>
  /\ act' = [op |-> "get", k |-> k, r |-> r, res |-> IF IdxOf(k) = 0 THEN "u" ELSE entries[IdxOf(k)].v]

Has(k, r) ==
  /\ UNCHANGED <<entries, its, es, esIdx>>
  /\ act' = [op |-> "has", k |-> k, r |-> r, res |-> IdxOf(k) # 0]

Del(k, r) ==
  LET j == IdxOf(k) IN
  /\ entries' = IF j = 0 THEN entries ELSE RemoveAt(entries, j)
  /\ its' = [i \in 1..NIter |-> IF j # 0 /\ its[i].st = "active" /\ its[i].pos >= j
                                 THEN [its[i] EXCEPT !.pos = @ - 1] ELSE its[i]]
  /\ es' = IF Track THEN [i \in 1..Len(es) |-> IF i \in EsLiveIdx(k) THEN [es[i] EXCEPT !.live = FALSE] ELSE es[i]] ELSE es
  /\ UNCHANGED esIdx
  /\ act' = [op |-> "del", k |-> k, r |-> r, res |-> j # 0]

Clear ==
  /\ entries' = <<>>
  /\ its' = [i \in 1..NIter |-> IF its[i].st = "active" THEN [its[i] EXCEPT !.pos = 0] ELSE its[i]]
  /\ es' = IF Track THEN [i \in 1..Len(es) |-> [es[i] EXCEPT !.live = FALSE]] ELSE es
  /\ UNCHANGED esIdx
  /\ act' = [op |-> "clear", res |-> 0]

NewIter(i, kind) ==
  /\ its[i].st = "none"
  /\ its' = [its EXCEPT ![i] = [st |-> "active", pos |-> 0, kind |-> kind]]
  /\ esIdx' = [esIdx EXCEPT ![i] = 0]
  /\ UNCHANGED <<entries, es>>
  /\ act' = [op |-> "newiter", it |-> i, kind |-> kind, res |-> "ok"]

\* ES: advance the index over emptied slots to the next live one
EsNext(p) == IF \E j \in (p + 1)..Len(es) : es[j].live
             THEN CHOOSE j \in (p + 1)..Len(es) : es[j].live /\ \A y \in (p + 1)..(j - 1) : ~es[y].live
             ELSE 0

IterNext(i) ==
  /\ its[i].st # "none"
  /\ UNCHANGED <<entries, es>>
  /\ IF its[i].st = "active" /\ its[i].pos < Len(entries)
     THEN /\ its' = [its EXCEPT ![i].pos = @ + 1]
          /\ esIdx' = IF Track THEN [esIdx EXCEPT ![i] = EsNext(esIdx[i])] ELSE esIdx
          /\ act' = [op |-> "next", it |-> i, k |-> entries[its[i].pos + 1].k,
                     res |-> LET e == entries[its[i].pos + 1] IN
                             IF its[i].kind = "entries" THEN [done |-> FALSE, k |-> e.k, v |-> e.v, kind |-> "entries"]
                             ELSE IF its[i].kind = "keys" THEN [done |-> FALSE, k |-> e.k, kind |-> "keys"]
                             ELSE [done |-> FALSE, v |-> e.v, kind |-> "values"]]
     ELSE /\ its' = [its EXCEPT ![i] = [@ EXCEPT !.st = "done", !.pos = 0]]
          /\ UNCHANGED esIdx
          /\ act' = [op |-> "next", it |-> i, res |-> [done |-> TRUE]]

\* a finished cursor slot may be reused
DropIter(i) ==
  /\ its[i].st = "done"
  /\ its' = [its EXCEPT ![i] = [st |-> "none", pos |-> 0, kind |-> "entries"]]
  /\ UNCHANGED <<entries, es, esIdx>>
  /\ act' = [op |-> "dropiter", it |-> i, res |-> "ok"]

Next == \/ \E k \in Keys, r \in Reps : (\E v \in Vals : Set(k, r, v)) \/ Get(k, r) \/ Has(k, r) \/ Del(k, r)
        \/ Clear
        \/ \E i \in 1..NIter : (\E kd \in Kinds : NewIter(i, kd)) \/ IterNext(i) \/ DropIter(i)

Spec == Init /\ [][Next]_vars

---------------------------------------------------------------------------
\* Properties

NoDup == \A i, j \in 1..Len(entries) : i # j => entries[i].k # entries[j].k
PosOK == \A i \in 1..NIter : its[i].pos <= Len(entries) /\ (its[i].st # "active" => its[i].pos = 0)
SizeOK == Size <= MaxLen

\* the compact model is the ES list with emptied slots seen through "live"
LiveSeq(s) == LET F[n \in 0..Len(s)] == IF n = 0 THEN <<>>
                                        ELSE IF s[n].live THEN Append(F[n - 1], [k |-> s[n].k, v |-> s[n].v]) ELSE F[n - 1]
              IN F[Len(s)]
LiveBefore(p) == Cardinality({j \in 1..p : es[j].live})
Refines == Track => /\ LiveSeq(es) = entries
                    /\ \A i \in 1..NIter : its[i].st = "active" =>
                          \* the next live slot after the ES index is the next compact entry
                          (LET n == EsNext(esIdx[i]) IN
                             IF its[i].pos < Len(entries) THEN n # 0 /\ LiveBefore(n) = its[i].pos + 1
                             ELSE n = 0)
EsBound == Len(es) <= MaxEs

\* a yielded entry is live at the time it is reached; an iterator never moves backwards except by deletion/clear
Yielded == [][\A i \in 1..NIter : (act'.op = "next" /\ act'.it = i /\ ~act'.res.done) =>
                 (IdxOf(act'.k) = its[i].pos + 1 /\ its'[i].pos = its[i].pos + 1)]_vars
SizeStep == [][Len(entries') - Len(entries) \in {-Len(entries), -1, 0, 1}]_vars

---------------------------------------------------------------------------
\* Output for binding A (edge stream) -- evaluated once per generated transition
St(e, i) == [e |-> e, i |-> i]
Obs(e) == [size |-> Len(e), entries |-> e]
Emit == PrintT(ToJson([f |-> St(entries, its), l |-> act', t |-> St(entries', its'), o |-> Obs(entries')]))
View == <<entries, its, es, esIdx>>
=============================================================================
