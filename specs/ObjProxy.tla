------------------------------ MODULE ObjProxy ------------------------------
(* Proxy invariant enforcement (ECMA-262 10.5.1 - 10.5.13): for every trap, every state of the target and every
   trap result from a lattice of honest and lying answers, the proxy operation either returns the trap's answer or
   throws TypeError (property C11, invariant half).  The forwarding half of C11 is decided by replaying the Obj.tla
   edge set on forwarding proxies (lib/checks/c11.py).

   Code anchors: proxy.go proxyObject.{getPrototypeOf, setProto, isExtensible, preventExtensions,
   proxyGetOwnPropertyDescriptor, proxyDefineOwnProperty, proxyHas, proxyGet, proxySet, proxyDelete, proxyOwnKeys},
   __isCompatibleDescriptor, builtin_proxy.go ProxyTrapConfig (Go handlers), revoke.

   State: one target object with keys k and j, extensibility and prototype.  TargetOp actions change the target
   directly; Trap actions call a proxy operation whose handler answers with the result named in the action.  *)
EXTENDS ObjBase, Json

CONSTANTS DescSet,    \* descriptors for trap arguments / trap results
          TDescs      \* descriptors used to shape the target

VARIABLES p,      \* [{"k","j"} -> Prop]   target properties
          ext,    \* "T" | "F"
          proto,  \* "P1" | "P2" | "null"
          revoked,
          act

vars == <<p, ext, proto, revoked, act>>
Keys == {"k", "j"}

Init == p = [x \in Keys |-> None] /\ ext = "T" /\ proto = "P1" /\ revoked = "F" /\ act = [op |-> "init"]

\* ---- direct operations on the target (never through the proxy) ----
TDefine(x, D) == /\ revoked = "F"
                 /\ LET r == Validate(p[x], ext, D) IN
                    /\ p' = [p EXCEPT ![x] = r[2]]
                    /\ act' = [op |-> "tdefine", k |-> x, d |-> D, res |-> r[1]]
                 /\ UNCHANGED <<ext, proto, revoked>>
TDelete(x) == /\ revoked = "F" /\ p[x].k # "none" /\ p[x].c = "T"
              /\ p' = [p EXCEPT ![x] = None] /\ act' = [op |-> "tdelete", k |-> x, res |-> "true"]
              /\ UNCHANGED <<ext, proto, revoked>>
TPrevent == /\ revoked = "F" /\ ext = "T" /\ ext' = "F" /\ act' = [op |-> "tprevent", res |-> "ok"]
            /\ UNCHANGED <<p, proto, revoked>>
TSetProto(q) == /\ revoked = "F" /\ ext = "T" /\ proto' = q /\ act' = [op |-> "tsetproto", p |-> q, res |-> "ok"]
                /\ UNCHANGED <<p, ext, revoked>>
Revoke == /\ revoked = "F" /\ revoked' = "T" /\ act' = [op |-> "revoke", res |-> "ok"] /\ UNCHANGED <<p, ext, proto>>

\* ---- proxy operations with an answering handler; none of them changes the target ----
Same == UNCHANGED <<p, ext, proto, revoked>>
R(b) == IF revoked = "T" THEN "TypeError" ELSE b

Complete(D) == IF IsAccD(D) THEN Acc(Dflt(D.g, "u"), Dflt(D.s, "u"), Dflt(D.e, "F"), Dflt(D.c, "F"))
               ELSE Data(Dflt(D.v, "u"), Dflt(D.w, "F"), Dflt(D.e, "F"), Dflt(D.c, "F"))
\* CompletePropertyDescriptor, as a descriptor record
CompleteD(D) == IF IsAccD(D) THEN [NoD EXCEPT !.g = Dflt(D.g, "u"), !.s = Dflt(D.s, "u"), !.e = Dflt(D.e, "F"), !.c = Dflt(D.c, "F")]
                ELSE [NoD EXCEPT !.v = Dflt(D.v, "u"), !.w = Dflt(D.w, "F"), !.e = Dflt(D.e, "F"), !.c = Dflt(D.c, "F")]
\* IsCompatiblePropertyDescriptor(extensible, Desc, current)
Compatible(D, cur) == Validate(cur, ext, D)[1] = "true"

\* 10.5.5 [[GetOwnProperty]]; trap answer: "undefined", "nonobj" or a descriptor
GOPD(x, ans) ==
  /\ Same
  /\ LET cur == p[x]
         out == IF ans.t = "nonobj" THEN "TypeError"
                ELSE IF ans.t = "undefined" THEN
                     (IF cur.k = "none" THEN "undefined"
                      ELSE IF cur.c = "F" THEN "TypeError"
                      ELSE IF ext = "F" THEN "TypeError" ELSE "undefined")
                ELSE IF BadD(ans.d) THEN "TypeError"
                ELSE LET rd == Complete(ans.d) IN
                     IF ~Compatible(CompleteD(ans.d), cur) THEN "TypeError"
                     ELSE IF rd.c = "F" /\ (cur.k = "none" \/ cur.c = "T") THEN "TypeError"
                     ELSE IF rd.c = "F" /\ rd.k = "data" /\ rd.w = "F" /\ cur.k = "data" /\ cur.w = "T" THEN "TypeError"
                     ELSE "desc"
     IN act' = [op |-> "gopd", k |-> x, ans |-> ans,
                res |-> IF R(out) = "desc" THEN [r |-> "desc", d |-> Complete(ans.d)] ELSE [r |-> R(out)]]

\* 10.5.6 [[DefineOwnProperty]]; trap answer: boolean
Define(x, D, b) ==
  /\ Same
  /\ LET cur == p[x]
         cfgFalse == D.c = "F"
         out == IF BadD(D) THEN "TypeError"            \* ToPropertyDescriptor fails before the trap is consulted
                ELSE IF b = "false" THEN "false"
                ELSE IF cur.k = "none" THEN (IF ext = "F" THEN "TypeError" ELSE IF cfgFalse THEN "TypeError" ELSE "true")
                ELSE IF ~Compatible(D, cur) THEN "TypeError"
                ELSE IF cfgFalse /\ cur.c = "T" THEN "TypeError"
                ELSE IF cur.k = "data" /\ cur.c = "F" /\ cur.w = "T" /\ D.w = "F" THEN "TypeError"
                ELSE "true"
     IN act' = [op |-> "define", k |-> x, d |-> D, ans |-> b, res |-> R(out)]

\* 10.5.7 [[HasProperty]]
Has(x, b) ==
  /\ Same
  /\ LET cur == p[x]
         out == IF b = "true" THEN "true"
                ELSE IF cur.k # "none" /\ (cur.c = "F" \/ ext = "F") THEN "TypeError" ELSE "false"
     IN act' = [op |-> "has", k |-> x, ans |-> b, res |-> R(out)]

\* 10.5.8 [[Get]]; trap answer: a value
Get(x, v) ==
  /\ Same
  /\ LET cur == p[x]
         out == IF cur.k = "data" /\ cur.c = "F" /\ cur.w = "F" /\ v # cur.v THEN "TypeError"
                ELSE IF cur.k = "acc" /\ cur.c = "F" /\ cur.g = "u" /\ v # "u" THEN "TypeError"
                ELSE v
     IN act' = [op |-> "get", k |-> x, ans |-> v, res |-> R(out)]

\* 10.5.9 [[Set]]; trap answer: boolean
Set(x, v, b) ==
  /\ Same
  /\ LET cur == p[x]
         out == IF b = "false" THEN "false"
                ELSE IF cur.k = "data" /\ cur.c = "F" /\ cur.w = "F" /\ v # cur.v THEN "TypeError"
                ELSE IF cur.k = "acc" /\ cur.c = "F" /\ cur.s = "u" THEN "TypeError"
                ELSE "true"
     IN act' = [op |-> "set", k |-> x, v |-> v, ans |-> b, res |-> R(out)]

\* 10.5.10 [[Delete]]
Delete(x, b) ==
  /\ Same
  /\ LET cur == p[x]
         out == IF b = "false" THEN "false"
                ELSE IF cur.k = "none" THEN "true"
                ELSE IF cur.c = "F" THEN "TypeError"
                ELSE IF ext = "F" THEN "TypeError" ELSE "true"
     IN act' = [op |-> "delete", k |-> x, ans |-> b, res |-> R(out)]

\* 10.5.11 [[OwnPropertyKeys]]; trap answer: a list over {"k", "j", "x" (a key the target lacks), "dup k", "num" (not a key)}
KeyAnswers == { <<>>, <<"k">>, <<"j">>, <<"k", "j">>, <<"j", "k">>, <<"k", "k">>, <<"k", "j", "x">>, <<"x">>,
                <<"k", "num">>, <<"k", "x">>, <<"j", "x">> }
OwnKeys(ans) ==
  /\ Same
  /\ LET S == {ans[i] : i \in 1..Len(ans)}
         present == {x \in Keys : p[x].k # "none"}
         nonconf == {x \in present : p[x].c = "F"}
         out == IF "num" \in S THEN "TypeError"
                ELSE IF Cardinality(S) # Len(ans) THEN "TypeError"
                ELSE IF ~(nonconf \subseteq S) THEN "TypeError"
                ELSE IF ext = "T" THEN "ok"
                ELSE IF ~(present \subseteq S) THEN "TypeError"
                ELSE IF S # present THEN "TypeError" ELSE "ok"
     IN act' = [op |-> "ownkeys", ans |-> ans, res |-> R(out)]

\* 10.5.1 / 10.5.2 prototype traps; answers: "P1", "P2", "null", "nonobj"
GetProto(ans) ==
  /\ Same
  /\ LET out == IF ans = "nonobj" THEN "TypeError" ELSE IF ext = "T" THEN ans ELSE IF ans = proto THEN ans ELSE "TypeError"
     IN act' = [op |-> "getproto", ans |-> ans, res |-> R(out)]
SetProto(v, b) ==
  /\ Same
  /\ LET out == IF b = "false" THEN "false" ELSE IF ext = "T" THEN "true" ELSE IF v = proto THEN "true" ELSE "TypeError"
     IN act' = [op |-> "setproto", v |-> v, ans |-> b, res |-> R(out)]

\* 10.5.3 / 10.5.4
IsExt(b) ==
  /\ Same
  /\ LET real == IF ext = "T" THEN "true" ELSE "false"
     IN act' = [op |-> "isext", ans |-> b, res |-> R(IF b = real THEN b ELSE "TypeError")]
Prevent(b) ==
  /\ Same
  /\ act' = [op |-> "prevent", ans |-> b, res |-> R(IF b = "true" /\ ext = "T" THEN "TypeError" ELSE b)]

JMenu == { [NoD EXCEPT !.v = "v1", !.w = "T", !.e = "T", !.c = "T"], [NoD EXCEPT !.v = "v1", !.w = "T", !.e = "T", !.c = "F"] }
\* complete descriptors plus a few partial ones: "honest" and "differing in exactly one field" for every target shape
LatticeDescs == {D \in AllDescs : ~BadD(D) /\ D.e # "abs" /\ D.c # "abs" /\
                                  ((D.v # "abs" /\ D.w # "abs") \/ (D.g # "abs" /\ D.s # "abs"))}
                \cup { NoD, [NoD EXCEPT !.v = "v1"], [NoD EXCEPT !.g = "g1"], [NoD EXCEPT !.s = "u"], [NoD EXCEPT !.w = "F"],
                       [NoD EXCEPT !.c = "F"], [NoD EXCEPT !.e = "T"], [NoD EXCEPT !.v = "v1", !.g = "g1"] }

GopdAnswers == {[t |-> "undefined", d |-> NoD], [t |-> "nonobj", d |-> NoD]} \cup {[t |-> "desc", d |-> D] : D \in DescSet}
B2 == {"true", "false"}
Vals == {"v1", "v2", "u"}

Next ==
  \/ (\E D \in TDescs : TDefine("k", D)) \/ (\E D \in JMenu : TDefine("j", D))
  \/ (\E x \in Keys : TDelete(x))
  \/ TPrevent \/ (\E q \in {"P1", "P2"} : TSetProto(q)) \/ Revoke
  \/ \E ans \in GopdAnswers : GOPD("k", ans)
  \/ \E D \in DescSet, b \in B2 : Define("k", D, b)
  \/ \E b \in B2 : Has("k", b) \/ Delete("k", b) \/ IsExt(b) \/ Prevent(b)
  \/ \E v \in Vals : Get("k", v) \/ (\E b \in B2 : Set("k", v, b))
  \/ \E ans \in KeyAnswers : OwnKeys(ans)
  \/ \E a \in {"P1", "P2", "null", "nonobj"} : GetProto(a)
  \/ \E v \in {"P1", "P2", "null"}, b \in B2 : SetProto(v, b)

Spec == Init /\ [][Next]_vars

\* a proxy operation never changes the target, and whatever it reports is consistent with the target's guarantees
TargetUntouched == [][act'.op \in {"gopd", "define", "has", "get", "set", "delete", "ownkeys", "getproto", "setproto", "isext", "prevent"}
                        => UNCHANGED <<p, ext, proto>>]_vars
\* the essential invariants as seen THROUGH the proxy: a reported descriptor of a non-configurable target property
\* equals it; a key reported absent is configurable on an extensible target
SeenThroughProxy == [][(act'.op = "gopd" /\ act'.res.r = "desc" /\ p["k"].k # "none" /\ p["k"].c = "F") =>
                          (act'.res.d.k = p["k"].k /\ act'.res.d.e = p["k"].e
                           /\ (p["k"].k = "acc" => act'.res.d.g = p["k"].g /\ act'.res.d.s = p["k"].s)
                           /\ (p["k"].k = "data" /\ p["k"].w = "F" => act'.res.d.v = p["k"].v /\ act'.res.d.w = "F"))]_vars
AbsentOnlyIfAllowed == [][(p["k"].k # "none" /\ ((act'.op = "gopd" /\ act'.res.r = "undefined") \/ (act'.op = "has" /\ act'.res = "false")))
                             => (p["k"].c = "T" /\ ext = "T")]_vars

TargetMenu == { [NoD EXCEPT !.v = "v1", !.w = "T", !.e = "T", !.c = "T"],
                [NoD EXCEPT !.v = "v1", !.w = "F", !.e = "T", !.c = "F"],
                [NoD EXCEPT !.v = "v1", !.w = "T", !.e = "F", !.c = "F"],
                [NoD EXCEPT !.g = "g1", !.s = "s1", !.e = "T", !.c = "T"],
                [NoD EXCEPT !.g = "g1", !.s = "s1", !.e = "T", !.c = "F"],
                [NoD EXCEPT !.g = "g1", !.e = "F", !.c = "F"],
                [NoD EXCEPT !.s = "s1", !.e = "T", !.c = "F"] }

St == [p |-> p, ext |-> ext, proto |-> proto, revoked |-> revoked]
StP == [p |-> p', ext |-> ext', proto |-> proto', revoked |-> revoked']
Emit == PrintT(ToJson([f |-> St, l |-> act', t |-> StP]))
View == <<p, ext, proto, revoked>>
=============================================================================
