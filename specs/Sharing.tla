------------------------------ MODULE Sharing ------------------------------
(* What goroutines that own different Runtimes share, and why that is free of data races (property C16).

   goja documents: "a Program can be run in any number of Runtimes concurrently" (Compile / RunProgram) and "primitive
   values are goroutine-safe and can be transferred between runtimes" (ToValue).  The objects reachable from both sides are
     prog   the compiled Program: instruction slice, constant values, name maps, the regexp pattern embedded in a
            newRegexp instruction, the source file with its lazily built line-offset table
     istr   an importedString (ToValue of a Go string longer than 16 bytes; results of JSON.stringify): the fields u / scanned
            are computed LAZILY on first use by whichever Runtime gets there first
     prim   immutable primitives (numbers, booleans, ASCII / UTF-16 strings, symbols)
   This module models each access protocol at the granularity of field reads / writes and synchronisation operations, with a
   vector-clock happens-before relation (the relation the Go memory model and the race detector use), and checks
       RaceFree:  no two accesses to one field by different processes, one of them a write, are unordered by happens-before
       Agree:     every process that asked for the lazily computed value saw the same, fully initialised value
   for every interleaving of Procs.  The constant Lazy selects the publication protocol of the lazily computed fields:
       "plain"   check the flag, compute, store fields, set the flag -- no synchronisation (a deliberately broken design: TLC
                 must find the race; used as the mutation control of this module)
       "once"    sync.Once around the computation (the design the implementation is checked against)
   The replayer (harness/cmd/sharing, built with -race) turns every pair of operations that TLC finds concurrently in flight on
   one shared object into a scenario executed by 2..16 goroutines with one Runtime each, released by a barrier; the Go race
   detector is the conformance oracle for RaceFree and the comparison with an isolated run the oracle for Agree.

   Code anchors: string_imported.go (importedString.scan / ensureScanned and every method that calls it), runtime.go ToValue
   (string case), compiler.go Program, vm.go newRegexp.exec (pattern.clone()), regexp.go regexpPattern.clone / createRegexp2,
   file/file.go (File.Position under its mutex), vm.go getTaggedTmplObject (per-Runtime cache), builtin_symbol.go. *)
EXTENDS Integers, Sequences, FiniteSets, TLC, Json

CONSTANTS Procs, Lazy, MaxOps

Objects == {"istr", "prog", "prim"}
\* operations a Runtime performs on a shared object, by the accesses they make
\*   istr:  "scan"  needs the lazily computed fields (length, charAt, compare, hash, indexOf, ...)
\*          "raw"   uses only the immutable Go string (Export, String(), concatenation of two unscanned strings)
\*   prog:  "run"   reads instructions / constants / name maps, clones the regexp pattern of a literal
\*          "pos"   maps a program counter to a source position (stack traces): lazily built line table under a mutex
\*   prim:  "use"   reads an immutable value
Ops == [istr |-> {"scan", "raw"}, prog |-> {"run", "pos"}, prim |-> {"use"}]

Fields == {"istr.s", "istr.u", "istr.scanned", "prog.code", "prog.pattern", "prog.lines", "prim.v"}
Locks == {"file.mu", "istr.once"}

\* micro-steps of one operation: <<kind, target>>
R(f) == <<"r", f>>
W(f) == <<"w", f>>
Steps(obj, op) ==
  CASE obj = "istr" /\ op = "raw" -> <<R("istr.s")>>
    [] obj = "istr" /\ op = "scan" -> (IF Lazy = "plain" THEN <<<<"lazyplain", "istr">>, R("istr.u")>>
                                         ELSE <<<<"once", "istr.once">>, R("istr.u")>>)
    [] obj = "prog" /\ op = "run" -> <<R("prog.code"), R("prog.pattern"), R("prog.code")>>       \* the clone of the pattern is private
    [] obj = "prog" /\ op = "pos" -> <<R("prog.code"), <<"lock", "file.mu">>, <<"lazylocked", "prog.lines">>, <<"unlock", "file.mu">>>>
    [] obj = "prim" -> <<R("prim.v")>>

VARIABLES pcs,      \* process -> remaining micro-steps of its current operation
          cur,      \* process -> [obj, op] in flight (Idle when none)
          nops,     \* process -> operations started so far
          vc,       \* process -> vector clock
          lvc,      \* lock / once -> vector clock released into it
          held,     \* lock -> holder or "none"
          once,     \* once object -> "new" | "running" | "done"
          wr,       \* field -> last write epoch [p, c] (p = "none" if never written after initialisation)
          rd,       \* field -> process -> clock of its last read
          mem,      \* the lazily computed fields' state: field -> "unset" | "set"
          seen,     \* process -> what a completed "scan" observed ("none" | "set" | "torn")
          races,    \* set of racing access pairs found so far
          act
vars == <<pcs, cur, nops, vc, lvc, held, once, wr, rd, mem, seen, races, act>>

Idle == [obj |-> "-", op |-> "-"]
Zero == [q \in Procs |-> 0]
Join(a, b) == [q \in Procs |-> IF a[q] > b[q] THEN a[q] ELSE b[q]]
Tick(p) == [vc EXCEPT ![p][p] = @ + 1]

Init == /\ pcs = [p \in Procs |-> <<>>] /\ cur = [p \in Procs |-> Idle] /\ nops = [p \in Procs |-> 0]
        /\ vc = [p \in Procs |-> [q \in Procs |-> IF q = p THEN 1 ELSE 0]]
        /\ lvc = [l \in Locks |-> Zero] /\ held = [l \in Locks |-> "none"] /\ once = [l \in Locks |-> "new"]
        /\ wr = [f \in Fields |-> [p |-> "none", c |-> 0]] /\ rd = [f \in Fields |-> Zero]
        /\ mem = [f \in Fields |-> "unset"] /\ seen = [p \in Procs |-> "none"] /\ races = {} /\ act = [op |-> "init"]

\* happens-before of an earlier access epoch [q, c] to process p's current point
HB(q, c, p) == q = "none" \/ q = p \/ c <= vc[p][q]
\* the accesses a read / write by p of field f races with
ReadRaces(p, f) == IF HB(wr[f].p, wr[f].c, p) THEN {} ELSE {[f |-> f, a |-> "w", b |-> "r"]}
WriteRaces(p, f) == (IF HB(wr[f].p, wr[f].c, p) THEN {} ELSE {[f |-> f, a |-> "w", b |-> "w"]})
                    \cup {[f |-> f, a |-> "r", b |-> "w"] : q \in {q \in Procs : q # p /\ rd[f][q] > vc[p][q]}}

DoRead(p, f) == /\ races' = races \cup ReadRaces(p, f) /\ rd' = [rd EXCEPT ![f][p] = vc[p][p]] /\ UNCHANGED wr
DoWrite(p, f) == /\ races' = races \cup WriteRaces(p, f) /\ wr' = [wr EXCEPT ![f] = [p |-> p, c |-> vc[p][p]]] /\ UNCHANGED rd

Start(p, obj, op) ==
  /\ cur[p] = Idle /\ nops[p] < MaxOps
  /\ cur' = [cur EXCEPT ![p] = [obj |-> obj, op |-> op]] /\ pcs' = [pcs EXCEPT ![p] = Steps(obj, op)]
  /\ nops' = [nops EXCEPT ![p] = @ + 1]
  /\ act' = [op |-> "start", p |-> p, obj |-> obj, o |-> op,
             \* the operations of the other processes that are in flight on the same object right now
             with |-> {cur[q].op : q \in {q \in Procs : q # p /\ cur[q] # Idle /\ cur[q].obj = obj}}]
  /\ UNCHANGED <<vc, lvc, held, once, wr, rd, mem, seen, races>>

Finish(p) ==
  /\ cur[p] # Idle /\ pcs[p] = <<>>
  /\ cur' = [cur EXCEPT ![p] = Idle] /\ act' = [op |-> "finish", p |-> p]
  /\ UNCHANGED <<pcs, nops, vc, lvc, held, once, wr, rd, mem, seen, races>>

Step(p) ==
  /\ pcs[p] # <<>>
  /\ LET s == Head(pcs[p]) rest == Tail(pcs[p]) IN
     /\ act' = [op |-> "step", p |-> p, k |-> s[1]]
     /\ CASE s[1] = "r" ->
               /\ DoRead(p, s[2]) /\ vc' = Tick(p) /\ pcs' = [pcs EXCEPT ![p] = rest]
               /\ seen' = IF s[2] = "istr.u" THEN [seen EXCEPT ![p] = IF mem["istr.u"] = "set" THEN "set" ELSE "torn"] ELSE seen
               /\ UNCHANGED <<lvc, held, once, mem>>
          [] s[1] = "w" ->
               /\ DoWrite(p, s[2]) /\ vc' = Tick(p) /\ pcs' = [pcs EXCEPT ![p] = rest]
               /\ mem' = [mem EXCEPT ![s[2]] = "set"] /\ UNCHANGED <<lvc, held, once, seen>>
          \* if !scanned { u = scan(s); scanned = true }      -- no synchronisation
          [] s[1] = "lazyplain" ->
               /\ DoRead(p, "istr.scanned") /\ vc' = Tick(p)
               /\ pcs' = [pcs EXCEPT ![p] = IF mem["istr.scanned"] = "set" THEN rest
                                              ELSE <<R("istr.s"), W("istr.u"), W("istr.scanned")>> \o rest]
               /\ UNCHANGED <<lvc, held, once, mem, seen>>
          \* once.Do(func() { u = scan(s); scanned = true })
          [] s[1] = "once" ->
               (IF once[s[2]] = "done"
                THEN /\ vc' = [vc EXCEPT ![p] = Join(@, lvc[s[2]])] /\ pcs' = [pcs EXCEPT ![p] = rest]          \* acquire
                     /\ UNCHANGED <<lvc, held, once, wr, rd, mem, seen, races>>
                ELSE /\ once[s[2]] = "new"                                                                     \* "running": wait
                     /\ once' = [once EXCEPT ![s[2]] = "running"]
                     /\ pcs' = [pcs EXCEPT ![p] = <<R("istr.s"), W("istr.u"), W("istr.scanned"), <<"oncedone", s[2]>>>> \o rest]
                     /\ UNCHANGED <<vc, lvc, held, wr, rd, mem, seen, races>>)
          [] s[1] = "oncedone" ->
               /\ once' = [once EXCEPT ![s[2]] = "done"] /\ lvc' = [lvc EXCEPT ![s[2]] = Join(@, vc[p])]          \* release
               /\ vc' = Tick(p) /\ pcs' = [pcs EXCEPT ![p] = rest] /\ UNCHANGED <<held, wr, rd, mem, seen, races>>
          [] s[1] = "lock" ->
               /\ held[s[2]] = "none" /\ held' = [held EXCEPT ![s[2]] = p]
               /\ vc' = [vc EXCEPT ![p] = Join(@, lvc[s[2]])] /\ pcs' = [pcs EXCEPT ![p] = rest]
               /\ UNCHANGED <<lvc, once, wr, rd, mem, seen, races>>
          [] s[1] = "unlock" ->
               /\ held' = [held EXCEPT ![s[2]] = "none"] /\ lvc' = [lvc EXCEPT ![s[2]] = Join(@, vc[p])]
               /\ vc' = Tick(p) /\ pcs' = [pcs EXCEPT ![p] = rest] /\ UNCHANGED <<once, wr, rd, mem, seen, races>>
          \* under the lock: build the table on first use, then read it
          [] s[1] = "lazylocked" ->
               /\ pcs' = [pcs EXCEPT ![p] = (IF mem[s[2]] = "set" THEN <<R(s[2])>> ELSE <<W(s[2]), R(s[2])>>) \o rest]
               /\ UNCHANGED <<vc, lvc, held, once, wr, rd, mem, seen, races>>
  /\ UNCHANGED <<cur, nops>>

Next == \E p \in Procs : (\E obj \in Objects : \E op \in Ops[obj] : Start(p, obj, op)) \/ Step(p) \/ Finish(p)
Spec == Init /\ [][Next]_vars

-----------------------------------------------------------------------------
RaceFree == races = {}
\* nobody observes a half-initialised lazily computed value
Agree == \A p \in Procs : seen[p] # "torn"
\* the immutable parts are never written
Immutable == \A f \in {"istr.s", "prog.code", "prog.pattern", "prim.v"} : wr[f].p = "none"
TypeOK == \A l \in Locks : held[l] \in Procs \cup {"none"}

\* scenarios for the replayer: an operation that starts while others are in flight on the same object
Emit == IF act'.op = "start" /\ act'.with # {} THEN PrintT(ToJson([obj |-> act'.obj, o |-> act'.o, with |-> act'.with])) ELSE TRUE
View == <<pcs, cur, nops, vc, lvc, held, once, wr, rd, mem, seen, races>>
=============================================================================
