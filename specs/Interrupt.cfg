SPECIFICATION Spec
CONSTANTS
  NI = 2
  MaxInstr = 4
  MaxRuns = 2
  MaxClear = 1
  PollEvery = 1
INVARIANTS Prompt CarriesSetValue ErrFromStarted IdleClean
PROPERTIES NestedKeepsFlag Stops
CHECK_DEADLOCK FALSE
