----------------------------- MODULE RegExpProto -----------------------------
(* The RegExp PROTOCOL around an abstract matcher (property C20, protocol half).

   What is modelled (clause numbers of ECMA-262, 14th edition 2023): 22.2.7.2 RegExpBuiltinExec (lastIndex read with ToLength and honoured only under g / y,
   the scan loop with AdvanceStringIndex, sticky = one attempt AT lastIndex, write-back of the end index on success and
   of 0 on failure under g / y, index / end counted in UTF-16 code units also under u), 22.2.6.16 test, 22.2.6.8
   @@match (global loop from 0 with AdvanceStringIndex after an empty match), 22.2.6.9 @@matchAll (clone that inherits
   ToLength(lastIndex), original untouched) + the TypeError of String.prototype.matchAll for a non-global regexp
   (22.1.3.13), 22.2.6.11 @@replace (result list, position / nextSourcePosition accumulation, GetSubstitution for
   $& $` $' $n, replacer function arguments), 22.2.6.12 @@search (lastIndex := 0, restored afterwards, g ignored,
   y honoured), 22.2.6.14 @@split (sticky clone, p / q loop, captures spliced in, limit), user writes to lastIndex,
   and the constructor's flag validation (22.2.3.3 RegExpInitialize: only "dgimsuvy" letters, each at most once,
   otherwise SyntaxError; 22.2.6.4 get flags: canonical order) + a small decision table of pattern sources that are
   early errors (22.2.1.1).  Every operation that goes through 22.2.7.1 RegExpExec also carries the specified NUMBER
   of RegExpExec calls (field xc of the result): RegExpExec calls the object's "exec" property when it is callable, so
   the count is observable through a wrapper installed on RegExp.prototype.exec (test: 1; match / replace: 1, or
   matches + 1 under g; matchAll: matches + 1 under g, else 1; search: 1; split: one per probed position).

   What is NOT modelled: regular-expression engine semantics.  The matcher is defined by brute force for a menu of
   thirteen patterns built from one-character classes, ordered alternation, one greedy star, ^ / $ and one capture
   group (operator MatchAt: ordered alternatives, backtracking into the star), over subjects that are sequences of
   four code-unit classes:  a, b, H (a high surrogate) and L (a low surrogate); "H L" adjacent is a surrogate pair
   = ONE character under u (class X, two code units wide), two characters otherwise; lone H / lone L are
   characters of their own in both modes.  The flags i, m, s are semantically neutral on this alphabet (no letters
   with case variants, no line terminators) and appear only to check that they do not disturb the protocol.
   Under u a lastIndex that points between the two halves of a pair is excluded wherever it would be honoured
   (guard BadMid): how the matcher snaps there is the engine's business.  Because every index the protocol produces
   under u is then a character boundary, the matcher works directly on code-unit indices with a per-character width
   (this fuses steps 11-15 of RegExpBuiltinExec: StringToCodePoints / inputIndex / GetStringIndex).

   Code anchors in /repo: regexp.go (regexpObject.execRegexp / getLastIndex, regexpPattern.findSubmatchIndex /
   findAllSubmatchIndex: Go regexp when the pattern compiles for it AND start = 0, regexp2 otherwise; the UTF-8 /
   UTF-16 / code-point position maps buildUTF8PosMap, buildPosMap, posMapReverseLookup), builtin_regexp.go
   (compileRegexp: flag parsing and engine choice; regexpproto_stdMatcher / stdReplacer / stdSearch / stdSplitter =
   the optimised paths behind checkStdRegexp, *Generic = the protocol paths; getGlobalRegexpMatches,
   advanceStringIndex, regExpStringIterObject.next), builtin_string.go (stringproto_match / matchAll / replace /
   search / split, stringReplace, writeSubstitution).

   Binding: every transition is replayed on a real RegExp object in FOUR configurations (pattern as is = Go regexp
   where possible | neutral variant "(?:P)(?=)" = regexp2 only) x (pristine RegExp.prototype = optimised paths |
   RegExp.prototype.exec replaced by an identity wrapper = generic protocol paths); all four must give the specified
   result, the specified lastIndex and the canonical flags.  The wrapper counts its calls: in the two wrapped
   configurations xc is measured, in the two pristine ones it cannot be observed and is passed through.

   Bounds: subjects = all sequences over {a,b,H,L} of length <= MaxLen plus the set Extra; lastIndex values
   {-1, 0 .. 4, 9} (9 = beyond every subject; -1 = a user-written negative, ToLength gives 0); flag sets FlagSets;
   constructor flag strings of length <= CtorLen over "gimsuy" + the invalid letter x.  Objects whose flags include
   i, m or s are driven over the short subjects only (SubjOK).
   Sizes: quick (11 patterns, 8 flag sets, 40 subjects) 543 states / 240,432 transitions, TLC ~10 s; thorough = one run
   per pattern (11 flag sets, all 341 subjects of length <= 4) ~80 states / ~223,000 transitions each. *)
EXTENDS Integers, Sequences, FiniteSets, TLC, Json

CONSTANTS Pats,       \* pattern names (subset of AllPats)
          FlagSets,   \* set of flag sets, e.g. {{}, {"g"}, {"g","y"}}
          MaxLen,     \* subjects: every sequence over Units of length <= MaxLen ...
          Extra,      \* ... plus these sequences
          CtorLen,    \* constructor flag strings up to this length (-1: no constructor checks in this run)
          Reps        \* replacement kinds used by Replace

VARIABLES pat,        \* "none" before construction, then the pattern name
          flags,      \* set of flag letters
          li,         \* value of the lastIndex property (an integer in this model)
          act         \* last action with arguments and SPECIFIED result (output only, hidden by VIEW)
vars == <<pat, flags, li, act>>

AllPats == {"a", "ab", "(?:)", "b*", "b{0,2}", "a|b", ".", "^a", "a$", "astral", "loneH", "(a)|b", "(?<n>a)|b"}
Units == {"a", "b", "H", "L"}
Subjects == UNION {[1..k -> Units] : k \in 0..MaxLen} \cup Extra
UserLI == {-1, 0, 1, 2, 9}

Min(S) == CHOOSE x \in S : \A y \in S : x <= y
Max(S) == CHOOSE x \in S : \A y \in S : x >= y
RECURSIVE Str(_)
Str(s) == IF s = <<>> THEN "" ELSE Head(s) \o Str(Tail(s))
\* the substring of code units [i, j) (0-based, half-open) as a string
Sub(S, i, j) == Str(SubSeq(S, i + 1, j))

FlagStr(f) == (IF "g" \in f THEN "g" ELSE "") \o (IF "i" \in f THEN "i" ELSE "") \o (IF "m" \in f THEN "m" ELSE "") \o
              (IF "s" \in f THEN "s" ELSE "") \o (IF "u" \in f THEN "u" ELSE "") \o (IF "y" \in f THEN "y" ELSE "")
U(f) == "u" \in f
G(f) == "g" \in f
Y(f) == "y" \in f
GY(f) == G(f) \/ Y(f)

-----------------------------------------------------------------------------
\* Characters of a subject.  All indices are 0-based UTF-16 code-unit indices.
IsPair(S, i) == i >= 0 /\ i + 2 <= Len(S) /\ S[i + 1] = "H" /\ S[i + 2] = "L"   \* units i, i+1 form a surrogate pair
Mid(S, i) == i >= 1 /\ IsPair(S, i - 1)                                         \* i points between the two halves
\* the character that starts at unit i (0 <= i < Len(S)): class and width
Ch(S, i, u) == IF u /\ IsPair(S, i) THEN [c |-> "X", w |-> 2] ELSE [c |-> S[i + 1], w |-> 1]
\* 22.2.7.3 AdvanceStringIndex
Adv(S, i, u) == IF u /\ IsPair(S, i) THEN i + 2 ELSE i + 1
\* 7.1.20 ToLength on the integers of this model
ToLen(v) == IF v < 0 THEN 0 ELSE v

-----------------------------------------------------------------------------
\* The abstract matcher.  A pattern is a sequence of alternatives (tried in order), an alternative a sequence of
\* atoms: one character of a class set, a greedy star over a class set, or an assertion.
C1(s) == [t |-> "c", s |-> s]
Star(s) == [t |-> "star", s |-> s, n |-> -1]
Rep(s, n) == [t |-> "star", s |-> s, n |-> n]             \* the counted quantifier {0,n}: greedy, at most n characters
Bol == [t |-> "bol", s |-> {}]
Eol == [t |-> "eol", s |-> {}]
\* the matcher's mode: u (code points), ml (multiline: ^ / $ also at line terminators), ds (dotAll: . also matches a line terminator)
Md(f) == [u |-> "u" \in f, ml |-> "m" \in f, ds |-> "s" \in f]
AnyChar(m) == (IF m.u THEN {"a", "b", "H", "L", "X"} ELSE {"a", "b", "H", "L"}) \cup (IF m.ds THEN {"n"} ELSE {})
Alts(p, m) ==
  CASE p = "a"      -> << <<C1({"a"})>> >>
    [] p = "ab"     -> << <<C1({"a"}), C1({"b"})>> >>
    [] p = "(?:)"   -> << <<>> >>
    [] p = "b*"     -> << <<Star({"b"})>> >>
    [] p = "b{0,2}" -> << <<Rep({"b"}, 2)>> >>
    [] p = "a|b"    -> << <<C1({"a"})>>, <<C1({"b"})>> >>
    [] p = "."      -> << <<C1(AnyChar(m))>> >>
    [] p = "^a"     -> << <<Bol, C1({"a"})>> >>
    [] p = "a$"     -> << <<C1({"a"}), Eol>> >>
    \* the source text is one astral character: one code point under u, its two code units otherwise
    [] p = "astral" -> IF m.u THEN << <<C1({"X"})>> >> ELSE << <<C1({"H"}), C1({"L"})>> >>
    \* \uD835: under u only a LONE high surrogate is this character (the half of a pair is part of X)
    [] p = "loneH"  -> << <<C1({"H"})>> >>
    [] p = "(a)|b"  -> << <<C1({"a"})>>, <<C1({"b"})>> >>
    \* the same with a named group (the adaptor requires groups.n to be the capture)
    [] p = "(?<n>a)|b"  -> << <<C1({"a"})>>, <<C1({"b"})>> >>
\* the alternative that is wrapped in capture group 1 (0: the pattern has no group)
CapAlt(p) == IF p \in {"(a)|b", "(?<n>a)|b"} THEN 1 ELSE 0
NCaps(p) == IF CapAlt(p) = 0 THEN 0 ELSE 1

\* positions reached after 0, 1, 2 ... characters of class set s starting at i (increasing)
RECURSIVE Reach(_, _, _, _)
Reach(S, i, s, m) == IF i < Len(S) /\ Ch(S, i, m.u).c \in s THEN <<i>> \o Reach(S, i + Ch(S, i, m.u).w, s, m) ELSE <<i>>
\* end index of the match of atoms at[k..] at index i, -1 = failure (22.2.2 semantics of this fragment: a character
\* atom consumes one character, the star is greedy and gives characters back on failure of the continuation)
RECURSIVE MSeq(_, _, _, _, _)
MSeq(at, k, S, i, m) ==
  IF k > Len(at) THEN i
  ELSE LET a == at[k] IN
       CASE a.t = "c"    -> IF i < Len(S) /\ Ch(S, i, m.u).c \in a.s THEN MSeq(at, k + 1, S, i + Ch(S, i, m.u).w, m) ELSE -1
         [] a.t = "bol"  -> IF i = 0 \/ (m.ml /\ S[i] = "n") THEN MSeq(at, k + 1, S, i, m) ELSE -1
         [] a.t = "eol"  -> IF i = Len(S) \/ (m.ml /\ S[i + 1] = "n") THEN MSeq(at, k + 1, S, i, m) ELSE -1
         [] a.t = "star" -> LET r0 == Reach(S, i, a.s, m)
                                r == IF a.n >= 0 /\ Len(r0) > a.n + 1 THEN SubSeq(r0, 1, a.n + 1) ELSE r0
                                ok == {n \in 1..Len(r) : MSeq(at, k + 1, S, r[n], m) # -1}
                            IN IF ok = {} THEN -1 ELSE MSeq(at, k + 1, S, r[Max(ok)], m)
\* the matcher at index i: end index e (-1 = failure) and the captures
MatchAt(p, S, i, m) ==
  LET A == Alts(p, m)
      hit == {n \in 1..Len(A) : MSeq(A[n], 1, S, i, m) # -1}
  IN IF hit = {} THEN [e |-> -1, c |-> <<>>]
     ELSE LET n == Min(hit) e == MSeq(A[n], 1, S, i, m)
          IN [e |-> e, c |-> IF CapAlt(p) = 0 THEN <<>> ELSE IF n = CapAlt(p) THEN <<Sub(S, i, e)>> ELSE <<"undef">>]

-----------------------------------------------------------------------------
\* 22.2.7.2 RegExpBuiltinExec.  l = current value of the lastIndex property.  Result: ok, match index i, end e,
\* matched substring m, captures c and the value of the lastIndex property afterwards.
Fail == [i |-> -1, e |-> -1, c |-> <<>>]
RECURSIVE Scan(_, _, _, _)
Scan(p, f, S, i) ==                                             \* step 13
  IF i > Len(S) THEN Fail
  ELSE LET m == MatchAt(p, S, i, Md(f)) IN
       IF m.e # -1 THEN [i |-> i, e |-> m.e, c |-> m.c]
       ELSE IF Y(f) THEN Fail
       ELSE Scan(p, f, S, Adv(S, i, U(f)))
Exec(p, f, S, l) ==
  LET start == IF GY(f) THEN ToLen(l) ELSE 0                    \* steps 2, 7
      r == Scan(p, f, S, start)
  IN IF r.i = -1 THEN [ok |-> FALSE, i |-> -1, e |-> -1, m |-> "", c |-> <<>>, li |-> IF GY(f) THEN 0 ELSE l]
     ELSE [ok |-> TRUE, i |-> r.i, e |-> r.e, m |-> Sub(S, r.i, r.e), c |-> r.c, li |-> IF GY(f) THEN r.e ELSE l]
\* the match object as the script sees it
Arr(x) == IF x.ok THEN [i |-> x.i, m |-> x.m, c |-> x.c] ELSE "null"

\* the loop shared by @@match, @@replace (global) and the RegExp String Iterator: exec until failure, stepping over
\* empty matches with AdvanceStringIndex
RECURSIVE Loop(_, _, _, _)
Loop(p, f, S, l) ==
  LET x == Exec(p, f, S, l) IN
  IF ~x.ok THEN <<>>
  ELSE <<x>> \o Loop(p, f, S, IF x.m = "" THEN Adv(S, ToLen(x.li), U(f)) ELSE x.li)

\* honouring lastIndex l under u would start the matcher in the middle of a surrogate pair
BadMid(f, S, l) == U(f) /\ Mid(S, ToLen(l))

-----------------------------------------------------------------------------
\* 22.1.3.18.1 GetSubstitution for the templates of this model, and the replacer function ("<" + matched + ">")
Repl(x, S, r) ==
  CASE r = "x"    -> "x"
    [] r = "$&"   -> x.m
    [] r = "$&$&" -> x.m \o x.m
    \* "<$`|$1|$'>": $1 is the capture ("" when undefined) if the pattern has a group, else the two literal characters
    [] r = "tpl"  -> "<" \o Sub(S, 0, x.i) \o "|" \o (IF Len(x.c) = 0 THEN "$1" ELSE IF x.c[1] = "undef" THEN "" ELSE x.c[1])
                         \o "|" \o Sub(S, x.e, Len(S)) \o ">"
    [] r = "fn"   -> "<" \o x.m \o ">"
\* 22.2.6.11 steps 14-16
RECURSIVE Build(_, _, _, _, _)
Build(rs, k, np, S, r) ==
  IF k > Len(rs) THEN (IF np >= Len(S) THEN "" ELSE Sub(S, np, Len(S)))
  ELSE LET x == rs[k] IN
       IF x.i >= np THEN Sub(S, np, x.i) \o Repl(x, S, r) \o Build(rs, k + 1, x.e, S, r)
       ELSE Build(rs, k + 1, np, S, r)

\* 22.2.6.14 steps 13-20 (size > 0).  sf = flags of the splitter (with y), A = pieces so far, lim = 99: no limit,
\* n = number of RegExpExec calls so far.  Result: the pieces and the number of calls.
Cut(A, lim) == IF Len(A) > lim THEN SubSeq(A, 1, lim) ELSE A
RECURSIVE SplitLoop(_, _, _, _, _, _, _, _)
SplitLoop(p, sf, S, pp, q, A, lim, n) ==
  IF q >= Len(S) THEN [a |-> Append(A, Sub(S, pp, Len(S))), n |-> n]
  ELSE LET x == Exec(p, sf, S, q) IN
       IF ~x.ok THEN SplitLoop(p, sf, S, pp, Adv(S, q, U(sf)), A, lim, n + 1)
       ELSE LET e == IF x.li > Len(S) THEN Len(S) ELSE x.li IN
            IF e = pp THEN SplitLoop(p, sf, S, pp, Adv(S, q, U(sf)), A, lim, n + 1)
            ELSE LET A1 == Append(A, Sub(S, pp, q)) IN
                 IF Len(A1) >= lim THEN [a |-> A1, n |-> n + 1]
                 ELSE LET A2 == A1 \o x.c IN
                      IF Len(A2) >= lim THEN [a |-> Cut(A2, lim), n |-> n + 1] ELSE SplitLoop(p, sf, S, e, e, A2, lim, n + 1)
SplitFull(p, f, S, lim) ==
  LET sf == f \cup {"y"} IN
  IF lim = 0 THEN [a |-> <<>>, n |-> 0]
  ELSE IF Len(S) = 0 THEN [a |-> IF Exec(p, sf, S, 0).ok THEN <<>> ELSE <<"">>, n |-> 1]
  ELSE SplitLoop(p, sf, S, 0, 0, <<>>, lim, 0)
SplitRes(p, f, S, lim) == SplitFull(p, f, S, lim).a

-----------------------------------------------------------------------------
Init == pat = "none" /\ flags = {} /\ li = 0 /\ act = [op |-> "init"]
Live == pat # "none"
Keep == UNCHANGED <<pat, flags>>

\* new RegExp(source of p, flags): lastIndex starts at 0
Create(p, f) ==
  /\ pat = "none" /\ pat' = p /\ flags' = f /\ li' = 0
  /\ act' = [op |-> "create", p |-> p, f |-> FlagStr(f), res |-> "ok"]

\* new RegExp("a", fs) for a flag STRING fs (sequence of letters): SyntaxError unless every letter is a flag and
\* occurs once; otherwise .flags is the canonical ordering
Letters == {"g", "i", "m", "s", "u", "y", "x"}
Ctor(fs) ==
  /\ pat = "none" /\ UNCHANGED <<pat, flags, li>>
  /\ LET rng == {fs[k] : k \in 1..Len(fs)}
         valid == "x" \notin rng /\ Cardinality(rng) = Len(fs)
     IN act' = [op |-> "ctor", fl |-> Str(fs), res |-> IF valid THEN [flags |-> FlagStr(rng)] ELSE "SyntaxError"]

\* A decision table of pattern sources: early errors in every mode | only under u | never (22.2.1, 22.2.1.1).
\* NOT in the table: sources that only the RESTRICTED grammar of the u mode rejects while Annex B.1.2 accepts them
\* otherwise ("{", "]", "\-", "a{1", "\1", "(?=a)*", "\k<n>" ...) and duplicate group names -- goja documents both
\* as unsupported (tc39_test.go skip list: "restricted unicode regexp syntax", "invalid-duplicate-groupspecifier").
SyntaxTable == {
  [src |-> "(", bad |-> "always"], [src |-> ")", bad |-> "always"], [src |-> "[", bad |-> "always"], [src |-> "[a", bad |-> "always"],
  [src |-> "a**", bad |-> "always"], [src |-> "*", bad |-> "always"], [src |-> "+", bad |-> "always"], [src |-> "?", bad |-> "always"],
  [src |-> "a|*", bad |-> "always"], [src |-> "\\", bad |-> "always"], [src |-> "a{2,1}", bad |-> "always"], [src |-> "[b-a]", bad |-> "always"],
  [src |-> "(?a)", bad |-> "always"], [src |-> "(?:", bad |-> "always"], [src |-> "(?<1a>x)", bad |-> "always"], [src |-> "(?<n>", bad |-> "always"],
  [src |-> "\\u{110000}", bad |-> "u"],
  [src |-> "a{1}", bad |-> "never"], [src |-> "a{1,}", bad |-> "never"], [src |-> "[a-b]", bad |-> "never"], [src |-> "(?<n>a)\\k<n>", bad |-> "never"],
  [src |-> "\\u{1D4B3}", bad |-> "never"], [src |-> "(?=a)", bad |-> "never"], [src |-> "(?!a)", bad |-> "never"], [src |-> "\\$", bad |-> "never"],
  [src |-> "(?:)", bad |-> "never"], [src |-> "[]", bad |-> "never"], [src |-> "[^]", bad |-> "never"], [src |-> "a|", bad |-> "never"] }
CtorPat(e, uf) ==
  /\ pat = "none" /\ UNCHANGED <<pat, flags, li>>
  /\ act' = [op |-> "ctorpat", src |-> e.src, f |-> uf,
             res |-> IF e.bad = "always" \/ (e.bad = "u" /\ uf = "u") THEN "SyntaxError" ELSE "ok"]

SetLI(v) == /\ Live /\ Keep /\ li' = v /\ act' = [op |-> "setli", v |-> v, res |-> "ok"]

\* re.exec(S) / re.test(S)
ExecA(S) ==
  /\ Live /\ Keep /\ ~(GY(flags) /\ BadMid(flags, S, li))
  /\ LET x == Exec(pat, flags, S, li) IN
     /\ li' = x.li
     /\ act' = [op |-> "exec", s |-> Str(S), res |-> Arr(x)]
TestA(S) ==
  /\ Live /\ Keep /\ ~(GY(flags) /\ BadMid(flags, S, li))
  /\ LET x == Exec(pat, flags, S, li) IN
     /\ li' = x.li
     /\ act' = [op |-> "test", s |-> Str(S), res |-> [v |-> x.ok, xc |-> 1]]

\* S.match(re): 22.2.6.8
MatchA(S) ==
  /\ Live /\ Keep
  /\ IF G(flags)
     THEN LET rs == Loop(pat, flags, S, 0) IN
          /\ li' = 0                                  \* the exec that ends the loop failed under g
          /\ act' = [op |-> "match", s |-> Str(S), res |-> [v |-> IF rs = <<>> THEN "null" ELSE [ms |-> [k \in 1..Len(rs) |-> rs[k].m]],
                                                            xc |-> Len(rs) + 1]]
     ELSE /\ ~(Y(flags) /\ BadMid(flags, S, li))
          /\ LET x == Exec(pat, flags, S, li) IN
             /\ li' = x.li
             /\ act' = [op |-> "match", s |-> Str(S), res |-> [v |-> Arr(x), xc |-> 1]]

\* S.matchAll(re) for a global re, re[Symbol.matchAll](S) otherwise: 22.2.6.9 + 22.2.9.
\* The matcher is a clone whose lastIndex is ToLength(re.lastIndex); re itself is not written.
MatchAllA(S) ==
  /\ Live /\ Keep /\ UNCHANGED li
  /\ ~(GY(flags) /\ BadMid(flags, S, li))
  /\ LET rs == IF G(flags) THEN Loop(pat, flags, S, ToLen(li))
               ELSE (LET x == Exec(pat, flags, S, ToLen(li)) IN IF x.ok THEN <<x>> ELSE <<>>)
     IN act' = [op |-> "matchAll", via |-> IF G(flags) THEN "str" ELSE "sym", s |-> Str(S),
                res |-> [v |-> [k \in 1..Len(rs) |-> Arr(rs[k])],
                         \* the iterator stops after the first result of a non-global matcher without another exec
                         xc |-> IF G(flags) THEN Len(rs) + 1 ELSE 1]]
\* String.prototype.matchAll step 2.b: a regexp argument without g is a TypeError
MatchAllTE ==
  /\ Live /\ Keep /\ UNCHANGED li /\ ~G(flags)
  /\ act' = [op |-> "matchAll", via |-> "str", s |-> "", res |-> [v |-> "TypeError", xc |-> 0]]

\* S.replace(re, r): 22.2.6.11
ReplaceA(S, r) ==
  /\ Live /\ Keep
  /\ ~(~G(flags) /\ Y(flags) /\ BadMid(flags, S, li))
  /\ LET x == Exec(pat, flags, S, li)
         rs == IF G(flags) THEN Loop(pat, flags, S, 0) ELSE IF x.ok THEN <<x>> ELSE <<>>
         out == Build(rs, 1, 0, S, r)
     IN /\ li' = IF G(flags) THEN 0 ELSE x.li
        /\ act' = [op |-> "replace", s |-> Str(S), r |-> r,
                   res |-> [v |-> IF r = "fn" THEN [s |-> out, calls |-> [k \in 1..Len(rs) |-> [m |-> rs[k].m, c |-> rs[k].c, p |-> rs[k].i]]]
                                        ELSE [s |-> out],
                            xc |-> IF G(flags) THEN Len(rs) + 1 ELSE 1]]

\* S.search(re): 22.2.6.12 -- lastIndex is set to 0 for the exec and restored afterwards
SearchA(S) ==
  /\ Live /\ Keep /\ UNCHANGED li
  /\ LET x == Exec(pat, flags, S, 0) IN
     act' = [op |-> "search", s |-> Str(S), res |-> [v |-> IF x.ok THEN x.i ELSE -1, xc |-> 1]]

\* S.split(re, lim): 22.2.6.14 -- works on a sticky clone, re itself is not written
SplitA(S, lim) ==
  /\ Live /\ Keep /\ UNCHANGED li
  /\ LET r == SplitFull(pat, flags, S, lim) IN
     act' = [op |-> "split", s |-> Str(S), lim |-> lim, res |-> [v |-> r.a, xc |-> r.n]]

\* longer subjects with surrogate pairs in every position relative to lastIndex 0, 1, 2
\* subjects with a line terminator ("n" = U+000A): the flags m and s matter only there
NLSubjects == { <<"n">>, <<"a", "n">>, <<"n", "a">>, <<"a", "n", "a">>, <<"b", "n", "a", "b">>, <<"a", "n", "n", "a">>, <<"a", "n", "b">>, <<"a", "b", "n">> }
ExtraQuick == { <<"a", "H", "L">>, <<"H", "L", "a">>, <<"H", "L", "b">>, <<"b", "H", "L">>, <<"a", "a", "b">>, <<"a", "b", "b">>,
                <<"b", "a", "b">>, <<"a", "b", "a">>, <<"b", "b", "a">>, <<"H", "L", "H">>, <<"L", "H", "L">>, <<"H", "H", "L">>,
                <<"a", "H", "L", "b">>, <<"H", "L", "H", "L">>, <<"a", "b", "a", "b">>, <<"b", "H", "L", "a">>, <<"a", "a", "H", "L">>,
                <<"H", "L", "a", "b">>, <<"b", "b", "a", "b">> } \cup NLSubjects
\* the flags i, m, s matter on few subjects only: objects that carry one of them are driven over the short subjects
SmallSubjects == UNION {[1..k -> Units] : k \in 0..2} \cup ExtraQuick
\* (IF, not \/: TLC would enumerate a transition once per true disjunct)
SubjOK(S) == IF flags \cap {"i", "m", "s"} = {} THEN TRUE ELSE S \in SmallSubjects

Next ==
  \/ \E p \in Pats, f \in FlagSets : Create(p, f)
  \/ \E k \in 0..CtorLen : \E fs \in [1..k -> Letters] : Ctor(fs)
  \/ (CtorLen >= 0 /\ \E e \in SyntaxTable, uf \in {"", "u"} : CtorPat(e, uf))
  \/ \E v \in UserLI : SetLI(v)
  \/ \E S \in Subjects :
       /\ SubjOK(S)
       /\ \/ ExecA(S) \/ TestA(S) \/ MatchA(S) \/ MatchAllA(S) \/ SearchA(S)
          \/ \E r \in Reps : ReplaceA(S, r)
          \/ \E lim \in {99, 2} : SplitA(S, lim)
  \/ MatchAllTE
  \/ SplitA(<<"a", "b">>, 0)

Spec == Init /\ [][Next]_vars

-----------------------------------------------------------------------------
\* Properties checked by TLC on every state / transition

LIRange == li \in {-1, 0, 1, 2, 3, 4, 9} /\ (pat = "none" => li = 0)
PatOK == pat \in Pats \cup {"none"} /\ (pat # "none" => flags \in FlagSets)

\* --- the lastIndex protocol, as properties of transitions -------------------------------------------------------
\* without g and y the lastIndex property is never written by the engine
FrozenLI == [][(Live /\ ~GY(flags) /\ act'.op # "setli") => li' = li]_vars
\* search, split and matchAll never change lastIndex, whatever the flags
Preserve == [][(act'.op \in {"search", "split", "matchAll"}) => li' = li]_vars
\* match / replace with g always end with lastIndex 0
GlobalReset == [][(Live /\ G(flags) /\ act'.op \in {"match", "replace"}) => li' = 0]_vars
\* under g or y the engine leaves lastIndex inside the subject it was applied to
Inside == [][(Live /\ GY(flags) /\ act'.op \in {"exec", "test", "match", "replace"}) => (li' >= 0 /\ li' <= Len(act'.s))]_vars

\* --- RegExpBuiltinExec in the current state, for every subject ---------------------------------------------------
Bound(S, i) == ~(U(flags) /\ Mid(S, i))           \* i is a character boundary in the current mode
ExecOK(S) ==
  LET x == Exec(pat, flags, S, li)
      start == IF GY(flags) THEN ToLen(li) ELSE 0
  IN /\ ~GY(flags) => x.li = li
     /\ (GY(flags) /\ ~x.ok) => x.li = 0
     /\ x.ok => /\ x.e = x.i + Len(x.m) /\ x.e <= Len(S) /\ x.i >= start             \* indices are UTF-16 code units
                /\ GY(flags) => x.li = x.e
                /\ Y(flags) => x.i = start                                           \* sticky: only AT lastIndex
                /\ Len(x.c) = NCaps(pat)
                /\ Bound(S, start) => (Bound(S, x.i) /\ Bound(S, x.e))               \* under u no surrogate pair is torn
                \* leftmost: no earlier character boundary admits a match
                /\ \A j \in start..(x.i - 1) : Bound(S, j) => MatchAt(pat, S, j, Md(flags)).e = -1
     /\ (~x.ok /\ ~Y(flags) /\ Bound(S, start)) => \A j \in start..Len(S) : Bound(S, j) => MatchAt(pat, S, j, Md(flags)).e = -1
ExecInv == Live => \A S \in Subjects : ExecOK(S)

\* --- the global loop: matches are ordered, disjoint, make progress; replacing each match by itself is the identity --
RECURSIVE MSum(_)
MSum(rs) == IF rs = <<>> THEN 0 ELSE Len(Head(rs).m) + MSum(Tail(rs))
LoopOK(S) ==
  LET rs == Loop(pat, flags, S, 0) IN
  /\ Len(rs) <= Len(S) + 1
  /\ \A k \in 1..(Len(rs) - 1) : rs[k + 1].i >= rs[k].e /\ rs[k + 1].i > rs[k].i
  /\ Build(rs, 1, 0, S, "$&") = Str(S)
  /\ Len(Build(rs, 1, 0, S, "$&$&")) = Len(S) + MSum(rs)
LoopInv == (Live /\ G(flags)) => \A S \in Subjects : LoopOK(S)

\* --- split: the limited result is a prefix of the unlimited one; without captures nothing is invented -------------
RECURSIVE SumLen(_)
SumLen(A) == IF A = <<>> THEN 0 ELSE Len(Head(A)) + SumLen(Tail(A))
SplitOK(S) ==
  LET all == SplitRes(pat, flags, S, 99) IN
  /\ SplitRes(pat, flags, S, 2) = Cut(all, 2)
  /\ Len(S) > 0 => Len(all) >= 1
  /\ NCaps(pat) = 0 => SumLen(all) <= Len(S)
  /\ pat = "(?:)" => (SumLen(all) = Len(S) /\ (~U(flags) => Len(all) = Len(S) \/ Len(S) = 0))
SplitInv == Live => \A S \in Subjects : SplitOK(S)

\* --- search is exec from 0 without g ------------------------------------------------------------------------------
SearchInv == Live => \A S \in Subjects : Exec(pat, flags, S, 0).i = Exec(pat, flags \ {"g"}, S, 0).i

-----------------------------------------------------------------------------
\* Output for the edge replay (binding A)
FlagMenu == SUBSET {"g", "u", "y"} \cup {{"m"}, {"s"}, {"g", "m"}, {"s", "y"}}
FlagMenuX == FlagMenu \cup {{"g", "i"}, {"m", "y"}, {"s", "u"}, {"g", "i", "m", "s", "u", "y"}}
RepsAll == {"x", "$&$&", "tpl", "fn"}
NoExtra == NLSubjects
NoCtor == 0 - 1          \* (a .cfg file cannot write a negative number)
St(p, f, l) == [pat |-> p, flags |-> FlagStr(f), li |-> l]
Emit == PrintT(ToJson([f |-> St(pat, flags, li), l |-> act', t |-> St(pat', flags', li')]))
View == <<pat, flags, li>>
=============================================================================
