--------------------------------- MODULE Buf ---------------------------------
(* ArrayBuffer, integer-indexed views and DataView over one buffer (ECMA-262 23.2, 25.1, 25.3): property C17.

   Code anchors: typedarrays.go (typedArrayObject {viewedArrayBuf, offset, length, elemSize}, the eleven ptr()
   functions that address the buffer with unsafe.Add and no bounds check, arrayBufferObject.detach, DataView get/set),
   builtin_typedarrays.go (fill, copyWithin, set, slice, subarray, reverse, sort with the needValidate re-check after a
   comparator ran, typedArrayProto_filter ...).

   State: the bytes of ONE buffer of BufLen bytes and its detached flag.  The views are a fixed family (constant Views:
   kind, byte offset, element count) created by the replayer over the same buffer, so every write through one view is
   visible through all others and through the []byte that Go code holds.  Each action is one method call on one view with
   small arguments; `res` is its specified result and the successor state holds the specified bytes.  The replayer
   compares the result, ALL bytes (plus guard bytes around the Go-supplied backing slice), and every view's
   byteOffset / length; the access monitor hooked into the ptr() functions panics before any access outside the buffer.
   Exploration is bounded by MaxOps operations from the initial contents (byte i = (37*i + 100) mod 256). *)
EXTENDS Integers, Sequences, FiniteSets, TLC, Json

CONSTANTS BufLen, MaxOps, Views

VARIABLES bytes,      \* Seq(0..255) of length BufLen (empty when detached)
          detached,   \* "T" | "F"
          nops, act
vars == <<bytes, detached, nops, act>>

VIds == 1..Len(Views)
ES(k) == CASE k \in {"u8", "i8", "u8c"} -> 1 [] k \in {"u16", "i16"} -> 2 [] k \in {"u32", "f32"} -> 4 [] k = "f64" -> 8
\* kinds whose elements are interpreted as numbers by the model (TLC integers are 32-bit: the 4- and 8-byte kinds are
\* covered as byte movers only -- copyWithin, reverse, slice, subarray, aliasing)
Numeric(k) == k \in {"u8", "i8", "u8c", "u16", "i16"}

InitByte(i) == (37 * i + 100) % 256          \* 137 174 211 248 29 66 103 140: both signs under every signed kind
Init == bytes = [i \in 1..BufLen |-> InitByte(i)] /\ detached = "F" /\ nops = 0 /\ act = [op |-> "init"]

Min(a, b) == IF a < b THEN a ELSE b
Max(a, b) == IF a > b THEN a ELSE b
\* relative index (ToIntegerOrInfinity + clamp); 99 stands for "argument absent"
Rel(x, len) == IF x = 99 THEN len ELSE IF x < 0 THEN Max(len + x, 0) ELSE Min(x, len)

\* element <-> bytes, little-endian
Dec(k, bs) == CASE k = "u8" \/ k = "u8c" -> bs[1]
                [] k = "i8" -> IF bs[1] >= 128 THEN bs[1] - 256 ELSE bs[1]
                [] k = "u16" -> bs[1] + 256 * bs[2]
                [] k = "i16" -> (LET u == bs[1] + 256 * bs[2] IN IF u >= 32768 THEN u - 65536 ELSE u)
                [] k = "u32" -> bs[1] + 256 * bs[2] + 65536 * bs[3] + 16777216 * bs[4]
Mod(n, m) == ((n % m) + m) % m
Enc(k, n) == CASE k = "u8" \/ k = "i8" -> <<Mod(n, 256)>>
                [] k = "u8c" -> <<IF n < 0 THEN 0 ELSE IF n > 255 THEN 255 ELSE n>>
                [] k = "u16" \/ k = "i16" -> (LET u == Mod(n, 65536) IN <<u % 256, u \div 256>>)
                [] k = "u32" -> IF n < 0 THEN (LET u == Mod(n, 65536) IN <<u % 256, u \div 256, 255, 255>>)      \* small negatives only
                                ELSE <<n % 256, (n \div 256) % 256, (n \div 65536) % 256, (n \div 16777216) % 256>>

\* element i (0-based) of view v as a byte chunk / value
Chunk(b, v, i) == LET V == Views[v] e == ES(V.k) IN SubSeq(b, V.off + i * e + 1, V.off + (i + 1) * e)
PutChunk(b, v, i, c) == LET V == Views[v] e == ES(V.k) p == V.off + i * e IN
                        [j \in 1..Len(b) |-> IF j > p /\ j <= p + e THEN c[j - p] ELSE b[j]]
RECURSIVE PutChunks(_, _, _, _)
PutChunks(b, v, i, cs) == IF cs = <<>> THEN b ELSE PutChunks(PutChunk(b, v, i, Head(cs)), v, i + 1, Tail(cs))
Elems(b, v) == [i \in 1..Views[v].len |-> Chunk(b, v, i - 1)]
Vals(b, v) == [i \in 1..Views[v].len |-> Dec(Views[v].k, Chunk(b, v, i - 1))]

Step(r) == nops < MaxOps /\ nops' = nops + 1 /\ act' = r
Keep == UNCHANGED <<bytes, detached>>
Det == detached = "T"

\* ---- element access -------------------------------------------------------------------------------------------
Get(v, i) ==
  /\ Numeric(Views[v].k) /\ Keep
  /\ Step([op |-> "get", v |-> v, i |-> i,
           res |-> IF Det \/ i < 0 \/ i >= Views[v].len THEN "u" ELSE ToString(Dec(Views[v].k, Chunk(bytes, v, i)))])
Put(v, i, n) ==
  /\ Numeric(Views[v].k) /\ UNCHANGED detached
  /\ bytes' = IF Det \/ i < 0 \/ i >= Views[v].len THEN bytes ELSE PutChunk(bytes, v, i, Enc(Views[v].k, n))
  /\ Step([op |-> "put", v |-> v, i |-> i, n |-> n, res |-> "ok"])

\* ---- %TypedArray%.prototype methods ---------------------------------------------------------------------------
Fill(v, n, s, e) ==
  /\ Numeric(Views[v].k) /\ UNCHANGED detached
  /\ LET len == Views[v].len k == Rel(s, len) f == Rel(e, len) IN
     /\ bytes' = IF Det THEN bytes ELSE PutChunks(bytes, v, k, [j \in 1..Max(f - k, 0) |-> Enc(Views[v].k, n)])
     /\ Step([op |-> "fill", v |-> v, n |-> n, s |-> s, e |-> e, res |-> IF Det THEN "TypeError" ELSE "ok"])
CopyWithin(v, t, s, e) ==
  /\ UNCHANGED detached
  /\ LET len == Views[v].len to == Rel(t, len) from == Rel(s, len) fin == Rel(e, len)
         cnt == Min(fin - from, len - to)
         src == [j \in 1..Max(cnt, 0) |-> Chunk(bytes, v, from + j - 1)] IN
     /\ bytes' = IF Det THEN bytes ELSE PutChunks(bytes, v, to, src)
     /\ Step([op |-> "copyWithin", v |-> v, t |-> t, s |-> s, e |-> e, res |-> IF Det THEN "TypeError" ELSE "ok"])
Reverse(v) ==
  /\ UNCHANGED detached
  /\ LET len == Views[v].len IN
     /\ bytes' = IF Det THEN bytes ELSE PutChunks(bytes, v, 0, [j \in 1..len |-> Chunk(bytes, v, len - j)])
     /\ Step([op |-> "reverse", v |-> v, res |-> IF Det THEN "TypeError" ELSE "ok"])
\* numeric sort (for the integer kinds a value determines its bytes, so the sorted arrangement is unique)
RECURSIVE NumSort(_)
NumSort(vs) == IF vs = <<>> THEN <<>>
               ELSE LET m == CHOOSE i \in 1..Len(vs) : \A j \in 1..Len(vs) : vs[i] <= vs[j]
                    IN <<vs[m]>> \o NumSort([j \in 1..(Len(vs) - 1) |-> IF j < m THEN vs[j] ELSE vs[j + 1]])
Sort(v) ==
  /\ Numeric(Views[v].k) /\ UNCHANGED detached
  /\ LET vs == NumSort(Vals(bytes, v)) IN
     /\ bytes' = IF Det THEN bytes ELSE PutChunks(bytes, v, 0, [j \in 1..Len(vs) |-> Enc(Views[v].k, vs[j])])
     /\ Step([op |-> "sort", v |-> v, res |-> IF Det THEN "TypeError" ELSE "ok"])
\* the bytes of the new array returned by slice / the window of the view returned by subarray
Flat(cs) == LET F[n \in 0..Len(cs)] == IF n = 0 THEN <<>> ELSE F[n - 1] \o cs[n] IN F[Len(cs)]
Slice(v, s, e) ==
  /\ Keep
  /\ LET len == Views[v].len k == Rel(s, len) f == Rel(e, len) IN
     Step([op |-> "slice", v |-> v, s |-> s, e |-> e,
           res |-> IF Det THEN [r |-> "TypeError"] ELSE [r |-> "ok", bytes |-> Flat([j \in 1..Max(f - k, 0) |-> Chunk(bytes, v, k + j - 1)])]])
\* slice with a species constructor that answers with an EXISTING view w of the same element type over the same buffer (23.2.3.27
\* steps 14-15: the bytes are copied one by one in ascending order, so an overlapping target sees bytes already written)
RECURSIVE FwdCopy(_, _, _, _)
FwdCopy(b, src, dst, n) == IF n = 0 THEN b ELSE FwdCopy([b EXCEPT ![dst + 1] = b[src + 1]], src + 1, dst + 1, n - 1)
SliceSpecies(v, w, s, e) ==
  /\ Views[v].k = Views[w].k /\ UNCHANGED detached
  /\ LET len == Views[v].len k == Rel(s, len) f == Rel(e, len) count == Max(f - k, 0) es == ES(Views[v].k)
         ok == ~Det /\ Views[w].len >= count IN
     /\ bytes' = IF ok THEN FwdCopy(bytes, Views[v].off + k * es, Views[w].off, count * es) ELSE bytes
     /\ Step([op |-> "sliceSpecies", v |-> v, w |-> w, s |-> s, e |-> e, res |-> IF ok THEN "ok" ELSE "TypeError"])
Subarray(v, s, e) ==
  /\ Keep
  /\ LET len == IF Det THEN 0 ELSE Views[v].len k == Rel(s, len) f == Rel(e, len) IN
     \* (subarray of a view on a detached buffer: the construction of the new view throws)
     Step([op |-> "subarray", v |-> v, s |-> s, e |-> e,
           res |-> IF Det THEN [r |-> "TypeError"] ELSE [r |-> "ok", off |-> Views[v].off + k * ES(Views[v].k), len |-> Max(f - k, 0)]])
\* target.set(source view, offset): same buffer, so the source is read completely before writing (CloneArrayBuffer)
SetFrom(v, w, o) ==
  /\ Numeric(Views[v].k) /\ Numeric(Views[w].k) /\ UNCHANGED detached
  /\ LET fits == o >= 0 /\ Views[w].len + o <= Views[v].len
         src == [j \in 1..Views[w].len |-> Enc(Views[v].k, Dec(Views[w].k, Chunk(bytes, w, j - 1)))] IN
     /\ bytes' = IF Det \/ ~fits THEN bytes ELSE PutChunks(bytes, v, o, src)
     /\ Step([op |-> "setFrom", v |-> v, w |-> w, o |-> o, res |-> IF Det THEN "TypeError" ELSE IF fits THEN "ok" ELSE "RangeError"])
\* target.set([n1, n2], offset)
SetArr(v, o) ==
  /\ Numeric(Views[v].k) /\ UNCHANGED detached
  /\ LET fits == o >= 0 /\ 2 + o <= Views[v].len IN
     /\ bytes' = IF Det \/ ~fits THEN bytes ELSE PutChunks(bytes, v, o, <<Enc(Views[v].k, 258), Enc(Views[v].k, -2)>>)
     /\ Step([op |-> "setArr", v |-> v, o |-> o, res |-> IF Det THEN "TypeError" ELSE IF fits THEN "ok" ELSE "RangeError"])
ToArray(v) ==
  /\ Numeric(Views[v].k) /\ Keep
  \* (Array.from uses the array's iterator, whose creation validates the typed array)
  /\ Step([op |-> "toArray", v |-> v, res |-> IF Det THEN "TypeError" ELSE Vals(bytes, v)])
IsOdd(x) == x % 2 = 1
\* filter / map keep element order and read through the view's window
Filter(v) ==
  /\ Numeric(Views[v].k) /\ Keep
  /\ Step([op |-> "filterOdd", v |-> v,
           res |-> IF Det THEN [r |-> "TypeError"] ELSE [r |-> "ok", vals |-> SelectSeq(Vals(bytes, v), IsOdd)]])

\* ---- DataView over [doff, doff + dlen) ------------------------------------------------------------------------
DV == [off |-> 1, len |-> BufLen - 2]
DvGet(kind, p, le) ==
  /\ Keep
  /\ LET e == ES(kind) ok == p >= 0 /\ p + e <= DV.len
         raw == SubSeq(bytes, DV.off + p + 1, DV.off + p + e)
         bs == IF le = "T" THEN raw ELSE [j \in 1..e |-> raw[e + 1 - j]] IN
     Step([op |-> "dvget", k |-> kind, p |-> p, le |-> le,
           \* GetViewValue: ToIndex(requestIndex) (RangeError for a negative index) comes before the detached check
           res |-> IF p < 0 THEN "RangeError" ELSE IF Det THEN "TypeError" ELSE IF ~ok THEN "RangeError" ELSE ToString(Dec(kind, bs))])
DvSet(kind, p, n, le) ==
  /\ UNCHANGED detached
  /\ LET e == ES(kind) ok == p >= 0 /\ p + e <= DV.len
         enc == Enc(kind, n)
         bs == IF le = "T" THEN enc ELSE [j \in 1..e |-> enc[e + 1 - j]] IN
     /\ bytes' = IF Det \/ ~ok THEN bytes ELSE [j \in 1..Len(bytes) |-> IF j > DV.off + p /\ j <= DV.off + p + e THEN bs[j - DV.off - p] ELSE bytes[j]]
     /\ Step([op |-> "dvset", k |-> kind, p |-> p, n |-> n, le |-> le,
              res |-> IF p < 0 THEN "RangeError" ELSE IF Det THEN "TypeError" ELSE IF ~ok THEN "RangeError" ELSE "ok"])
BufSlice(s, e) ==
  /\ Keep
  /\ LET k == Rel(s, BufLen) f == Rel(e, BufLen) IN
     Step([op |-> "bufslice", s |-> s, e |-> e,
           res |-> IF Det THEN [r |-> "TypeError"] ELSE [r |-> "ok", bytes |-> SubSeq(bytes, k + 1, Max(f, k))]])

\* ---- detaching ------------------------------------------------------------------------------------------------
Detach == /\ detached = "F" /\ detached' = "T" /\ bytes' = <<>> /\ Step([op |-> "detach", res |-> "ok"])
\* the buffer is detached by a side effect in the middle of operation `m` on view v (argument coercion, comparator,
\* callback): the operation must end by throwing or by treating the array as empty -- never by touching memory
DetachDuring(v, m) ==
  /\ detached = "F" /\ detached' = "T" /\ bytes' = <<>>
  /\ Step([op |-> "detachDuring", v |-> v, m |-> m, res |-> "no-access"])

Idxs == {-1, 0, 1, 99}
Next ==
  \/ \E v \in VIds :
       \/ \E i \in -1..Views[v].len : Get(v, i) \/ (\E n \in {258, -1} : Put(v, i, n))
       \/ \E n \in {7, 300}, s \in {-1, 0, 1}, e \in Idxs : Fill(v, n, s, e)
       \/ \E t \in {0, 1, 2, -1}, s \in {0, 1, -2}, e \in {99, 2, -1} : CopyWithin(v, t, s, e)
       \/ Reverse(v) \/ Sort(v) \/ ToArray(v) \/ Filter(v)
       \/ \E s \in {0, 1, -1}, e \in {99, 1, -1} : Slice(v, s, e) \/ Subarray(v, s, e)
       \/ \E w \in VIds, o \in {0, 1} : SetFrom(v, w, o)
       \/ \E w \in VIds, s \in {0, 1}, e \in {99, 2} : SliceSpecies(v, w, s, e)
       \/ \E o \in {0, 1, 3} : SetArr(v, o)
       \/ \E m \in {"fill", "copyWithin", "put", "set", "slice", "subarray", "sort", "filter", "map", "indexOf", "join", "reverse-getter",
                       "toLocaleString", "every", "some", "find", "findLast", "reduce", "reduceRight", "lastIndexOf", "includes", "forEach-set"} : DetachDuring(v, m)
  \/ \E kind \in {"u8", "i8", "u16", "i16"}, p \in {-1, 0, 1, 3, 5}, le \in {"T", "F"} :
       DvGet(kind, p, le) \/ (\E n \in {258, -1} : DvSet(kind, p, n, le))
  \/ \E s \in {0, 2, -1}, e \in {99, 3} : BufSlice(s, e)
  \/ Detach

Spec == Init /\ [][Next]_vars

\* ---- properties -------------------------------------------------------------------------------------------------
LenOK == (detached = "F" => Len(bytes) = BufLen) /\ (detached = "T" => bytes = <<>>)
ByteRange == \A i \in 1..Len(bytes) : bytes[i] \in 0..255
\* every view lies inside the buffer: the family itself is well-formed
ViewsInside == \A v \in VIds : Views[v].off + Views[v].len * ES(Views[v].k) <= BufLen /\ Views[v].off % ES(Views[v].k) = 0
\* an operation through a view never changes a byte outside that view's window
Window == [][\A v \in VIds : (act'.op \in {"put", "fill", "copyWithin", "reverse", "sort", "setFrom", "setArr"} /\ act'.v = v /\ detached' = "F") =>
               \A j \in 1..BufLen : (j <= Views[v].off \/ j > Views[v].off + Views[v].len * ES(Views[v].k)) => bytes'[j] = bytes[j]]_vars
DvWindow == [][(act'.op = "dvset" /\ detached' = "F") => \A j \in 1..BufLen : (j <= DV.off \/ j > DV.off + DV.len) => bytes'[j] = bytes[j]]_vars

ViewFamily == << [k |-> "u8", off |-> 0, len |-> 8], [k |-> "u8", off |-> 2, len |-> 4], [k |-> "i8", off |-> 1, len |-> 3],
                 [k |-> "u16", off |-> 2, len |-> 2], [k |-> "i16", off |-> 0, len |-> 4], [k |-> "u32", off |-> 4, len |-> 1],
                 [k |-> "u8c", off |-> 3, len |-> 2], [k |-> "f64", off |-> 0, len |-> 1], [k |-> "f32", off |-> 4, len |-> 1],
                 [k |-> "u16", off |-> 4, len |-> 1], [k |-> "i8", off |-> 2, len |-> 2], [k |-> "i16", off |-> 2, len |-> 3] >>
St == [bytes |-> bytes, detached |-> detached, n |-> nops]
StP == [bytes |-> bytes', detached |-> detached', n |-> nops']
Emit == PrintT(ToJson([f |-> St, l |-> act', t |-> StP]))
View == <<bytes, detached, nops>>
=============================================================================
