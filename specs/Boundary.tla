------------------------------ MODULE Boundary ------------------------------
(* Error payloads crossing Go/JS frames (property C14).

   A behaviour of this module is one call chain: a payload is raised at the innermost frame (action Raise) and then
   crosses the enclosing frames one by one outwards (action Cross), each frame kind applying its specified
   transformation and producing its specified observations, until the host receives it (action Host).  The replayer
   (harness/cmd/boundary) enumerates every path of the generated state graph, builds the chain from real closures
   -- frame i calling frame i+1 through its own calling convention -- runs it and compares what every frame and the
   host observed.

   Code anchors: runtime.go wrapReflectFunc (returned error -> GoError, *Exception re-thrown), runWrapped / AssertFunction
   (Callable), Runtime.Try, Runtime.ForOf, ExportTo for func types (wrapJSFunc), vm.go handleThrow (uncatchable and
   foreign payloads skip catch / finally), Exception.Unwrap / Value / Stack, InterruptedError, StackOverflowError.

   Payload classes:
     catchable   a JS value travelling as an exception; `val` names it (identity!): prim, obj, err (a RangeError),
                 nval (panic(Value) in a native), goerr:<e> (a GoError object wrapping Go error e)
     uncatchable interrupt / stack overflow
     foreign     a non-goja Go panic *)
EXTENDS Integers, Sequences, TLC, Json

CONSTANTS MaxDepth

VARIABLES pl,      \* payload [cls, val] or "none"
          depth,   \* frames crossed so far
          obs,     \* observations made by the frames crossed (innermost first)
          act
vars == <<pl, depth, obs, act>>

Frames == {"js", "jscatch", "jsfinally", "native", "reflectErr", "reflectNoErr", "reflectWrap", "exportTo", "exportToNoErr", "ctor", "proxytrap", "getterTry", "forof"}
Raisers == {"throw-prim", "throw-obj", "throw-err", "native-panic-value", "native-panic-goerror", "reflect-return-error",
            "reflect-return-wrapped", "reflect-return-joined", "native-repanic-exception", "interrupt", "overflow", "foreign-panic"}

\* the payload a raiser produces
Born(r) == CASE r = "throw-prim" -> [cls |-> "catchable", val |-> "prim", sent |-> "F", inner |-> "-", site |-> "js"]
             [] r = "throw-obj" -> [cls |-> "catchable", val |-> "obj", sent |-> "F", inner |-> "-", site |-> "js"]
             [] r = "throw-err" -> [cls |-> "catchable", val |-> "err", sent |-> "F", inner |-> "-", site |-> "js"]
             [] r = "native-panic-value" -> [cls |-> "catchable", val |-> "nval", sent |-> "F", inner |-> "-", site |-> "go"]
             \* a Go error entering script is wrapped in a GoError object; Unwrap/Is/As on the final Exception reach it
             [] r = "native-panic-goerror" -> [cls |-> "catchable", val |-> "goerr:sentinel", sent |-> "T", inner |-> "-", site |-> "go"]
             [] r = "reflect-return-error" -> [cls |-> "catchable", val |-> "goerr:sentinel", sent |-> "T", inner |-> "-", site |-> "go"]
             [] r = "reflect-return-wrapped" -> [cls |-> "catchable", val |-> "goerr:wrapped", sent |-> "T", inner |-> "-", site |-> "go"]
             [] r = "reflect-return-joined" -> [cls |-> "catchable", val |-> "goerr:joined", sent |-> "T", inner |-> "-", site |-> "go"]
             \* a native that got an *Exception back from a JS callee and panics with it: the SAME value travels on
             [] r = "native-repanic-exception" -> [cls |-> "catchable", val |-> "obj", sent |-> "F", inner |-> "-", site |-> "js"]
             [] r = "interrupt" -> [cls |-> "uncatchable", val |-> "interrupt", sent |-> "F", inner |-> "-", site |-> "go"]
             [] r = "overflow" -> [cls |-> "uncatchable", val |-> "overflow", sent |-> "F", inner |-> "-", site |-> "js"]
             [] r = "foreign-panic" -> [cls |-> "foreign", val |-> "foreign", sent |-> "F", inner |-> "-", site |-> "go"]

Init == pl = [cls |-> "none", val |-> "-", sent |-> "F", inner |-> "-", site |-> "-"] /\ depth = 0 /\ obs = <<>> /\ act = [op |-> "init"]

Raise(r) == /\ pl.cls = "none" /\ pl' = Born(r) /\ depth' = 0 /\ obs' = <<>> /\ act' = [op |-> "raise", r |-> r]

\* one frame outwards. Every frame kind preserves the payload (identity of the thrown value, error chain, class);
\* only script try statements observe it, and only if it is catchable.
Cross(k) ==
  /\ pl.cls # "none" /\ depth < MaxDepth
  \* an Interrupt() issued by a native function is noticed at the next VM instruction: the frame that called the
  \* raiser must be script code (otherwise the call may return normally with the flag still set, which is allowed)
  /\ (pl.val = "interrupt" /\ depth = 0 => k \in {"js", "jscatch", "jsfinally", "proxytrap"})
  \* (a catch clause that rethrows is a new throw site for the stack trace; the value and its identity are unchanged)
  \* (an Error object carries the stack of its creation; for any other value the rethrow site is what the host sees)
  \* reflectWrap: a reflect-wrapped Go function that receives an *Exception from its callee and RETURNS a new Go error wrapping it
  \* (fmt.Errorf("%w")): script now sees a GoError for that new error; the chain of the final Exception still reaches the
  \* inner Exception (and through it the original Go error, if there was one); an uncatchable payload wrapped the same way stays
  \* uncatchable (the host still finds the InterruptedError / StackOverflowError in the chain, no catch or finally sees it)
  /\ pl' = IF pl.cls = "catchable" /\ k = "jscatch" /\ pl.val # "err" THEN [pl EXCEPT !.site = "rethrown"]
            ELSE IF pl.cls = "catchable" /\ k = "reflectWrap" THEN [pl EXCEPT !.val = "goerr:rewrap", !.inner = pl.val, !.site = "go"]
            ELSE pl
  /\ depth' = depth + 1
  /\ obs' = IF pl.cls = "catchable" /\ k = "jscatch" THEN Append(obs, "catch:" \o pl.val)
            ELSE IF pl.cls = "catchable" /\ k = "jsfinally" THEN Append(obs, "finally")
            ELSE obs
  /\ act' = [op |-> "cross", k |-> k]

\* what the Go caller of the outermost frame receives
Host ==
  /\ pl.cls # "none" /\ depth >= 1
  /\ act' = [op |-> "host",
             res |-> [kind |-> IF pl.cls = "catchable" THEN "Exception" ELSE IF pl.cls = "foreign" THEN "panic" ELSE pl.val,
                      value |-> pl.val,
                      isSentinel |-> pl.sent, inner |-> pl.inner,
                      topFrame |-> IF pl.site = "js" /\ pl.cls = "catchable" THEN "thrower" ELSE "-",
                      obs |-> obs]]
  /\ pl' = [cls |-> "none", val |-> "-", sent |-> "F", inner |-> "-", site |-> "-"] /\ depth' = 0 /\ obs' = <<>>

Next == (\E r \in Raisers : Raise(r)) \/ (\E k \in Frames : Cross(k)) \/ Host
Spec == Init /\ [][Next]_vars

\* the property: nothing a frame does changes the payload, uncatchable / foreign payloads are never observed by script
Preserved == [][act'.op = "cross" => /\ pl'.cls = pl.cls /\ pl'.sent = pl.sent
                                      /\ (pl'.val = pl.val \/ (act'.k = "reflectWrap" /\ pl.cls = "catchable" /\ pl'.inner = pl.val))]_vars
Unobserved == (pl.cls \in {"uncatchable", "foreign"}) => obs = <<>>
St == [pl |-> pl, depth |-> depth, obs |-> obs]
StP == [pl |-> pl', depth |-> depth', obs |-> obs']
Emit == PrintT(ToJson([f |-> St, l |-> act', t |-> StP]))
View == <<pl, depth, obs>>
=============================================================================
