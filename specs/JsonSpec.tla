------------------------------- MODULE JsonSpec -------------------------------
(* JSON.parse and JSON.stringify (property C19): the JSON grammar of ECMA-404 / ECMA-262 25.5.1 (JSON.parse), the value
   JSON.parse returns, the text JSON.stringify produces (ECMA-262 25.5.2: SerializeJSONProperty, SerializeJSONObject,
   SerializeJSONArray, QuoteJSONString, the replacer / space preprocessing of JSON.stringify itself), and the two round
   trips.  (The module is not called Json because /verif/specs is copied next to every specification and a Json.tla
   there would shadow the standard module Json that supplies ToJson.)

   Code anchors: /repo/builtin_json.go (builtinJSON_parse on top of encoding/json's Decoder.Token, builtinJSON_decodeObject
   -> _putProp, builtinJSON_stringify: replacer / space preprocessing, _builtinJSON_stringifyContext.str / ja / jo / quote),
   /repo/value.go Object.MarshalJSON, /repo/object.go stringKeys (own key order).

   Everything is written over sequences of UTF-16 code units (integers); the strings that appear in edge labels are
   their rendering Show(..): printable ASCII except '<' as itself, every other unit as <hhhh>.

   Part 1 (plans of mode "parse").  ParseText is the recursive-descent reading of the grammar (JSONText, JSONValue, JSONObject,
   JSONMember, JSONArray, JSONString with every escape form, JSONNumber, the three literals, the four white space
   characters) that also builds the ECMAScript value: objects through CreateDataProperty semantics (a duplicate key
   overwrites the value and keeps the first position; "__proto__" is an ordinary key; own keys are reported as array
   indices in ascending order, then the other keys in creation order), numbers through the Number value of the numeral
   (NumRender: beyond-range numerals become Infinity / -Infinity / 0 / -0; numerals with at most 15 significant digits
   in the normal range are rendered by Number::toString from their digits; a table supplies the few long numerals used).
   PStep is an independent second formulation: the character-level pushdown automaton of the ECMA-404 railroad
   diagrams.  The state is the text built so far by appending pieces (lexemes and phrases, PieceText); each
   Append edge carries the specified outcome of JSON.parse on the new text: SyntaxError, or the canonical rendering of
   the value plus the text JSON.stringify must produce for it.  Edit edges (self loops) carry the outcome for every
   single-character deletion / replacement / insertion of the current text.  A text on which the automaton is dead
   (no continuation can be accepted) is only probed by a self loop, never extended.
   TLC checks: both formulations agree on every text, every probe and every corruption (Agree, the Asserts in Append1 and
   Edit), the canonical form is a fixed point
   and JSON-representable values round-trip (RoundTrip), parsed objects have unique keys in own-key order (WellFormedInv).

   Part 2 (plans of mode "str").  The state is an ECMAScript value built member by member (objects with index / string /
   "__proto__" / non-enumerable keys in any insertion order, arrays with holes, -0, non-finite numbers, BigInt,
   symbols, functions, boxed primitives, toJSON methods, Date, forwarding proxies, a cyclic and a shared reference).
   Ser is SerializeJSONProperty as a function from (replacer, key, value) to a JSON tree / undefined / TypeError, Txt
   lays a tree out with the gap computed from the space argument.  A Stringify edge (self loop) carries, for one
   replacer and one space argument of the menus, the exact specified text (or undefined / TypeError) and the rendering
   of the value JSON.parse must return for that text; a Marshal edge the bytes Object.MarshalJSON must return.
   TLC checks: for every value, replacer and gap the specified text is accepted by ParseText and parses back to the
   serialisation tree (ParsesBack), and JSON-representable values come back unchanged (ReprRoundTrip).

   Documented exception: lone surrogates in JSON.parse input (goja replaces them by U+FFFD).  ParseText specifies such texts
   like all others but flags them (field d) and no edge is generated for them; a stringify text with an escaped lone
   surrogate is compared as text and not parsed back (label field pb).  Texts whose numerals are outside the domain of
   NumRender are not generated either.  Not modelled: reviver functions other
   than the identity (checked by the adaptor), inherited properties named by an allow-list, user-defined valueOf /
   toString on boxed primitives, getters.

   Bounds: the plans below (PlanOf): alphabet of pieces and number of appended pieces / value kinds, keys, node bound and the
   replacer and space menus; constant Plans selects the plans of a run, Big the thorough bounds.  The first step of every
   behaviour chooses the plan. *)
EXTENDS Integers, Sequences, FiniteSets, TLC, Json

CONSTANTS Plans,       \* names of the plans (bounded configurations, see PlanOf below) explored in this run
          Big          \* FALSE: quick bounds, TRUE: thorough bounds

VARIABLES plan,        \* "none" or the plan chosen by the first step
          text,        \* parse: Seq(code unit)
          shown,       \* parse: ShowStr(text), kept incrementally (output only)
          cfg,         \* parse: configuration of the pushdown automaton after reading text
          val,         \* parse: [t |-> "reject"] or the value ParseText assigns to text;  str: the value under construction
          n,           \* number of steps taken
          act          \* last action with its specified result (output only, hidden by VIEW)
vars == <<plan, text, shown, cfg, val, n, act>>

\* ---------------------------------------------------------------------------------------------------------------
\* Code units and their rendering
Printable == <<" ", "!", "\"", "#", "$", "%", "&", "'", "(", ")", "*", "+", ",", "-", ".", "/",
               "0", "1", "2", "3", "4", "5", "6", "7", "8", "9", ":", ";", "<", "=", ">", "?",
               "@", "A", "B", "C", "D", "E", "F", "G", "H", "I", "J", "K", "L", "M", "N", "O",
               "P", "Q", "R", "S", "T", "U", "V", "W", "X", "Y", "Z", "[", "\\", "]", "^", "_",
               "`", "a", "b", "c", "d", "e", "f", "g", "h", "i", "j", "k", "l", "m", "n", "o",
               "p", "q", "r", "s", "t", "u", "v", "w", "x", "y", "z", "{", "|", "}", "~">>
Chr(c) == Printable[c - 31]
Ord(ch) == CHOOSE c \in 32..126 : Printable[c - 31] = ch
W(t) == [i \in DOMAIN t |-> Ord(t[i])]                 \* code units of a tuple of one-character strings
HexD == <<"0", "1", "2", "3", "4", "5", "6", "7", "8", "9", "a", "b", "c", "d", "e", "f">>
Hex4(c) == HexD[((c \div 4096) % 16) + 1] \o HexD[((c \div 256) % 16) + 1] \o HexD[((c \div 16) % 16) + 1] \o HexD[(c % 16) + 1]
Show(c) == IF c >= 32 /\ c <= 126 /\ c # 60 THEN Chr(c) ELSE "<" \o Hex4(c) \o ">"
ShowQ(c) == IF c = 34 THEN "<0022>" ELSE Show(c)       \* inside the quotes of a rendered string
RECURSIVE ShowFrom(_, _, _)
ShowFrom(s, i, q) == IF i > Len(s) THEN "" ELSE (IF q THEN ShowQ(s[i]) ELSE Show(s[i])) \o ShowFrom(s, i + 1, q)
ShowStr(s) == ShowFrom(s, 1, FALSE)
ShowQStr(s) == "\"" \o ShowFrom(s, 1, TRUE) \o "\""
RECURSIVE JoinS(_, _, _)                               \* strings joined by a separator
JoinS(parts, sep, i) == IF i > Len(parts) THEN "" ELSE (IF i > 1 THEN sep ELSE "") \o parts[i] \o JoinS(parts, sep, i + 1)
RECURSIVE JoinC(_, _, _)                               \* code-unit sequences joined by a separator
JoinC(parts, sep, i) == IF i > Len(parts) THEN <<>> ELSE (IF i > 1 THEN sep ELSE <<>>) \o parts[i] \o JoinC(parts, sep, i + 1)
RECURSIVE IntChars(_)
IntChars(m) == IF m < 10 THEN <<48 + m>> ELSE IntChars(m \div 10) \o <<48 + (m % 10)>>
Rep(c, m) == [i \in 1..m |-> c]
RemoveAt(s, j) == [i \in 1..(Len(s) - 1) |-> IF i < j THEN s[i] ELSE s[i + 1]]

NullT == W(<<"n", "u", "l", "l">>)
TrueT == W(<<"t", "r", "u", "e">>)
FalseT == W(<<"f", "a", "l", "s", "e">>)
NaNT == W(<<"N", "a", "N">>)
InfT == W(<<"I", "n", "f", "i", "n", "i", "t", "y">>)
NInfT == <<45>> \o InfT
ZeroT == <<48>>
MZeroT == <<45, 48>>

\* ---------------------------------------------------------------------------------------------------------------
\* JSON trees = the ECMAScript values JSON.parse can return.  Numbers are held as their Number::toString text.
JNull == [t |-> "null"]
JTrue == [t |-> "true"]
JFalse == [t |-> "false"]
JNum(s) == [t |-> "num", v |-> s]
JStr(s) == [t |-> "str", v |-> s]
JArr(e) == [t |-> "arr", e |-> e]
Mem(k, v) == [k |-> k, v |-> v, a |-> "e"]             \* an enumerable member (a = "h": non-enumerable)
Undef == [t |-> "undef"]
TypeErr == [t |-> "TypeError"]

\* own property keys (ECMA-262 10.1.11.1 OrdinaryOwnPropertyKeys): array indices ascending, then strings in creation order
IsDigit(c) == c >= 48 /\ c <= 57
MaxIndex == W(<<"4", "2", "9", "4", "9", "6", "7", "2", "9", "4">>)       \* 2^32 - 2
LexLess(a, b) == \E i \in DOMAIN a : a[i] < b[i] /\ \A j \in 1..(i - 1) : a[j] = b[j]      \* equal lengths
IsIndex(k) == /\ Len(k) >= 1 /\ \A i \in DOMAIN k : IsDigit(k[i])
              /\ (k[1] # 48 \/ Len(k) = 1)
              /\ (Len(k) < 10 \/ (Len(k) = 10 /\ (k = MaxIndex \/ LexLess(k, MaxIndex))))
IdxLess(a, b) == Len(a) < Len(b) \/ (Len(a) = Len(b) /\ LexLess(a, b))
RECURSIVE SortIdx(_)
SortIdx(es) == IF es = <<>> THEN <<>>
               ELSE LET m == CHOOSE i \in DOMAIN es : \A j \in DOMAIN es : j = i \/ IdxLess(es[i].k, es[j].k)
                    IN <<es[m]>> \o SortIdx(RemoveAt(es, m))
IsIdxMem(x) == IsIndex(x.k)
NotIdxMem(x) == ~IsIndex(x.k)
KeyOrder(es) == SortIdx(SelectSeq(es, IsIdxMem)) \o SelectSeq(es, NotIdxMem)
KeyPos(es, k) == IF \E i \in DOMAIN es : es[i].k = k THEN CHOOSE i \in DOMAIN es : es[i].k = k ELSE 0
\* CreateDataProperty for each member in source order: a duplicate name overwrites the value, the key keeps its place
RECURSIVE Define(_, _, _)
Define(es, ents, i) == IF i > Len(ents) THEN es
                       ELSE LET j == KeyPos(es, ents[i].k)
                            IN Define(IF j = 0 THEN Append(es, ents[i]) ELSE [es EXCEPT ![j].v = ents[i].v], ents, i + 1)
MkObj(ents) == [t |-> "obj", e |-> KeyOrder(Define(<<>>, ents, 1))]

\* ---------------------------------------------------------------------------------------------------------------
\* Number value of a JSON numeral, as the text Number::toString gives it (ECMA-262 6.1.6.1.20)
RECURSIVE LeadZ(_, _)
LeadZ(d, i) == IF i <= Len(d) /\ d[i] = 48 THEN LeadZ(d, i + 1) ELSE i - 1          \* number of leading zeros
RECURSIVE TrailZ(_, _)
TrailZ(d, j) == IF j >= 1 /\ d[j] = 48 THEN TrailZ(d, j - 1) ELSE Len(d) - j       \* number of trailing zeros
RECURSIVE DecVal(_, _, _)
DecVal(d, i, acc) == IF i > Len(d) THEN acc ELSE DecVal(d, i + 1, acc * 10 + (d[i] - 48))
ExpOf(eneg, ep) == LET lz == LeadZ(ep, 1)
                       sig == SubSeq(ep, lz + 1, Len(ep))
                       m == IF Len(sig) > 6 THEN 1000000 ELSE DecVal(sig, 1, 0)       \* (anything >= 10^6 is "huge")
                   IN IF eneg THEN -m ELSE m
\* k significant digits sig, value 0.sig * 10^pt
Fmt(sig, k, pt) ==
  IF k <= pt /\ pt <= 21 THEN sig \o Rep(48, pt - k)
  ELSE IF 0 < pt /\ pt <= 21 THEN SubSeq(sig, 1, pt) \o <<46>> \o SubSeq(sig, pt + 1, k)
  ELSE IF -6 < pt /\ pt <= 0 THEN <<48, 46>> \o Rep(48, -pt) \o sig
  ELSE LET e == pt - 1
           es == <<101, IF e < 0 THEN 45 ELSE 43>> \o IntChars(IF e < 0 THEN -e ELSE e)
       IN IF k = 1 THEN sig \o es ELSE <<sig[1], 46>> \o SubSeq(sig, 2, k) \o es
D(t) == W(t)
\* numerals outside the computed domain (more than 15 significant digits, or next to the overflow / underflow thresholds)
LongNums == {
  [txt |-> D(<<"1","2","3","4","5","6","7","8","9","0","1","2","3","4","5","6","7","8","9","0","1","2","3","4","5","6","7","8","9","0">>),
   v |-> D(<<"1",".","2","3","4","5","6","7","8","9","0","1","2","3","4","5","6","8","e","+","2","9">>)],
  [txt |-> D(<<"0",".","1","0","0","0","0","0","0","0","0","0","0","0","0","0","0","0","0","5","5","5","1","1","1","5","1","2","3","1","2","5","7","8","2","7">>),
   v |-> D(<<"0",".","1">>)],
  [txt |-> D(<<"9","0","0","7","1","9","9","2","5","4","7","4","0","9","9","3">>),
   v |-> D(<<"9","0","0","7","1","9","9","2","5","4","7","4","0","9","9","2">>)],
  [txt |-> D(<<"1",".","2","3","4","5","6","7","8","9","0","1","2","3","4","5","6","8","e","+","2","9">>),
   v |-> D(<<"1",".","2","3","4","5","6","7","8","9","0","1","2","3","4","5","6","8","e","+","2","9">>)],
  [txt |-> D(<<"9","0","0","7","1","9","9","2","5","4","7","4","0","9","9","2">>),
   v |-> D(<<"9","0","0","7","1","9","9","2","5","4","7","4","0","9","9","2">>)],
  [txt |-> D(<<"1",".","7","9","7","6","9","3","1","3","4","8","6","2","3","1","5","7","e","+","3","0","8">>),
   v |-> D(<<"1",".","7","9","7","6","9","3","1","3","4","8","6","2","3","1","5","7","e","+","3","0","8">>)],
  [txt |-> D(<<"1","2","3","4","5","6","7","8","9","0","1","2","3","4","5","6","8","0","0","0","0">>),
   v |-> D(<<"1","2","3","4","5","6","7","8","9","0","1","2","3","4","5","6","8","0","0","0","0">>)],
  [txt |-> D(<<"5","e","-","3","2","4">>), v |-> D(<<"5","e","-","3","2","4">>)],
  [txt |-> D(<<"3","e","-","3","2","4">>), v |-> D(<<"5","e","-","3","2","4">>)],
  [txt |-> D(<<"2","e","-","3","2","4">>), v |-> D(<<"0">>)],
  [txt |-> D(<<"-","2","e","-","3","2","4">>), v |-> D(<<"-","0">>)],
  [txt |-> D(<<"1",".","7","9","7","6","9","3","1","3","4","8","6","2","3","1","5","7","e","3","0","8">>),
   v |-> D(<<"1",".","7","9","7","6","9","3","1","3","4","8","6","2","3","1","5","7","e","+","3","0","8">>)],
  [txt |-> D(<<"1",".","7","9","7","6","9","3","1","3","4","8","6","2","3","1","5","9","e","3","0","8">>), v |-> InfT],
  [txt |-> D(<<"2",".","2","2","5","0","7","3","8","5","8","5","0","7","2","0","1","4","e","-","3","0","8">>),
   v |-> D(<<"2",".","2","2","5","0","7","3","8","5","8","5","0","7","2","0","1","4","e","-","3","0","8">>)] }
\* result: [v |-> text, d |-> the numeral is inside the modelled domain]
NumRender(txt, neg, ds, fl, eneg, ep) ==
  LET lz == LeadZ(ds, 1) IN
  IF lz = Len(ds) THEN [v |-> IF neg THEN MZeroT ELSE ZeroT, d |-> TRUE]
  ELSE LET tz == TrailZ(ds, Len(ds))
           sig == SubSeq(ds, lz + 1, Len(ds) - tz)
           k == Len(sig)
           pt == (k + tz - fl) + ExpOf(eneg, ep)          \* value = 0.sig * 10^pt
       IN IF pt >= 310 THEN [v |-> IF neg THEN NInfT ELSE InfT, d |-> TRUE]             \* >= 10^309 > 2^1024
          ELSE IF pt <= -324 THEN [v |-> IF neg THEN MZeroT ELSE ZeroT, d |-> TRUE]    \* < 10^-324 < 2^-1075
          ELSE IF k <= 15 /\ pt >= -306 /\ pt <= 308
               THEN [v |-> (IF neg THEN <<45>> ELSE <<>>) \o Fmt(sig, k, pt), d |-> TRUE]
          ELSE IF \E r \in LongNums : r.txt = txt THEN [v |-> (CHOOSE r \in LongNums : r.txt = txt).v, d |-> TRUE]
          ELSE [v |-> <<63>>, d |-> FALSE]

\* ---------------------------------------------------------------------------------------------------------------
\* The grammar as a recursive-descent parser that also builds the value.  Results: [ok, v, i (next position), d]
At(s, i) == IF i >= 1 /\ i <= Len(s) THEN s[i] ELSE -1                \* -1: end of text
IsWs(c) == c \in {32, 9, 10, 13}
IsHex(c) == IsDigit(c) \/ (c >= 65 /\ c <= 70) \/ (c >= 97 /\ c <= 102)
HexVal(c) == IF IsDigit(c) THEN c - 48 ELSE IF c >= 97 THEN c - 87 ELSE c - 55
RECURSIVE SkipWs(_, _)
SkipWs(s, i) == IF IsWs(At(s, i)) THEN SkipWs(s, i + 1) ELSE i
Fail == [ok |-> FALSE, v |-> JNull, i |-> 0, d |-> TRUE]
Okay(v, i, d) == [ok |-> TRUE, v |-> v, i |-> i, d |-> d]
EscChar(e) == CASE e = 34 -> 34 [] e = 92 -> 92 [] e = 47 -> 47 [] e = 98 -> 8 [] e = 102 -> 12
                [] e = 110 -> 10 [] e = 114 -> 13 [] e = 116 -> 9 [] OTHER -> -1
IsLead(c) == c >= 55296 /\ c <= 56319
IsTrail(c) == c >= 56320 /\ c <= 57343
\* the documented exception: goja replaces a lone surrogate (raw or escaped) in JSON.parse input by U+FFFD.  Texts whose
\* strings contain one are specified here like all others but marked as outside the compared domain (d = FALSE).
LoneFree(s) == \A i \in DOMAIN s : (IsLead(s[i]) => (i < Len(s) /\ IsTrail(s[i + 1])))
                                    /\ (IsTrail(s[i]) => (i > 1 /\ IsLead(s[i - 1])))
\* JSONString, positioned after the opening quote: any unit except ", \ and U+0000..U+001F, or an escape
RECURSIVE StrBody(_, _, _)
StrBody(s, i, acc) ==
  LET c == At(s, i) IN
  IF c < 32 THEN Fail
  ELSE IF c = 34 THEN Okay(JStr(acc), i + 1, LoneFree(acc))
  ELSE IF c = 92 THEN
       (LET e == At(s, i + 1) IN
        IF EscChar(e) # -1 THEN StrBody(s, i + 2, Append(acc, EscChar(e)))
        ELSE IF e = 117 /\ IsHex(At(s, i + 2)) /\ IsHex(At(s, i + 3)) /\ IsHex(At(s, i + 4)) /\ IsHex(At(s, i + 5))
             THEN StrBody(s, i + 6, Append(acc, 4096 * HexVal(At(s, i + 2)) + 256 * HexVal(At(s, i + 3))
                                                 + 16 * HexVal(At(s, i + 4)) + HexVal(At(s, i + 5))))
        ELSE Fail)
  ELSE StrBody(s, i + 1, Append(acc, c))
RECURSIVE DigitsEnd(_, _)
DigitsEnd(s, i) == IF IsDigit(At(s, i)) THEN DigitsEnd(s, i + 1) ELSE i
\* JSONNumber :: -? (0 | [1-9][0-9]*) (. [0-9]+)? ([eE] [+-]? [0-9]+)?
ScanNumber(s, i0) ==
  LET neg == At(s, i0) = 45
      i1 == IF neg THEN i0 + 1 ELSE i0
      i2 == IF At(s, i1) = 48 THEN i1 + 1 ELSE DigitsEnd(s, i1)          \* integer part [i1, i2)
      hasFrac == At(s, i2) = 46
      i3 == IF hasFrac THEN DigitsEnd(s, i2 + 1) ELSE i2                   \* fraction digits [i2 + 1, i3)
      hasExp == At(s, i3) \in {101, 69}
      sg == At(s, i3 + 1)
      i4 == IF hasExp THEN (IF sg \in {43, 45} THEN i3 + 2 ELSE i3 + 1) ELSE i3
      i5 == IF hasExp THEN DigitsEnd(s, i4) ELSE i3                        \* exponent digits [i4, i5)
  IN IF ~IsDigit(At(s, i1)) THEN Fail
     ELSE IF hasFrac /\ i3 = i2 + 1 THEN Fail
     ELSE IF hasExp /\ i5 = i4 THEN Fail
     ELSE LET fp == IF hasFrac THEN SubSeq(s, i2 + 1, i3 - 1) ELSE <<>>
              r == NumRender(SubSeq(s, i0, i5 - 1), neg, SubSeq(s, i1, i2 - 1) \o fp, Len(fp), hasExp /\ sg = 45,
                             IF hasExp THEN SubSeq(s, i4, i5 - 1) ELSE <<>>)
          IN Okay(JNum(r.v), i5, r.d)
Match(s, i, lit) == i + Len(lit) - 1 <= Len(s) /\ SubSeq(s, i, i + Len(lit) - 1) = lit

RECURSIVE PValue(_, _), PElems(_, _, _, _), PMembers(_, _, _, _)
PValue(s, i0) ==
  LET i == SkipWs(s, i0)
      c == At(s, i) IN
  IF c = 123 THEN (LET j == SkipWs(s, i + 1) IN IF At(s, j) = 125 THEN Okay(MkObj(<<>>), j + 1, TRUE) ELSE PMembers(s, j, <<>>, TRUE))
  ELSE IF c = 91 THEN (LET j == SkipWs(s, i + 1) IN IF At(s, j) = 93 THEN Okay(JArr(<<>>), j + 1, TRUE) ELSE PElems(s, j, <<>>, TRUE))
  ELSE IF c = 34 THEN StrBody(s, i + 1, <<>>)
  ELSE IF c = 45 \/ IsDigit(c) THEN ScanNumber(s, i)
  ELSE IF Match(s, i, TrueT) THEN Okay(JTrue, i + 4, TRUE)
  ELSE IF Match(s, i, FalseT) THEN Okay(JFalse, i + 5, TRUE)
  ELSE IF Match(s, i, NullT) THEN Okay(JNull, i + 4, TRUE)
  ELSE Fail
PElems(s, i, acc, d) ==
  LET r == PValue(s, i) IN
  IF ~r.ok THEN Fail
  ELSE LET j == SkipWs(s, r.i)
           c == At(s, j)
       IN IF c = 44 THEN PElems(s, j + 1, Append(acc, r.v), d /\ r.d)
          ELSE IF c = 93 THEN Okay(JArr(Append(acc, r.v)), j + 1, d /\ r.d)
          ELSE Fail
PMembers(s, i, acc, d) ==            \* i: first non-blank position after '{' or ','
  IF At(s, i) # 34 THEN Fail
  ELSE LET k == StrBody(s, i + 1, <<>>) IN
       IF ~k.ok THEN Fail
       ELSE LET j == SkipWs(s, k.i) IN
            IF At(s, j) # 58 THEN Fail
            ELSE LET r == PValue(s, j + 1) IN
                 IF ~r.ok THEN Fail
                 ELSE LET m == SkipWs(s, r.i)
                          c == At(s, m)
                          acc2 == Append(acc, Mem(k.v.v, r.v))
                      IN IF c = 44 THEN PMembers(s, SkipWs(s, m + 1), acc2, d /\ r.d /\ k.d)
                         ELSE IF c = 125 THEN Okay(MkObj(acc2), m + 1, d /\ r.d /\ k.d)
                         ELSE Fail
\* JSONText: white space, one value, white space
ParseText(s) == LET r == PValue(s, 1) IN
                IF r.ok /\ SkipWs(s, r.i) = Len(s) + 1 THEN [ok |-> TRUE, v |-> r.v, d |-> r.d]
                ELSE [ok |-> FALSE, v |-> JNull, d |-> TRUE]

\* ---------------------------------------------------------------------------------------------------------------
\* Second formulation: the ECMA-404 railroad diagrams as a character-level pushdown automaton
\* phases: V value expected; AV after '['; OK after '{'; K after ',' in an object; C colon expected; AF after a value;
\*         S / SE / U4..U1 inside a string; Nm N0 NI Nd NF Ne Ns NX inside a number; L inside a literal; X dead
Cfg0 == [ph |-> "V", st |-> <<>>, lit |-> <<>>, key |-> FALSE]
Ph(c, p) == [c EXCEPT !.ph = p]
Dead(c) == [ph |-> "X", st |-> <<>>, lit |-> <<>>, key |-> FALSE]
Pop(c) == [c EXCEPT !.ph = "AF", !.st = SubSeq(c.st, 1, Len(c.st) - 1)]
StartValue(c, ch) ==
  IF ch = 91 THEN [c EXCEPT !.ph = "AV", !.st = Append(c.st, "A")]
  ELSE IF ch = 123 THEN [c EXCEPT !.ph = "OK", !.st = Append(c.st, "O")]
  ELSE IF ch = 34 THEN [c EXCEPT !.ph = "S", !.key = FALSE]
  ELSE IF ch = 45 THEN Ph(c, "Nm")
  ELSE IF ch = 48 THEN Ph(c, "N0")
  ELSE IF ch >= 49 /\ ch <= 57 THEN Ph(c, "NI")
  ELSE IF ch = 116 THEN [c EXCEPT !.ph = "L", !.lit = Tail(TrueT)]
  ELSE IF ch = 102 THEN [c EXCEPT !.ph = "L", !.lit = Tail(FalseT)]
  ELSE IF ch = 110 THEN [c EXCEPT !.ph = "L", !.lit = Tail(NullT)]
  ELSE Dead(c)
AfterValue(c, ch) ==
  IF IsWs(ch) THEN Ph(c, "AF")
  ELSE IF c.st = <<>> THEN Dead(c)
  ELSE LET top == c.st[Len(c.st)] IN
       IF ch = 44 THEN Ph(c, IF top = "A" THEN "V" ELSE "K")
       ELSE IF (ch = 93 /\ top = "A") \/ (ch = 125 /\ top = "O") THEN Pop(c)
       ELSE Dead(c)
PStep(c, ch) ==
  LET p == c.ph IN
  CASE p = "X" -> c
    [] p = "V" -> IF IsWs(ch) THEN c ELSE StartValue(c, ch)
    [] p = "AV" -> IF IsWs(ch) THEN c ELSE IF ch = 93 THEN Pop(c) ELSE StartValue(c, ch)
    [] p = "OK" -> IF IsWs(ch) THEN c ELSE IF ch = 125 THEN Pop(c) ELSE IF ch = 34 THEN [c EXCEPT !.ph = "S", !.key = TRUE] ELSE Dead(c)
    [] p = "K" -> IF IsWs(ch) THEN c ELSE IF ch = 34 THEN [c EXCEPT !.ph = "S", !.key = TRUE] ELSE Dead(c)
    [] p = "C" -> IF IsWs(ch) THEN c ELSE IF ch = 58 THEN Ph(c, "V") ELSE Dead(c)
    [] p = "AF" -> AfterValue(c, ch)
    [] p = "S" -> IF ch < 32 THEN Dead(c) ELSE IF ch = 34 THEN Ph(c, IF c.key THEN "C" ELSE "AF") ELSE IF ch = 92 THEN Ph(c, "SE") ELSE c
    [] p = "SE" -> IF ch \in {34, 92, 47, 98, 102, 110, 114, 116} THEN Ph(c, "S") ELSE IF ch = 117 THEN Ph(c, "U4") ELSE Dead(c)
    [] p = "U4" -> IF IsHex(ch) THEN Ph(c, "U3") ELSE Dead(c)
    [] p = "U3" -> IF IsHex(ch) THEN Ph(c, "U2") ELSE Dead(c)
    [] p = "U2" -> IF IsHex(ch) THEN Ph(c, "U1") ELSE Dead(c)
    [] p = "U1" -> IF IsHex(ch) THEN Ph(c, "S") ELSE Dead(c)
    [] p = "Nm" -> IF ch = 48 THEN Ph(c, "N0") ELSE IF ch >= 49 /\ ch <= 57 THEN Ph(c, "NI") ELSE Dead(c)
    [] p = "N0" -> IF ch = 46 THEN Ph(c, "Nd") ELSE IF ch \in {101, 69} THEN Ph(c, "Ne") ELSE AfterValue(c, ch)
    [] p = "NI" -> IF IsDigit(ch) THEN c ELSE IF ch = 46 THEN Ph(c, "Nd") ELSE IF ch \in {101, 69} THEN Ph(c, "Ne") ELSE AfterValue(c, ch)
    [] p = "Nd" -> IF IsDigit(ch) THEN Ph(c, "NF") ELSE Dead(c)
    [] p = "NF" -> IF IsDigit(ch) THEN c ELSE IF ch \in {101, 69} THEN Ph(c, "Ne") ELSE AfterValue(c, ch)
    [] p = "Ne" -> IF ch \in {43, 45} THEN Ph(c, "Ns") ELSE IF IsDigit(ch) THEN Ph(c, "NX") ELSE Dead(c)
    [] p = "Ns" -> IF IsDigit(ch) THEN Ph(c, "NX") ELSE Dead(c)
    [] p = "NX" -> IF IsDigit(ch) THEN c ELSE AfterValue(c, ch)
    [] p = "L" -> IF ch = c.lit[1] THEN (IF Len(c.lit) = 1 THEN Ph(c, "AF") ELSE [c EXCEPT !.lit = Tail(c.lit)]) ELSE Dead(c)
RECURSIVE PRun(_, _, _)
PRun(c, s, i) == IF i > Len(s) THEN c ELSE PRun(PStep(c, s[i]), s, i + 1)
Accepting(c) == c.st = <<>> /\ c.ph \in {"AF", "N0", "NI", "NF", "NX"}
Accepts(s) == Accepting(PRun(Cfg0, s, 1))

\* ---------------------------------------------------------------------------------------------------------------
\* JSON.stringify, ECMA-262 25.5.2
\* QuoteJSONString (25.5.2.3): code points of the string; lone surrogates and controls escaped, lower-case hex
UEsc(c) == <<92, 117>> \o W(<<HexD[((c \div 4096) % 16) + 1], HexD[((c \div 256) % 16) + 1], HexD[((c \div 16) % 16) + 1], HexD[(c % 16) + 1]>>)
QuoteUnit(s, i) ==
  LET c == s[i] IN
  CASE c = 8 -> <<92, 98>> [] c = 9 -> <<92, 116>> [] c = 10 -> <<92, 110>> [] c = 12 -> <<92, 102>> [] c = 13 -> <<92, 114>>
    [] c = 34 -> <<92, 34>> [] c = 92 -> <<92, 92>>
    [] c < 32 /\ c \notin {8, 9, 10, 12, 13} -> UEsc(c)
    [] IsLead(c) -> IF i < Len(s) /\ IsTrail(s[i + 1]) THEN <<c>> ELSE UEsc(c)
    [] IsTrail(c) -> IF i > 1 /\ IsLead(s[i - 1]) THEN <<c>> ELSE UEsc(c)
    [] OTHER -> <<c>>
Quote(s) == <<34>> \o JoinC([i \in DOMAIN s |-> QuoteUnit(s, i)], <<>>, 1) \o <<34>>

\* ECMAScript values of part 2 (beyond JSON trees):
\*   [t |-> "undef" | "fun" | "sym" | "big" | "hole"], [t |-> "box", p |-> primitive], [t |-> "proxy", o |-> arr / obj],
\*   [t |-> "tj", f |-> flavour] (objects of a fixed structure: toJSON carriers, an arguments object, a typed array), [t |-> "date", valid |-> BOOLEAN], [t |-> "cyc"] (the root object again),
\*   [t |-> "shared"] (one object {"s":1} referenced from several places)
KeyText(id) == CASE id = "a" -> W(<<"a">>) [] id = "b" -> W(<<"b">>) [] id = "1" -> W(<<"1">>) [] id = "0" -> W(<<"0">>)
                 [] id = "10" -> W(<<"1", "0">>) [] id = "9" -> W(<<"9">>)
                 [] id = "__proto__" -> W(<<"_", "_", "p", "r", "o", "t", "o", "_", "_">>)
                 [] id = "h" -> W(<<"h">>)                      \* by convention defined non-enumerable
                 [] id = "q" -> <<34, 10, 233>>                  \* key needing escapes:  " LF e-acute
                 [] id = "empty" -> <<>>
                 [] id = "ls" -> <<55296>>                       \* an unpaired surrogate
                 [] id = "fd" -> <<65533>>                       \* U+FFFD, what an unpaired surrogate decays to in a Go string
                 [] id = "toJSON" -> W(<<"t", "o", "J", "S", "O", "N">>)
                 [] id = "x" -> W(<<"x">>) [] id = "y" -> W(<<"y">>) [] id = "s" -> W(<<"s">>)
KeyAttr(id) == IF id = "h" THEN "h" ELSE "e"
N1 == JNum(<<49>>)
SharedObj == [t |-> "obj", e |-> <<Mem(KeyText("s"), N1)>>]
Node(kd) ==
  CASE kd = "null" -> JNull [] kd = "true" -> JTrue [] kd = "false" -> JFalse
    [] kd = "n1" -> N1
    [] kd = "n15" -> JNum(W(<<"1", ".", "5">>))
    [] kd = "nneg0" -> JNum(MZeroT)
    [] kd = "nan" -> JNum(NaNT) [] kd = "inf" -> JNum(InfT) [] kd = "ninf" -> JNum(NInfT)
    [] kd = "n1e21" -> JNum(W(<<"1", "e", "+", "2", "1">>))
    [] kd = "n1e-7" -> JNum(W(<<"1", "e", "-", "7">>))
    [] kd = "nbig" -> JNum(W(<<"1", "2", "3", "4", "5", "6", "7", "8", "9", "0", "1", "2", "3", "4", "5", "6", "8", "0", "0", "0", "0">>))
    [] kd = "sa" -> JStr(W(<<"a">>))
    [] kd = "sempty" -> JStr(<<>>)
    [] kd = "sq" -> JStr(<<34, 92, 47>>)                                  \* " \ /
    [] kd = "sctl" -> JStr(<<8, 9, 10, 12, 13, 0, 1, 31, 127>>)
    [] kd = "suni" -> JStr(<<233, 8232, 8233, 55357, 56832, 65279>>)        \* e-acute LS PS U+1F600 BOM
    [] kd = "slone" -> JStr(<<55296>>)
    [] kd = "slone2" -> JStr(<<56320, 55296, 97, 55357>>)                  \* trail, lead, 'a', lead
    [] kd = "undef" -> Undef [] kd = "fun" -> [t |-> "fun"] [] kd = "sym" -> [t |-> "sym"] [] kd = "big" -> [t |-> "big"]
    [] kd = "hole" -> [t |-> "hole"]
    [] kd = "bnum" -> [t |-> "box", p |-> JNum(<<51>>)]
    [] kd = "bnan" -> [t |-> "box", p |-> JNum(NaNT)]
    [] kd = "bstr" -> [t |-> "box", p |-> JStr(W(<<"s">>))]
    [] kd = "bfalse" -> [t |-> "box", p |-> JFalse]
    [] kd = "bsym" -> [t |-> "box", p |-> [t |-> "sym"]]
    [] kd = "bbig" -> [t |-> "box", p |-> [t |-> "big"]]
    [] kd = "obj" -> [t |-> "obj", e |-> <<>>]
    [] kd = "arr" -> JArr(<<>>)
    [] kd = "pxobj" -> [t |-> "proxy", o |-> [t |-> "obj", e |-> <<>>]]
    [] kd = "pxarr" -> [t |-> "proxy", o |-> JArr(<<>>)]
    [] kd = "tjkey" -> [t |-> "tj", f |-> "key"]           \* {toJSON: function (k) { return "tj:" + k }}
    [] kd = "tjnest" -> [t |-> "tj", f |-> "nest"]         \* {toJSON: function () { return {x: 2, toJSON: function () { return 1 }} }}
    [] kd = "tjundef" -> [t |-> "tj", f |-> "undef"]       \* {toJSON: function () {}}
    [] kd = "tjnon" -> [t |-> "tj", f |-> "non"]           \* {toJSON: 5, y: 1}: a toJSON that is not callable is not called
    [] kd = "tjfun" -> [t |-> "tj", f |-> "fun"]           \* a function with an own toJSON method returning "F"
    [] kd = "big7" -> [t |-> "tj", f |-> "big7"]           \* the BigInt 7 while BigInt.prototype.toJSON maps 7 to "seven" (other BigInts to themselves)
    [] kd = "args" -> [t |-> "tj", f |-> "args"]           \* an arguments object (1, 2): not an array
    [] kd = "typed" -> [t |-> "tj", f |-> "typed"]         \* new Uint8Array([1, 2]): not an array
    [] kd = "date0" -> [t |-> "date", valid |-> TRUE]      \* new Date(0)
    [] kd = "datenan" -> [t |-> "date", valid |-> FALSE]   \* new Date(NaN)
    [] kd = "cyc" -> [t |-> "cyc"]
    [] kd = "shared" -> [t |-> "shared"]
IsContainerKind(kd) == kd \in {"obj", "arr", "pxobj", "pxarr"}
IsObjectValue(v) == v.t \in {"arr", "obj", "proxy", "box", "date", "fun", "shared"} \/ (v.t = "tj" /\ v.f # "big7")     \* typeof "object" / "function"

\* value handed to the replacer / serialiser after the toJSON step (25.5.2.2 step 2)
TjPrefix == W(<<"t", "j", ":">>)
Date0T == W(<<"1", "9", "7", "0", "-", "0", "1", "-", "0", "1", "T", "0", "0", ":", "0", "0", ":", "0", "0", ".", "0", "0", "0", "Z">>)
\* the object returned by the "nest" flavour is [t |-> "tj", f |-> "inner"]: {x: 2, toJSON: function () { return 1 }}
AfterToJSON(v, key) ==
  IF v.t = "tj" THEN (CASE v.f = "key" -> JStr(TjPrefix \o key)
                        [] v.f = "nest" -> [t |-> "tj", f |-> "inner"]
                        [] v.f = "inner" -> N1
                        [] v.f = "undef" -> Undef
                        [] v.f = "fun" -> JStr(W(<<"F">>))
                        [] v.f = "big7" -> JStr(W(<<"s", "e", "v", "e", "n">>))
                        [] v.f \in {"non", "args", "typed"} -> v)
  ELSE IF v.t = "date" THEN (IF v.valid THEN JStr(Date0T) ELSE JNull)        \* Date.prototype.toJSON
  ELSE v
\* own members of the toJSON-carrying objects that are serialised as objects (toJSON is applied once per property only)
TjStruct(f) == IF f = "inner" THEN [t |-> "obj", e |-> <<Mem(KeyText("x"), JNum(<<50>>)), Mem(KeyText("toJSON"), [t |-> "fun"])>>]
               ELSE IF f \in {"args", "typed"} THEN [t |-> "obj", e |-> <<Mem(KeyText("0"), N1), Mem(KeyText("1"), JNum(<<50>>))>>]
               ELSE IF f = "non" THEN [t |-> "obj", e |-> <<Mem(KeyText("toJSON"), JNum(<<53>>)), Mem(KeyText("y"), N1)>>]
               ELSE [t |-> "obj", e |-> <<Mem(KeyText("toJSON"), [t |-> "fun"])>>]
\* replacer functions of the menu (JavaScript source in harness/adaptors/json.js)
ApplyFn(f, key, v) ==
  CASE f = "dropa" -> IF key = KeyText("a") THEN Undef ELSE v                    \* k === "a" ? undefined : v
    [] f = "num" -> IF v.t = "num" THEN JStr(W(<<"N">>)) ELSE v                  \* typeof v === "number" ? "N" : v
    [] f = "idx0" -> IF key = <<48>> THEN JStr(W(<<"Z">>)) ELSE v                \* k === "0" ? "Z" : v  (array keys are strings)
    [] f = "wrap" -> IF key = <<>> THEN JArr(<<v, v>>) ELSE v                    \* k === "" ? [v, v] : v
\* the replacer argument as an abstract value, and 25.5.2 JSON.stringify steps 4: ReplacerFunction / PropertyList
ListElems(id) ==
  CASE id = "allow_ba" -> <<JStr(KeyText("b")), JStr(KeyText("a"))>>
    [] id = "allow_mixed" -> <<JStr(KeyText("a")), N1, [t |-> "box", p |-> JStr(KeyText("b"))], [t |-> "obj", e |-> <<>>],
                               JStr(KeyText("a")), [t |-> "box", p |-> N1], JNull, JTrue, Undef>>
    [] id = "allow_nums" -> <<JNum(ZeroT), JNum(MZeroT), JNum(W(<<"1", ".", "5">>)), JNum(W(<<"1", "e", "+", "2", "1">>)), JStr(KeyText("1")), N1, JNum(NaNT)>>
    [] id = "allow_empty" -> <<>>
    [] id = "allow_h" -> <<JStr(KeyText("h")), JStr(KeyText("a"))>>
    [] id = "allow_ls" -> <<JStr(KeyText("ls")), JStr(KeyText("ls"))>>          \* names are compared as code units
    [] id = "allow_fdls" -> <<JStr(KeyText("fd")), JStr(KeyText("ls")), JStr(KeyText("a"))>>
    [] id = "allow_px" -> <<JStr(KeyText("b"))>>                               \* new Proxy(["b"], {}): IsArray sees through
ListItem(v) == IF v.t = "str" THEN v.v
               ELSE IF v.t = "num" THEN (IF v.v = MZeroT THEN ZeroT ELSE v.v)       \* ToString(number)
               ELSE IF v.t = "box" /\ v.p.t \in {"str", "num"} THEN v.p.v
               ELSE <<-1>>                                                        \* undefined: not added
RECURSIVE PropList(_, _, _)
PropList(el, i, acc) == IF i > Len(el) THEN acc
                        ELSE LET it == ListItem(el[i]) IN
                             PropList(el, i + 1, IF it = <<-1>> \/ (\E j \in DOMAIN acc : acc[j] = it) THEN acc ELSE Append(acc, it))
Replacer(id) ==
  IF id \in {"none", "nonfn"} THEN [k |-> "none", f |-> "", l |-> <<>>]           \* undefined / a non-callable non-array object
  ELSE IF id \in {"dropa", "num", "idx0", "wrap"} THEN [k |-> "fn", f |-> id, l |-> <<>>]
  ELSE [k |-> "list", f |-> "", l |-> PropList(ListElems(id), 1, <<>>)]
\* the space argument as an abstract value and steps 5-8: gap
SpaceArg(id) ==
  CASE id = "none" -> [k |-> "other", m |-> 0, s |-> <<>>]                        \* undefined
    [] id = "n2" -> [k |-> "num", m |-> 2, s |-> <<>>]
    [] id = "n11" -> [k |-> "num", m |-> 11, s |-> <<>>]
    [] id = "n0" -> [k |-> "num", m |-> 0, s |-> <<>>]
    [] id = "nneg" -> [k |-> "num", m |-> -1, s |-> <<>>]
    [] id = "n2_9" -> [k |-> "num", m |-> 2, s |-> <<>>]                           \* 2.9: ToIntegerOrInfinity truncates
    [] id = "ninf" -> [k |-> "num", m |-> 1000000, s |-> <<>>]                     \* +Infinity
    [] id = "nan" -> [k |-> "num", m |-> 0, s |-> <<>>]                            \* NaN -> 0
    [] id = "bnum3" -> [k |-> "num", m |-> 3, s |-> <<>>]                          \* new Number(3) -> ToNumber
    [] id = "tab" -> [k |-> "str", m |-> 0, s |-> <<9>>]
    [] id = "s16" -> [k |-> "str", m |-> 0, s |-> W(<<"a", "b", "c", "d", "e", "f", "g", "h", "i", "j", "k", "l", "m", "n", "o", "p">>)]
    [] id = "sempty" -> [k |-> "str", m |-> 0, s |-> <<>>]
    [] id = "bstr" -> [k |-> "str", m |-> 0, s |-> <<45, 45>>]                     \* new String("--") -> ToString
    [] id = "uni11" -> [k |-> "str", m |-> 0, s |-> Rep(233, 11)]                  \* eleven e-acute
    [] id = "uni1" -> [k |-> "str", m |-> 0, s |-> <<233>>]
    [] id = "btrue" -> [k |-> "other", m |-> 0, s |-> <<>>]                        \* true, null, {} ... : ignored
Gap(id) == LET a == SpaceArg(id) IN
           IF a.k = "num" THEN Rep(32, IF a.m > 10 THEN 10 ELSE IF a.m < 1 THEN 0 ELSE a.m)
           ELSE IF a.k = "str" THEN SubSeq(a.s, 1, IF Len(a.s) > 10 THEN 10 ELSE Len(a.s))
           ELSE <<>>

NonFinite == {NaNT, InfT, NInfT}
OwnEnum(e) == LET IsEnum(x) == x.a = "e" IN KeyOrder(SelectSeq(e, IsEnum))       \* EnumerableOwnProperties(value, key)
GetMember(e, k) == LET j == KeyPos(e, k) IN IF j = 0 THEN Undef ELSE e[j].v       \* [[Get]] (own members only)
RECURSIVE Collect(_, _, _)
Collect(K, rs, i) == IF i > Len(K) THEN <<>>
                     ELSE (IF rs[i].t = "undef" THEN <<>> ELSE <<Mem(K[i], rs[i])>>) \o Collect(K, rs, i + 1)
\* SerializeJSONProperty (25.5.2.2) as a function to: JSON tree | Undef | TypeErr.  The cyclic reference always denotes an
\* object that is on the stack when it is reached (25.5.2.4 / 25.5.2.5 step 1).
RECURSIVE Ser(_, _, _)
Ser(rep, key, v0) ==
  LET v1 == AfterToJSON(v0, key)
      v2 == IF rep.k = "fn" THEN ApplyFn(rep.f, key, v1) ELSE v1
      v3 == IF v2.t = "box" /\ v2.p.t # "sym" THEN v2.p ELSE v2                 \* [[NumberData]] / [[StringData]] / [[BooleanData]] / [[BigIntData]]
      c == IF v3.t = "proxy" THEN v3.o ELSE IF v3.t = "shared" THEN SharedObj ELSE IF v3.t = "tj" THEN TjStruct(v3.f) ELSE v3
  IN IF v3.t \in {"null", "true", "false", "str"} THEN v3
     ELSE IF v3.t = "num" THEN (IF v3.v \in NonFinite THEN JNull ELSE IF v3.v = MZeroT THEN JNum(ZeroT) ELSE v3)
     ELSE IF v3.t = "big" THEN TypeErr
     ELSE IF v3.t \in {"undef", "fun", "sym", "hole"} THEN Undef
     ELSE IF v3.t = "cyc" THEN TypeErr
     ELSE IF v3.t = "box" THEN [t |-> "obj", e |-> <<>>]                          \* a Symbol object: an ordinary object without own keys
     ELSE IF c.t = "arr" THEN
          (LET rs == [i \in DOMAIN c.e |-> Ser(rep, IntChars(i - 1), c.e[i])] IN
           IF \E i \in DOMAIN rs : rs[i].t = "TypeError" THEN TypeErr
           ELSE JArr([i \in DOMAIN rs |-> IF rs[i].t = "undef" THEN JNull ELSE rs[i]]))
     ELSE (LET own == OwnEnum(c.e)
               K == IF rep.k = "list" THEN rep.l ELSE [i \in DOMAIN own |-> own[i].k]
               rs == [i \in DOMAIN K |-> Ser(rep, K[i], GetMember(c.e, K[i]))] IN
           IF \E i \in DOMAIN rs : rs[i].t = "TypeError" THEN TypeErr
           ELSE [t |-> "obj", e |-> Collect(K, rs, 1)])
\* SerializeJSONObject / SerializeJSONArray layout (25.5.2.4, 25.5.2.5) of a JSON tree
NL == <<10>>
RECURSIVE Txt(_, _, _)
Txt(j, gap, ind) ==
  CASE j.t = "null" -> NullT [] j.t = "true" -> TrueT [] j.t = "false" -> FalseT
    [] j.t = "num" -> j.v
    [] j.t = "str" -> Quote(j.v)
    [] j.t = "arr" ->
         IF j.e = <<>> THEN <<91, 93>>
         ELSE LET ind2 == ind \o gap
                  parts == [i \in DOMAIN j.e |-> Txt(j.e[i], gap, ind2)]
              IN IF gap = <<>> THEN <<91>> \o JoinC(parts, <<44>>, 1) \o <<93>>
                 ELSE <<91>> \o NL \o ind2 \o JoinC(parts, <<44>> \o NL \o ind2, 1) \o NL \o ind \o <<93>>
    [] j.t = "obj" ->
         IF j.e = <<>> THEN <<123, 125>>
         ELSE LET ind2 == ind \o gap
                  parts == [i \in DOMAIN j.e |-> Quote(j.e[i].k) \o (IF gap = <<>> THEN <<58>> ELSE <<58, 32>>) \o Txt(j.e[i].v, gap, ind2)]
              IN IF gap = <<>> THEN <<123>> \o JoinC(parts, <<44>>, 1) \o <<125>>
                 ELSE <<123>> \o NL \o ind2 \o JoinC(parts, <<44>> \o NL \o ind2, 1) \o NL \o ind \o <<125>>
NoRep == Replacer("none")
Canon(v) == Txt(Ser(NoRep, <<>>, v), <<>>, <<>>)            \* JSON.stringify(v) for a JSON tree v
\* what JSON.parse makes of the text of a serialisation tree: objects re-created member by member
RECURSIVE Reparse(_)
Reparse(j) == IF j.t = "arr" THEN JArr([i \in DOMAIN j.e |-> Reparse(j.e[i])])
              ELSE IF j.t = "obj" THEN MkObj([i \in DOMAIN j.e |-> Mem(j.e[i].k, Reparse(j.e[i].v))])
              ELSE j
\* canonical rendering of a JSON tree (the adaptor renders real values the same way, without JSON.stringify)
RECURSIVE Render(_)
Render(v) ==
  CASE v.t \in {"null", "true", "false"} -> v.t
    [] v.t = "num" -> "#" \o ShowStr(v.v)
    [] v.t = "str" -> ShowQStr(v.v)
    [] v.t = "arr" -> "[" \o JoinS([i \in DOMAIN v.e |-> Render(v.e[i])], ",", 1) \o "]"
    [] v.t = "obj" -> "{" \o JoinS([i \in DOMAIN v.e |-> ShowQStr(v.e[i].k) \o ":" \o Render(v.e[i].v)], ",", 1) \o "}"

\* ---------------------------------------------------------------------------------------------------------------
\* Part 1: pieces and actions
Q(body) == <<34>> \o body \o <<34>>
BSl == 92
WsAll == <<9, 10, 13, 32>>
PieceText(id) ==
  CASE id = "lb" -> <<91>> [] id = "rb" -> <<93>> [] id = "lc" -> <<123>> [] id = "rc" -> <<125>> [] id = "cm" -> <<44>> [] id = "cl" -> <<58>>
    \* white space: the four JSON characters; NBSP, BOM, VT, FF, LS, ideographic space are not JSON white space
    [] id = "sp" -> <<32>> [] id = "ws3" -> <<9, 10, 13>>
    [] id = "nbsp" -> <<160>> [] id = "bom" -> <<65279>> [] id = "vt" -> <<11>> [] id = "ff" -> <<12>> [] id = "ls" -> <<8232>> [] id = "idsp" -> <<12288>>
    \* numbers
    [] id = "n0" -> W(<<"0">>) [] id = "n1" -> W(<<"1">>) [] id = "n2" -> W(<<"2">>) [] id = "nm0" -> W(<<"-", "0">>) [] id = "n15" -> W(<<"1", ".", "5">>)
    [] id = "n10" -> W(<<"1", "0">>) [] id = "n010" -> W(<<"0", ".", "1", "0">>) [] id = "nE2" -> W(<<"1", "E", "+", "2">>)
    [] id = "ne400" -> W(<<"1", "e", "4", "0", "0">>) [] id = "nme400" -> W(<<"-", "1", "e", "4", "0", "0">>)
    [] id = "nem400" -> W(<<"1", "e", "-", "4", "0", "0">>) [] id = "nmem400" -> W(<<"-", "1", "e", "-", "4", "0", "0">>)
    [] id = "ne21" -> W(<<"1", "e", "2", "1">>) [] id = "nem7" -> W(<<"1", "2", "e", "-", "8">>) [] id = "n000001" -> W(<<"0", ".", "0", "0", "0", "0", "0", "1">>)
    [] id = "n1e20" -> <<49>> \o Rep(48, 20) [] id = "n1e21" -> <<49>> \o Rep(48, 21)
    [] id = "nehuge" -> W(<<"1", "e">>) \o Rep(57, 12) [] id = "n0ehuge" -> W(<<"0", "e">>) \o Rep(57, 12) [] id = "nemhuge" -> W(<<"1", "e", "-">>) \o Rep(57, 12)
    [] id = "nlong30" -> W(<<"1","2","3","4","5","6","7","8","9","0","1","2","3","4","5","6","7","8","9","0","1","2","3","4","5","6","7","8","9","0">>)
    [] id = "nlongfrac" -> W(<<"0",".","1","0","0","0","0","0","0","0","0","0","0","0","0","0","0","0","0","5","5","5","1","1","1","5","1","2","3","1","2","5","7","8","2","7">>)
    [] id = "n2p53" -> W(<<"9","0","0","7","1","9","9","2","5","4","7","4","0","9","9","3">>)
    [] id = "nmin" -> W(<<"5","e","-","3","2","4">>) [] id = "nmin3" -> W(<<"3","e","-","3","2","4">>) [] id = "nmin2" -> W(<<"2","e","-","3","2","4">>)
    [] id = "nmax" -> W(<<"1",".","7","9","7","6","9","3","1","3","4","8","6","2","3","1","5","7","e","3","0","8">>)
    [] id = "nmax9" -> W(<<"1",".","7","9","7","6","9","3","1","3","4","8","6","2","3","1","5","9","e","3","0","8">>)
    [] id = "n15dig" -> W(<<"1","2","3","4","5","6","7","8","9","0","1","2","3","4","5">>) [] id = "n0lead" -> W(<<"0",".","0","0","1","2","5","0","0">>)
    \* malformed numbers
    [] id = "b01" -> W(<<"0", "1">>) [] id = "b1dot" -> W(<<"1", ".">>) [] id = "bdot5" -> W(<<".", "5">>) [] id = "bminus" -> W(<<"-">>) [] id = "b1e" -> W(<<"1", "e">>)
    [] id = "b1eplus" -> W(<<"1", "e", "+">>) [] id = "bplus1" -> W(<<"+", "1">>) [] id = "bhex" -> W(<<"0", "x", "1", "0">>) [] id = "b1dote" -> W(<<"1", ".", "e", "1">>)
    [] id = "bmm1" -> W(<<"-", "-", "1">>) [] id = "bsep" -> W(<<"1", "_", "0">>) [] id = "binf" -> InfT [] id = "bnan" -> NaNT [] id = "bninf" -> NInfT
    [] id = "bfullw" -> <<65297>> [] id = "bm01" -> W(<<"-", "0", "1">>) [] id = "b1n" -> W(<<"1", "n">>)
    \* strings
    [] id = "sA" -> Q(W(<<"a">>)) [] id = "sB" -> Q(W(<<"b">>)) [] id = "sE" -> Q(<<>>) [] id = "s1" -> Q(W(<<"1">>))
    [] id = "sproto" -> Q(KeyText("__proto__"))
    [] id = "su41" -> Q(<<BSl>> \o W(<<"u", "0", "0", "4", "1">>))
    [] id = "sesc" -> Q(<<BSl, 34, BSl, BSl, BSl, 47, BSl, 98, BSl, 102, BSl, 110, BSl, 114, BSl, 116>>)           \* \" \\ \/ \b \f \n \r \t
    [] id = "suni" -> Q(<<BSl>> \o W(<<"u", "0", "0", "e", "9">>) \o <<BSl>> \o W(<<"u", "2", "0", "2", "8">>) \o <<BSl>> \o W(<<"u", "D", "8", "3", "D">>) \o <<BSl>> \o W(<<"u", "d", "e", "0", "0">>))
    [] id = "sraw" -> Q(<<233, 8232, 8233, 127, 55357, 56832, 47, 39>>)          \* raw non-ASCII, LS, PS, DEL, an astral pair, / and '
    [] id = "snul" -> Q(<<BSl>> \o W(<<"u", "0", "0", "0", "0">>))
    [] id = "sspace" -> Q(W(<<"a", " ", "b">>))
    [] id = "sufff" -> Q(<<BSl>> \o W(<<"u", "F", "f", "F", "f">>))
    \* malformed strings
    [] id = "bctl" -> Q(<<1>>) [] id = "btab" -> Q(<<9>>) [] id = "blf" -> Q(<<97, 10>>) [] id = "bx41" -> Q(<<BSl>> \o W(<<"x", "4", "1">>))
    [] id = "bu12" -> Q(<<BSl>> \o W(<<"u", "1", "2">>)) [] id = "bu12g4" -> Q(<<BSl>> \o W(<<"u", "1", "2", "g", "4">>)) [] id = "bescq" -> Q(<<BSl, 39>>)
    [] id = "bsq" -> W(<<"'", "a", "'">>) [] id = "bopen" -> <<34, 97>> [] id = "bescend" -> <<34, BSl, 34>> [] id = "bescv" -> Q(<<BSl, 118>>)
    [] id = "besc0" -> Q(<<BSl, 48>>) [] id = "bescU" -> Q(<<BSl>> \o W(<<"U", "0", "0", "4", "1">>)) [] id = "bdel" -> Q(<<31>>)
    \* literals and malformed literals, stray tokens
    [] id = "true" -> TrueT [] id = "false" -> FalseT [] id = "null" -> NullT
    [] id = "bnul" -> W(<<"n", "u", "l">>) [] id = "bTrue" -> W(<<"T", "r", "u", "e">>) [] id = "bnulll" -> W(<<"n", "u", "l", "l", "l">>)
    [] id = "bundef" -> W(<<"u", "n", "d", "e", "f", "i", "n", "e", "d">>) [] id = "bcomment" -> W(<<"/", "*", "*", "/">>) [] id = "blinec" -> W(<<"/", "/">>) \o <<10>>
    [] id = "bparen" -> W(<<"(">>) [] id = "bsemi" -> W(<<";">>) [] id = "bident" -> W(<<"a">>)
    \* members and other phrases
    [] id = "mb1" -> Q(W(<<"b">>)) \o W(<<":", "1">>) [] id = "m12" -> Q(W(<<"1">>)) \o W(<<":", "2">>) [] id = "ma3" -> Q(W(<<"a">>)) \o W(<<":", "3">>)
    [] id = "ma4" -> Q(W(<<"a">>)) \o W(<<":", "4">>) [] id = "mp5" -> Q(KeyText("__proto__")) \o W(<<":", "5">>)
    [] id = "m106" -> Q(W(<<"1", "0">>)) \o W(<<":", "6">>) [] id = "m97" -> Q(W(<<"9">>)) \o W(<<":", "7">>) [] id = "me8" -> Q(<<>>) \o W(<<":", "8">>)
    [] id = "mmax" -> Q(MaxIndex) \o W(<<":", "9">>) [] id = "mmax1" -> Q(W(<<"4", "2", "9", "4", "9", "6", "7", "2", "9", "5">>)) \o W(<<":", "0">>)
    [] id = "m01" -> Q(W(<<"0", "1">>)) \o W(<<":", "1">>) [] id = "mneg0" -> Q(W(<<"-", "0">>)) \o W(<<":", "1">>)
    [] id = "mpobj" -> Q(KeyText("__proto__")) \o W(<<":", "{", "\"", "x", "\"", ":", "1", "}">>) [] id = "mu61" -> Q(<<BSl>> \o W(<<"u", "0", "0", "6", "1">>)) \o W(<<":", "5">>)
    [] id = "maobj" -> Q(W(<<"a">>)) \o W(<<":", "{">>) [] id = "maarr" -> Q(W(<<"a">>)) \o W(<<":", "[">>)
    [] id = "open4" -> Rep(91, 4) [] id = "close4" -> Rep(93, 4)
    [] id = "oopen" -> W(<<"{", "\"", "a", "\"", ":", "{", "\"", "b", "\"", ":", "[", "{", "\"", "c", "\"", ":">>) [] id = "oclose" -> W(<<"}", "]", "}", "}">>)
    \* a text with all four white space characters at every placement
    [] id = "wsrich" -> WsAll \o <<123>> \o WsAll \o Q(W(<<"a">>)) \o WsAll \o <<58>> \o WsAll \o <<91>> \o WsAll \o <<49>> \o WsAll \o <<44>> \o WsAll
                        \o TrueT \o WsAll \o <<93>> \o WsAll \o <<44>> \o WsAll \o Q(W(<<"b">>)) \o WsAll \o <<58>> \o WsAll \o <<123>> \o WsAll \o <<125>> \o WsAll \o <<125>> \o WsAll

\* ---------------------------------------------------------------------------------------------------------------
\* Plans: the bounded configurations.  A plan fixes the part ("parse" / "str") and its alphabet and bounds.
NumPieces == {"n0", "n1", "nm0", "n15", "n10", "n010", "nE2", "ne400", "nme400", "nem400", "nmem400", "ne21", "nem7", "n000001", "n1e20", "n1e21",
              "nehuge", "n0ehuge", "nemhuge", "nlong30", "nlongfrac", "n2p53", "nmin", "nmin3", "nmin2", "nmax", "nmax9", "n15dig", "n0lead"}
BadNumPieces == {"b01", "b1dot", "bdot5", "bminus", "b1e", "b1eplus", "bplus1", "bhex", "b1dote", "bmm1", "bsep", "binf", "bnan", "bninf", "bfullw", "bm01", "b1n"}
StrPieces == {"sA", "sE", "s1", "sproto", "su41", "sesc", "suni", "sraw", "snul", "sspace", "sufff"}
BadStrPieces == {"bctl", "btab", "blf", "bx41", "bu12", "bu12g4", "bescq", "bsq", "bopen", "bescend", "bescv", "besc0", "bescU", "bdel"}
LitPieces == {"true", "false", "null", "bnul", "bTrue", "bnulll", "bundef", "bcomment", "blinec", "bparen", "bsemi", "bident"}
WsPieces == {"sp", "ws3", "nbsp", "bom", "vt", "ff", "ls", "idsp"}
MemberPieces == {"mb1", "m12", "ma3", "ma4", "mp5", "m106", "m97", "me8", "mmax", "mmax1", "m01", "mneg0", "mpobj", "mu61"}
EditUnits == {34, 92, 44, 58, 93, 125, 48, 101, 46, 45, 32, 160, 1, 117, 9}       \* " \ , : ] } 0 e . - space NBSP U+0001 u TAB
LeafKinds == {"null", "true", "false", "n1", "n15", "nneg0", "nan", "inf", "ninf", "n1e21", "n1e-7", "nbig", "sa", "sempty", "sq", "sctl", "suni",
              "slone", "slone2", "undef", "fun", "sym", "big", "bnum", "bnan", "bstr", "bfalse", "bsym", "bbig", "tjkey", "tjnest", "tjundef",
              "tjnon", "tjfun", "big7", "args", "typed", "date0", "datenan", "cyc", "shared", "hole"}
ContKinds == {"obj", "arr", "pxobj", "pxarr"}
AllReps == {"none", "nonfn", "dropa", "num", "idx0", "wrap", "allow_ba", "allow_mixed", "allow_nums", "allow_empty", "allow_h", "allow_px"}
SurrReps == {"none", "allow_ls", "allow_fdls", "dropa"}
AllInds == {"none", "n2", "n11", "n0", "nneg", "n2_9", "ninf", "nan", "bnum3", "tab", "s16", "sempty", "bstr", "uni11", "uni1", "btrue"}
ParsePlan(pieces, maxsteps, editchars, editon) ==
  [mode |-> "parse", pieces |-> pieces, maxsteps |-> maxsteps, editchars |-> editchars, editon |-> editon,
   kinds |-> {}, keys |-> {}, maxnodes |-> 0, reps |-> {}, inds |-> {}]
StrPlan(kinds, keys, maxnodes, reps, inds) ==
  [mode |-> "str", pieces |-> {}, maxsteps |-> 0, editchars |-> {}, editon |-> "none",
   kinds |-> kinds, keys |-> keys, maxnodes |-> maxnodes, reps |-> reps, inds |-> inds]
NoPlan == [mode |-> "none", pieces |-> {}, maxsteps |-> 0, editchars |-> {}, editon |-> "none", kinds |-> {}, keys |-> {}, maxnodes |-> 0, reps |-> {}, inds |-> {}]
\* every string over the structural tokens, one representative of each value class and a blank; corruptions of the accepted ones
PlanStruct == ParsePlan({"lb", "rb", "lc", "rc", "cm", "cl", "sA", "n1", "true", "sp"}, IF Big THEN 8 ELSE 5, {44, 34, 93}, "accepted")
\* every lexeme representative (valid and malformed numbers, strings, literals, blanks) in every short context
PlanLex == ParsePlan({"lb", "rb", "cm"} \cup NumPieces \cup BadNumPieces \cup StrPieces \cup BadStrPieces \cup LitPieces \cup WsPieces, 3, {}, "none")
\* (thorough) the same one piece longer, separately for numbers and for strings / literals
PlanLexNum == ParsePlan({"lb", "rb", "cm"} \cup NumPieces \cup BadNumPieces \cup WsPieces, 4, {}, "none")
PlanLexStr == ParsePlan({"lb", "rb", "cm", "lc", "rc", "cl"} \cup StrPieces \cup BadStrPieces \cup LitPieces \cup {"sp", "nbsp"}, 4, {}, "none")
\* objects: duplicate keys, "__proto__", index and non-index keys in every order
PlanMembers == ParsePlan({"lc", "rc", "cm", "sp"} \cup (IF Big THEN MemberPieces ELSE MemberPieces \ {"mu61", "mneg0", "m01", "me8"}), IF Big THEN 7 ELSE 6, {}, "none")
\* nesting of arrays and objects up to 8 (thorough 12) levels
PlanDeep == ParsePlan({"open4", "close4", "oopen", "oclose", "n1", "cm", "lb", "rb", "lc", "rc", "maobj", "maarr", "sA", "cl"}, IF Big THEN 6 ELSE 5, {}, "none")
\* single-character corruptions of texts with every white space placement, every escape form, exponent forms
PlanEdits == ParsePlan({"wsrich", "sesc", "suni", "nmem400", "nE2", "n15", "mpobj", "lc", "rc", "lb", "rb", "cm", "true"}, 3, EditUnits, "accepted")
\* corruptions of every lexeme, accepted or not
PlanEditLex == ParsePlan({"lb", "rb", "true", "false", "null", "ws3"} \cup NumPieces \cup StrPieces, 2, EditUnits, "all")
\* shapes: key orders, nesting, empty containers, holes, undefined members x replacer kinds x indentation
PlanShape == StrPlan({"obj", "arr", "n1", "undef", "hole"}, {"a", "b", "1"}, IF Big THEN 5 ELSE 4, {"none", "allow_ba", "dropa"}, {"none", "n2", "tab"})
\* every kind of value at top level, as array element and as object member (thorough: pairs) x every replacer
PlanLeaves == StrPlan(LeafKinds \cup ContKinds, {"a"}, IF Big THEN 3 ELSE 2, IF Big THEN {"none", "num", "wrap", "allow_ba", "dropa"} ELSE AllReps, {"none", "n2"})
\* every form of the space argument
PlanIndent == StrPlan({"obj", "arr", "n1", "sa"}, {"a", "q"}, 4, {"none"}, AllInds)
\* forwarding proxies as values and as allow-list, cyclic references
PlanProxy == StrPlan({"pxobj", "pxarr", "n1", "undef", "hole", "cyc"}, {"a", "1", "b"}, IF Big THEN 4 ELSE 3, {"none", "allow_ba", "wrap"}, {"none", "n2"})
\* own-key order (array indices first), "__proto__", non-enumerable and escaped keys x allow-lists
PlanKeys == StrPlan({"obj", "n1"}, {"a", "b", "1", "10", "__proto__", "h"} \cup (IF Big THEN {"0", "9", "q", "empty"} ELSE {}), 4,
                    {"none", "allow_ba", "allow_h", "allow_mixed", "allow_nums"}, {"none", "n2"})
\* keys that differ only in what a Go string can carry: an unpaired surrogate and U+FFFD, x allow-lists naming them
PlanKeySurr == StrPlan({"obj", "n1"}, {"ls", "fd", "a"}, 4, SurrReps, {"none", "n2"})
PlanOf(nm) == CASE nm = "struct" -> PlanStruct [] nm = "lex" -> PlanLex [] nm = "lexnum" -> PlanLexNum [] nm = "lexstr" -> PlanLexStr [] nm = "members" -> PlanMembers [] nm = "deep" -> PlanDeep
                [] nm = "edits" -> PlanEdits [] nm = "editlex" -> PlanEditLex
                [] nm = "shape" -> PlanShape [] nm = "leaves" -> PlanLeaves [] nm = "indent" -> PlanIndent [] nm = "proxy" -> PlanProxy
                [] nm = "keys" -> PlanKeys [] nm = "keysurr" -> PlanKeySurr [] nm = "none" -> NoPlan
PL == PlanOf(plan)
ModeOf(nm) == PlanOf(nm).mode
Mode == PL.mode
PieceIds == PL.pieces
MaxSteps == PL.maxsteps
EditChars == PL.editchars
EditOn == PL.editon
Kinds == PL.kinds
KeyIds == PL.keys
MaxNodes == PL.maxnodes
Reps == PL.reps
Inds == PL.inds

\* the specified outcome of JSON.parse(t) together with JSON.stringify(JSON.parse(t))
Outcome(r) == IF r.ok THEN [v |-> Render(r.v), canon |-> ShowStr(Canon(r.v))] ELSE [v |-> "SyntaxError", canon |-> "-"]
Reject == [t |-> "reject"]
\* Appending a piece.  When the automaton rejects the longer text for good (no continuation can be accepted) the text is not
\* kept: the edge is a self loop ("try") that still carries the outcome for the longer text.
Append1(id) ==
  /\ Mode = "parse" /\ n < MaxSteps
  /\ LET p == PieceText(id)
         t2 == text \o p
         c2 == PRun(cfg, p, 1)
         r == ParseText(t2) IN
     /\ r.d
     /\ IF c2.ph = "X"
        THEN /\ Assert(~r.ok, <<"the automaton is dead but the grammar accepts", ShowStr(t2)>>)
             /\ act' = [op |-> "try", p |-> ShowStr(p), res |-> Outcome(r)]
             /\ UNCHANGED <<plan, text, shown, cfg, val, n>>
        ELSE /\ UNCHANGED plan
             /\ text' = t2 /\ shown' = shown \o ShowStr(p) /\ cfg' = c2 /\ n' = n + 1
             /\ val' = IF r.ok THEN r.v ELSE Reject
             /\ act' = [op |-> "app", p |-> ShowStr(p), res |-> Outcome(r)]
\* single-character corruptions of the current text (self loops)
Edited(kind, i, c) == CASE kind = "del" -> SubSeq(text, 1, i - 1) \o SubSeq(text, i + 1, Len(text))
                        [] kind = "rep" -> SubSeq(text, 1, i - 1) \o <<c>> \o SubSeq(text, i + 1, Len(text))
                        [] kind = "ins" -> SubSeq(text, 1, i - 1) \o <<c>> \o SubSeq(text, i, Len(text))
EditAllowed == IF EditOn = "all" THEN text # <<>> ELSE IF EditOn = "accepted" THEN val # Reject ELSE FALSE
Edit(kind, i, c) ==
  /\ Mode = "parse" /\ EditAllowed
  /\ (kind = "rep") => (text[i] # c)
  /\ LET t2 == Edited(kind, i, c)
         r == ParseText(t2) IN
     /\ r.d
     /\ Assert(r.ok = Accepts(t2), <<"grammar and automaton disagree on", ShowStr(t2)>>)
     /\ act' = [op |-> "edit", k |-> kind, i |-> i, c |-> IF kind = "del" THEN "-" ELSE Show(c), res |-> Outcome(r)]
  /\ UNCHANGED <<plan, text, shown, cfg, val, n>>

\* ---------------------------------------------------------------------------------------------------------------
\* Part 2: building a value, stringifying it
RECURSIVE Size(_)
Size(v) == IF v.t = "proxy" THEN Size(v.o)
           ELSE IF v.t = "arr" THEN 1 + (LET F[i \in 0..Len(v.e)] == IF i = 0 THEN 0 ELSE F[i - 1] + Size(v.e[i]) IN F[Len(v.e)])
           ELSE IF v.t = "obj" THEN 1 + (LET F[i \in 0..Len(v.e)] == IF i = 0 THEN 0 ELSE F[i - 1] + Size(v.e[i].v) IN F[Len(v.e)])
           ELSE 1
Cont(v) == IF v.t = "proxy" THEN v.o ELSE v
Child(v, i) == IF Cont(v).t = "arr" THEN Cont(v).e[i] ELSE Cont(v).e[i].v
\* paths (member positions in insertion order) to the containers of a value
RECURSIVE Paths(_)
Paths(v) == IF Cont(v).t \notin {"arr", "obj"} \/ v.t \in {"tj", "shared"} THEN {}
            ELSE {<<>>} \cup UNION {{<<i>> \o p : p \in Paths(Child(v, i))} : i \in DOMAIN Cont(v).e}
RECURSIVE NodeAt(_, _)
NodeAt(v, p) == IF p = <<>> THEN v ELSE NodeAt(Child(v, Head(p)), Tail(p))
RECURSIVE AddAt(_, _, _)
AddAt(v, p, m) ==      \* m: the member record (arrays use only m.v)
  IF v.t = "proxy" THEN [v EXCEPT !.o = AddAt(v.o, p, m)]
  ELSE IF p = <<>> THEN (IF v.t = "arr" THEN [v EXCEPT !.e = Append(v.e, m.v)] ELSE [v EXCEPT !.e = Append(v.e, m)])
  ELSE IF v.t = "arr" THEN [v EXCEPT !.e[Head(p)] = AddAt(v.e[Head(p)], Tail(p), m)]
  ELSE [v EXCEPT !.e[Head(p)].v = AddAt(v.e[Head(p)].v, Tail(p), m)]
None == [t |-> "none"]
SetRoot(kd) ==
  /\ Mode = "str" /\ val = None /\ kd \notin {"hole", "cyc"}
  /\ val' = Node(kd) /\ n' = n + 1
  /\ act' = [op |-> "root", kind |-> kd, res |-> "ok"]
  /\ UNCHANGED <<plan, text, shown, cfg>>
Add(p, kid, kd) ==
  /\ Mode = "str" /\ val # None /\ Size(val) < MaxNodes
  /\ LET c == Cont(NodeAt(val, p)) IN
     /\ IF c.t = "arr" THEN kid = "-" ELSE (kid # "-" /\ kd # "hole" /\ KeyPos(c.e, KeyText(kid)) = 0)
     /\ val' = AddAt(val, p, IF kid = "-" THEN [k |-> <<>>, v |-> Node(kd), a |-> "e"] ELSE [k |-> KeyText(kid), v |-> Node(kd), a |-> KeyAttr(kid)])
     /\ act' = [op |-> "add", path |-> p, k |-> IF kid = "-" THEN "-" ELSE ShowStr(KeyText(kid)), a |-> IF kid = "-" THEN "e" ELSE KeyAttr(kid),
                kind |-> kd, res |-> "ok"]
  /\ n' = n + 1
  /\ UNCHANGED <<plan, text, shown, cfg>>
\* JSON.stringify(val, replacer, space): the text, and the rendering of what JSON.parse returns for it
\* (a gap that is not white space makes the text of a non-empty container unparsable; pb = "F": the text contains an
\* escaped lone surrogate, parsing it back falls under the documented exception and is not compared)
StrOutcome(j, gap) == IF j.t = "undef" THEN [pb |-> "T", res |-> [s |-> "undefined", back |-> "-"]]
                      ELSE IF j.t = "TypeError" THEN [pb |-> "T", res |-> [s |-> "TypeError", back |-> "-"]]
                      ELSE LET tx == Txt(j, gap, <<>>)
                               r == ParseText(tx)
                           IN IF r.ok /\ ~r.d THEN [pb |-> "F", res |-> [s |-> ShowStr(tx), back |-> "-"]]
                              ELSE [pb |-> "T", res |-> [s |-> ShowStr(tx), back |-> IF r.ok THEN Render(r.v) ELSE "SyntaxError"]]
Stringify(rid, iid) ==
  /\ Mode = "str" /\ val # None
  /\ LET o == StrOutcome(Ser(Replacer(rid), <<>>, val), Gap(iid)) IN
     act' = [op |-> "str", rep |-> rid, ind |-> iid, pb |-> o.pb, res |-> o.res]
  /\ UNCHANGED <<plan, text, shown, cfg, val, n>>
\* Object.MarshalJSON: JSON.stringify(o) without replacer and space; "null" where stringify gives undefined
Marshal ==
  /\ Mode = "str" /\ val # None /\ IsObjectValue(val)
  /\ act' = [op |-> "marshal", res |-> LET j == Ser(NoRep, <<>>, val) IN
                                        IF j.t = "undef" THEN "null" ELSE IF j.t = "TypeError" THEN "TypeError" ELSE ShowStr(Txt(j, <<>>, <<>>))]
  /\ UNCHANGED <<plan, text, shown, cfg, val, n>>

Init == /\ plan = "none" /\ text = <<>> /\ shown = "" /\ cfg = Cfg0 /\ n = 0 /\ act = [op |-> "init"] /\ val = None
Choose(nm) ==
  /\ plan = "none" /\ plan' = nm
  /\ val' = IF ModeOf(nm) = "parse" THEN Reject ELSE None
  /\ act' = [op |-> "plan", name |-> nm, mode |-> ModeOf(nm), res |-> "ok"]
  /\ UNCHANGED <<text, shown, cfg, n>>
Next == \/ \E nm \in Plans : Choose(nm)
        \/ \E id \in PieceIds : Append1(id)
        \/ \E i \in 1..Len(text) : Edit("del", i, 0) \/ (\E c \in EditChars : Edit("rep", i, c))
        \/ \E i \in 1..(Len(text) + 1), c \in EditChars : Edit("ins", i, c)
        \/ \E kd \in Kinds : SetRoot(kd)
        \/ \E p \in (IF Mode = "str" /\ val # None THEN Paths(val) ELSE {}), kid \in KeyIds \cup {"-"}, kd \in Kinds : Add(p, kid, kd)
        \/ \E rid \in Reps, iid \in Inds : Stringify(rid, iid)
        \/ Marshal
Spec == Init /\ [][Next]_vars

\* ---------------------------------------------------------------------------------------------------------------
\* Properties
\* (1) the two formulations of the grammar agree on the text of every state (corruptions: Assert inside Edit)
Agree == Mode = "parse" => ((val # Reject) = Accepting(cfg))
\* (2) no state holds a text the automaton has given up on (such texts are only probed, see Append1)
NeverDead == cfg.ph # "X"
\* (3) parsed objects: unique keys, array indices first in ascending order
RECURSIVE WellFormed(_)
WellFormed(v) == IF v.t = "arr" THEN \A i \in DOMAIN v.e : WellFormed(v.e[i])
                 ELSE IF v.t = "obj" THEN /\ \A i, j \in DOMAIN v.e : i # j => v.e[i].k # v.e[j].k
                                          /\ KeyOrder(v.e) = v.e
                                          /\ \A i \in DOMAIN v.e : WellFormed(v.e[i].v)
                 ELSE TRUE
WellFormedInv == (Mode = "parse" /\ val # Reject) => WellFormed(val)
\* (4) stringify(parse(t)) is canonical: it parses, and stringifying its value gives the same text again;
\*     a value without -0 and infinities is recovered exactly
RECURSIVE Plain(_)
Plain(v) == IF v.t = "arr" THEN \A i \in DOMAIN v.e : Plain(v.e[i])
            ELSE IF v.t = "obj" THEN \A i \in DOMAIN v.e : Plain(v.e[i].v)
            ELSE IF v.t = "num" THEN v.v \notin NonFinite /\ v.v # MZeroT
            ELSE TRUE
RoundTrip == (Mode = "parse" /\ val # Reject) =>
               LET c == Canon(val)
                   r == ParseText(c) IN
               /\ r.ok /\ Accepts(c) /\ Canon(r.v) = c
               /\ Plain(val) => r.v = val
\* (5) every specified stringify text is a JSON text (for every gap of the menu) that parses back to the serialisation tree
AllGaps == {Gap(i) : i \in Inds}
ParsesBack == (Mode = "str" /\ val # None) =>
                \A rid \in Reps : LET j == Ser(Replacer(rid), <<>>, val) IN
                   (j.t \notin {"undef", "TypeError"}) =>
                      \A g \in AllGaps : LET r == ParseText(Txt(j, g, <<>>)) IN
                                         (\A u \in DOMAIN g : IsWs(g[u])) => (r.ok /\ r.v = Reparse(j))
\* (6) a JSON-representable value (a JSON tree whose numbers are finite and not -0, keys enumerable) comes back unchanged,
\*     up to the own-key order of its objects
RECURSIVE IsJsonTree(_)
IsJsonTree(v) == IF v.t = "arr" THEN \A i \in DOMAIN v.e : IsJsonTree(v.e[i])
                 ELSE IF v.t = "obj" THEN \A i \in DOMAIN v.e : v.e[i].a = "e" /\ IsJsonTree(v.e[i].v)
                 ELSE v.t \in {"null", "true", "false", "str"} \/ (v.t = "num" /\ v.v \notin NonFinite /\ v.v # MZeroT)
RECURSIVE OwnOrder(_)
OwnOrder(v) == IF v.t = "arr" THEN JArr([i \in DOMAIN v.e |-> OwnOrder(v.e[i])])
               ELSE IF v.t = "obj" THEN [t |-> "obj", e |-> KeyOrder([i \in DOMAIN v.e |-> Mem(v.e[i].k, OwnOrder(v.e[i].v))])]
               ELSE v
ReprRoundTrip == (Mode = "str" /\ val # None /\ IsJsonTree(val)) =>
                   LET r == ParseText(Canon(val)) IN r.ok /\ r.v = OwnOrder(val)

\* ---------------------------------------------------------------------------------------------------------------
\* Output for binding A
RECURSIVE Shape(_)
Shape(v) ==
  CASE v.t \in {"null", "true", "false", "undef", "fun", "sym", "big", "hole", "cyc", "shared", "none"} -> v.t
    [] v.t = "num" -> "#" \o ShowStr(v.v)
    [] v.t = "str" -> ShowQStr(v.v)
    [] v.t = "box" -> "B(" \o Shape(v.p) \o ")"
    [] v.t = "proxy" -> "P(" \o Shape(v.o) \o ")"
    [] v.t = "tj" -> "tj:" \o v.f
    [] v.t = "date" -> IF v.valid THEN "date0" ELSE "datenan"
    [] v.t = "arr" -> "[" \o JoinS([i \in DOMAIN v.e |-> Shape(v.e[i])], ",", 1) \o "]"
    [] v.t = "obj" -> LET o == KeyOrder(v.e) IN
                      "{" \o JoinS([i \in DOMAIN o |-> (IF o[i].a = "h" THEN "~" ELSE "") \o ShowQStr(o[i].k) \o ":" \o Shape(o[i].v)], ",", 1) \o "}"
StOf(pl, t, v, m) == IF ModeOf(pl) = "parse" THEN [plan |-> pl, text |-> t, n |-> m]
                     ELSE IF ModeOf(pl) = "str" THEN [plan |-> pl, val |-> v, n |-> m] ELSE [plan |-> pl, n |-> m]
ObsOf(pl, t, v, m) == IF ModeOf(pl) = "parse" THEN [plan |-> pl, text |-> t, n |-> m]
                      ELSE IF ModeOf(pl) = "str" THEN [plan |-> pl, shape |-> Shape(v), n |-> m] ELSE [plan |-> pl, n |-> m]
Emit == PrintT(ToJson([f |-> StOf(plan, shown, val, n), l |-> act', t |-> StOf(plan', shown', val', n'), o |-> ObsOf(plan', shown', val', n')]))
View == <<plan, text, val, n>>
=============================================================================
