------------------------------ MODULE ObjArray ------------------------------
(* Array exotic object (ECMA-262 10.4.2): [[DefineOwnProperty]] on indices and on "length" (ArraySetLength),
   and the ordinary Get / Set / Delete / Has / OwnKeys on top of it, with a prototype that may carry indexed
   properties (properties C07, C04).

   Code anchors: array.go arrayObject (dense: values[], objCount, propValueCount, lengthProp; setLength /
   _setLengthInt / expand / defineOwnPropertyIdx / deleteIdx / setOwnIdx), array_sparse.go sparseArrayObject
   (items[], the same operations), and the transitions between them (arrayObject.expand -> sparse when the
   index is far beyond the length; sparseArrayObject normalises back).

   Abstract indices 0..N-1 and abstract lengths 0..N are mapped by the replayer through an order-preserving
   embedding  index i |-> c[i],  length L |-> (IF L = 0 THEN 0 ELSE c[L-1] + 1)  for several concrete index
   vectors c (e.g. <<0,1,2>>, <<0,1,5000>>, <<0,65535,2147483647>>, <<1,4294967293,4294967294>>), which
   preserves every comparison the algorithms make (index < length, index >= newLen).  The same edge set is
   replayed on a dense array, on a twin forced into sparse storage and on a twin forced sparse -> dense. *)
EXTENDS ObjBase, Json

CONSTANTS N,          \* number of abstract indices
          DescSet,    \* element descriptors
          PElems,     \* [0..N-1 -> Prop]: indexed properties on the prototype (fixed per configuration)
          Vias

VARIABLES el,     \* [0..N-1 -> Prop]
          len,    \* 0..N
          lenW,   \* "T" | "F"   writability of length
          ext,    \* "T" | "F"
          act

vars == <<el, len, lenW, ext, act>>
Idx == 0..(N - 1)

Init == /\ el = [i \in Idx |-> None] /\ len = 0 /\ lenW = "T" /\ ext = "T" /\ act = [op |-> "init"]

Surface(via, r) == CASE via = "refl" -> r
                     [] via = "sloppy" -> "ok"
                     [] OTHER -> IF r = "true" THEN "ok" ELSE "TypeError"

\* 10.4.2.1 [[DefineOwnProperty]](index): <<result, el', len'>>
DefIdx(e, l, lw, x, i, D) ==
  IF i >= l /\ lw = "F" THEN <<"false", e, l>>
  ELSE LET r == Validate(e[i], x, D) IN
       IF r[1] = "false" THEN <<"false", e, l>>
       ELSE <<"true", [e EXCEPT ![i] = r[2]], IF i >= l THEN i + 1 ELSE l>>

DefineIdx(i, D, via) ==
  /\ via \in {"obj", "refl"}
  /\ IF BadD(D) THEN UNCHANGED <<el, len, lenW, ext>> /\ act' = [op |-> "define", i |-> i, d |-> D, via |-> via, res |-> "TypeError"]
     ELSE LET r == DefIdx(el, len, lenW, ext, i, D) IN
          /\ el' = r[2] /\ len' = r[3] /\ UNCHANGED <<lenW, ext>>
          /\ act' = [op |-> "define", i |-> i, d |-> D, via |-> via, res |-> Surface(via, r[1])]

\* 10.4.2.4 ArraySetLength with Desc = {value: newLen (-1 = absent), writable: w (or "abs")}
\* returns <<result, el', len', lenW'>>
\* deleting downwards from the highest index >= newLen; stops at the first non-configurable element
RECURSIVE Truncate(_, _, _)
Truncate(e, newLen, from) ==   \* from: highest candidate index; returns <<el', stoppedAt>> (stoppedAt = -1: done)
  IF from < newLen THEN <<e, -1>>
  ELSE IF e[from].k = "none" THEN Truncate(e, newLen, from - 1)
  ELSE IF e[from].c = "F" THEN <<e, from>>
  ELSE Truncate([e EXCEPT ![from] = None], newLen, from - 1)

SetLen(e, l, lw, newLen, w) ==
  IF newLen = -1 THEN
       \* generic / writable-only descriptor on a non-configurable, non-enumerable data property
       IF lw = "F" /\ w = "T" THEN <<"false", e, l, lw>> ELSE <<"true", e, l, IF w = "abs" THEN lw ELSE w>>
  ELSE IF newLen >= l THEN
       IF lw = "F" /\ (w = "T" \/ newLen # l) THEN <<"false", e, l, lw>>
       ELSE <<"true", e, newLen, IF w = "abs" THEN lw ELSE w>>
  ELSE IF lw = "F" THEN <<"false", e, l, lw>>
  ELSE LET t == Truncate(e, newLen, N - 1) IN
       IF t[2] = -1 THEN <<"true", t[1], newLen, IF w = "F" THEN "F" ELSE lw>>
       ELSE <<"false", t[1], t[2] + 1, IF w = "F" THEN "F" ELSE lw>>

\* Object.defineProperty(a, "length", {value, writable, [enumerable], [configurable]})
DefineLength(newLen, w, bad, via) ==
  /\ via \in {"obj", "refl"}
  /\ LET r == IF bad # "none" THEN <<"false", el, len, lenW>> ELSE SetLen(el, len, lenW, newLen, w) IN
     /\ el' = r[2] /\ len' = r[3] /\ lenW' = r[4] /\ UNCHANGED ext
     /\ act' = [op |-> "deflen", len |-> newLen, w |-> w, bad |-> bad, via |-> via, res |-> Surface(via, r[1])]

\* a.length = L (OrdinarySet on the own data property "length" -> [[DefineOwnProperty]]({value: L}))
AssignLength(newLen, via) ==
  /\ via \in {"sloppy", "strict", "refl"}
  /\ LET r == IF lenW = "F" THEN <<"false", el, len, lenW>> ELSE SetLen(el, len, lenW, newLen, "abs") IN   \* OrdinarySet: non-writable => false
     /\ el' = r[2] /\ len' = r[3] /\ lenW' = r[4] /\ UNCHANGED ext
     /\ act' = [op |-> "setlen", len |-> newLen, via |-> via, res |-> Surface(via, r[1])]

\* OrdinarySet on an index, receiver = the array; the prototype may intercept
SetIdx(i, v, via) ==
  /\ via \in {"sloppy", "strict", "refl"}
  /\ LET own == el[i]
         viaProto == own.k = "none" /\ PElems[i].k # "none"
         src == IF viaProto THEN PElems[i] ELSE own
     IN IF src.k = "acc" THEN
             /\ UNCHANGED <<el, len, lenW, ext>>
             /\ act' = [op |-> "set", i |-> i, v |-> v, via |-> via,
                        res |-> [r |-> Surface(via, IF src.s = "u" THEN "false" ELSE "true"),
                                 log |-> IF src.s = "u" THEN <<>> ELSE <<src.s \o "=" \o v>>]]
        ELSE IF src.k = "data" /\ src.w = "F" THEN
             /\ UNCHANGED <<el, len, lenW, ext>>
             /\ act' = [op |-> "set", i |-> i, v |-> v, via |-> via, res |-> [r |-> Surface(via, "false"), log |-> <<>>]]
        ELSE LET D == IF own.k = "data" THEN [NoD EXCEPT !.v = v] ELSE [NoD EXCEPT !.v = v, !.w = "T", !.e = "T", !.c = "T"]
                 r == DefIdx(el, len, lenW, ext, i, D) IN
             /\ el' = r[2] /\ len' = r[3] /\ UNCHANGED <<lenW, ext>>
             /\ act' = [op |-> "set", i |-> i, v |-> v, via |-> via, res |-> [r |-> Surface(via, r[1]), log |-> <<>>]]

GetIdx(i) ==
  /\ UNCHANGED <<el, len, lenW, ext>>
  /\ LET src == IF el[i].k # "none" THEN el[i] ELSE PElems[i] IN
     act' = [op |-> "get", i |-> i,
             res |-> IF src.k = "none" THEN [v |-> "u", log |-> <<>>]
                     ELSE IF src.k = "data" THEN [v |-> src.v, log |-> <<>>]
                     ELSE IF src.g = "u" THEN [v |-> "u", log |-> <<>>] ELSE [v |-> "gv", log |-> <<src.g>>]]

HasIdx(i) ==
  /\ UNCHANGED <<el, len, lenW, ext>>
  /\ act' = [op |-> "has", i |-> i, res |-> IF el[i].k # "none" \/ PElems[i].k # "none" THEN "true" ELSE "false"]

DeleteIdx(i, via) ==
  /\ via \in {"sloppy", "strict", "refl"}
  /\ LET ok == el[i].k = "none" \/ el[i].c = "T" IN
     /\ el' = IF ok THEN [el EXCEPT ![i] = None] ELSE el
     /\ UNCHANGED <<len, lenW, ext>>
     /\ act' = [op |-> "delete", i |-> i, via |-> via,
                res |-> IF ok THEN "true" ELSE IF via = "strict" THEN "TypeError" ELSE "false"]

Prevent == /\ ext' = "F" /\ UNCHANGED <<el, len, lenW>> /\ act' = [op |-> "prevent", res |-> "ok"]

FreezeProp(p) == IF p.k = "none" THEN p ELSE IF p.k = "data" THEN [p EXCEPT !.c = "F", !.w = "F"] ELSE [p EXCEPT !.c = "F"]
Freeze == /\ ext' = "F" /\ lenW' = "F" /\ el' = [i \in Idx |-> FreezeProp(el[i])] /\ UNCHANGED len
          /\ act' = [op |-> "freeze", res |-> "ok"]
Seal == /\ ext' = "F" /\ el' = [i \in Idx |-> IF el[i].k = "none" THEN el[i] ELSE [el[i] EXCEPT !.c = "F"]]
        /\ UNCHANGED <<len, lenW>> /\ act' = [op |-> "seal", res |-> "ok"]

Next ==
  \/ \E i \in Idx :
       \/ \E D \in DescSet, via \in Vias : DefineIdx(i, D, via)
       \/ \E v \in {"v1", "v2"}, via \in Vias : SetIdx(i, v, via)
       \/ GetIdx(i) \/ HasIdx(i)
       \/ \E via \in Vias : DeleteIdx(i, via)
  \/ \E L \in -1..N, w \in B3, via \in Vias : (L # -1 \/ w # "abs") /\ DefineLength(L, w, "none", via)
  \/ \E bad \in {"enumerable", "configurable", "getter"}, via \in Vias : DefineLength(-1, "abs", bad, via)
  \/ \E L \in 0..N, via \in Vias : AssignLength(L, via)
  \/ Prevent \/ Freeze \/ Seal

Spec == Init /\ [][Next]_vars

---------------------------------------------------------------------------
\* invariants of the array exotic object
LenBound == \A i \in Idx : el[i].k # "none" => i < len
LenRange == len \in 0..N
Essential == [][/\ \A i \in Idx : EssentialProp(el[i], el'[i])
                /\ (lenW = "F" => len' = len /\ lenW' = "F")]_vars
NoGrow == [][ext = "F" => ext' = "F" /\ \A i \in Idx : el[i].k = "none" => el'[i].k = "none"]_vars

MenuDescs == { [NoD EXCEPT !.v = "v1", !.w = "T", !.e = "T", !.c = "T"],
               [NoD EXCEPT !.v = "v2", !.w = "F", !.e = "T", !.c = "T"],
               [NoD EXCEPT !.v = "v1", !.w = "T", !.e = "T", !.c = "F"],
               [NoD EXCEPT !.g = "g1", !.s = "s1", !.e = "T", !.c = "T"],
               [NoD EXCEPT !.v = "v2"],
               [NoD EXCEPT !.c = "F"] }
NoProto == [i \in Idx |-> None]
ProtoA == [i \in Idx |-> IF i = 0 THEN Data("v2", "F", "T", "T") ELSE IF i = 1 THEN Acc("g1", "s1", "T", "T") ELSE None]

St == [el |-> el, len |-> len, lenW |-> lenW, ext |-> ext]
StP == [el |-> el', len |-> len', lenW |-> lenW', ext |-> ext']
Emit == PrintT(ToJson([f |-> St, l |-> act', t |-> StP]))   \* the observation is the state itself
View == <<el, len, lenW, ext>>
=============================================================================
