-------------------------------- MODULE Bridge --------------------------------
(* Go values behind script wrappers: aliasing and history half of property C13 (Go <-> JS value bridge).

   What is specified.  A host program hands ONE Go container to script with Runtime.ToValue and keeps using it; script
   reads, writes and restructures it through the wrapper, keeps element wrappers obtained earlier ("references"), and
   the host reads and writes its own variables in between.  The module states what both sides must see after every step:

     * live view: a wrapped pointer-to-slice / array / struct / map IS the Go value (state g = w, checked as invariant
       LiveView); Export() returns the very value that was wrapped and ExportTo into the value's own type is deep-equal;
     * the wrapper of a slice or array is an Array: every Array.prototype method is the ECMA-262 algorithm (23.1.3)
       run over the wrapper's internal methods, which runtime.go's ToValue comment documents: no holes
       (HasProperty(i) = i < length), delete stores the zero value, storing past the end / growing `length` zero-fills,
       shrinking drops (and clears) the tail, a Go array is not resizable, a struct's fields can neither be added nor
       deleted, a value that cannot be converted to the element type is a TypeError and changes nothing;
     * "copy-on-change" (runtime.go, ToValue, caveat 2): reading a nested non-pointer compound (here S = struct{F int})
       yields a REFERENCE to the cell; when script re-assigns the cell (assignment, delete, shrinking, and therefore
       every Array method that moves elements with Get/Set) all earlier references to it become references to ONE copy
       of the old value; in-place sort() moves the references with the elements; assignment INTO a cell copies;
       growth is not a re-assignment;
     * a slice passed by value (caveat 3): the wrapper owns a copy of the slice header over the same backing array:
       element writes are shared while the capacity Go allocated lasts, length changes are never seen by Go, and growth
       beyond the capacity moves the wrapper (with its references) to an array of its own;
     * values behind pointers (of type *S: in []interface{}, in []*S, in map[string]*S, in struct fields) alias the one Go object
       wherever they are stored; storing a wrapper back stores the very pointer (round-trip identity);
       non-addressable compounds (map[string]S values) are copied on every read;
     * no script operation on a wrapper may panic the host: operations whose callbacks restructure the container in the
       middle (Hostile) must end normally or with a script exception and leave both views coherent.

   Abstract state.  w: the cells as script must see them; g: the cells as the host must see them through its own
   variable; sh: a by-value slice wrapper still uses Go's backing array; r: the references held by script (r[1..NH] are
   kept across steps, further entries are the temporaries of the algorithm being run): none / slot i / copy k / object k;
   c: the copies (c[k] belongs to the group of references led by reference k); o: field F of the two Go objects p1, p2
   that pointer cells may point to.  A cell of an S container is the integer in its field F; a cell of an interface{} /
   pointer container is a token "nil", "i<n>" (Go int n) or "p<k>" (pointer to object k); a map is the sequence of the
   values of keys a, b, c with Absent for a missing key.

   Kinds (constant Kind; one TLC run each):  ss = []S by value, pss = *[]S, fss = the []S field L of a struct wrapped by
   pointer (reached as st.L on every access), arr = *[Len0]S, st = *struct{A, B S} (cells = fields), ifs = []interface{}
   by value, pifs = *[]interface{}, pps = *[]*S, stp = *struct{P, Q *S}, msi = map[string]int, msp = map[string]*S,
   mss = map[string]S.

   Code anchors in /repo: runtime.go (ToValue and its documentation comment, toReflectValue, ExportTo),
   object_goarray_reflect.go (valueCache, _putIdx, _deleteIdx, swap), object_goslice_reflect.go (grow, shrink, putLength),
   object_goslice.go ([]interface{}), object_goreflect.go (struct fields, valueCache, copyReflectValueWrapper, elemToValue),
   object_gomap_reflect.go, object_gomap.go, builtin_array.go (the Array.prototype methods; sort uses the sortable fast
   path of host wrappers).

   Kind "graph" has no container: it states that ONE Export() of a script-built object graph preserves sharing and cycles.

   Host-side steps: in-place writes of a cell / of an object behind a pointer / of a map entry, and append when the capacity
   is exhausted (the slice moves to a fresh backing array; element references taken before are let go by the scenario,
   everything read through the container afterwards must be the new array).

   Properties checked by TLC on the model itself: Shape (no dangling reference, fixed containers keep their length),
   LiveView, Unshared, KeepsValue (restructuring the container never changes what a kept reference shows), NoAliasAfterSet,
   SortOK (stable permutation, references follow), BadIsNoop (a failed conversion changes nothing).

   Bounds: MaxOps operations from the initial contents (S cells 2,1,3,4 / tokens p1,i1,p1,i2 or p1,p2,p1,nil / maps a,b
   present), NH <= 2 references kept, small argument sets (Rich = 1 adds more; OpSet restricts the operations so that
   MaxOps can be larger).  Measured: quick tier (13 configurations, Len0 = 2, MaxOps = 3) 21 k states / 166 k transitions;
   e.g. pss Len0 = 3, MaxOps = 3: 10 k states / 61 k transitions in 7 s; pss MaxOps = 4: 40 k / 347 k; pss MaxOps = 5 over
   the reference-handling core: 87 k / 576 k in 27 s.  Every transition is emitted (ACTION_CONSTRAINT Emit) with the
   operation's specified result in the label and replayed on the real engine by lib/checks/c13.py through
   harness/adaptors/bridge.js and harness/natives/bridge.go. *)
EXTENDS Integers, Sequences, FiniteSets, TLC, Json

CONSTANTS Kind,       \* which container (see above); "graph" = no container, only Export() of script-built object graphs
          Len0, Cap0, \* initial length and capacity of a slice (arr: Len0 in {2, 3})
          NH,         \* element references script keeps (0..2)
          MaxOps,     \* operations per history
          Rich,       \* 1: larger argument sets
          OpSet,      \* {} = every operation, otherwise only the named ones (long histories over a core of operations)
          Script      \* <<>> = any order, otherwise the k-th operation of a history is Script[k] (with every argument): directed long histories

VARIABLES w, g, sh, r, c, o, nops, act
vars == <<w, g, sh, r, c, o, nops, act>>

\* ---- kinds ----------------------------------------------------------------------------------------------------------
IsMap  == Kind \in {"msi", "msp", "mss"}
IsS    == Kind \in {"ss", "pss", "fss", "arr", "st"}      \* cells are struct S by value (abstract value: field F)
IsTok  == Kind \in {"ifs", "pifs", "stp", "pps"}         \* cells are interface{} / *S (abstract value: token)
ByVal  == Kind \in {"ss", "ifs"}                         \* the slice header was copied into the wrapper
Fixed  == Kind \in {"arr", "st", "stp"}                  \* not resizable
IsArr  == Kind \in {"ss", "pss", "fss", "arr", "ifs", "pifs", "pps"}   \* the wrapper is an Array
Struct == Kind \in {"st", "stp"}
PtrVal == Kind \in {"ifs", "pifs", "stp", "pps", "msp"}  \* values may be pointers to the objects p1, p2
StrictPtr == Kind \in {"stp", "pps", "msp"}              \* the static type is *S: only nil or a pointer can be stored
Zero   == IF IsTok \/ Kind = "msp" THEN "nil" ELSE 0
Absent == IF Kind = "msp" THEN "-" ELSE 0 - 1

None     == [t |-> "none", i |-> 0]
Slot(i)  == [t |-> "slot", i |-> i]
Copy(k)  == [t |-> "copy", i |-> k]
Obj(k)   == [t |-> "obj", i |-> k]
Ptr(k)   == "p" \o ToString(k)
IsPtr(x) == x \in {"p1", "p2"}
PtrNo(x) == IF x = "p1" THEN 1 ELSE 2

Min(a, b) == IF a < b THEN a ELSE b
Max(a, b) == IF a > b THEN a ELSE b
\* relative index (ToIntegerOrInfinity + clamp); 99 stands for "argument absent"
Rel(x, len) == IF x = 99 THEN len ELSE IF x < 0 THEN Max(len + x, 0) ELSE Min(x, len)

InitF   == <<2, 1, 3, 4>>
InitTok == <<"p1", "i1", "p1", "i2">>
W0 == CASE IsS -> SubSeq(InitF, 1, Len0)
        [] Kind \in {"ifs", "pifs"} -> SubSeq(InitTok, 1, Len0)
        [] Kind = "stp" -> <<"p1", "nil">>
        [] Kind = "pps" -> SubSeq(<<"p1", "p2", "p1", "nil">>, 1, Len0)
        [] Kind \in {"msi", "mss"} -> <<2, 1, Absent>>
        [] Kind = "msp" -> <<"p1", "p1", Absent>>
        [] Kind = "graph" -> <<>>
S0 == [w |-> W0, g |-> W0, sh |-> "T", r |-> [j \in 1..NH |-> None], c |-> [j \in 1..NH |-> 0], o |-> <<1, 2>>]

Init == w = S0.w /\ g = S0.g /\ sh = S0.sh /\ r = S0.r /\ c = S0.c /\ o = S0.o /\ nops = 0 /\ act = [op |-> "init"]

Cur == [w |-> w, g |-> g, sh |-> sh, r |-> r, c |-> c, o |-> o]

\* ---- references -----------------------------------------------------------------------------------------------------
\* the struct value (field F) that reference number k shows
Deref(s, k) == LET x == s.r[k] IN
  CASE x.t = "slot" -> s.w[x.i + 1]
    [] x.t = "copy" -> s.c[x.i]
    [] x.t = "obj"  -> s.o[x.i]

\* a store into cell i of the array the wrapper uses; the host's variable sees it while that array is (still) its array
Poke(s, i, v) == [s EXCEPT !.w[i + 1] = v,
                           !.g = IF ByVal /\ s.sh = "T" /\ i < Len(s.g) THEN [s.g EXCEPT ![i + 1] = v] ELSE s.g]

\* copy-on-change: all references to slot i become references to ONE copy of the slot's current value
Detach(s, i) ==
  LET at == {k \in 1..Len(s.r) : s.r[k].t = "slot" /\ s.r[k].i = i} IN
  IF at = {} THEN s
  ELSE LET lead == CHOOSE k \in at : \A k2 \in at : k <= k2 IN
       [s EXCEPT !.r = [k \in 1..Len(s.r) |-> IF k \in at THEN Copy(lead) ELSE s.r[k]],
                 !.c = [s.c EXCEPT ![lead] = s.w[i + 1]]]

\* re-assignment of an existing slot: earlier references keep the old value
Assign(s, i, v) == Poke(Detach(s, i), i, v)

\* growth is not a re-assignment; the new cells hold the zero value.  A by-value wrapper leaves Go's array when the
\* capacity Go allocated is exceeded, taking its references along (they are references to the wrapper's slots)
Grow(s, n) ==
  LET add == [j \in 1..(n - Len(s.w)) |-> Zero] IN
  IF ByVal /\ s.sh = "T" /\ n > Cap0 THEN [s EXCEPT !.w = s.w \o add, !.sh = "F"]
  ELSE [s EXCEPT !.w = s.w \o add,
                 !.g = IF ByVal /\ s.sh = "T" THEN [j \in 1..Len(s.g) |-> IF j > Len(s.w) /\ j <= n THEN Zero ELSE s.g[j]] ELSE s.g]

\* shrinking: each dropped slot is re-assigned (references get the copy), cleared, and leaves the wrapper's window
RECURSIVE ShrinkTo(_, _)
ShrinkTo(s, n) ==
  IF Len(s.w) <= n THEN s
  ELSE LET i == Len(s.w) - 1
           s1 == Assign(s, i, Zero) IN
       ShrinkTo([s1 EXCEPT !.w = SubSeq(s1.w, 1, i)], n)

\* a reference slot k of script is released / re-used: a copy it led is handed to the next member of its group
Release(s, k) ==
  LET grp == {m \in 1..Len(s.r) : m # k /\ s.r[m] = Copy(k)} IN
  IF grp = {} THEN [s EXCEPT !.r[k] = None, !.c[k] = 0]
  ELSE LET nl == CHOOSE m \in grp : \A m2 \in grp : m <= m2 IN
       [s EXCEPT !.r = [m \in 1..Len(s.r) |-> IF m = k THEN None ELSE IF m \in grp THEN Copy(nl) ELSE s.r[m]],
                 !.c = [s.c EXCEPT ![nl] = s.c[k], ![k] = 0]]

\* end of an operation: the algorithm's temporaries are gone; a pointer-kind wrapper and the host share one header
Norm(s) == [s EXCEPT !.r = SubSeq(s.r, 1, NH), !.c = SubSeq(s.c, 1, NH), !.g = IF ByVal THEN s.g ELSE s.w]

\* ---- script values and conversion -----------------------------------------------------------------------------------
\* the argument values script uses: "lit" = {F: 5}, "num" = 5, "nil" = null, "h<j>" = the reference kept in slot j
JV(v) == CASE v = "lit" -> [t |-> "lit", k |-> 5]
           [] v = "num" -> [t |-> "num", k |-> 5]
           [] v = "nil" -> [t |-> "tok", x |-> "nil"]
           [] v = "h1"  -> [t |-> "ref", k |-> 1]
           [] v = "h2"  -> [t |-> "ref", k |-> 2]
           \* a wrapped **S (two pointer levels above the element type): assigning it stores a copy of the pointee, here {F: 6}
           [] v = "pp"  -> [t |-> "pp", k |-> 6]
\* the Go value stored when script value v is assigned to a cell (Export / ExportTo into the element type); ok = FALSE:
\* the value cannot be converted (TypeError, nothing changes)
Conv(s, v) ==
  IF IsS \/ Kind = "mss"
  THEN (CASE v.t = "ref" -> [ok |-> s.r[v.k].t \in {"slot", "copy"}, v |-> IF s.r[v.k].t \in {"slot", "copy"} THEN Deref(s, v.k) ELSE 0]
          [] v.t = "lit" -> [ok |-> TRUE, v |-> v.k]
          [] v.t = "pp" -> [ok |-> TRUE, v |-> v.k]
          [] OTHER -> [ok |-> FALSE, v |-> 0])
  ELSE IF Kind = "msi"
  THEN (CASE v.t = "num" -> [ok |-> TRUE, v |-> v.k] [] OTHER -> [ok |-> FALSE, v |-> 0])
  ELSE (CASE v.t = "tok" -> [ok |-> TRUE, v |-> v.x]
          [] v.t = "ref" -> [ok |-> s.r[v.k].t = "obj", v |-> IF s.r[v.k].t = "obj" THEN Ptr(s.r[v.k].i) ELSE "nil"]
          [] v.t = "num" -> [ok |-> ~StrictPtr, v |-> "i" \o ToString(v.k)]
          [] OTHER -> [ok |-> FALSE, v |-> "nil"])

\* ---- the wrapper's internal methods (index keys; throw = true, i.e. a FALSE completion is a TypeError) -------------------
\* [[Get]] of an existing index: a struct cell yields a new reference to the slot, other cells yield their value
Get(s, i) ==
  IF IsS THEN [s |-> [s EXCEPT !.r = Append(s.r, Slot(i)), !.c = Append(s.c, 0)], v |-> [t |-> "ref", k |-> Len(s.r) + 1]]
  ELSE [s |-> s, v |-> [t |-> "tok", x |-> s.w[i + 1]]]
Put(s, i, v) ==
  LET cv == Conv(s, v) IN
  IF ~cv.ok THEN [s |-> s, ok |-> FALSE]
  ELSE IF i < Len(s.w) THEN [s |-> Assign(s, i, cv.v), ok |-> TRUE]
  ELSE IF Fixed THEN [s |-> s, ok |-> FALSE]
  ELSE [s |-> Poke(Grow(s, i + 1), i, cv.v), ok |-> TRUE]
Del(s, i) ==
  IF i >= Len(s.w) THEN [s |-> s, ok |-> TRUE]
  ELSE IF Struct THEN [s |-> s, ok |-> FALSE]
  ELSE [s |-> Assign(s, i, Zero), ok |-> TRUE]
SetLen(s, n) ==
  IF Fixed THEN [s |-> s, ok |-> FALSE]          \* 'length' of a wrapped Go array is not writable
  ELSE [s |-> IF n < Len(s.w) THEN ShrinkTo(s, n) ELSE IF n > Len(s.w) THEN Grow(s, n) ELSE s, ok |-> TRUE]
\* "if HasProperty(from) then Set(to, Get(from)) else DeletePropertyOrThrow(to)": the element move of 23.1.3
Move(s, from, to) == IF from < Len(s.w) THEN (LET gt == Get(s, from) IN Put(gt.s, to, gt.v)) ELSE Del(s, to)
RECURSIVE Moves(_, _)
Moves(m, ps) == IF ~m.ok \/ ps = <<>> THEN m ELSE Moves(Move(m.s, Head(ps)[1], Head(ps)[2]), Tail(ps))
RECURSIVE Dels(_, _)
Dels(m, is) == IF ~m.ok \/ is = <<>> THEN m ELSE Dels(Del(m.s, Head(is)), Tail(is))
RECURSIVE Puts(_, _, _)
Puts(m, i, vs) == IF ~m.ok \/ vs = <<>> THEN m ELSE Puts(Put(m.s, i, Head(vs)), i + 1, Tail(vs))
Ok(s) == [s |-> s, ok |-> TRUE]
Then(m, F(_)) == IF m.ok THEN F(m.s) ELSE m
\* what script sees in a value an operation returned: the F of a struct wrapper, the token of anything else
Show(s, v) == IF v.t = "ref" THEN Deref(s, v.k) ELSE IF v.t = "tok" THEN v.x ELSE "u"

\* ---- Array.prototype over the wrapper (ECMA-262 23.1.3.x); each yields [s, ok, res] ------------------------------------
Fin(m, res) == [s |-> m.s, ok |-> m.ok, res |-> IF m.ok THEN res ELSE "TypeError"]
\* 23.1.3.23 push(E)
APush(s, e) == LET len == Len(s.w)
                   m == Then(Put(s, len, e), LAMBDA s1 : SetLen(s1, len + 1)) IN Fin(m, len + 1)
\* 23.1.3.22 pop()
APop(s) == LET len == Len(s.w) IN
  IF len = 0 THEN Fin(SetLen(s, 0), "u")
  ELSE LET gt == Get(s, len - 1)
           m == Then(Del(gt.s, len - 1), LAMBDA s1 : SetLen(s1, len - 1)) IN Fin(m, Show(m.s, gt.v))
\* 23.1.3.27 shift()
AShift(s) == LET len == Len(s.w) IN
  IF len = 0 THEN Fin(SetLen(s, 0), "u")
  ELSE LET gt == Get(s, 0)
           m1 == Moves(Ok(gt.s), [k \in 1..(len - 1) |-> <<k, k - 1>>])
           m == Then(Then(m1, LAMBDA s1 : Del(s1, len - 1)), LAMBDA s2 : SetLen(s2, len - 1)) IN Fin(m, Show(m.s, gt.v))
\* 23.1.3.34 unshift(E)
AUnshift(s, e) == LET len == Len(s.w)
                      m1 == Moves(Ok(s), [j \in 1..len |-> <<len - j, len - j + 1>>])
                      m == Then(Then(m1, LAMBDA s1 : Put(s1, 0, e)), LAMBDA s2 : SetLen(s2, len + 1)) IN Fin(m, len + 1)
\* 23.1.3.26 reverse(): both values are read before either is written
RECURSIVE Rev(_, _, _)
Rev(m, lower, len) ==
  IF ~m.ok \/ lower >= len \div 2 THEN m
  ELSE LET upper == len - lower - 1
           g1 == Get(m.s, lower)
           g2 == Get(g1.s, upper)
           p1 == Put(g2.s, lower, g2.v) IN
       Rev(Then(p1, LAMBDA s1 : Put(s1, upper, g1.v)), lower + 1, len)
AReverse(s) == Fin(Rev(Ok(s), 0, Len(s.w)), "ok")
\* 23.1.3.7 fill(value, start, end)
AFill(s, e, st, en) == LET len == Len(s.w) k == Rel(st, len) f == Rel(en, len) IN
  Fin(Puts(Ok(s), k, [j \in 1..Max(f - k, 0) |-> e]), "ok")
\* 23.1.3.4 copyWithin(target, start, end)
ACopyWithin(s, tg, st, en) ==
  LET len == Len(s.w) to == Rel(tg, len) from == Rel(st, len) fin == Rel(en, len)
      cnt == Max(Min(fin - from, len - to), 0)
      back == from < to /\ to < from + cnt
      ps == [j \in 1..cnt |-> IF back THEN <<from + cnt - j, to + cnt - j>> ELSE <<from + j - 1, to + j - 1>>] IN
  Fin(Moves(Ok(s), ps), "ok")
\* 23.1.3.31 splice(start, deleteCount, ...items); the removed elements are handed out as a new (ordinary) Array
RECURSIVE Gets(_, _, _, _)
Gets(s, i, n, acc) == IF n = 0 THEN [s |-> s, vs |-> acc] ELSE LET gt == Get(s, i) IN Gets(gt.s, i + 1, n - 1, Append(acc, gt.v))
ASplice(s, st, dc, items) ==
  LET len == Len(s.w) as == Rel(st, len) adc == Min(Max(dc, 0), len - as) ic == Len(items)
      rm == Gets(s, as, adc, <<>>)
      m1 == IF ic < adc
            THEN Dels(Moves(Ok(rm.s), [j \in 1..(len - adc - as) |-> <<as + j - 1 + adc, as + j - 1 + ic>>]),
                      [j \in 1..(adc - ic) |-> len - j])
            ELSE IF ic > adc
            THEN Moves(Ok(rm.s), [j \in 1..(len - adc - as) |-> <<len - j, len - j + ic - adc>>])
            ELSE Ok(rm.s)
      m == Then(Puts(m1, as, items), LAMBDA s1 : SetLen(s1, len - adc + ic)) IN
  Fin(m, [j \in 1..adc |-> Show(m.s, rm.vs[j])])
\* 23.1.3.30 sort(comparefn) with a consistent comparator on F: the unique stable order.  runtime.go: "Array value swaps
\* caused by in-place sort do not count as re-assignments, instead the references are adjusted to point to the new indices"
Rank(ws, dir, a) == Cardinality({b \in 1..Len(ws) :
                       IF dir = "asc" THEN ws[b] < ws[a] \/ (ws[b] = ws[a] /\ b < a) ELSE ws[b] > ws[a] \/ (ws[b] = ws[a] /\ b < a)}) + 1
ASort(s, dir) ==
  LET n == Len(s.w)
      src == [pos \in 1..n |-> CHOOSE a \in 1..n : Rank(s.w, dir, a) = pos]
      w2 == [pos \in 1..n |-> s.w[src[pos]]] IN
  [s |-> [s EXCEPT !.w = w2,
                   !.g = IF ByVal /\ s.sh = "T" THEN [j \in 1..Len(s.g) |-> IF j <= n THEN w2[j] ELSE s.g[j]] ELSE s.g,
                   !.r = [k \in 1..Len(s.r) |-> IF s.r[k].t = "slot" THEN Slot(Rank(s.w, dir, s.r[k].i + 1) - 1) ELSE s.r[k]]],
   ok |-> TRUE, res |-> "ok"]

\* ---- actions --------------------------------------------------------------------------------------------------------
\* (a configuration file cannot write a tuple: the scripts are named here and substituted with Script <- SA)
SN == <<>>
SA == <<"hold", "get", "len", "push", "push", "get", "push", "hsetF">>
SB == <<"get", "hold", "len", "push", "get", "push", "push", "hsetF">>
SC == <<"hold", "len", "push", "get", "len", "push", "push", "get">>
SD == <<"hold", "get", "len", "len", "push", "push", "get", "push", "hsetF">>
SE == <<"hold", "len", "push", "push", "get", "push", "hsetF", "get">>
On(x) == (OpSet = {} \/ x \in OpSet) /\ (Script = <<>> \/ (nops < Len(Script) /\ Script[nops + 1] = x))
Commit(s, lbl) ==
  LET n == Norm(s) IN
  /\ nops < MaxOps /\ nops' = nops + 1 /\ act' = lbl
  /\ w' = n.w /\ g' = n.g /\ sh' = n.sh /\ r' = n.r /\ c' = n.c /\ o' = n.o
\* an operation that threw leaves whatever its algorithm had done up to that point
Done(m, lbl) == Commit(m.s, lbl @@ [res |-> m.res])

Held(j) == r[j].t # "none"
ArgOK(v) == CASE v = "h1" -> NH >= 1 /\ Held(1) [] v = "h2" -> NH >= 2 /\ Held(2) [] OTHER -> TRUE
\* the values worth storing into a cell of this kind (others are conversion errors of the same class)
Vals == CASE IsS \/ Kind = "mss" -> {"lit", "h1", "h2", "num", "pp"}
          [] Kind \in {"ifs", "pifs"} -> {"num", "nil", "h1", "h2"}
          [] StrictPtr -> {"nil", "h1", "h2", "num"}
          [] Kind = "msi" -> {"num"}
          [] OTHER -> {}
GoodVals == {v \in Vals : ArgOK(v) /\ Conv(Cur, JV(v)).ok}

\* a[i] (also one past the end: undefined)
ARead(i) == /\ IsArr \/ Struct
            /\ Commit(Cur, [op |-> "get", i |-> i, res |-> IF i >= Len(w) THEN "u" ELSE w[i + 1]])
\* a[i] = v
ASet(i, v) == /\ IsArr \/ Struct
              /\ ArgOK(v)
              /\ LET m == Put(Cur, i, JV(v)) IN Done(Fin(m, "ok"), [op |-> "set", i |-> i, v |-> v])
\* a[i].F = n through a freshly read element: the write lands in the cell (struct cell) or in the Go object (pointer)
ASetF(i, n) ==
  /\ IsArr \/ Struct
  /\ i < Len(w)
  /\ LET lbl == [op |-> "setF", i |-> i, n |-> n] IN
     IF IsS THEN Commit(Poke(Cur, i, n), lbl @@ [res |-> "ok"])
     ELSE IF IsPtr(w[i + 1]) THEN Commit([Cur EXCEPT !.o[PtrNo(w[i + 1])] = n], lbl @@ [res |-> "ok"])
     ELSE Commit(Cur, lbl @@ [res |-> "TypeError"])       \* a property of null / of a number in strict code
ADel(i) == /\ IsArr \/ Struct
           /\ LET m == Del(Cur, i) IN Done(Fin(m, "ok"), [op |-> "del", i |-> i])
ALen(n) == /\ IsArr
           /\ LET m == SetLen(Cur, n) IN Done(Fin(m, "ok"), [op |-> "len", n |-> n])
\* the same change of length through [[DefineOwnProperty]] (Object.defineProperty(a, "length", {value: n})); asking for a read-only
\* length is refused and changes nothing
ALenDef(n, ro) == /\ IsArr
                  /\ IF ro = "T" THEN Commit(Cur, [op |-> "lendef", n |-> n, ro |-> ro, res |-> "TypeError"])
                     ELSE LET m == SetLen(Cur, n) IN Done(Fin(m, "ok"), [op |-> "lendef", n |-> n, ro |-> ro])
AMeth ==
  /\ IsArr
  /\ \/ On("push") /\ \E v \in GoodVals : Done(APush(Cur, JV(v)), [op |-> "push", v |-> v])
     \/ On("pop") /\ Done(APop(Cur), [op |-> "pop"])
     \/ On("shift") /\ Done(AShift(Cur), [op |-> "shift"])
     \/ On("unshift") /\ \E v \in GoodVals : Done(AUnshift(Cur, JV(v)), [op |-> "unshift", v |-> v])
     \/ On("reverse") /\ Done(AReverse(Cur), [op |-> "reverse"])
     \/ On("fill") /\ \E v \in GoodVals, se \in (IF Rich = 1 THEN {<<0, 99>>, <<1, 2>>, <<-1, 99>>} ELSE {<<0, 99>>, <<1, 2>>}) :
          Done(AFill(Cur, JV(v), se[1], se[2]), [op |-> "fill", v |-> v, s |-> se[1], e |-> se[2]])
     \/ On("copyWithin") /\ \E a \in (IF Rich = 1 THEN {<<0, 1, 99>>, <<1, 0, 99>>, <<1, 0, 1>>, <<-1, 0, 99>>} ELSE {<<0, 1, 99>>, <<1, 0, 99>>}) :
          Done(ACopyWithin(Cur, a[1], a[2], a[3]), [op |-> "copyWithin", t |-> a[1], s |-> a[2], e |-> a[3]])
     \/ On("splice") /\ \E st \in (IF Rich = 1 THEN {0, 1, -1} ELSE {0, 1}), dc \in {0, 1, 2},
           its \in (IF Rich = 1 THEN {<<>>, <<"lit">>, <<"h1">>, <<"lit", "h1">>, <<"num", "nil">>} ELSE {<<>>, <<"lit">>, <<"h1", "lit">>, <<"num">>}) :
          /\ \A q \in 1..Len(its) : its[q] \in GoodVals
          /\ Done(ASplice(Cur, st, dc, [q \in 1..Len(its) |-> JV(its[q])]), [op |-> "splice", s |-> st, d |-> dc, v |-> its])
     \/ On("sort") /\ \E dir \in {"asc", "desc"} : IsS /\ Done(ASort(Cur, dir), [op |-> "sort", d |-> dir])

\* h_j = a[i]: script keeps the element wrapper
AHold(j, i) ==
  /\ IsArr \/ Struct
  /\ i < Len(w)
  /\ IF IsS THEN Commit([Release(Cur, j) EXCEPT !.r[j] = Slot(i)], [op |-> "hold", j |-> j, i |-> i, res |-> "ok"])
     ELSE /\ IsPtr(w[i + 1])
          /\ Commit([Release(Cur, j) EXCEPT !.r[j] = Obj(PtrNo(w[i + 1]))], [op |-> "hold", j |-> j, i |-> i, res |-> "ok"])
ADrop(j) == Held(j) /\ Commit(Release(Cur, j), [op |-> "drop", j |-> j, res |-> "ok"])
\* h_j.F = n
AHSetF(j, n) ==
  /\ Held(j)
  /\ LET x == r[j]
         s2 == CASE x.t = "slot" -> Poke(Cur, x.i, n)
                 [] x.t = "copy" -> [Cur EXCEPT !.c[x.i] = n]
                 [] x.t = "obj"  -> [Cur EXCEPT !.o[x.i] = n] IN
     Commit(s2, [op |-> "hsetF", j |-> j, n |-> n, res |-> "ok"])

\* ---- the host's side -------------------------------------------------------------------------------------------------
\* the host writes field F of element i of ITS slice / array / struct in place
GoSetF(i, n) ==
  /\ IsS /\ i < Len(g)
  /\ LET s2 == [Cur EXCEPT !.g[i + 1] = n,
                           !.w = IF (~ByVal \/ sh = "T") /\ i < Len(w) THEN [w EXCEPT ![i + 1] = n] ELSE w] IN
     Commit(s2, [op |-> "goSetF", i |-> i, n |-> n, res |-> "ok"])
\* the host stores a token into cell i of its []interface{} / a pointer field
GoSet(i, x) ==
  /\ IsTok /\ i < Len(g)
  /\ StrictPtr => x \in {"nil", "p1", "p2"}
  /\ LET s2 == [Cur EXCEPT !.g[i + 1] = x,
                           !.w = IF (~ByVal \/ sh = "T") /\ i < Len(w) THEN [w EXCEPT ![i + 1] = x] ELSE w] IN
     Commit(s2, [op |-> "goSet", i |-> i, x |-> x, res |-> "ok"])
\* the host writes p<k>.F
GoObjF(k, n) == PtrVal /\ Commit([Cur EXCEPT !.o[k] = n], [op |-> "goObjF", k |-> k, n |-> n, res |-> "ok"])
\* the host appends through its variable when the capacity is exhausted: the slice the wrapper points to now lives in a
\* fresh backing array.  Nothing is claimed about element references taken before (script lets go of them); everything
\* read through the container afterwards must be the new array
GoAppend(x) ==
  /\ Kind \in {"pss", "fss", "pifs", "pps"}
  /\ LET s2 == [Cur EXCEPT !.w = Append(w, x), !.r = [j \in 1..NH |-> None], !.c = [j \in 1..NH |-> 0]] IN
     Commit(s2, [op |-> "goAppend", x |-> x, res |-> "ok"])

\* ---- maps (keys a, b, c = positions 1..3) ------------------------------------------------------------------------------
MShow(s, k) == IF s.w[k] = Absent THEN "u" ELSE s.w[k]
MRead(k) == IsMap /\ Commit(Cur, [op |-> "mget", k |-> k, res |-> MShow(Cur, k)])
\* m[k] = v: the key is created when missing; a value of the wrong type is a TypeError
MSet(k, v) ==
  /\ IsMap /\ ArgOK(v)
  /\ LET cv == Conv(Cur, JV(v)) IN
     IF cv.ok THEN Commit([Cur EXCEPT !.w[k] = cv.v, !.g[k] = cv.v], [op |-> "mset", k |-> k, v |-> v, res |-> "ok"])
     ELSE Commit(Cur, [op |-> "mset", k |-> k, v |-> v, res |-> "TypeError"])
\* m[k].F = n: a pointer value is the Go object; a struct value is a copy made by the read (nothing is stored);
\* a missing key / nil is a property of undefined / null
MSetF(k, n) ==
  /\ Kind \in {"msp", "mss"}
  /\ LET lbl == [op |-> "msetF", k |-> k, n |-> n] IN
     IF w[k] = Absent \/ (Kind = "msp" /\ ~IsPtr(w[k])) THEN Commit(Cur, lbl @@ [res |-> "TypeError"])
     ELSE IF Kind = "msp" THEN Commit([Cur EXCEPT !.o[PtrNo(w[k])] = n], lbl @@ [res |-> "ok"])
     ELSE Commit(Cur, lbl @@ [res |-> "ok"])
MDel(k) == IsMap /\ Commit([Cur EXCEPT !.w[k] = Absent, !.g[k] = Absent], [op |-> "mdel", k |-> k, res |-> "ok"])
\* h_j = m[k]: the Go object behind a pointer, or a private copy of a struct value
MHold(j, k) ==
  /\ Kind \in {"msp", "mss"} /\ w[k] # Absent
  /\ IF Kind = "msp"
     THEN IsPtr(w[k]) /\ Commit([Release(Cur, j) EXCEPT !.r[j] = Obj(PtrNo(w[k]))], [op |-> "mhold", j |-> j, k |-> k, res |-> "ok"])
     ELSE Commit([Release(Cur, j) EXCEPT !.r[j] = Copy(j), !.c[j] = w[k]], [op |-> "mhold", j |-> j, k |-> k, res |-> "ok"])
GoMPut(k, x) == IsMap /\ Commit([Cur EXCEPT !.w[k] = x, !.g[k] = x], [op |-> "goPut", k |-> k, x |-> x, res |-> "ok"])
GoMDel(k) == IsMap /\ Commit([Cur EXCEPT !.w[k] = Absent, !.g[k] = Absent], [op |-> "goDel", k |-> k, res |-> "ok"])

\* ---- hostile callbacks -----------------------------------------------------------------------------------------------
\* Operation m runs a callback / argument coercion that restructures the container in the middle (comparator that
\* shrinks or grows the slice, forEach callback that pops, valueOf that clears it, for-in body that deletes keys ...).
\* ECMA-262 leaves some of the results open (sort with such a comparator); what IS required: the call ends normally or with
\* a script exception, never with a Go panic, and afterwards script and host still see the same container.  The scenario
\* then abandons the container and continues on a fresh one.
HostileOps == IF IsMap THEN {"forInDelete", "forInAdd", "keysDuringSet"}
              ELSE IF IsArr THEN {"sortShrink", "sortGrow", "sortClear", "sortAssign", "forEachPop", "mapShift", "fillValueOf",
                                  "spliceValueOf", "copyWithinValueOf", "includesShrink", "iterShrink", "joinShrink",
                                  "reduceGrow", "lengthValueOf", "setterShrink", "flatGrow"}
              ELSE IF Struct THEN {"assignSelf"} ELSE {}
Hostile(m) ==
  /\ m \in HostileOps
  /\ Commit(S0, [op |-> "hostile", m |-> m, res |-> "no-panic"])

\* ---- Export() of a script-built object graph ------------------------------------------------------------------------------
\* A graph: node -> [k: "obj" | "arr", ch: children in key order]; a child is [key, to = node, val] or a leaf (to = 0, val).
\* Export() must yield map[string]interface{} / []interface{} values with the SAME sharing: a node reached twice (also through
\* a cycle) is one Go map / slice.  The result names every node by its first visit (keys sorted) and revisits as #n.
Leaf(key, v) == [key |-> key, to |-> 0, val |-> v]
Edge(key, n) == [key |-> key, to |-> n, val |-> 0]
Graphs == <<
  \* two equal but distinct children
  << [k |-> "obj", ch |-> <<Edge("a", 2), Edge("b", 3)>>], [k |-> "obj", ch |-> <<Leaf("x", 1)>>], [k |-> "obj", ch |-> <<Leaf("x", 1)>>] >>,
  \* one child shared
  << [k |-> "obj", ch |-> <<Edge("a", 2), Edge("b", 2)>>], [k |-> "obj", ch |-> <<Leaf("x", 1)>>] >>,
  \* self cycle
  << [k |-> "obj", ch |-> <<Edge("self", 1)>>] >>,
  \* shared array, also nested in another array
  << [k |-> "obj", ch |-> <<Edge("a", 2), Edge("b", 2), Edge("c", 3)>>], [k |-> "arr", ch |-> <<Leaf("", 1), Leaf("", 2)>>],
     [k |-> "arr", ch |-> <<Edge("", 2)>>] >>,
  \* array containing itself
  << [k |-> "arr", ch |-> <<Leaf("", 1), Edge("", 1)>>] >>,
  \* cycle through an array and a diamond
  << [k |-> "obj", ch |-> <<Edge("k", 2)>>], [k |-> "arr", ch |-> <<Edge("", 1), Edge("", 3)>>],
     [k |-> "obj", ch |-> <<Edge("up", 1), Edge("z", 2)>>] >>
>>
RECURSIVE Walk(_, _, _), WalkCh(_, _, _, _, _)
Walk(G, n, seen) ==
  IF \E i \in 1..Len(seen) : seen[i] = n
  THEN [s |-> "#" \o ToString((CHOOSE i \in 1..Len(seen) : seen[i] = n) - 1), seen |-> seen]
  ELSE LET rr == WalkCh(G, G[n].ch, 1, Append(seen, n), "") IN
       [s |-> ToString(Len(seen)) \o (IF G[n].k = "obj" THEN "{" ELSE "[") \o rr.s \o (IF G[n].k = "obj" THEN "}" ELSE "]"),
        seen |-> rr.seen]
WalkCh(G, ch, i, seen, acc) ==
  IF i > Len(ch) THEN [s |-> acc, seen |-> seen]
  ELSE LET cc == ch[i]
           rr == IF cc.to = 0 THEN [s |-> ToString(cc.val), seen |-> seen] ELSE Walk(G, cc.to, seen) IN
       WalkCh(G, ch, i + 1, rr.seen, acc \o (IF i > 1 THEN "," ELSE "") \o (IF cc.key = "" THEN "" ELSE cc.key \o ":") \o rr.s)
ExportGraph(q) == Kind = "graph" /\ Commit(Cur, [op |-> "graph", g |-> Graphs[q], res |-> Walk(Graphs[q], 1, <<>>).s])

\* ExportTo of a script-built graph into the Go type  T = struct{ Any interface{}; Next *T }.  An object reached through a *T slot
\* becomes ONE T per object (also through cycles), an object reached through an interface{} slot becomes ONE map[string]interface{} per
\* object; both representations of the same object may coexist, each is shared among the slots of its own kind, in whatever order
\* the slots are filled.  The result names T nodes T0, T1, ... and maps M0, M1, ... by first visit (Any before Next).
TGraphs == <<
  \* untyped, typed, untyped again: the object behind both Any slots is one map (root.Any = root.Next = s; s.Any = s.Next = s)
  << [k |-> "obj", ch |-> <<Edge("Any", 2), Edge("Next", 2)>>], [k |-> "obj", ch |-> <<Edge("Any", 2), Edge("Next", 2)>>] >>,
  \* typed first, then twice untyped
  << [k |-> "obj", ch |-> <<Edge("Next", 2), Edge("Any", 3)>>], [k |-> "obj", ch |-> <<Edge("Any", 3), Edge("Next", 1)>>],
     [k |-> "obj", ch |-> <<Leaf("Any", 7), Edge("Next", 2)>>] >>,
  \* a chain whose nodes all show the same object in their Any slot
  << [k |-> "obj", ch |-> <<Edge("Any", 3), Edge("Next", 2)>>], [k |-> "obj", ch |-> <<Edge("Any", 3), Edge("Next", 1)>>],
     [k |-> "obj", ch |-> <<Leaf("Any", 1)>>] >>,
  \* self cycle through both kinds of slot
  << [k |-> "obj", ch |-> <<Edge("Any", 1), Edge("Next", 1)>>] >>
>>
Child(G, n, key) == IF \E i \in 1..Len(G[n].ch) : G[n].ch[i].key = key
                    THEN G[n].ch[CHOOSE i \in 1..Len(G[n].ch) : G[n].ch[i].key = key] ELSE [key |-> key, to |-> -1, val |-> 0]
Pos(seq, n) == (CHOOSE i \in 1..Len(seq) : seq[i] = n) - 1
Has(seq, n) == \E i \in 1..Len(seq) : seq[i] = n
RECURSIVE WalkM(_, _, _), WalkT(_, _, _)
\* sn = [t |-> typed nodes seen, m |-> map nodes seen]
WalkM(G, n, sn) ==
  IF Has(sn.m, n) THEN [s |-> "#M" \o ToString(Pos(sn.m, n)), sn |-> sn]
  ELSE LET id == Len(sn.m)
           s1 == [sn EXCEPT !.m = Append(@, n)]
           a == Child(G, n, "Any")
           ra == IF a.to = -1 THEN [s |-> "", sn |-> s1]
                 ELSE IF a.to = 0 THEN [s |-> "Any:" \o ToString(a.val), sn |-> s1]
                 ELSE LET wa == WalkM(G, a.to, s1) IN [s |-> "Any:" \o wa.s, sn |-> wa.sn]
           x == Child(G, n, "Next")
           rx == IF x.to = -1 THEN [s |-> "", sn |-> ra.sn]
                 ELSE LET wx == WalkM(G, x.to, ra.sn) IN [s |-> "Next:" \o wx.s, sn |-> wx.sn]
       IN [s |-> "M" \o ToString(id) \o "{" \o ra.s \o (IF ra.s # "" /\ rx.s # "" THEN "," ELSE "") \o rx.s \o "}", sn |-> rx.sn]
WalkT(G, n, sn) ==
  IF Has(sn.t, n) THEN [s |-> "#T" \o ToString(Pos(sn.t, n)), sn |-> sn]
  ELSE LET id == Len(sn.t)
           s1 == [sn EXCEPT !.t = Append(@, n)]
           a == Child(G, n, "Any")
           ra == IF a.to = -1 THEN [s |-> "nil", sn |-> s1]
                 ELSE IF a.to = 0 THEN [s |-> ToString(a.val), sn |-> s1]
                 ELSE WalkM(G, a.to, s1)
           x == Child(G, n, "Next")
           rx == IF x.to = -1 THEN [s |-> "nil", sn |-> ra.sn] ELSE WalkT(G, x.to, ra.sn)
       IN [s |-> "T" \o ToString(id) \o "{Any:" \o ra.s \o ",Next:" \o rx.s \o "}", sn |-> rx.sn]
ExportGraphTo(q) == Kind = "graph" /\ Commit(Cur, [op |-> "graphTo", g |-> TGraphs[q], res |-> WalkT(TGraphs[q], 1, [t |-> <<>>, m |-> <<>>]).s])

Next ==
  \/ On("get") /\ \E i \in 0..(Len(w) + 1) : ARead(i)
  \/ On("set") /\ \E i \in 0..(Len(w) + 1), v \in Vals : (i >= Len(w) => v \in GoodVals) /\ (i > Len(w) => Rich = 1) /\ ASet(i, v)
  \/ On("setF") /\ \E i \in 0..(Len(w) - 1) : ASetF(i, 7)
  \/ On("del") /\ \E i \in 0..Len(w) : ADel(i)
  \/ On("len") /\ \E n \in {0, Len(w) - 1, Len(w), Len(w) + 1, Len(w) + 2} : n >= 0 /\ ALen(n)
  \/ On("lendef") /\ \E n \in {0, Len(w) - 1, Len(w), Len(w) + 1}, ro \in {"T", "F"} : n >= 0 /\ ALenDef(n, ro)
  \/ AMeth
  \/ \E j \in 1..NH : (On("hold") /\ \E i \in 0..(Len(w) - 1) : AHold(j, i)) \/ (On("drop") /\ ADrop(j)) \/ (On("hsetF") /\ AHSetF(j, 8))
  \/ On("goSetF") /\ \E i \in 0..(Len(g) - 1) : GoSetF(i, 9)
  \/ On("goSet") /\ \E i \in 0..(Len(g) - 1), x \in {"i9", "p2", "nil"} : GoSet(i, x)
  \/ On("goObjF") /\ \E k \in 1..2 : GoObjF(k, 9)
  \/ On("goAppend") /\ GoAppend(IF IsS THEN 6 ELSE "p2")
  \/ \E k \in 1..3 :
       \/ On("mget") /\ MRead(k)
       \/ On("mdel") /\ MDel(k)
       \/ On("goDel") /\ GoMDel(k)
       \/ On("msetF") /\ MSetF(k, 7)
       \/ On("mset") /\ \E v \in Vals : MSet(k, v)
       \/ On("mhold") /\ \E j \in 1..NH : MHold(j, k)
       \/ On("goPut") /\ GoMPut(k, IF Kind = "msp" THEN "p2" ELSE 9)
  \/ On("hostile") /\ \E m \in HostileOps : Hostile(m)
  \/ \E q \in 1..Len(Graphs) : ExportGraph(q)
  \/ \E q \in 1..Len(TGraphs) : ExportGraphTo(q)

Spec == Init /\ [][Next]_vars

\* ---- properties ------------------------------------------------------------------------------------------------------
Refs == 1..NH
\* the shapes stay what they claim to be
Shape == /\ Len(r) = NH /\ Len(c) = NH /\ sh \in {"T", "F"}
         /\ \A j \in Refs : /\ r[j].t \in {"none", "slot", "copy", "obj"}
                            /\ r[j].t = "slot" => (IsS /\ r[j].i < Len(w))           \* a reference never dangles
                            /\ r[j].t = "copy" => (r[j].i \in Refs /\ r[r[j].i] = Copy(r[j].i))   \* the leader is in its group
                            /\ r[j].t = "obj" => r[j].i \in {1, 2}
         /\ Fixed => Len(w) = Len0
         /\ IsMap => Len(w) = 3
\* live view: what the host sees is what script sees
LiveView == /\ ~ByVal => g = w
            /\ ByVal => Len(g) = Len0                                               \* resizing never reaches the host's header
            /\ (ByVal /\ sh = "T") => \A i \in 1..Min(Len(g), Len(w)) : g[i] = w[i]
\* a by-value wrapper can only have left Go's array by growing past the capacity
Unshared == sh = "F" => ByVal
\* what a kept reference shows changes only by a write through a reference / into the aliased cell, never because the
\* container was restructured ("element wrappers handed out earlier keep referring to the value they were taken from")
Structural == {"set", "del", "len", "lendef", "push", "pop", "shift", "unshift", "reverse", "fill", "copyWithin", "splice", "sort",
               "mset", "mdel", "goPut", "goDel", "get", "mget", "hold", "mhold", "drop"}
ShownNow(j) == Deref(Cur, j)
ShownNext(j) == Deref([w |-> w', g |-> g', sh |-> sh', r |-> r', c |-> c', o |-> o'], j)
KeepsValue == [][\A j \in Refs : (act'.op \in Structural /\ Held(j) /\ r'[j].t # "none"
                                  /\ ~(act'.op \in {"hold", "mhold", "drop"} /\ act'.j = j)) => ShownNext(j) = ShownNow(j)]_vars
\* after script re-assigned slot i nothing kept from before aliases it
NoAliasAfterSet == [][(act'.op = "set" /\ act'.res = "ok" /\ act'.i < Len(w)) => \A j \in Refs : r'[j] # Slot(act'.i)]_vars
\* sort permutes and orders; references follow their elements (so they still show the same value: KeepsValue)
SortOK == [][act'.op = "sort" =>
               /\ Len(w') = Len(w)
               /\ \A x \in {w[i] : i \in 1..Len(w)} : Cardinality({i \in 1..Len(w) : w[i] = x}) = Cardinality({i \in 1..Len(w) : w'[i] = x})
               /\ \A i \in 1..(Len(w') - 1) : IF act'.d = "asc" THEN w'[i] <= w'[i + 1] ELSE w'[i] >= w'[i + 1]
               /\ \A j \in Refs : r[j].t = "slot" => r'[j].t = "slot"]_vars
\* a failed conversion changes nothing
BadIsNoop == [][(act'.op \in {"set", "mset"} /\ act'.res = "TypeError") => <<w', g', r', c', o'>> = <<w, g, r, c, o>>]_vars

\* ---- edge stream -----------------------------------------------------------------------------------------------------
ShowRef(s, j) == LET x == s.r[j] IN
  CASE x.t = "none" -> [at |-> "none", f |-> 0]
    [] x.t = "slot" -> [at |-> "s" \o ToString(x.i), f |-> Deref(s, j)]
    [] x.t = "copy" -> [at |-> "c" \o ToString(x.i), f |-> Deref(s, j)]
    [] x.t = "obj"  -> [at |-> "p" \o ToString(x.i), f |-> Deref(s, j)]
Proj(s, n) == [w |-> s.w, g |-> s.g, sh |-> s.sh, h |-> [j \in 1..NH |-> ShowRef(s, j)], o |-> s.o, n |-> n]
\* what the replayer can observe of a state: everything, except that whether a by-value wrapper still shares Go's array shows
\* only while both windows have a cell in common (it is probed by writing through one side and reading through the other)
Obs(s, n) == [Proj(s, n) EXCEPT !.sh = IF ByVal /\ Len(s.w) > 0 /\ Len(s.g) > 0 THEN s.sh ELSE "T"]
St  == Proj(Cur, nops)
NextS == [w |-> w', g |-> g', sh |-> sh', r |-> r', c |-> c', o |-> o']
StP == Proj(NextS, nops')
Emit == PrintT(ToJson([f |-> St, l |-> act', t |-> StP, o |-> Obs(NextS, nops')]))
View == <<w, g, sh, r, c, o, nops>>
=============================================================================
