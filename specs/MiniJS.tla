------------------------------- MODULE MiniJS -------------------------------
(* Definitional small-step semantics of a JavaScript subset, used as an ORACLE (binding C of DESIGN.md):
   TLC evaluates this deterministic machine on generated programs, the printer emits the same syntax tree as
   JavaScript, goja runs it, and the observable behaviour (event log, completion, IteratorResults) must agree.
   Properties C08 (abrupt completions, finally, iterator close), C09 (generators under any driver history),
   C02 (compiler strategies are invisible: one expected behaviour for all printed variants).

   Code anchors (what is being checked): compiler_stmt.go (compileTryStatement, compileLabeledStatement, block exit
   code emitBlockExitCode / leaveTry / enumPopClose, compileReturnStatement saveResult/loadResult, switch),
   vm.go (try frames, enterFinally / leaveFinally, handleThrow / restoreStacks, iterate / enumPopClose, yield / suspend /
   resume), func.go generatorObject (next / throw / return, step, enterNextFinallyFrame).

   Program encoding: a table of nodes [t, a, b, c, n, l, nx, nt]; statement lists are chained through nx.
     log n            -- log(n)
     block a          -- { a... }
     if a b n         -- if (n == 1) a else b          (b may be 0)
     throw n / return n / break l / continue l         (l = 0: unlabelled)
     try a b c n      -- try a catch b finally c; n = region id; entering catch logs 2000+e, entering finally logs 1000+n
     label a l        -- Ll: a
     loop a n c       -- counted loop running the body n times; c = 1: do-while (body runs at least once)
     switch a n       -- switch (n) over the case list a;  case a n (n = 0: default)
     fatal n          -- __fatal(n): raises an uncatchable condition of kind n (interrupt / stack overflow / foreign Go panic)
     forof a n b c l nt fk -- for (x of mk(l, n, hasReturn b, returnThrows c, nextThrowsAt nt, faultKind fk)) a
                         (fk # 0: the scripted failures of next()/return() are uncatchable conditions instead of throw 7 / 8)
     consume n b c l nt k -- a built-in consumes the whole iterator: next() until done; no return() when next() throws
     destr n b c l nt k -- [x1..xk] = mk(...): k next() calls, then IteratorClose if not exhausted
     yield n          -- log(7000 + (yield n))                         (generators only)
     ystar n b c l nt k -- log(8000 + (yield* mk(..., hasThrow k)))    (generators only)
   Iterator descriptors log 30000+100*l+callIndex on next(), 40000+100*l on return(), 45000+100*l on throw().
   Modes: "exec" (start statement cur), "adv" (cur completed normally), "unw" (completion comp travels down the
   continuation k, one frame per step), "drv" (generator driver), "done".
   Continuation frames [tag, node, i, pend, ls]; tags blk, lbl, try, catch, fin, loop, sw, forof, ystar. *)
EXTENDS Integers, Sequences, FiniteSets, TLC, Json, IOUtils

ProgFile == IF "PROGS" \in DOMAIN IOEnv THEN IOEnv.PROGS ELSE "progs.ndjson"
Progs == ndJsonDeserialize(ProgFile)

\* Deviation switches: named defects of the pinned tree that the oracle can reproduce (known findings)
CONSTANT Deviations

VARIABLES pi,     \* index of the program being evaluated
          mode, cur, comp, k, log, steps,
          gst,    \* generator state: "start" | "run" | "susp" | "done"
          gk, gcur,   \* saved continuation and statement of the suspended generator
          di      \* index of the next driver operation
vars == <<pi, mode, cur, comp, k, log, steps, gst, gk, gcur, di>>

P == Progs[pi]
N(i) == P.nodes[i]
IsGen == P.gen = 1
Normal == [ty |-> "normal", v |-> 0, lbl |-> 0]
Throw(v) == [ty |-> "throw", v |-> v, lbl |-> 0]
\* an uncatchable condition (interrupt, stack overflow, foreign Go panic): execution stops where it is raised; no catch,
\* no finally, no IteratorClose runs (property C08, last sentence); fk names the fault kind
Fatal(fk) == [ty |-> "fatal", v |-> fk, lbl |-> 0]
Res(v, d) == 100000 + v * 10 + d        \* an IteratorResult {value: v, done: d} seen by the driver
Top == k[Len(k)]
Pop == SubSeq(k, 1, Len(k) - 1)
F(tag, node, i, pend) == [tag |-> tag, node |-> node, i |-> i, pend |-> pend, ls |-> {}]
G == <<gst, gk, gcur, di>>

StartMode(p) == IF Progs[p].gen = 1 THEN "drv" ELSE "exec"
Start(p) == /\ pi' = p /\ mode' = StartMode(p) /\ cur' = Progs[p].root /\ comp' = Normal
            /\ k' = <<>> /\ log' = <<>> /\ steps' = 0 /\ gst' = "start" /\ gk' = <<>> /\ gcur' = 0 /\ di' = 1
Init == /\ pi = 1 /\ mode = StartMode(1) /\ cur = Progs[1].root /\ comp = Normal
        /\ k = <<>> /\ log = <<>> /\ steps = 0 /\ gst = "start" /\ gk = <<>> /\ gcur = 0 /\ di = 1

\* labels directly wrapping the statement about to be pushed (contiguous lbl frames on top)
RECURSIVE LblSet(_)
LblSet(j) == IF j >= 1 /\ k[j].tag = "lbl" THEN {N(k[j].node).l} \cup LblSet(j - 1) ELSE {}

---------------------------------------------------------------------------
\* iterator protocol over instrumented descriptors
NextLog(n, c) == 30000 + n.l * 100 + c

\* what an instrumented iterator does when its next() (call nt) / return() (c = 1) is scripted to fail: throw 7 / 8, or, when the
\* descriptor carries a fault kind fk, raise the uncatchable condition from inside the method
Thr7(n) == IF n.fk # 0 THEN mode' = "done" /\ comp' = Fatal(n.fk) ELSE mode' = "unw" /\ comp' = Throw(7)
RetFatal(n) == n.b = 1 /\ n.c = 1 /\ n.fk # 0

\* the body of a for-of finished (normally or by a matching continue): call next() again
NextCall(f, n) ==
  /\ log' = Append(log, NextLog(n, f.i + 1))
  /\ IF n.nt = f.i + 1 THEN k' = Pop /\ Thr7(n) /\ UNCHANGED cur
     ELSE IF f.i < n.n THEN k' = Append(Pop, [f EXCEPT !.i = f.i + 1]) /\ cur' = n.a /\ mode' = "exec" /\ comp' = Normal
     ELSE k' = Pop /\ cur' = f.node /\ mode' = "adv" /\ comp' = Normal

\* abrupt exit through a for-of: IteratorClose(iterator, completion)
Close(f, n, brk) ==
  /\ log' = IF n.b = 1 THEN Append(log, 40000 + n.l * 100) ELSE log
  /\ k' = Pop
  /\ IF RetFatal(n) THEN mode' = "done" /\ comp' = Fatal(n.fk) /\ UNCHANGED cur      \* uncatchable raised inside return()
     ELSE IF comp.ty = "throw" THEN UNCHANGED <<mode, cur, comp>>                  \* original throw wins
     ELSE IF n.b = 1 /\ n.c = 1 THEN mode' = "unw" /\ comp' = Throw(8) /\ UNCHANGED cur   \* return() threw
     ELSE IF brk THEN cur' = f.node /\ mode' = "adv" /\ comp' = Normal
     ELSE UNCHANGED <<mode, cur, comp>>

\* number of next() calls a consumer / destructuring makes and how it ends
\*   consume: calls 1..n+1 (the last one reports done) unless next throws at nt
\*   destr  : k targets: calls min(k, n+1); exhausted iff k >= n+1; otherwise IteratorClose
RECURSIVE NextLogs(_, _, _)
NextLogs(n, from, to) == IF from > to THEN <<>> ELSE <<NextLog(n, from)>> \o NextLogs(n, from + 1, to)

\* built-in consumers of an iterable. k < 4: Array.from / spread / new Set / Math.max(...): every element is accepted. k = 4, 5:
\* new Map / Object.fromEntries: the first element is not an entry object -> TypeError; k = 6: Array.from with a mapper that throws 5
\* at the element 2. When the processing of an element throws, the built-in closes the iterator (7.4.11 IteratorClose with a throw
\* completion: return() is called once, what it does or throws is ignored) and the original exception is what the caller sees.
ExecConsume(n) ==
  LET trig == IF n.k \in {4, 5} THEN 1 ELSE IF n.k = 6 THEN 2 ELSE 0                 \* the element whose processing throws (0: none)
      nthrow == n.nt # 0 /\ n.nt <= n.n + 1 /\ (trig = 0 \/ n.nt <= trig)            \* next() itself throws first
      elthrow == ~nthrow /\ trig # 0 /\ n.n >= trig
      calls == IF nthrow THEN n.nt ELSE IF elthrow THEN trig ELSE n.n + 1
  IN /\ log' = log \o NextLogs(n, 1, calls) \o (IF elthrow /\ n.b = 1 THEN <<40000 + n.l * 100>> ELSE <<>>)
     /\ IF nthrow THEN Thr7(n)
        ELSE IF elthrow THEN (IF n.b = 1 /\ n.c = 1 /\ n.fk # 0 THEN mode' = "done" /\ comp' = Fatal(n.fk)
                              ELSE mode' = "unw" /\ comp' = Throw(IF n.k = 6 THEN 5 ELSE 9999))
        ELSE mode' = "adv" /\ UNCHANGED comp
     /\ UNCHANGED <<cur, k>>

ExecDestr(n) ==
  LET want == n.k
      avail == n.n + 1                       \* the call that reports done
      calls0 == IF want < avail THEN want ELSE avail
      throws == n.nt # 0 /\ n.nt <= calls0
      calls == IF throws THEN n.nt ELSE calls0
      exhausted == ~throws /\ want >= avail
      closes == ~throws /\ ~exhausted /\ n.b = 1
  IN /\ log' = log \o NextLogs(n, 1, calls) \o (IF closes THEN <<40000 + n.l * 100>> ELSE <<>>)
     /\ IF throws THEN Thr7(n)
        ELSE IF closes /\ n.c = 1 THEN (IF n.fk # 0 THEN mode' = "done" /\ comp' = Fatal(n.fk) ELSE mode' = "unw" /\ comp' = Throw(8))
        ELSE mode' = "adv" /\ UNCHANGED comp
     /\ UNCHANGED <<cur, k>>

---------------------------------------------------------------------------
\* switch: index of the clause to start at (first match, else default, else 0)
RECURSIVE FindCase(_, _), FindDefault(_)
FindCase(c, v) == IF c = 0 THEN 0 ELSE IF N(c).n = v /\ N(c).n # 0 THEN c ELSE FindCase(N(c).nx, v)
FindDefault(c) == IF c = 0 THEN 0 ELSE IF N(c).n = 0 THEN c ELSE FindDefault(N(c).nx)
\* first non-empty clause at or after clause c (fall-through over empty clauses); 0 if none
RECURSIVE FirstNonEmpty(_)
FirstNonEmpty(c) == IF c = 0 THEN 0 ELSE IF N(c).a # 0 THEN c ELSE FirstNonEmpty(N(c).nx)

Suspend(resultLog) == /\ log' = Append(log, resultLog) /\ mode' = "drv"
                      /\ gst' = "susp" /\ gk' = k /\ gcur' = cur

Exec ==
  /\ mode = "exec"
  /\ LET n == N(cur) IN
     CASE n.t = "log" -> log' = Append(log, n.n) /\ mode' = "adv" /\ UNCHANGED <<cur, comp, k, G>>
       [] n.t = "empty" -> mode' = "adv" /\ UNCHANGED <<cur, comp, k, log, G>>
       [] n.t = "block" -> (IF n.a = 0 THEN mode' = "adv" /\ UNCHANGED <<cur, comp, k, log, G>>
                            ELSE k' = Append(k, F("blk", cur, 0, Normal)) /\ cur' = n.a /\ UNCHANGED <<mode, comp, log, G>>)
       [] n.t = "if" -> (LET br == IF n.n = 1 THEN n.a ELSE n.b IN
                         IF br = 0 THEN mode' = "adv" /\ UNCHANGED <<cur, comp, k, log, G>>
                         ELSE k' = Append(k, F("blk", cur, 0, Normal)) /\ cur' = br /\ UNCHANGED <<mode, comp, log, G>>)
       [] n.t = "throw" -> mode' = "unw" /\ comp' = Throw(n.n) /\ UNCHANGED <<cur, k, log, G>>
       [] n.t = "fatal" -> mode' = "done" /\ comp' = Fatal(n.n) /\ UNCHANGED <<cur, k, log, G>>
       [] n.t = "break" -> mode' = "unw" /\ comp' = [ty |-> "break", v |-> 0, lbl |-> n.l] /\ UNCHANGED <<cur, k, log, G>>
       [] n.t = "continue" -> mode' = "unw" /\ comp' = [ty |-> "continue", v |-> 0, lbl |-> n.l] /\ UNCHANGED <<cur, k, log, G>>
       [] n.t = "return" -> mode' = "unw" /\ comp' = [ty |-> "return", v |-> n.n, lbl |-> 0] /\ UNCHANGED <<cur, k, log, G>>
       [] n.t = "try" -> k' = Append(k, F("try", cur, 0, Normal)) /\ cur' = n.a /\ UNCHANGED <<mode, comp, log, G>>
       [] n.t = "label" -> k' = Append(k, F("lbl", cur, 0, Normal)) /\ cur' = n.a /\ UNCHANGED <<mode, comp, log, G>>
       [] n.t = "loop" -> (IF n.n > 0 \/ n.c = 1
                           THEN k' = Append(k, [F("loop", cur, 1, Normal) EXCEPT !.ls = LblSet(Len(k))])
                                /\ cur' = n.a /\ UNCHANGED <<mode, comp, log, G>>
                           ELSE mode' = "adv" /\ UNCHANGED <<cur, comp, k, log, G>>)
       [] n.t = "switch" -> (LET m == FindCase(n.a, n.n)
                                 c == FirstNonEmpty(IF m # 0 THEN m ELSE FindDefault(n.a)) IN
                             IF c = 0 THEN mode' = "adv" /\ UNCHANGED <<cur, comp, k, log, G>>
                             ELSE k' = Append(k, F("sw", cur, c, Normal)) /\ cur' = N(c).a /\ UNCHANGED <<mode, comp, log, G>>)
       [] n.t = "forof" ->
            /\ log' = Append(log, NextLog(n, 1)) /\ UNCHANGED G
            /\ (IF n.nt = 1 THEN Thr7(n) /\ UNCHANGED <<cur, k>>
                ELSE IF n.n >= 1 THEN k' = Append(k, [F("forof", cur, 1, Normal) EXCEPT !.ls = LblSet(Len(k))])
                                      /\ cur' = n.a /\ UNCHANGED <<mode, comp>>
                ELSE mode' = "adv" /\ UNCHANGED <<cur, comp, k>>)
       [] n.t = "consume" -> ExecConsume(n) /\ UNCHANGED G
       [] n.t = "destr" -> ExecDestr(n) /\ UNCHANGED G
       [] n.t = "yield" -> Suspend(Res(n.n, 0)) /\ UNCHANGED <<cur, comp, k, di>>
       [] n.t = "ystar" ->
            \* yield* mk(...): first next(undefined) on the inner iterator
            /\ (IF n.nt = 1 THEN log' = Append(log, NextLog(n, 1)) /\ Thr7(n) /\ UNCHANGED <<cur, k, G>>
                ELSE IF n.n >= 1
                THEN /\ k' = Append(k, F("ystar", cur, 1, Normal)) /\ UNCHANGED <<cur, comp, di>>
                     /\ log' = log \o <<NextLog(n, 1), Res(1, 0)>> /\ mode' = "drv"
                     /\ gst' = "susp" /\ gk' = k' /\ gcur' = cur
                ELSE log' = log \o <<NextLog(n, 1), 8000>> /\ mode' = "adv" /\ UNCHANGED <<cur, comp, k, G>>)
  /\ UNCHANGED pi /\ steps' = steps + 1

\* the statement list ended inside frame f
AdvFrame(f, n) ==
  CASE f.tag \in {"blk", "lbl"} -> k' = Pop /\ cur' = f.node /\ UNCHANGED <<mode, comp, log>>
    [] f.tag \in {"try", "catch"} ->
         (IF n.c # 0 THEN k' = Append(Pop, F("fin", f.node, 0, Normal)) /\ cur' = n.c /\ mode' = "exec"
                          /\ log' = Append(log, 1000 + n.n) /\ UNCHANGED comp
          ELSE k' = Pop /\ cur' = f.node /\ UNCHANGED <<mode, comp, log>>)
    [] f.tag = "fin" -> (IF f.pend.ty = "normal" THEN k' = Pop /\ cur' = f.node /\ UNCHANGED <<mode, comp, log>>
                         ELSE k' = Pop /\ mode' = "unw" /\ comp' = f.pend /\ UNCHANGED <<cur, log>>)
    [] f.tag = "loop" -> (IF f.i < n.n THEN k' = Append(Pop, [f EXCEPT !.i = f.i + 1]) /\ cur' = n.a /\ mode' = "exec" /\ UNCHANGED <<comp, log>>
                          ELSE k' = Pop /\ cur' = f.node /\ UNCHANGED <<mode, comp, log>>)
    [] f.tag = "sw" -> (LET c == FirstNonEmpty(N(f.i).nx) IN          \* fall through into the next clause
                        IF c = 0 THEN k' = Pop /\ cur' = f.node /\ UNCHANGED <<mode, comp, log>>
                        ELSE k' = Append(Pop, [f EXCEPT !.i = c]) /\ cur' = N(c).a /\ mode' = "exec" /\ UNCHANGED <<comp, log>>)
    [] f.tag = "forof" -> NextCall(f, n)

Adv ==
  /\ mode = "adv"
  /\ IF N(cur).nx # 0 THEN cur' = N(cur).nx /\ mode' = "exec" /\ UNCHANGED <<k, comp, log, G>>
     ELSE IF k = <<>>
     THEN (IF IsGen THEN mode' = "drv" /\ log' = Append(log, Res(0, 1)) /\ gst' = "done" /\ UNCHANGED <<cur, k, comp, gk, gcur, di>>
           ELSE mode' = "done" /\ UNCHANGED <<cur, k, comp, log, G>>)
     ELSE AdvFrame(Top, N(Top.node)) /\ UNCHANGED G
  /\ UNCHANGED pi /\ steps' = steps + 1

\* an abrupt completion reaches frame f
UnwFrame(f, n) ==
  CASE f.tag = "blk" -> k' = Pop /\ UNCHANGED <<mode, cur, comp, log>>
    [] f.tag = "lbl" -> (IF comp.ty = "break" /\ comp.lbl = n.l THEN k' = Pop /\ cur' = f.node /\ mode' = "adv" /\ comp' = Normal /\ UNCHANGED log
                         ELSE k' = Pop /\ UNCHANGED <<mode, cur, comp, log>>)
    [] f.tag = "try" -> (IF comp.ty = "throw" /\ n.b # 0
                         THEN k' = Append(Pop, F("catch", f.node, 0, Normal)) /\ cur' = n.b /\ mode' = "exec"
                              /\ log' = Append(log, 2000 + comp.v) /\ comp' = Normal
                         ELSE IF n.c # 0 THEN k' = Append(Pop, F("fin", f.node, 0, comp)) /\ cur' = n.c /\ mode' = "exec"
                                              /\ log' = Append(log, 1000 + n.n) /\ comp' = Normal
                         ELSE k' = Pop /\ UNCHANGED <<mode, cur, comp, log>>)
    [] f.tag = "catch" -> (IF n.c # 0 THEN k' = Append(Pop, F("fin", f.node, 0, comp)) /\ cur' = n.c /\ mode' = "exec"
                                            /\ log' = Append(log, 1000 + n.n) /\ comp' = Normal
                           ELSE k' = Pop /\ UNCHANGED <<mode, cur, comp, log>>)
    [] f.tag = "fin" -> k' = Pop /\ UNCHANGED <<mode, cur, comp, log>>       \* the new completion overrides f.pend
    [] f.tag = "loop" ->
         (IF comp.ty = "break" /\ comp.lbl = 0 THEN k' = Pop /\ cur' = f.node /\ mode' = "adv" /\ comp' = Normal /\ UNCHANGED log
          ELSE IF comp.ty = "continue" /\ (comp.lbl = 0 \/ comp.lbl \in f.ls)
               THEN (IF f.i < n.n THEN k' = Append(Pop, [f EXCEPT !.i = f.i + 1]) /\ cur' = n.a /\ mode' = "exec" /\ comp' = Normal /\ UNCHANGED log
                     ELSE k' = Pop /\ cur' = f.node /\ mode' = "adv" /\ comp' = Normal /\ UNCHANGED log)
          ELSE k' = Pop /\ UNCHANGED <<mode, cur, comp, log>>)
    [] f.tag = "sw" -> (IF comp.ty = "break" /\ comp.lbl = 0 THEN k' = Pop /\ cur' = f.node /\ mode' = "adv" /\ comp' = Normal /\ UNCHANGED log
                        ELSE k' = Pop /\ UNCHANGED <<mode, cur, comp, log>>)
    [] f.tag = "forof" ->
         (IF comp.ty = "break" /\ comp.lbl = 0 THEN Close(f, n, TRUE)
          ELSE IF comp.ty = "continue" /\ (comp.lbl = 0 \/ comp.lbl \in f.ls) THEN NextCall(f, n)
          ELSE Close(f, n, FALSE))
    [] f.tag = "ystar" -> k' = Pop /\ UNCHANGED <<mode, cur, comp, log>>

Unw ==
  /\ mode = "unw"
  /\ IF k = <<>>
     THEN (IF IsGen
           THEN /\ mode' = "drv" /\ gst' = "done" /\ UNCHANGED <<cur, k, comp, gk, gcur, di>>
                /\ log' = Append(log, IF comp.ty = "return" THEN Res(comp.v, 1) ELSE IF comp.ty = "throw" THEN 200000 + comp.v ELSE 999999)
           ELSE mode' = "done" /\ UNCHANGED <<cur, k, comp, log, G>>)
     ELSE UnwFrame(Top, N(Top.node)) /\ UNCHANGED G
  /\ UNCHANGED pi /\ steps' = steps + 1

---------------------------------------------------------------------------
\* generator driver: next(v) / throw(v) / return(v) issued by the caller
Ops == P.ops

\* resuming a generator suspended inside yield*: the operation is forwarded to the inner iterator
ResumeYStar(o, f, n) ==
  LET rest == SubSeq(gk, 1, Len(gk) - 1) IN
  IF o.op = "next" THEN
       /\ UNCHANGED gcur
       /\ (IF n.nt = f.i + 1 THEN log' = Append(log, NextLog(n, f.i + 1)) /\ k' = rest /\ Thr7(n) /\ gst' = "run" /\ UNCHANGED gk
           ELSE IF f.i < n.n THEN /\ log' = log \o <<NextLog(n, f.i + 1), Res(f.i + 1, 0)>> /\ mode' = "drv" /\ gst' = "susp" /\ UNCHANGED comp
                                   /\ k' = Append(rest, [f EXCEPT !.i = f.i + 1]) /\ gk' = k'
           ELSE log' = log \o <<NextLog(n, f.i + 1), 8000>> /\ k' = rest /\ mode' = "adv" /\ comp' = Normal /\ gst' = "run" /\ UNCHANGED gk)
  ELSE IF o.op = "throw" THEN
       /\ UNCHANGED <<gk, gcur>> /\ gst' = "run" /\ k' = rest
       /\ (IF n.k = 1          \* inner iterator has throw(): it logs and rethrows the value
           THEN log' = Append(log, 45000 + n.l * 100) /\ mode' = "unw" /\ comp' = Throw(o.v)
           ELSE IF n.k = 2     \* its throw() completes the inner iterator: {value: 55, done: true} is the value of yield*
           THEN log' = log \o <<45000 + n.l * 100, 8055>> /\ mode' = "adv" /\ comp' = Normal
           ELSE \* no throw method: close the inner iterator, then TypeError (observed as throw 9999)
                /\ log' = (IF n.b = 1 THEN Append(log, 40000 + n.l * 100) ELSE log)
                /\ (IF RetFatal(n) THEN mode' = "done" /\ comp' = Fatal(n.fk)
                    ELSE mode' = "unw" /\ comp' = (IF n.b = 1 /\ n.c = 1 THEN Throw(8) ELSE Throw(9999))))
  ELSE \* return(v): forwarded to the inner iterator's return(); its result {done: true} completes the generator's return
       /\ UNCHANGED <<gk, gcur>> /\ gst' = "run" /\ k' = rest
       /\ (IF n.b = 1 THEN log' = Append(log, 40000 + n.l * 100)
                           /\ (IF RetFatal(n) THEN mode' = "done" /\ comp' = Fatal(n.fk)
                               ELSE mode' = "unw" /\ comp' = (IF n.c = 1 THEN Throw(8) ELSE [ty |-> "return", v |-> o.v, lbl |-> 0]))
           ELSE mode' = "unw" /\ comp' = [ty |-> "return", v |-> o.v, lbl |-> 0] /\ UNCHANGED log)

Drv ==
  /\ mode = "drv" /\ di <= Len(Ops)
  /\ LET o == Ops[di] IN
     /\ di' = di + 1 /\ UNCHANGED pi /\ steps' = steps + 1
     /\ CASE gst = "start" ->
              (IF o.op = "next" THEN mode' = "exec" /\ cur' = P.root /\ k' = <<>> /\ comp' = Normal /\ gst' = "run" /\ UNCHANGED <<log, gk, gcur>>
               ELSE IF o.op = "throw" THEN gst' = "done" /\ log' = Append(log, 200000 + o.v) /\ UNCHANGED <<mode, cur, k, comp, gk, gcur>>
               ELSE gst' = "done" /\ log' = Append(log, Res(o.v, 1)) /\ UNCHANGED <<mode, cur, k, comp, gk, gcur>>)
          [] gst = "susp" ->
              (IF gk # <<>> /\ gk[Len(gk)].tag = "ystar"
               THEN cur' = gcur /\ ResumeYStar(o, gk[Len(gk)], N(gk[Len(gk)].node))
               ELSE /\ k' = gk /\ cur' = gcur /\ gst' = "run" /\ UNCHANGED <<gk, gcur>>
                    /\ (IF o.op = "next" THEN mode' = "adv" /\ comp' = Normal /\ log' = Append(log, 7000 + o.v)
                        ELSE IF o.op = "throw" THEN mode' = "unw" /\ comp' = Throw(o.v) /\ UNCHANGED log
                        ELSE mode' = "unw" /\ comp' = [ty |-> "return", v |-> o.v, lbl |-> 0] /\ UNCHANGED log))
          [] gst = "done" ->
              /\ UNCHANGED <<mode, cur, k, comp, gst, gk, gcur>>
              /\ log' = Append(log, IF o.op = "next" THEN Res(0, 1) ELSE IF o.op = "throw" THEN 200000 + o.v ELSE Res(o.v, 1))
          [] gst = "run" -> FALSE
DrvEnd == /\ mode = "drv" /\ di > Len(Ops) /\ mode' = "done"
          /\ UNCHANGED <<pi, cur, comp, k, log, steps, gst, gk, gcur, di>>

Done == /\ mode = "done"
        /\ PrintT(ToJson([id |-> P.id, log |-> log, ty |-> comp.ty, v |-> comp.v, steps |-> steps]))
        /\ pi < Len(Progs) /\ Start(pi + 1)

Next == Exec \/ Adv \/ Unw \/ Drv \/ DrvEnd \/ Done
Spec == Init /\ [][Next]_vars

---------------------------------------------------------------------------
\* invariants of the machine itself (the oracle is checked against the property's wording, not only against goja)
FrameTags == {"blk", "lbl", "try", "catch", "fin", "loop", "sw", "forof", "ystar"}
TypeOK == /\ mode \in {"exec", "adv", "unw", "drv", "done"}
          /\ \A i \in 1..Len(k) : k[i].tag \in FrameTags
          /\ comp.ty \in {"normal", "throw", "return", "break", "continue", "fatal"}
          /\ gst \in {"start", "run", "susp", "done"}
\* a completion only travels in mode "unw"; a running generator is never resumed (re-entrancy is a driver error)
CompOK == (mode \in {"exec", "adv"} => comp.ty = "normal") /\ (mode = "drv" => gst # "run") /\ (comp.ty = "fatal" => mode = "done")
\* programs are trees without recursion: a try statement owns at most one frame at a time, i.e. its body / catch /
\* finally phases replace each other and a finally block is entered at most once per exit of the region
RegionFrames == {"try", "catch", "fin"}
FinOnce == \A i, j \in 1..Len(k) : (i < j /\ k[i].tag \in RegionFrames /\ k[j].tag \in RegionFrames) => k[i].node # k[j].node
Bounded == Len(k) <= 64 /\ steps <= 100000
=============================================================================
