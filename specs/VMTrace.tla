------------------------------ MODULE VMTrace ------------------------------
(* Control state of one goja Runtime, as a trace specification (binding B of DESIGN.md): the real engine, built with
   the `verif` hooks, reports one event per critical section; this module accepts exactly the event sequences that
   the specified stack discipline allows.  Properties C03 (Idle / Nesting), C08 (Unwind / Uncatchable), C09
   (FrameWF across suspend / resume), C15 (interrupt is uncatchable, flag cleared at the outermost abrupt exit),
   C01 (only documented outcomes, balanced registers).

   Code anchors: vm.go tryFrame / pushTryFrame / popTryFrame / leaveTry / leaveTryRet / enterFinally / leaveFinally /
   handleThrow / restoreStacks / suspend / resume / run (interrupt poll) / Interrupt; func.go generator.enter /
   enterNext / step / enterNextFinallyFrame / leaveReturnFinally; runtime.go RunProgram / runWrapped / leave /
   leaveAbrupt.

   State:
     ts    try frames  [kind : marker | region, c, f : handler armed?, ph : body | catch | finally | leaving,
                        pend : none | exc | jump, cs, is, rs, sp, gl : registers recorded when the frame was pushed]
     isq   iterator stack: closable flags
     cs    call-stack depth
     ms    a STACK of modes [m : run | unw | gounw, cls, base]: unwinding is re-entrant, because closing an iterator
           runs script code (its return() method) in the middle of handleThrow
     api   outstanding Go->JS entries with the registers seen on entry
     saved suspended generator contexts (frames re-based on resume)
   Each event carries the registers AFTER the step (cs, ts, is, rs, sp, sb, gl, jobs, intr); `Agree` demands that the
   logged stack lengths equal the model's, so a missing or extra push/pop anywhere in the engine rejects the trace. *)
EXTENDS Integers, Sequences, TLC, Json, IOUtils

CONSTANT Deviations

TraceFile == IF "TRACE" \in DOMAIN IOEnv THEN IOEnv.TRACE ELSE "trace.ndjson"
Trace == ndJsonDeserialize(TraceFile)

VARIABLES ts, isq, cs, ms, api, saved, intr, l
vars == <<ts, isq, cs, ms, api, saved, intr, l>>

mode == ms[Len(ms)].m
ucls == ms[Len(ms)].cls
SetMode(m, c) == ms' = [ms EXCEPT ![Len(ms)] = [@ EXCEPT !.m = m, !.cls = c]]
M0 == <<[m |-> "run", cls |-> "none", base |-> 0]>>
E == Trace[l]
Obs(e) == [cs |-> e.cs, is |-> e.is, rs |-> e.rs, sp |-> e.sp, gl |-> e.gl]

Init0 == saved = <<>> /\ ts = <<>> /\ isq = <<>> /\ cs = 0 /\ ms = M0 /\ api = <<>> /\ intr = "clear"
Init == TLCSet(1, 0) /\ Init0 /\ l = 1
Ev(n) == l <= Len(Trace) /\ E.ev = n /\ l' = l + 1
Top == ts[Len(ts)]
PopTs == SubSeq(ts, 1, Len(ts) - 1)
SetTop(f) == [ts EXCEPT ![Len(ts)] = f]
\* every VM event logs the stack lengths after the change: they must agree with the model
Agree == E.ts = Len(ts') /\ E.is = Len(isq') /\ E.cs = cs'

\* ---- API boundary -------------------------------------------------------------------------------------------
\* end of one recorded execution. Idle: nothing may be left on an idle runtime
Reset == /\ Ev("reset")
         /\ ts = <<>> /\ isq = <<>> /\ cs = 0 /\ api = <<>>
         /\ ts' = <<>> /\ isq' = <<>> /\ cs' = 0 /\ ms' = M0 /\ api' = <<>> /\ saved' = <<>> /\ intr' = "clear"
ApiEnter == /\ Ev("ApiEnter")
            /\ api' = Append(api, Obs(E) @@ [ts |-> Len(ts)])
            /\ UNCHANGED <<ts, isq, cs, ms, saved, intr>>
\* Nesting: whatever the outcome, the registers are those seen on entry; Idle at the outermost exit, where an
\* uncatchable outcome must also have cleared the interrupt flag and dropped the job queue
ApiExit == /\ Ev("ApiExit") /\ api # <<>>
           /\ LET a == api[Len(api)] IN
              \* a NESTED exit with an uncatchable / foreign payload is only a way station: the payload goes on to unwind
              \* every outer frame, so only the try stack (the outer markers it still needs) is required to be intact there
              /\ E.ts = a.ts
              /\ (E.a \in {"value", "exception"} \/ Len(api) = 1 => E.cs = a.cs /\ E.is = a.is /\ E.rs = a.rs /\ E.gl = a.gl /\ E.sp = a.sp)
              /\ (E.a \notin {"value", "exception"} => E.cs <= a.cs)
              \* (after a foreign Go panic the host is on its own: queued jobs are not required to be dropped)
              /\ (Len(api) = 1 => E.cs = 0 /\ E.ts = 0 /\ E.is = 0 /\ E.rs = 0 /\ (E.a # "foreign" => E.jobs = 0)
                                   /\ (E.a = "uncatchable" => E.intr = 0))
              /\ (Len(api) > 1 /\ E.a = "uncatchable" /\ intr = "seen" => E.intr = 1)   \* a nested exit does not clear the flag
           /\ api' = SubSeq(api, 1, Len(api) - 1) /\ SetMode("run", "none")
           /\ ts' = ts /\ isq' = isq /\ cs' = cs /\ saved' = saved
           \* only an abrupt outermost exit clears the flag (leaveAbrupt); a run that ends normally just before
           \* noticing a late Interrupt leaves it set for the next call
           /\ intr' = IF Len(api) = 1 /\ E.a = "uncatchable" THEN "clear" ELSE intr
Leave == (Ev("Leave") \/ Ev("LeaveAbrupt")) /\ UNCHANGED <<ts, isq, cs, ms, api, saved, intr>>

\* ---- contexts -------------------------------------------------------------------------------------------------
Ctx == /\ (Ev("CtxPush") \/ Ev("CtxPop") \/ Ev("CtxAdj"))
       /\ cs' = E.cs
       /\ (IF E.ev = "CtxPush" THEN cs' = cs + 1 ELSE IF E.ev = "CtxPop" THEN cs' = cs - 1 ELSE (cs' = cs + 1 \/ cs' = cs - 1))
       /\ UNCHANGED <<ts, isq, ms, api, saved, intr>> /\ Agree

\* ---- try frames -----------------------------------------------------------------------------------------------
TryPush == /\ Ev("TryPush")
           /\ ts' = Append(ts, [kind |-> E.a, c |-> E.c, f |-> E.f, ph |-> "body", pend |-> "none"] @@ Obs(E))
           \* FrameWF: snapshots of consecutive frames are monotone
           /\ (ts # <<>> => Top.cs <= E.cs /\ Top.is <= E.is /\ Top.rs <= E.rs)
           /\ UNCHANGED <<isq, cs, ms, api, saved, intr>> /\ Agree
TryPop == /\ Ev("TryPop") /\ ts # <<>>
          /\ (CASE mode = "unw" -> (Top.c = 0 /\ Top.f = 0 /\ Top.kind = "region")                 \* spent frame
                                  \/ (ucls # "catchable" /\ Top.kind # "marker")                   \* uncatchable skips regions
               [] mode = "run" -> Top.kind = "marker" \/ (Top.ph \in {"body", "catch"} /\ Top.f = 0) \/ Top.ph \in {"leaving", "finally"}
               [] mode = "gounw" -> Top.kind = "marker" \/ Top.ph \in {"leaving", "finally"}
                                    \* an uncatchable payload that left a generator's finally entered by return() drops the rest of
                                    \* the generator's regions on its way out (generator.abort), running none of them
                                    \/ (ucls # "catchable" /\ Top.kind # "marker"))
          /\ ts' = PopTs /\ UNCHANGED <<isq, cs, api, saved, intr>>
          \* the nested context of an iterator close ends with its base frame; a payload that is still travelling through Go frames
          \* (gounw) goes on travelling in the enclosing context (e.g. an interrupt inside the finally block of an inner generator that is
          \* closed because the outer generator is being closed)
          /\ (IF Len(ms) > 1 /\ Len(ts) - 1 = ms[Len(ms)].base
              THEN ms' = (LET outer == SubSeq(ms, 1, Len(ms) - 1) IN
                          \* (an enclosing context that is itself unwinding keeps its own payload: errors of a close during unwinding are dropped)
                          IF mode = "gounw" /\ outer[Len(outer)].m = "run" THEN [outer EXCEPT ![Len(outer)] = [@ EXCEPT !.m = "gounw", !.cls = ucls]] ELSE outer)
              ELSE ms' = ms)
          /\ Agree
LeaveTry == /\ Ev("LeaveTry") /\ mode = "run" /\ ts # <<>> /\ Top.kind = "region" /\ Top.f = 1 /\ Top.ph \in {"body", "catch"}
            /\ E.sp = Top.sp /\ E.gl = Top.gl
            /\ ts' = SetTop([Top EXCEPT !.c = 0, !.f = 0, !.ph = "finally", !.pend = "jump"])
            /\ UNCHANGED <<isq, cs, ms, api, saved, intr>> /\ Agree
\* fall-through into finally: BOTH handlers are spent afterwards (a throw inside finally must not reach this catch)
EnterFinally == /\ Ev("EnterFinally") /\ mode = "run" /\ ts # <<>> /\ Top.kind = "region" /\ Top.ph \in {"body", "catch"}
                /\ ts' = SetTop([Top EXCEPT !.c = IF "EnterFinallyKeepsCatch" \in Deviations THEN Top.c ELSE 0,
                                            !.f = 0, !.ph = "finally", !.pend = "none"])
                /\ UNCHANGED <<isq, cs, ms, api, saved, intr>> /\ Agree
\* the pending completion is consumed by exactly one leaveFinally
LeaveFinally == /\ Ev("LeaveFinally") /\ mode = "run" /\ ts # <<>> /\ Top.ph = "finally" /\ E.a = Top.pend
                /\ ts' = SetTop([Top EXCEPT !.ph = "leaving"])
                /\ UNCHANGED <<isq, cs, ms, api, saved, intr>> /\ Agree

\* ---- unwinding (handleThrow as micro-steps) -------------------------------------------------------------------
ThrowBegin == /\ Ev("ThrowBegin") /\ SetMode("unw", E.a)
              /\ (mode = "gounw" => ucls = E.a)                       \* the same payload keeps travelling through Go frames
              /\ (intr = "seen" => E.a = "uncatchable")               \* nothing else is thrown once the interrupt was seen
              /\ UNCHANGED <<ts, isq, cs, api, saved, intr>> /\ Agree
IterPush == /\ Ev("IterPush") /\ mode = "run" /\ isq' = Append(isq, E.a = "closable")
            /\ UNCHANGED <<ts, cs, ms, api, saved, intr>> /\ Agree
IterPop == /\ Ev("IterPop") /\ isq # <<>> /\ isq' = SubSeq(isq, 1, Len(isq) - 1)
           /\ UNCHANGED <<ts, cs, ms, api, saved, intr>> /\ Agree
\* closing an iterator while unwinding: only for catchable payloads (C08 last sentence), innermost first; the call
\* stack has already been truncated to the landing frame
IterClose == /\ Ev("IterClose") /\ mode = "unw" /\ (ucls = "catchable" \/ "CloseOnUncatchable" \in Deviations)
             /\ ms' = Append(ms, [m |-> "run", cls |-> "none", base |-> Len(ts)])
             /\ ts # <<>> /\ cs' = E.cs /\ E.cs = (IF Top.cs < cs THEN Top.cs ELSE cs)
             /\ UNCHANGED <<ts, isq, api, saved, intr>>
\* (the event is logged after the iterator stack and before the reference stack is truncated: rs is checked at Land)
IterTrunc == /\ Ev("IterTrunc") /\ mode = "unw" /\ ts # <<>> /\ E.is = Top.is
             /\ isq' = SubSeq(isq, 1, E.is) /\ cs' = E.cs /\ E.cs = (IF Top.cs < cs THEN Top.cs ELSE cs)
             /\ UNCHANGED <<ts, ms, api, saved, intr>>
Land == /\ Ev("Land") /\ mode = "unw" /\ ts # <<>> /\ E.rs = Top.rs /\ E.is = Top.is
        /\ (CASE E.a = "catch" -> /\ ucls = "catchable" /\ Top.kind = "region" /\ Top.c = 1
                                 /\ E.sp = Top.sp + 1 /\ E.gl = Top.gl
                                 /\ ts' = SetTop([Top EXCEPT !.c = 0, !.ph = "catch"]) /\ SetMode("run", "none")
             [] E.a = "finally" -> /\ ucls = "catchable" /\ Top.kind = "region" /\ Top.c = 0 /\ Top.f = 1
                                   /\ E.sp = Top.sp /\ E.gl = Top.gl
                                   /\ ts' = SetTop([Top EXCEPT !.f = 0, !.ph = "finally", !.pend = "exc"]) /\ SetMode("run", "none")
             [] E.a = "marker" -> /\ Top.kind = "marker" /\ E.sp = Top.sp /\ E.gl = Top.gl
                                  /\ ts' = ts /\ SetMode("gounw", ucls)
             [] OTHER -> FALSE)
        /\ UNCHANGED <<isq, cs, api, saved, intr>> /\ Agree
\* after a marker the owner of the marker (Go code) resumes normal execution without a VM event of its own: the
\* switch back to "run" is taken silently when the next event is a "run"-mode event
RunEvents == {"CtxPush", "CtxPop", "CtxAdj", "TryPush", "IterPush", "IterPop", "LeaveTry", "EnterFinally", "LeaveFinally",
              "Leave", "ApiEnter", "GenFin", "Suspend", "Resume", "IterTrunc", "IterClose"}
Resume1 == /\ mode = "gounw" /\ l <= Len(Trace) /\ E.ev \in RunEvents
           /\ ucls = "catchable"          \* an uncatchable or foreign payload is never converted back into normal execution
           /\ SetMode("run", "none") /\ UNCHANGED <<ts, isq, cs, api, saved, intr, l>>

\* ---- generators -----------------------------------------------------------------------------------------------
\* frames above the generator's base move into the saved context, re-based (sp relative to sb-1, is relative to base)
Suspend == /\ Ev("Suspend") /\ mode = "run"
           /\ saved' = Append(saved, [t |-> [j \in 1..E.sts |-> LET fr == ts[Len(ts) - E.sts + j] IN
                                                \* (E.rs: the reference stack after the suspension = the part that belongs to the caller)
                                                [fr EXCEPT !.sp = fr.sp - (E.sb - 1), !.is = fr.is - (Len(isq) - E.sis), !.rs = fr.rs - E.rs]],
                                       i |-> SubSeq(isq, Len(isq) - E.sis + 1, Len(isq))])
           /\ ts' = SubSeq(ts, 1, Len(ts) - E.sts) /\ isq' = SubSeq(isq, 1, Len(isq) - E.sis)
           /\ UNCHANGED <<cs, ms, api, intr>> /\ Agree
\* any suspended context may be resumed (several generators / async functions are alive at once): the one whose
\* segment lengths match; its frames come back with snapshots shifted to the current depths
Resume == /\ Ev("Resume")
          /\ \E n \in 1..Len(saved) :
               LET sv == saved[n] IN
               /\ Len(sv.t) = E.sts /\ Len(sv.i) = E.sis
               /\ ts' = ts \o [j \in 1..Len(sv.t) |-> [sv.t[j] EXCEPT !.cs = cs, !.is = sv.t[j].is + Len(isq), !.sp = sv.t[j].sp + (E.sp - E.sst), !.rs = sv.t[j].rs + (E.rs - E.srs)]]
               /\ isq' = isq \o sv.i
               /\ saved' = SubSeq(saved, 1, n - 1) \o SubSeq(saved, n + 1, Len(saved))
          /\ UNCHANGED <<cs, ms, api, intr>> /\ Agree
\* return() enters a pending finally region: the region frame is re-marked as a marker-like frame
GenFinEnter == /\ Ev("GenFin") /\ E.a = "enter" /\ mode = "run" /\ ts # <<>> /\ Top.kind = "region" /\ Top.f = 1
               /\ E.sp = Top.sp /\ E.gl = Top.gl
               /\ ts' = SetTop([Top EXCEPT !.kind = "marker", !.c = 0, !.f = 0, !.ph = "finally", !.pend = "jump"])
               /\ UNCHANGED <<isq, cs, ms, api, saved, intr>> /\ Agree
GenFinPop == /\ Ev("GenFin") /\ E.a = "pop" /\ mode = "run" /\ ts # <<>> /\ Top.f = 0
             /\ ts' = SetTop([Top EXCEPT !.ph = "leaving"]) /\ UNCHANGED <<isq, cs, ms, api, saved, intr>> /\ Agree
\* restoreStacks outside handleThrow (generator return path)
RestoreRun == /\ Ev("IterTrunc") /\ mode = "run" /\ E.is <= Len(isq) /\ isq' = SubSeq(isq, 1, E.is)
              /\ UNCHANGED <<ts, cs, ms, api, saved, intr>> /\ Agree
IterCloseRun == /\ Ev("IterClose") /\ mode = "run"
                /\ ms' = Append(ms, [m |-> "run", cls |-> "none", base |-> Len(ts)])
                /\ UNCHANGED <<ts, isq, cs, api, saved, intr>>

\* ---- interrupts (events from other goroutines carry no registers) ----------------------------------------------
IntSet == Ev("IntSet") /\ intr' = (IF intr = "seen" THEN "seen" ELSE "set") /\ UNCHANGED <<ts, isq, cs, ms, api, saved>>
IntClear == Ev("IntClear") /\ intr' = "clear" /\ UNCHANGED <<ts, isq, cs, ms, api, saved>>
\* the poll saw the flag: only now may the uncatchable throw begin
IntSeen == Ev("IntSeen") /\ intr \in {"set", "seen"} /\ intr' = "seen" /\ UNCHANGED <<ts, isq, cs, ms, api, saved>>

\* promptness: at most one instruction started while the flag was already set
IntLate == Ev("IntLate") /\ E.a \in {"0", "1"} /\ UNCHANGED <<ts, isq, cs, ms, api, saved, intr>>

Next == \/ Reset \/ ApiEnter \/ ApiExit \/ Leave \/ Ctx
        \/ TryPush \/ TryPop \/ LeaveTry \/ EnterFinally \/ LeaveFinally
        \/ ThrowBegin \/ IterPush \/ IterPop \/ IterClose \/ IterTrunc \/ Land \/ Resume1
        \/ Suspend \/ Resume \/ GenFinEnter \/ GenFinPop \/ RestoreRun \/ IterCloseRun
        \/ IntSet \/ IntClear \/ IntSeen \/ IntLate
Spec == Init /\ [][Next]_vars

\* acceptance: the high-water mark of consumed lines reaches the end of the trace
HW == TLCSet(1, IF TLCGet(1) > l THEN TLCGet(1) ELSE l)
Accepted == IF TLCGet(1) = Len(Trace) + 1 THEN TRUE ELSE PrintT(<<"HWM", TLCGet(1)>>) /\ FALSE
=============================================================================
