// Package walk drives a real implementation along the labelled edges of a TLC-generated state graph
// (binding A of DESIGN.md): every edge is covered by tours that start at the initial state, and after
// every step the implementation's result and observable projection are compared with the specified ones.
package walk

import (
	"bufio"
	"bytes"
	"encoding/json"
	"fmt"
	"math/rand"
	"os"
	"runtime"
	"runtime/debug"
	"strconv"
	"sync/atomic"
	"time"
)

// An edge label carries the action, its arguments and its specified result under "res"; obs is the observable
// projection of the target state; dev is "" for pure-specification edges or the name of the deviation
// switch (known finding) that produces the edge.
type Edge struct {
	From, To int
	Label    json.RawMessage
	Res      string // canonical expected result
	Obs      string // canonical expected observation
	Key      string // canonical label without res
	Dev      string
}

type Graph struct {
	Init     []int
	Nodes    int
	Edges    []Edge
	Out      [][]int // pure edges by source
	DevAt    map[string][]int
	Obs0     string
	DevEdges int
}

func Canon(raw []byte) string {
	var v interface{}
	d := json.NewDecoder(bytes.NewReader(raw))
	d.UseNumber()
	if err := d.Decode(&v); err != nil {
		return "!" + string(raw)
	}
	return CanonV(v)
}

func CanonV(v interface{}) string {
	var b bytes.Buffer
	e := json.NewEncoder(&b)
	e.SetEscapeHTML(false)
	if err := e.Encode(normNum(v)); err != nil {
		return "!" + err.Error()
	}
	return string(bytes.TrimRight(b.Bytes(), "\n"))
}

// normNum makes 1, 1.0 and int64(1) print identically.
func normNum(v interface{}) interface{} {
	switch x := v.(type) {
	case map[string]interface{}:
		for k, e := range x {
			x[k] = normNum(e)
		}
		return x
	case []interface{}:
		for i, e := range x {
			x[i] = normNum(e)
		}
		return x
	case json.Number:
		if i, err := x.Int64(); err == nil {
			return i
		}
		f, _ := x.Float64()
		return f
	case float64:
		if x == float64(int64(x)) && x < 1e15 && x > -1e15 {
			return int64(x)
		}
		return x
	case int:
		return int64(x)
	}
	return v
}

// parsed TLC edge line
type rec struct {
	f, t, lcanon, key, res, obs string
	label                       json.RawMessage
	ok                          bool
}

func parseLine(line []byte) (r rec) {
	var inner string
	if err := json.Unmarshal(line, &inner); err != nil {
		return
	}
	var e struct{ F, L, T, O json.RawMessage }
	if err := json.Unmarshal([]byte(inner), &e); err != nil {
		return
	}
	r.f, r.t = Canon(e.F), Canon(e.T)
	if e.O == nil {
		r.obs = r.t // the observation is the whole abstract state
	} else {
		r.obs = Canon(e.O)
	}
	var lm map[string]interface{}
	d := json.NewDecoder(bytes.NewReader(e.L))
	d.UseNumber()
	if d.Decode(&lm) != nil {
		return
	}
	r.lcanon = CanonV(lm)
	r.label = json.RawMessage(r.lcanon)
	r.res = CanonV(lm["res"])
	delete(lm, "res")
	r.key = CanonV(lm)
	r.ok = true
	return
}

func readEdges(path string, threads int) ([]rec, error) {
	data, err := os.ReadFile(path)
	if err != nil {
		return nil, err
	}
	var lines [][]byte
	for _, l := range bytes.Split(data, []byte{'\n'}) {
		if len(l) > 0 && l[0] == '"' {
			lines = append(lines, l)
		}
	}
	recs := make([]rec, len(lines))
	if threads < 1 {
		threads = 1
	}
	done := make(chan bool)
	for w := 0; w < threads; w++ {
		go func(w int) {
			for i := w; i < len(lines); i += threads {
				recs[i] = parseLine(lines[i])
			}
			done <- true
		}(w)
	}
	for w := 0; w < threads; w++ {
		<-done
	}
	return recs, nil
}

// LoadTLC builds the graph from TLC's stdout (edge stream printed by ACTION_CONSTRAINT Emit): pure is the run of
// the pure specification, devs maps a deviation-switch name to the run with that switch on. init is the JSON of
// the initial abstract state, obs0 the JSON of its observation ("" = not checked).
func LoadTLC(pure string, devs map[string]string, init, obs0 string, threads int) (*Graph, error) {
	recs, err := readEdges(pure, threads)
	if err != nil {
		return nil, err
	}
	g := &Graph{DevAt: map[string][]int{}}
	ids := map[string]int{}
	nid := func(s string) int {
		if i, ok := ids[s]; ok {
			return i
		}
		ids[s] = len(ids)
		return len(ids) - 1
	}
	type ek struct {
		f int
		l string
	}
	seen := map[ek]int{}
	for i := range recs {
		r := &recs[i]
		if !r.ok {
			return nil, fmt.Errorf("unparsable edge line %d in %s", i, pure)
		}
		f := nid(r.f)
		k := ek{f, r.lcanon}
		if _, dup := seen[k]; dup {
			continue
		}
		seen[k] = len(g.Edges)
		g.Edges = append(g.Edges, Edge{From: f, To: nid(r.t), Label: r.label, Res: r.res, Obs: r.obs,
			Key: fmt.Sprintf("%d|%s", f, r.key)})
	}
	g.Nodes = len(ids)
	i0, ok := ids[Canon([]byte(init))]
	if !ok {
		return nil, fmt.Errorf("initial state %s not among the emitted states", init)
	}
	g.Init = []int{i0}
	if obs0 != "" {
		g.Obs0 = Canon([]byte(obs0))
	}
	g.Out = make([][]int, g.Nodes)
	for i, e := range g.Edges {
		g.Out[e.From] = append(g.Out[e.From], i)
	}
	for name, file := range devs {
		drecs, err := readEdges(file, threads)
		if err != nil {
			return nil, err
		}
		dseen := map[ek]bool{}
		for i := range drecs {
			r := &drecs[i]
			if !r.ok {
				continue
			}
			f, ok := ids[r.f]
			if !ok || f >= g.Nodes {
				continue // source not reachable in the pure specification
			}
			k := ek{f, r.lcanon}
			if dseen[k] {
				continue
			}
			dseen[k] = true
			t := -1
			if ti, ok := ids[r.t]; ok && ti < g.Nodes {
				t = ti
			}
			if pi, ok := seen[k]; ok {
				pe := g.Edges[pi]
				if pe.To == t && pe.Obs == r.obs {
					continue // identical to a pure edge
				}
			}
			key := fmt.Sprintf("%d|%s", f, r.key)
			g.DevAt[key] = append(g.DevAt[key], len(g.Edges))
			g.Edges = append(g.Edges, Edge{From: f, To: t, Label: r.label, Res: r.res, Obs: r.obs, Key: key, Dev: name})
			g.DevEdges++
		}
	}
	return g, nil
}

// Adaptor binds abstract actions to the real implementation.
type Adaptor interface {
	// Reset creates a fresh implementation instance in the initial state and returns its observation.
	Reset() (obs string)
	// Step performs the labelled action; returns canonical result and canonical observation.
	Step(label json.RawMessage) (res, obs string)
}

type Mismatch struct {
	Kind     string            `json:"mkind"` // mismatch | panic
	Path     []json.RawMessage `json:"path"`  // labels from the initial state, last one failing
	Edge     int               `json:"edge"`
	WantRes  string            `json:"want_res"`
	GotRes   string            `json:"got_res"`
	WantObs  string            `json:"want_obs"`
	GotObs   string            `json:"got_obs"`
	PanicMsg string            `json:"panic,omitempty"`
}

type Report struct {
	Steps                  int                 `json:"steps"`
	Tours                  int                 `json:"tours"`
	Covered                int                 `json:"covered"`    // distinct pure edges replayed by this worker
	Mine                   int                 `json:"mine"`       // pure edges assigned to this worker
	Nontrivial             int                 `json:"nontrivial"` // covered edges that change the observation or have a non-default result
	NodesSeen              int                 `json:"nodes_seen"` // distinct abstract states the real object was driven into
	KnownHits              map[string]int      `json:"known_hits"` // deviation name -> edges explained by it
	KnownEx                map[string]Mismatch `json:"known_examples"`
	Lost                   int                 `json:"lost_to_known"` // assigned edges unreachable because a known finding blocks every path tried
	Mismatches             []Mismatch          `json:"mismatches"`
	Samples                [][]json.RawMessage `json:"samples"`
	Edges, Nodes, DevEdges int
	FlipCaught             bool `json:"flip_caught"` // binding self-test: a deliberately flipped expectation was reported
}

type Options struct {
	Worker, Workers int
	MaxTour         int
	Seed            int64
	RandomWalks     int // additional random walks (thorough)
	WalkLen         int
	MaxMismatch     int
	Journal         string
	StepTimeout     time.Duration
	MemLimit        uint64
}

var stepCounter int64

// Watchdog exits the process with a recognisable code if a step hangs or memory explodes (the journal
// names the step).
func Watchdog(o Options) {
	if o.StepTimeout == 0 {
		o.StepTimeout = 120 * time.Second
	}
	if o.MemLimit == 0 {
		o.MemLimit = 3 << 30
		// (a check whose graphs are known to be large raises the budget of its walker processes)
		if gb, err := strconv.Atoi(os.Getenv("VERIF_WALK_MEM_GB")); err == nil && gb > 0 {
			o.MemLimit = uint64(gb) << 30
		}
	}
	debug.SetGCPercent(100)
	go func() {
		last := int64(-1)
		lastChange := time.Now()
		for {
			time.Sleep(500 * time.Millisecond)
			c := atomic.LoadInt64(&stepCounter)
			if c != last {
				last, lastChange = c, time.Now()
			} else if time.Since(lastChange) > o.StepTimeout {
				fmt.Fprintf(os.Stderr, "WATCHDOG hang at step %d\n", c)
				os.Exit(4)
			}
			var ms runtime.MemStats
			runtime.ReadMemStats(&ms)
			if ms.HeapAlloc > o.MemLimit {
				fmt.Fprintf(os.Stderr, "WATCHDOG memory %d at step %d\n", ms.HeapAlloc, c)
				os.Exit(5)
			}
		}
	}()
}

type walker struct {
	g       *Graph
	a       Adaptor
	o       Options
	rep     *Report
	cov     []bool
	unc     []int // uncovered assigned pure out-edges per node
	path    []json.RawMessage
	jf      *os.File
	seen    map[int]bool
	blocked map[int]int
	flip    int
}

func (w *walker) mine(i int) bool { return w.o.Workers <= 1 || i%w.o.Workers == w.o.Worker }

func (w *walker) journalReset() {
	if w.jf != nil {
		w.jf.Truncate(0)
		w.jf.Seek(0, 0)
	}
}

func (w *walker) safeStep(label json.RawMessage) (res, obs string, pmsg string) {
	defer func() {
		if r := recover(); r != nil {
			pmsg = fmt.Sprintf("%v\n%s", r, debug.Stack())
		}
	}()
	if w.jf != nil {
		w.jf.Write(append(append([]byte{}, label...), '\n'))
	}
	atomic.AddInt64(&stepCounter, 1)
	res, obs = w.a.Step(label)
	return
}

func (w *walker) reset() int {
	w.journalReset()
	w.path = w.path[:0]
	w.rep.Tours++
	obs := w.a.Reset()
	if w.g.Obs0 != "" && obs != w.g.Obs0 {
		w.rep.Mismatches = append(w.rep.Mismatches, Mismatch{Kind: "mismatch-init", WantObs: w.g.Obs0, GotObs: obs})
	}
	return w.g.Init[0]
}

// take executes edge ei from the current node; returns the next node or -1 when the tour must restart.
func (w *walker) take(ei int) int {
	e := &w.g.Edges[ei]
	if ei == w.flip {
		ec := *e
		ec.Res = "\"__flipped__\""
		e = &ec
	}
	w.path = append(w.path, e.Label)
	w.rep.Steps++
	res, obs, pmsg := w.safeStep(e.Label)
	if pmsg == "" && res == e.Res && obs == e.Obs {
		if !w.cov[ei] {
			w.cov[ei] = true
			if w.mine(ei) {
				w.rep.Covered++
				w.unc[e.From]--
				if e.From != e.To || (e.Res != "null" && e.Res != "\"ok\"" && e.Res != "\"u\"") {
					w.rep.Nontrivial++
				}
				need := 3 // (a sample is a tour of some length; graphs explored to depth 2 have none of length 3)
				if w.o.MaxTour > 0 && w.o.MaxTour < need {
					need = w.o.MaxTour
				}
				if len(w.rep.Samples) < 3 && len(w.path) >= need {
					w.rep.Samples = append(w.rep.Samples, append([]json.RawMessage{}, w.path...))
				}
			}
		}
		w.seen[e.To] = true
		return e.To
	}
	mm := Mismatch{Kind: "mismatch", Path: append([]json.RawMessage{}, w.path...), Edge: ei,
		WantRes: e.Res, GotRes: res, WantObs: e.Obs, GotObs: obs, PanicMsg: pmsg}
	if pmsg != "" {
		mm.Kind = "panic"
	} else {
		for _, di := range w.g.DevAt[e.Key] {
			d := &w.g.Edges[di]
			if d.Res == res && d.Obs == obs {
				w.rep.KnownHits[d.Dev]++
				if _, ok := w.rep.KnownEx[d.Dev]; !ok {
					w.rep.KnownEx[d.Dev] = mm
				}
				// the edge is explained by a known finding: it counts as examined, not as covered
				if !w.cov[ei] {
					w.cov[ei] = true
					if w.mine(ei) {
						w.unc[e.From]--
						w.rep.Lost++
					}
				}
				if d.To >= 0 {
					return d.To
				}
				return -1
			}
		}
	}
	w.rep.Mismatches = append(w.rep.Mismatches, mm)
	if !w.cov[ei] {
		w.cov[ei] = true
		if w.mine(ei) {
			w.unc[e.From]--
		}
	}
	return -1
}

// nearest returns a pure-edge path from node n to a node with uncovered assigned out-edges.
func (w *walker) nearest(n int) []int {
	if w.unc[n] > 0 {
		return []int{}
	}
	prev := map[int]int{n: -1}
	queue := []int{n}
	for len(queue) > 0 {
		x := queue[0]
		queue = queue[1:]
		for _, ei := range w.g.Out[x] {
			if w.blocked[ei] > 2 {
				continue
			}
			t := w.g.Edges[ei].To
			if _, ok := prev[t]; ok {
				continue
			}
			prev[t] = ei
			if w.unc[t] > 0 {
				var p []int
				for c := t; prev[c] != -1; c = w.g.Edges[prev[c]].From {
					p = append(p, prev[c])
				}
				for i, j := 0, len(p)-1; i < j; i, j = i+1, j-1 {
					p[i], p[j] = p[j], p[i]
				}
				return p
			}
			queue = append(queue, t)
		}
	}
	return nil
}

// Cover replays tours that cover every pure edge assigned to this worker.
func Cover(g *Graph, a Adaptor, o Options) *Report {
	rep := &Report{KnownHits: map[string]int{}, KnownEx: map[string]Mismatch{}}
	w := &walker{g: g, a: a, o: o, rep: rep, cov: make([]bool, len(g.Edges)), unc: make([]int, g.Nodes),
		seen: map[int]bool{}, blocked: map[int]int{}, flip: -1}
	if o.Journal != "" {
		w.jf, _ = os.OpenFile(o.Journal, os.O_CREATE|os.O_RDWR|os.O_TRUNC, 0644)
	}
	if o.MaxTour == 0 {
		o.MaxTour = 40
	}
	if o.MaxMismatch == 0 {
		o.MaxMismatch = 25
	}
	rng := rand.New(rand.NewSource(o.Seed*7919 + int64(o.Worker)))
	for i, e := range g.Edges {
		if e.Dev == "" && w.mine(i) {
			w.unc[e.From]++
			rep.Mine++
		}
	}
	cur := w.reset()
	w.seen[cur] = true
	remaining := func() int { return rep.Mine - rep.Covered - rep.Lost - len(rep.Mismatches) }
	stuck := 0
	for remaining() > 0 && len(rep.Mismatches) < o.MaxMismatch && stuck < 3 {
		if len(w.path) >= o.MaxTour {
			cur = w.reset()
		}
		p := w.nearest(cur)
		if p == nil {
			if len(w.path) == 0 {
				stuck++ // nothing reachable even from the initial state (blocked by known findings)
				continue
			}
			cur = w.reset()
			continue
		}
		ok := true
		for _, ei := range p {
			n := w.take(ei)
			if n != w.g.Edges[ei].To {
				w.blocked[ei]++
				ok = false
				if n < 0 {
					cur = w.reset()
				} else {
					cur = n
				}
				break
			}
			cur = n
		}
		if !ok {
			continue
		}
		// take an uncovered assigned edge here
		var cands []int
		for _, ei := range g.Out[cur] {
			if !w.cov[ei] && w.mine(ei) {
				cands = append(cands, ei)
			}
		}
		if len(cands) == 0 {
			continue
		}
		ei := cands[rng.Intn(len(cands))]
		n := w.take(ei)
		if n < 0 {
			cur = w.reset()
		} else {
			cur = n
		}
	}
	// edges never reached because every path to them is blocked by a known finding
	left := rep.Mine - rep.Covered - rep.Lost - len(rep.Mismatches)
	if left > 0 && len(rep.Mismatches) < o.MaxMismatch {
		rep.Lost += left
	}
	// seeded random walks: hidden implementation state depends on the path, not only the abstract state
	for i := 0; i < o.RandomWalks && len(rep.Mismatches) < o.MaxMismatch; i++ {
		cur = w.reset()
		for s := 0; s < o.WalkLen; s++ {
			out := g.Out[cur]
			if len(out) == 0 {
				break
			}
			n := w.take(out[rng.Intn(len(out))])
			if n < 0 {
				break
			}
			cur = n
		}
	}
	// binding self-test: flip one expectation and require a report
	if len(g.Edges) > 0 && len(rep.Mismatches) == 0 {
		cur = w.reset()
		if out := g.Out[cur]; len(out) > 0 {
			ei := out[0]
			w.flip = ei
			before := len(rep.Mismatches)
			w.take(ei)
			if len(rep.Mismatches) == before+1 {
				rep.FlipCaught = true
				rep.Mismatches = rep.Mismatches[:before]
			}
			w.flip = -1
			rep.Steps--
		}
	}
	rep.NodesSeen = len(w.seen)
	return rep
}

// Replay runs one recorded path (labels) and reports the observations of the last step.
func Replay(a Adaptor, path []json.RawMessage) (res, obs, pmsg string) {
	a.Reset()
	w := &walker{a: a, flip: -1}
	for _, l := range path {
		res, obs, pmsg = w.safeStep(l)
		if pmsg != "" {
			return
		}
	}
	return
}

// CoverParallel runs `threads` workers (indices base..base+threads-1 of total) as goroutines sharing the graph.
func CoverParallel(g *Graph, mk func() Adaptor, o Options, base, threads, total int) *Report {
	reps := make([]*Report, threads)
	done := make(chan bool)
	for t := 0; t < threads; t++ {
		go func(t int) {
			oo := o
			oo.Worker, oo.Workers = base+t, total
			if o.Journal != "" {
				oo.Journal = fmt.Sprintf("%s.%d", o.Journal, base+t)
			}
			gg := *g // per-worker copy of the header; the self-test flips an edge in its own Edges copy
			reps[t] = Cover(&gg, mk(), oo)
			done <- true
		}(t)
	}
	for t := 0; t < threads; t++ {
		<-done
	}
	m := &Report{KnownHits: map[string]int{}, KnownEx: map[string]Mismatch{}, FlipCaught: true}
	for _, r := range reps {
		m.Steps += r.Steps
		m.Tours += r.Tours
		m.Covered += r.Covered
		m.Mine += r.Mine
		m.Nontrivial += r.Nontrivial
		m.Lost += r.Lost
		if r.NodesSeen > m.NodesSeen {
			m.NodesSeen = r.NodesSeen
		}
		for k, v := range r.KnownHits {
			m.KnownHits[k] += v
		}
		for k, v := range r.KnownEx {
			if _, ok := m.KnownEx[k]; !ok {
				m.KnownEx[k] = v
			}
		}
		m.Mismatches = append(m.Mismatches, r.Mismatches...)
		if len(m.Samples) < 3 {
			m.Samples = append(m.Samples, r.Samples...)
		}
		m.FlipCaught = m.FlipCaught && (r.FlipCaught || len(r.Mismatches) > 0)
	}
	return m
}

func WriteReport(rep *Report, path string) error {
	f, err := os.Create(path)
	if err != nil {
		return err
	}
	defer f.Close()
	bw := bufio.NewWriter(f)
	defer bw.Flush()
	return json.NewEncoder(bw).Encode(rep)
}
