package natives

// Go types of specs/FieldSel.tla (the same families, every leaf an int) and the Go-side accessors by explicit path.

import (
	"reflect"
	"strings"

	"github.com/dop251/goja"
)

type Deep struct{ X, Z int }
type Mid struct {
	Y int
	Deep
}
type T1 struct {
	X int
	Mid
}
type D struct{ V, W int }
type C struct{ D }
type B struct{ C }
type A struct{ V int }
type T2 struct {
	A
	B
}
type P struct{ G, Q int }
type T3 struct {
	*P
	Q int
}
type In struct{ X, U int }
type Deep2 struct{ In }
type T4 struct {
	Deep2
	X int
}
type P5 struct {
	*P
	H int
}
type T5 struct {
	*P5
	K int
}

// fsWalk follows a path of DIRECT field names (no promotion); alloc: allocate nil pointers on the way (the last one only if allocLast)
func fsWalk(v reflect.Value, path []string) (reflect.Value, bool) {
	for _, name := range path {
		for v.Kind() == reflect.Ptr {
			if v.IsNil() {
				return reflect.Value{}, false
			}
			v = v.Elem()
		}
		t := v.Type()
		found := false
		for i := 0; i < t.NumField(); i++ {
			if t.Field(i).Name == name {
				v = v.Field(i)
				found = true
				break
			}
		}
		if !found {
			panic("fieldsel: no field " + name)
		}
	}
	return v, true
}

func InstallFieldSel(vm *goja.Runtime) {
	roots := map[*goja.Object]reflect.Value{}
	vm.Set("__fsNew", func(call goja.FunctionCall) goja.Value {
		var p interface{}
		switch call.Argument(0).String() {
		case "T1":
			p = &T1{}
		case "T2":
			p = &T2{}
		case "T3":
			p = &T3{}
		case "T4":
			p = &T4{}
		case "T5":
			p = &T5{}
		default:
			panic(vm.NewTypeError("unknown type"))
		}
		o := vm.ToValue(p).(*goja.Object)
		roots[o] = reflect.ValueOf(p)
		return o
	})
	// __fsGo(wrapper, "get" | "set" | "alloc" | "nil" | "isnil", "A.B.C", value)
	vm.Set("__fsGo", func(call goja.FunctionCall) goja.Value {
		root := roots[call.Argument(0).(*goja.Object)]
		op := call.Argument(1).String()
		path := strings.Split(call.Argument(2).String(), ".")
		v, ok := fsWalk(root, path)
		switch op {
		case "get":
			if !ok {
				return vm.ToValue("unreachable")
			}
			return vm.ToValue(v.Int())
		case "set":
			if !ok {
				panic(vm.NewTypeError("unreachable"))
			}
			v.SetInt(call.Argument(3).ToInteger())
		case "alloc":
			v.Set(reflect.New(v.Type().Elem()))
		case "nil":
			v.Set(reflect.Zero(v.Type()))
		case "isnil":
			return vm.ToValue(!ok || v.IsNil())
		}
		return goja.Undefined()
	})
}
