// Package natives installs the white-box helpers that JS adaptors use (all prefixed with __).
package natives

import (
	"unicode/utf16"
	"fmt"
	"math"

	"github.com/dop251/goja"
)

// Export converts a JS value to plain Go data for canonical JSON comparison (NaN/Inf/-0 as strings).
func Export(v goja.Value) interface{} {
	if v == nil {
		return nil
	}
	return clean(v.Export())
}

func clean(x interface{}) interface{} {
	switch t := x.(type) {
	case map[string]interface{}:
		for k, e := range t {
			t[k] = clean(e)
		}
		return t
	case []interface{}:
		for i, e := range t {
			t[i] = clean(e)
		}
		return t
	case float64:
		if math.IsNaN(t) {
			return "NaN"
		}
		if math.IsInf(t, 1) {
			return "Infinity"
		}
		if math.IsInf(t, -1) {
			return "-Infinity"
		}
		if t == 0 && math.Signbit(t) {
			return "-0"
		}
		return t
	}
	return x
}

func Install(vm *goja.Runtime) {
	InstallBridge(vm) // C13: Go containers behind wrappers (bridge.go)
	InstallFieldSel(vm)
	vm.Set("__fsMapper", func(kind string) {
		if kind == "uncap" {
			vm.SetFieldNameMapper(goja.UncapFieldNameMapper())
		}
	})
	vm.Set("__tag", func(call goja.FunctionCall) goja.Value {
		return vm.ToValue(goja.VerifValueTag(call.Argument(0)))
	})
	vm.Set("__selfKind", func(call goja.FunctionCall) goja.Value {
		o, _ := call.Argument(0).(*goja.Object)
		return vm.ToValue(goja.VerifSelfKind(o))
	})
	vm.Set("__arrCounters", func(call goja.FunctionCall) goja.Value {
		o, _ := call.Argument(0).(*goja.Object)
		return vm.ToValue(goja.VerifArrayCounters(o))
	})
	vm.Set("__omapCheck", func(call goja.FunctionCall) goja.Value {
		o, _ := call.Argument(0).(*goja.Object)
		return vm.ToValue(goja.VerifOMapCheck(o))
	})
	vm.Set("__goString", func(call goja.FunctionCall) goja.Value {
		// a Go string imported through ToValue (lazily scanned when longer than 16 bytes)
		return vm.ToValue(call.Argument(0).String())
	})
	vm.Set("__goRaw", func(call goja.FunctionCall) goja.Value {
		// a Go string that need not be valid UTF-8: a prefix followed by raw bytes
		b := []byte(call.Argument(0).String())
		if arr, ok := call.Argument(1).Export().([]interface{}); ok {
			for _, x := range arr {
				if n, ok := x.(int64); ok {
					b = append(b, byte(n))
				}
			}
		}
		return vm.ToValue(string(b))
	})
	// Go-side views of a string (C06): equal content must export to the same Go string
	vm.Set("__exportEq", func(call goja.FunctionCall) goja.Value {
		a, b := call.Argument(0), call.Argument(1)
		ea, oka := a.Export().(string)
		eb, okb := b.Export().(string)
		return vm.ToValue(oka && okb && ea == eb && a.String() == b.String())
	})
	vm.Set("__exportUnits", func(call goja.FunctionCall) goja.Value {
		s, _ := call.Argument(0).Export().(string)
		u := utf16.Encode([]rune(s))
		out := make([]interface{}, len(u))
		for i, x := range u {
			out[i] = int64(x)
		}
		return vm.ToValue(out)
	})
	vm.Set("__exportLen", func(call goja.FunctionCall) goja.Value {
		// length of the Go-side export of a Map ([][2]interface{}) or Set ([]interface{})
		switch x := call.Argument(0).Export().(type) {
		case [][2]interface{}:
			return vm.ToValue(len(x))
		case []interface{}:
			return vm.ToValue(len(x))
		}
		return vm.ToValue(-1)
	})
	// Go API issuer of the object internal methods
	vm.Set("__goGet", func(call goja.FunctionCall) goja.Value {
		o := call.Argument(0).(*goja.Object)
		var v goja.Value
		if s, ok := call.Argument(1).(*goja.Symbol); ok {
			v = o.GetSymbol(s)
		} else {
			v = o.Get(call.Argument(1).String())
		}
		if v == nil {
			return goja.Undefined()
		}
		return v
	})
	vm.Set("__goSet", func(call goja.FunctionCall) goja.Value {
		o := call.Argument(0).(*goja.Object)
		var err error
		if s, ok := call.Argument(1).(*goja.Symbol); ok {
			err = o.SetSymbol(s, call.Argument(2))
		} else {
			err = o.Set(call.Argument(1).String(), call.Argument(2))
		}
		if err != nil {
			panic(err)
		}
		return goja.Undefined()
	})
	vm.Set("__goDelete", func(call goja.FunctionCall) goja.Value {
		o := call.Argument(0).(*goja.Object)
		var err error
		if s, ok := call.Argument(1).(*goja.Symbol); ok {
			err = o.DeleteSymbol(s)
		} else {
			err = o.Delete(call.Argument(1).String())
		}
		if err != nil {
			panic(err)
		}
		return vm.ToValue(true)
	})
	vm.Set("__goProxy", func(call goja.FunctionCall) goja.Value {
		// a Proxy created through the Go API whose ProxyTrapConfig forwards every trap to the target
		t := call.Argument(0).(*goja.Object)
		return vm.ToValue(vm.NewProxy(t, ForwardingTraps(vm)))
	})
	vm.Set("__goProxyHandler", func(call goja.FunctionCall) goja.Value {
		// a Proxy created through the Go API whose ProxyTrapConfig delegates every trap to the JS handler object
		t := call.Argument(0).(*goja.Object)
		h := call.Argument(1).(*goja.Object)
		px := vm.NewProxy(t, DelegatingTraps(vm, h))
		r := vm.NewObject()
		r.Set("proxy", vm.ToValue(px))
		r.Set("revoke", func() { px.Revoke() })
		return r
	})
	// ArrayBuffer over a Go-supplied slice that sits inside a slab of guard bytes (C17)
	type slab struct {
		mem []byte
		n   int
	}
	slabs := map[*goja.Object]*slab{}
	vm.Set("__mkBuffer", func(call goja.FunctionCall) goja.Value {
		n := int(call.Argument(0).ToInteger())
		sl := &slab{mem: make([]byte, n+64), n: n}
		for i := range sl.mem {
			sl.mem[i] = 0xA5
		}
		for i := 0; i < n; i++ {
			sl.mem[32+i] = byte((37*(i+1) + 100) % 256)
		}
		o := vm.ToValue(vm.NewArrayBuffer(sl.mem[32 : 32+n : 32+n])).(*goja.Object)
		slabs[o] = sl
		return o
	})
	vm.Set("__bufState", func(call goja.FunctionCall) goja.Value {
		o := call.Argument(0).(*goja.Object)
		sl := slabs[o]
		ab := o.Export().(goja.ArrayBuffer)
		guard := "ok"
		for i := 0; i < 32; i++ {
			if sl.mem[i] != 0xA5 {
				guard = fmt.Sprintf("byte %d before the buffer", 32-i)
			}
			if sl.mem[32+sl.n+i] != 0xA5 {
				guard = fmt.Sprintf("byte %d after the buffer", i)
			}
		}
		bytes := []interface{}{}
		if !ab.Detached() {
			b := ab.Bytes()
			// all views alias the Go slice
			if len(b) != sl.n || (sl.n > 0 && &b[0] != &sl.mem[32]) {
				guard = "Bytes() is not the Go-supplied slice"
			}
			for _, x := range b {
				bytes = append(bytes, int(x))
			}
		}
		return vm.ToValue(map[string]interface{}{"bytes": bytes, "guard": guard, "detached": ab.Detached()})
	})
	vm.Set("__detach", func(call goja.FunctionCall) goja.Value {
		call.Argument(0).Export().(goja.ArrayBuffer).Detach()
		return goja.Undefined()
	})
	// Go-side integer conversion of a number through Runtime.ExportTo (C05 conversion tables)
	vm.Set("__exportInt", func(call goja.FunctionCall) goja.Value {
		v := call.Argument(0)
		var err error
		var res int64
		switch call.Argument(1).String() {
		case "i32":
			var x int32
			err = vm.ExportTo(v, &x)
			res = int64(x)
		case "u32":
			var x uint32
			err = vm.ExportTo(v, &x)
			res = int64(x)
		case "i16":
			var x int16
			err = vm.ExportTo(v, &x)
			res = int64(x)
		case "u16":
			var x uint16
			err = vm.ExportTo(v, &x)
			res = int64(x)
		case "i8":
			var x int8
			err = vm.ExportTo(v, &x)
			res = int64(x)
		case "u8":
			var x uint8
			err = vm.ExportTo(v, &x)
			res = int64(x)
		}
		if err != nil {
			panic(vm.NewGoError(err))
		}
		return vm.ToValue(res)
	})
	vm.Set("__regs", func(call goja.FunctionCall) goja.Value {
		return vm.ToValue(goja.VerifRegs(vm))
	})
	// Object.MarshalJSON of a value (C19): {s: text} or {err: error class}; undefined when the value is not an object
	vm.Set("__marshalJSON", func(call goja.FunctionCall) goja.Value {
		o, ok := call.Argument(0).(*goja.Object)
		if !ok {
			return goja.Undefined()
		}
		b, err := o.MarshalJSON()
		if err != nil {
			name := "!" + err.Error()
			if ex, ok := err.(*goja.Exception); ok {
				if eo, ok := ex.Value().(*goja.Object); ok {
					if n := eo.Get("name"); n != nil {
						name = n.String()
					}
				}
			}
			return vm.ToValue(map[string]interface{}{"err": name})
		}
		return vm.ToValue(map[string]interface{}{"s": string(b)})
	})
	// which matcher a RegExp object was compiled for / whether the optimised protocol paths apply to it (C20)
	vm.Set("__rxInfo", func(call goja.FunctionCall) goja.Value {
		o, _ := call.Argument(0).(*goja.Object)
		m := goja.VerifRegexpInfo(o)
		if m == nil {
			return goja.Null()
		}
		return vm.ToValue(m)
	})
}

// ForwardingTraps is a Go ProxyTrapConfig that forwards each trap to the target through the Go API.
func ForwardingTraps(vm *goja.Runtime) *goja.ProxyTrapConfig {
	refl := vm.Get("Reflect").ToObject(vm)
	call := func(name string, args ...goja.Value) goja.Value {
		f, _ := goja.AssertFunction(refl.Get(name))
		v, err := f(refl, args...)
		if err != nil {
			panic(err)
		}
		return v
	}
	return &goja.ProxyTrapConfig{
		GetPrototypeOf: func(t *goja.Object) *goja.Object { return t.Prototype() },
		SetPrototypeOf: func(t *goja.Object, p *goja.Object) bool {
			var pv goja.Value = goja.Null()
			if p != nil {
				pv = p
			}
			return call("setPrototypeOf", t, pv).ToBoolean()
		},
		IsExtensible:      func(t *goja.Object) bool { return call("isExtensible", t).ToBoolean() },
		PreventExtensions: func(t *goja.Object) bool { return call("preventExtensions", t).ToBoolean() },
		GetOwnPropertyDescriptor: func(t *goja.Object, prop string) goja.PropertyDescriptor {
			return toDesc(vm, call("getOwnPropertyDescriptor", t, vm.ToValue(prop)))
		},
		GetOwnPropertyDescriptorIdx: func(t *goja.Object, prop int) goja.PropertyDescriptor {
			return toDesc(vm, call("getOwnPropertyDescriptor", t, vm.ToValue(prop)))
		},
		GetOwnPropertyDescriptorSym: func(t *goja.Object, prop *goja.Symbol) goja.PropertyDescriptor {
			return toDesc(vm, call("getOwnPropertyDescriptor", t, prop))
		},
		DefineProperty: func(t *goja.Object, key string, d goja.PropertyDescriptor) bool {
			return call("defineProperty", t, vm.ToValue(key), fromDesc(vm, d)).ToBoolean()
		},
		DefinePropertyIdx: func(t *goja.Object, key int, d goja.PropertyDescriptor) bool {
			return call("defineProperty", t, vm.ToValue(key), fromDesc(vm, d)).ToBoolean()
		},
		DefinePropertySym: func(t *goja.Object, key *goja.Symbol, d goja.PropertyDescriptor) bool {
			return call("defineProperty", t, key, fromDesc(vm, d)).ToBoolean()
		},
		Has:    func(t *goja.Object, p string) bool { return call("has", t, vm.ToValue(p)).ToBoolean() },
		HasIdx: func(t *goja.Object, p int) bool { return call("has", t, vm.ToValue(p)).ToBoolean() },
		HasSym: func(t *goja.Object, p *goja.Symbol) bool { return call("has", t, p).ToBoolean() },
		Get: func(t *goja.Object, p string, r goja.Value) goja.Value { return call("get", t, vm.ToValue(p), r) },
		GetIdx: func(t *goja.Object, p int, r goja.Value) goja.Value { return call("get", t, vm.ToValue(p), r) },
		GetSym: func(t *goja.Object, p *goja.Symbol, r goja.Value) goja.Value { return call("get", t, p, r) },
		Set: func(t *goja.Object, p string, v goja.Value, r goja.Value) bool {
			return call("set", t, vm.ToValue(p), v, r).ToBoolean()
		},
		SetIdx: func(t *goja.Object, p int, v goja.Value, r goja.Value) bool {
			return call("set", t, vm.ToValue(p), v, r).ToBoolean()
		},
		SetSym: func(t *goja.Object, p *goja.Symbol, v goja.Value, r goja.Value) bool {
			return call("set", t, p, v, r).ToBoolean()
		},
		DeleteProperty:    func(t *goja.Object, p string) bool { return call("deleteProperty", t, vm.ToValue(p)).ToBoolean() },
		DeletePropertyIdx: func(t *goja.Object, p int) bool { return call("deleteProperty", t, vm.ToValue(p)).ToBoolean() },
		DeletePropertySym: func(t *goja.Object, p *goja.Symbol) bool { return call("deleteProperty", t, p).ToBoolean() },
		OwnKeys: func(t *goja.Object) *goja.Object { return call("ownKeys", t).ToObject(vm) },
	}
}

func flag(o *goja.Object, name string) goja.Flag {
	v := o.Get(name)
	if v == nil {
		return goja.FLAG_NOT_SET
	}
	if v.ToBoolean() {
		return goja.FLAG_TRUE
	}
	return goja.FLAG_FALSE
}

func toDesc(vm *goja.Runtime, v goja.Value) goja.PropertyDescriptor {
	if v == nil || goja.IsUndefined(v) {
		return goja.PropertyDescriptor{}
	}
	o := v.ToObject(vm)
	d := goja.PropertyDescriptor{Value: o.Get("value"), Getter: o.Get("get"), Setter: o.Get("set"),
		Writable: flag(o, "writable"), Enumerable: flag(o, "enumerable"), Configurable: flag(o, "configurable")}
	return d
}

func fromDesc(vm *goja.Runtime, d goja.PropertyDescriptor) goja.Value {
	o := vm.NewObject()
	if d.Value != nil {
		o.Set("value", d.Value)
	}
	if d.Getter != nil {
		o.Set("get", d.Getter)
	}
	if d.Setter != nil {
		o.Set("set", d.Setter)
	}
	for _, f := range []struct {
		n string
		f goja.Flag
	}{{"writable", d.Writable}, {"enumerable", d.Enumerable}, {"configurable", d.Configurable}} {
		if f.f != goja.FLAG_NOT_SET {
			o.Set(f.n, f.f == goja.FLAG_TRUE)
		}
	}
	return o
}

// DelegatingTraps is a Go ProxyTrapConfig whose traps ask a JS handler object for the answer (typed results only).
func DelegatingTraps(vm *goja.Runtime, h *goja.Object) *goja.ProxyTrapConfig {
	call := func(name string, args ...goja.Value) goja.Value {
		f, _ := goja.AssertFunction(h.Get(name))
		v, err := f(h, args...)
		if err != nil {
			panic(err)
		}
		return v
	}
	key := func(p interface{}) goja.Value { return vm.ToValue(p) }
	gopd := func(t *goja.Object, k goja.Value) goja.PropertyDescriptor {
		return toDesc(vm, call("getOwnPropertyDescriptor", t, k))
	}
	objOrNil := func(v goja.Value) *goja.Object {
		if v == nil || goja.IsNull(v) || goja.IsUndefined(v) {
			return nil
		}
		return v.ToObject(vm)
	}
	return &goja.ProxyTrapConfig{
		GetPrototypeOf: func(t *goja.Object) *goja.Object { return objOrNil(call("getPrototypeOf", t)) },
		SetPrototypeOf: func(t *goja.Object, p *goja.Object) bool {
			var pv goja.Value = goja.Null()
			if p != nil {
				pv = p
			}
			return call("setPrototypeOf", t, pv).ToBoolean()
		},
		IsExtensible:                func(t *goja.Object) bool { return call("isExtensible", t).ToBoolean() },
		PreventExtensions:           func(t *goja.Object) bool { return call("preventExtensions", t).ToBoolean() },
		GetOwnPropertyDescriptor:    func(t *goja.Object, p string) goja.PropertyDescriptor { return gopd(t, key(p)) },
		GetOwnPropertyDescriptorIdx: func(t *goja.Object, p int) goja.PropertyDescriptor { return gopd(t, key(p)) },
		GetOwnPropertyDescriptorSym: func(t *goja.Object, p *goja.Symbol) goja.PropertyDescriptor { return gopd(t, p) },
		DefineProperty: func(t *goja.Object, k string, d goja.PropertyDescriptor) bool {
			return call("defineProperty", t, key(k), fromDesc(vm, d)).ToBoolean()
		},
		DefinePropertyIdx: func(t *goja.Object, k int, d goja.PropertyDescriptor) bool {
			return call("defineProperty", t, key(k), fromDesc(vm, d)).ToBoolean()
		},
		DefinePropertySym: func(t *goja.Object, k *goja.Symbol, d goja.PropertyDescriptor) bool {
			return call("defineProperty", t, k, fromDesc(vm, d)).ToBoolean()
		},
		Has:    func(t *goja.Object, p string) bool { return call("has", t, key(p)).ToBoolean() },
		HasIdx: func(t *goja.Object, p int) bool { return call("has", t, key(p)).ToBoolean() },
		HasSym: func(t *goja.Object, p *goja.Symbol) bool { return call("has", t, p).ToBoolean() },
		Get:    func(t *goja.Object, p string, r goja.Value) goja.Value { return call("get", t, key(p), r) },
		GetIdx: func(t *goja.Object, p int, r goja.Value) goja.Value { return call("get", t, key(p), r) },
		GetSym: func(t *goja.Object, p *goja.Symbol, r goja.Value) goja.Value { return call("get", t, p, r) },
		Set: func(t *goja.Object, p string, v goja.Value, r goja.Value) bool {
			return call("set", t, key(p), v, r).ToBoolean()
		},
		SetIdx: func(t *goja.Object, p int, v goja.Value, r goja.Value) bool {
			return call("set", t, key(p), v, r).ToBoolean()
		},
		SetSym: func(t *goja.Object, p *goja.Symbol, v goja.Value, r goja.Value) bool {
			return call("set", t, p, v, r).ToBoolean()
		},
		DeleteProperty:    func(t *goja.Object, p string) bool { return call("deleteProperty", t, key(p)).ToBoolean() },
		DeletePropertyIdx: func(t *goja.Object, p int) bool { return call("deleteProperty", t, key(p)).ToBoolean() },
		DeletePropertySym: func(t *goja.Object, p *goja.Symbol) bool { return call("deleteProperty", t, p).ToBoolean() },
		OwnKeys:           func(t *goja.Object) *goja.Object { return call("ownKeys", t).ToObject(vm) },
	}
}
