// Package natives installs the white-box helpers that JS adaptors use (all prefixed with __).
package natives

import (
	"math"

	"github.com/dop251/goja"
)

// Export converts a JS value to plain Go data for canonical JSON comparison (NaN/Inf/-0 as strings).
func Export(v goja.Value) interface{} {
	if v == nil {
		return nil
	}
	return clean(v.Export())
}

func clean(x interface{}) interface{} {
	switch t := x.(type) {
	case map[string]interface{}:
		for k, e := range t {
			t[k] = clean(e)
		}
		return t
	case []interface{}:
		for i, e := range t {
			t[i] = clean(e)
		}
		return t
	case float64:
		if math.IsNaN(t) {
			return "NaN"
		}
		if math.IsInf(t, 1) {
			return "Infinity"
		}
		if math.IsInf(t, -1) {
			return "-Infinity"
		}
		if t == 0 && math.Signbit(t) {
			return "-0"
		}
		return t
	}
	return x
}

func Install(vm *goja.Runtime) {
	vm.Set("__tag", func(call goja.FunctionCall) goja.Value {
		return vm.ToValue(goja.VerifValueTag(call.Argument(0)))
	})
	vm.Set("__selfKind", func(call goja.FunctionCall) goja.Value {
		o, _ := call.Argument(0).(*goja.Object)
		return vm.ToValue(goja.VerifSelfKind(o))
	})
	vm.Set("__arrCounters", func(call goja.FunctionCall) goja.Value {
		o, _ := call.Argument(0).(*goja.Object)
		return vm.ToValue(goja.VerifArrayCounters(o))
	})
	vm.Set("__omapCheck", func(call goja.FunctionCall) goja.Value {
		o, _ := call.Argument(0).(*goja.Object)
		return vm.ToValue(goja.VerifOMapCheck(o))
	})
	vm.Set("__goString", func(call goja.FunctionCall) goja.Value {
		// a Go string imported through ToValue (lazily scanned when longer than 16 bytes)
		return vm.ToValue(call.Argument(0).String())
	})
	vm.Set("__exportLen", func(call goja.FunctionCall) goja.Value {
		// length of the Go-side export of a Map ([][2]interface{}) or Set ([]interface{})
		switch x := call.Argument(0).Export().(type) {
		case [][2]interface{}:
			return vm.ToValue(len(x))
		case []interface{}:
			return vm.ToValue(len(x))
		}
		return vm.ToValue(-1)
	})
	vm.Set("__regs", func(call goja.FunctionCall) goja.Value {
		return vm.ToValue(goja.VerifRegs(vm))
	})
}
