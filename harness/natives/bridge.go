package natives

// Go side of the Bridge.tla adaptor (property C13, aliasing / history half): fresh Go containers of the shapes the
// specification names, handed to script through Runtime.ToValue, plus Go-side reads and mutations of the very same
// values and the Export / ExportTo round-trip checks.  Everything returned to script is plain JSON-able data.

import (
	"fmt"
	"reflect"
	"strconv"

	"github.com/dop251/goja"
)

// BrS is the compound element type: a literal struct with one int field.
type BrS struct{ F int }

type brFieldSlice struct{ L []BrS }
type brStruct struct{ A, B BrS }
type brPtrStruct struct{ P, Q *BrS }

// brBox is the Go program's own view of one container: the variables a host application would keep.
type brBox struct {
	kind string
	ss   []BrS         // ss: the host's slice header (the wrapper got a copy of it); pss: the variable &ss was wrapped
	ifs  []interface{} // ifs / pifs likewise
	pps  []*BrS        // pps: the variable &pps was wrapped
	arr2 *[2]BrS
	arr3 *[3]BrS
	objs []*BrS // the objects p1, p2 that interface / pointer cells may point to
	fss  *brFieldSlice
	st   *brStruct
	stp  *brPtrStruct
	msi  map[string]int
	msp  map[string]*BrS
	mss  map[string]BrS
	orig interface{} // what was passed to ToValue
}

var brKeys = []string{"a", "b", "c"}

func (b *brBox) tok(x interface{}) interface{} {
	switch v := x.(type) {
	case nil:
		return "nil"
	case *BrS:
		if v == nil {
			return "nil"
		}
		for i, o := range b.objs {
			if o == v {
				return "p" + strconv.Itoa(i+1)
			}
		}
		return fmt.Sprintf("p?{F:%d}", v.F)
	case int:
		return "i" + strconv.Itoa(v)
	case int64:
		return "i" + strconv.FormatInt(v, 10)
	case float64:
		return fmt.Sprintf("f%v", v)
	case BrS:
		return fmt.Sprintf("S{F:%d}", v.F)
	case map[string]interface{}:
		return fmt.Sprintf("map%v", v)
	}
	return fmt.Sprintf("?%T", x)
}

func (b *brBox) untok(s string) interface{} {
	if s == "nil" {
		return nil
	}
	n, _ := strconv.Atoi(s[1:])
	if s[0] == 'p' {
		return b.objs[n-1]
	}
	return n
}

func (b *brBox) sliceS() *[]BrS {
	switch b.kind {
	case "ss", "pss":
		return &b.ss
	case "fss":
		return &b.fss.L
	}
	return nil
}

func fvals(s []BrS) []interface{} {
	out := make([]interface{}, len(s))
	for i, e := range s {
		out[i] = e.F
	}
	return out
}

func (b *brBox) read() interface{} {
	switch b.kind {
	case "ss", "pss", "fss":
		return fvals(*b.sliceS())
	case "arr":
		if b.arr2 != nil {
			return fvals(b.arr2[:])
		}
		return fvals(b.arr3[:])
	case "st":
		return []interface{}{b.st.A.F, b.st.B.F}
	case "stp":
		return []interface{}{b.tok(b.stp.P), b.tok(b.stp.Q)}
	case "ifs", "pifs":
		out := make([]interface{}, len(b.ifs))
		for i, e := range b.ifs {
			out[i] = b.tok(e)
		}
		return out
	case "pps":
		out := make([]interface{}, len(b.pps))
		for i, e := range b.pps {
			out[i] = b.tok(e)
		}
		return out
	case "msi":
		out := map[string]interface{}{}
		for k, v := range b.msi {
			out[k] = v
		}
		return out
	case "msp":
		out := map[string]interface{}{}
		for k, v := range b.msp {
			out[k] = b.tok(v)
		}
		return out
	case "mss":
		out := map[string]interface{}{}
		for k, v := range b.mss {
			out[k] = v.F
		}
		return out
	}
	return nil
}

// same: Export() of the wrapper is the very value that was wrapped (same pointer / map / backing array), and ExportTo
// into a variable of the value's own type is deep-equal to what Go sees.  byValShared tells whether a by-value slice
// wrapper is still specified to share Go's backing array (otherwise only ExportTo's content is compared with want).
func (b *brBox) same(vm *goja.Runtime, w goja.Value, byValShared bool, wlen int) string {
	ex := w.Export()
	switch b.kind {
	case "pss":
		p, ok := ex.(*[]BrS)
		if !ok || p != &b.ss {
			return fmt.Sprintf("Export() = %T %v, not the wrapped *[]S", ex, ex)
		}
		var x []BrS
		if err := vm.ExportTo(w, &x); err != nil || !reflect.DeepEqual(x, b.ss) && !(len(x) == 0 && len(b.ss) == 0) {
			return fmt.Sprintf("ExportTo([]S) = %v, %v; Go has %v", x, err, b.ss)
		}
		var px *[]BrS
		if err := vm.ExportTo(w, &px); err != nil || px != &b.ss {
			return fmt.Sprintf("ExportTo(*[]S) = %p, %v; wrapped %p", px, err, &b.ss)
		}
	case "ss":
		s, ok := ex.([]BrS)
		if !ok {
			return fmt.Sprintf("Export() = %T, not []S", ex)
		}
		if len(s) != wlen {
			return fmt.Sprintf("Export() has length %d, script sees %d", len(s), wlen)
		}
		if byValShared && len(s) > 0 && len(b.ss) > 0 && &s[0] != &b.ss[0] {
			return "Export() does not share the wrapped slice's backing array"
		}
		var x []BrS
		if err := vm.ExportTo(w, &x); err != nil || !reflect.DeepEqual(x, s) && len(x)+len(s) > 0 {
			return fmt.Sprintf("ExportTo([]S) = %v, %v; Export() = %v", x, err, s)
		}
	case "arr":
		if b.arr2 != nil {
			p, ok := ex.(*[2]BrS)
			if !ok || p != b.arr2 {
				return fmt.Sprintf("Export() = %T, not the wrapped *[2]S", ex)
			}
			var x [2]BrS
			if err := vm.ExportTo(w, &x); err != nil || x != *b.arr2 {
				return fmt.Sprintf("ExportTo([2]S) = %v, %v; Go has %v", x, err, *b.arr2)
			}
		} else {
			p, ok := ex.(*[3]BrS)
			if !ok || p != b.arr3 {
				return fmt.Sprintf("Export() = %T, not the wrapped *[3]S", ex)
			}
			var x [3]BrS
			if err := vm.ExportTo(w, &x); err != nil || x != *b.arr3 {
				return fmt.Sprintf("ExportTo([3]S) = %v, %v; Go has %v", x, err, *b.arr3)
			}
		}
	case "fss":
		p, ok := ex.(*brFieldSlice)
		if !ok || p != b.fss {
			return fmt.Sprintf("Export() = %T, not the wrapped struct pointer", ex)
		}
		var x brFieldSlice
		if err := vm.ExportTo(w, &x); err != nil || !reflect.DeepEqual(x.L, b.fss.L) && len(x.L)+len(b.fss.L) > 0 {
			return fmt.Sprintf("ExportTo(struct) = %v, %v; Go has %v", x, err, *b.fss)
		}
	case "st":
		p, ok := ex.(*brStruct)
		if !ok || p != b.st {
			return fmt.Sprintf("Export() = %T, not the wrapped struct pointer", ex)
		}
		var x brStruct
		if err := vm.ExportTo(w, &x); err != nil || x != *b.st {
			return fmt.Sprintf("ExportTo(struct) = %v, %v; Go has %v", x, err, *b.st)
		}
	case "stp":
		p, ok := ex.(*brPtrStruct)
		if !ok || p != b.stp {
			return fmt.Sprintf("Export() = %T, not the wrapped struct pointer", ex)
		}
		var x brPtrStruct
		if err := vm.ExportTo(w, &x); err != nil || x != *b.stp {
			return fmt.Sprintf("ExportTo(struct) = %v, %v; Go has %v", x, err, *b.stp)
		}
	case "pifs":
		p, ok := ex.(*[]interface{})
		if !ok || p != &b.ifs {
			return fmt.Sprintf("Export() = %T, not the wrapped *[]interface{}", ex)
		}
		var x []interface{}
		if err := vm.ExportTo(w, &x); err != nil || len(x) != len(b.ifs) {
			return fmt.Sprintf("ExportTo([]interface{}) = %v, %v; Go has %v", x, err, b.ifs)
		}
		for i := range x {
			if b.tok(x[i]) != b.tok(b.ifs[i]) {
				return fmt.Sprintf("ExportTo([]interface{})[%d] = %v; Go has %v", i, b.tok(x[i]), b.tok(b.ifs[i]))
			}
		}
	case "pps":
		p, ok := ex.(*[]*BrS)
		if !ok || p != &b.pps {
			return fmt.Sprintf("Export() = %T, not the wrapped *[]*S", ex)
		}
		var x []*BrS
		if err := vm.ExportTo(w, &x); err != nil || len(x) != len(b.pps) {
			return fmt.Sprintf("ExportTo([]*S) = %v, %v; Go has %v", x, err, b.pps)
		}
		for i := range x {
			if x[i] != b.pps[i] {
				return fmt.Sprintf("ExportTo([]*S)[%d] is not the pointer Go has", i)
			}
		}
	case "ifs":
		s, ok := ex.([]interface{})
		if !ok {
			return fmt.Sprintf("Export() = %T, not []interface{}", ex)
		}
		if len(s) != wlen {
			return fmt.Sprintf("Export() has length %d, script sees %d", len(s), wlen)
		}
		if byValShared && len(s) > 0 && len(b.ifs) > 0 && &s[0] != &b.ifs[0] {
			return "Export() does not share the wrapped slice's backing array"
		}
	case "msi":
		m, ok := ex.(map[string]int)
		if !ok || reflect.ValueOf(m).Pointer() != reflect.ValueOf(b.msi).Pointer() {
			return fmt.Sprintf("Export() = %T, not the wrapped map", ex)
		}
		var x map[string]int
		if err := vm.ExportTo(w, &x); err != nil || !reflect.DeepEqual(x, b.msi) {
			return fmt.Sprintf("ExportTo(map) = %v, %v; Go has %v", x, err, b.msi)
		}
	case "msp":
		m, ok := ex.(map[string]*BrS)
		if !ok || reflect.ValueOf(m).Pointer() != reflect.ValueOf(b.msp).Pointer() {
			return fmt.Sprintf("Export() = %T, not the wrapped map", ex)
		}
		var x map[string]*BrS
		if err := vm.ExportTo(w, &x); err != nil || len(x) != len(b.msp) {
			return fmt.Sprintf("ExportTo(map) = %v, %v; Go has %v", x, err, b.msp)
		}
		for k, v := range b.msp {
			if x[k] != v {
				return fmt.Sprintf("ExportTo(map)[%s] is not the pointer Go has", k)
			}
		}
	case "mss":
		m, ok := ex.(map[string]BrS)
		if !ok || reflect.ValueOf(m).Pointer() != reflect.ValueOf(b.mss).Pointer() {
			return fmt.Sprintf("Export() = %T, not the wrapped map", ex)
		}
		var x map[string]BrS
		if err := vm.ExportTo(w, &x); err != nil || !reflect.DeepEqual(x, b.mss) {
			return fmt.Sprintf("ExportTo(map) = %v, %v; Go has %v", x, err, b.mss)
		}
	}
	return "ok"
}

// brTNode is the ExportTo target of the typed graph family
type brTNode struct {
	Any  interface{}
	Next *brTNode
}

// InstallBridge registers __brNew, __brGo, __brPtr and __brGraph.
func InstallBridge(vm *goja.Runtime) {
	boxes := map[*goja.Object]*brBox{}
	// __brNew(kind, len, cap) -> wrapper of a fresh Go container (element i holds F = init[i] / a token)
	vm.Set("__brNew", func(call goja.FunctionCall) goja.Value {
		kind := call.Argument(0).String()
		n := int(call.Argument(1).ToInteger())
		c := int(call.Argument(2).ToInteger())
		if c < n {
			c = n
		}
		init := []int{2, 1, 3, 4}
		b := &brBox{kind: kind}
		b.objs = []*BrS{{F: 1}, {F: 2}}
		switch kind {
		case "ss", "pss":
			b.ss = make([]BrS, n, c)
			for i := range b.ss {
				b.ss[i].F = init[i]
			}
			if kind == "ss" {
				b.orig = b.ss
			} else {
				b.orig = &b.ss
			}
		case "fss":
			b.fss = &brFieldSlice{L: make([]BrS, n, c)}
			for i := range b.fss.L {
				b.fss.L[i].F = init[i]
			}
			b.orig = b.fss
		case "arr":
			if n == 2 {
				b.arr2 = &[2]BrS{{init[0]}, {init[1]}}
				b.orig = b.arr2
			} else {
				b.arr3 = &[3]BrS{{init[0]}, {init[1]}, {init[2]}}
				b.orig = b.arr3
			}
		case "st":
			b.st = &brStruct{A: BrS{init[0]}, B: BrS{init[1]}}
			b.orig = b.st
		case "stp":
			b.stp = &brPtrStruct{P: b.objs[0], Q: nil}
			b.orig = b.stp
		case "ifs", "pifs":
			b.ifs = make([]interface{}, n, c)
			seed := []interface{}{b.objs[0], 1, b.objs[0], 2}
			copy(b.ifs, seed)
			if kind == "ifs" {
				b.orig = b.ifs
			} else {
				b.orig = &b.ifs
			}
		case "pps":
			b.pps = make([]*BrS, n, c)
			copy(b.pps, []*BrS{b.objs[0], b.objs[1], b.objs[0], nil})
			b.orig = &b.pps
		case "msi":
			b.msi = map[string]int{"a": 2, "b": 1}
			b.orig = b.msi
		case "msp":
			b.msp = map[string]*BrS{"a": b.objs[0], "b": b.objs[0]}
			b.orig = b.msp
		case "mss":
			b.mss = map[string]BrS{"a": {2}, "b": {1}}
			b.orig = b.mss
		default:
			panic(vm.NewTypeError("__brNew: unknown kind " + kind))
		}
		w := vm.ToValue(b.orig).(*goja.Object)
		boxes[w] = b
		return w
	})
	// __brPP() -> a wrapped **BrS whose pointee is {F: 6}
	vm.Set("__brPP", func(call goja.FunctionCall) goja.Value {
		p := &BrS{F: 6}
		return vm.ToValue(&p)
	})
	// __brPtr(root, n) -> a fresh wrapper of the object p<n> (what a Go function returning the *S would hand to script)
	vm.Set("__brPtr", func(call goja.FunctionCall) goja.Value {
		b := boxes[call.Argument(0).(*goja.Object)]
		return vm.ToValue(b.objs[int(call.Argument(1).ToInteger())-1])
	})
	// __brGo(root, op, args...) -> Go-side reads and mutations
	vm.Set("__brGo", func(call goja.FunctionCall) goja.Value {
		root := call.Argument(0).(*goja.Object)
		b := boxes[root]
		if b == nil {
			panic(vm.NewTypeError("__brGo: not a bridge container"))
		}
		argI := func(i int) int { return int(call.Argument(i).ToInteger()) }
		switch op := call.Argument(1).String(); op {
		case "read":
			return vm.ToValue(b.read())
		case "objs":
			return vm.ToValue([]interface{}{b.objs[0].F, b.objs[1].F})
		case "cap":
			switch b.kind {
			case "ss", "pss", "fss":
				return vm.ToValue(cap(*b.sliceS()))
			case "ifs", "pifs":
				return vm.ToValue(cap(b.ifs))
			case "pps":
				return vm.ToValue(cap(b.pps))
			}
			return vm.ToValue(-1)
		case "setF": // write the field of element i in place
			i, v := argI(2), argI(3)
			switch b.kind {
			case "ss", "pss", "fss":
				(*b.sliceS())[i].F = v
			case "arr":
				if b.arr2 != nil {
					b.arr2[i].F = v
				} else {
					b.arr3[i].F = v
				}
			case "st":
				if i == 0 {
					b.st.A.F = v
				} else {
					b.st.B.F = v
				}
			}
		case "objF": // p<n>.F = v
			b.objs[argI(2)-1].F = argI(3)
		case "set": // store a token (i<n>, p<n>, nil) into cell i / key k
			switch b.kind {
			case "ifs", "pifs":
				b.ifs[argI(2)] = b.untok(call.Argument(3).String())
			case "pps":
				p, _ := b.untok(call.Argument(3).String()).(*BrS)
				b.pps[argI(2)] = p
			case "stp":
				p, _ := b.untok(call.Argument(3).String()).(*BrS)
				if argI(2) == 0 {
					b.stp.P = p
				} else {
					b.stp.Q = p
				}
			case "msi":
				b.msi[call.Argument(2).String()] = argI(3)
			case "msp":
				p, _ := b.untok(call.Argument(3).String()).(*BrS)
				b.msp[call.Argument(2).String()] = p
			case "mss":
				b.mss[call.Argument(2).String()] = BrS{argI(3)}
			}
		case "del":
			k := call.Argument(2).String()
			switch b.kind {
			case "msi":
				delete(b.msi, k)
			case "msp":
				delete(b.msp, k)
			case "mss":
				delete(b.mss, k)
			}
		case "append": // the host appends through its own variable when the capacity is exhausted: fresh backing array
			switch b.kind {
			case "pss", "fss":
				p := b.sliceS()
				n := make([]BrS, len(*p), len(*p)+1)
				copy(n, *p)
				*p = append(n, BrS{argI(2)})
			case "pifs":
				n := make([]interface{}, len(b.ifs), len(b.ifs)+1)
				copy(n, b.ifs)
				b.ifs = append(n, b.untok(call.Argument(2).String()))
			case "pps":
				p, _ := b.untok(call.Argument(2).String()).(*BrS)
				n := make([]*BrS, len(b.pps), len(b.pps)+1)
				copy(n, b.pps)
				b.pps = append(n, p)
			}
		case "same":
			return vm.ToValue(b.same(vm, root, call.Argument(2).ToBoolean(), argI(3)))
		default:
			panic(vm.NewTypeError("__brGo: unknown op " + op))
		}
		return goja.Undefined()
	})
	// __brGraphTo(v): ExportTo(v, &T) with T = struct{ Any interface{}; Next *T } and describe what Go got (T nodes and maps named by
	// first visit, Any before Next): sharing must hold per representation
	vm.Set("__brGraphTo", func(call goja.FunctionCall) goja.Value {
		var root brTNode
		if err := vm.ExportTo(call.Argument(0), &root); err != nil {
			panic(vm.NewGoError(err))
		}
		tids := map[*brTNode]int{}
		mids := map[uintptr]int{}
		var walkM func(x interface{}) string
		var walkT func(n *brTNode) string
		walkM = func(x interface{}) string {
			switch v := x.(type) {
			case map[string]interface{}:
				p := reflect.ValueOf(v).Pointer()
				if id, ok := mids[p]; ok {
					return "#M" + strconv.Itoa(id)
				}
				id := len(mids)
				mids[p] = id
				s := ""
				if a, ok := v["Any"]; ok {
					s = "Any:" + walkM(a)
				}
				if nx, ok := v["Next"]; ok {
					if s != "" {
						s += ","
					}
					s += "Next:" + walkM(nx)
				}
				return "M" + strconv.Itoa(id) + "{" + s + "}"
			case nil:
				return "nil"
			}
			return fmt.Sprint(x)
		}
		walkT = func(n *brTNode) string {
			if n == nil {
				return "nil"
			}
			if id, ok := tids[n]; ok {
				return "#T" + strconv.Itoa(id)
			}
			id := len(tids)
			tids[n] = id
			a := walkM(n.Any)
			return "T" + strconv.Itoa(id) + "{Any:" + a + ",Next:" + walkT(n.Next) + "}"
		}
		return vm.ToValue(walkT(&root))
	})
	// __brGraph(v): Export() a script-built object graph and describe its shape: every map / slice node gets a number in
	// first-visit order (keys sorted), a revisited node prints as "#n".  Sharing and cycles must survive one Export().
	vm.Set("__brGraph", func(call goja.FunctionCall) goja.Value {
		ids := map[uintptr]int{}
		var walk func(x interface{}) string
		walk = func(x interface{}) string {
			switch v := x.(type) {
			case map[string]interface{}:
				p := reflect.ValueOf(v).Pointer()
				if id, ok := ids[p]; ok {
					return "#" + strconv.Itoa(id)
				}
				id := len(ids)
				ids[p] = id
				keys := reflect.ValueOf(v).MapKeys()
				ks := make([]string, len(keys))
				for i, k := range keys {
					ks[i] = k.String()
				}
				for i := range ks {
					for j := i + 1; j < len(ks); j++ {
						if ks[j] < ks[i] {
							ks[i], ks[j] = ks[j], ks[i]
						}
					}
				}
				s := strconv.Itoa(id) + "{"
				for i, k := range ks {
					if i > 0 {
						s += ","
					}
					s += k + ":" + walk(v[k])
				}
				return s + "}"
			case []interface{}:
				if len(v) == 0 {
					return "[]"
				}
				p := reflect.ValueOf(v).Pointer()
				if id, ok := ids[p]; ok {
					return "#" + strconv.Itoa(id)
				}
				id := len(ids)
				ids[p] = id
				s := strconv.Itoa(id) + "["
				for i, e := range v {
					if i > 0 {
						s += ","
					}
					s += walk(e)
				}
				return s + "]"
			case nil:
				return "null"
			}
			return fmt.Sprint(x)
		}
		return vm.ToValue(walk(call.Argument(0).Export()))
	})
}
