// Adaptor binding OMap.tla actions to real Map / Set / symbol-table objects.
// INSTANCE is set by a prelude file: "map" | "set" | "symtab".
var m, iters, sym = {}, objKeys = {};
var LONG = "aaaaaaaaaaaaaaaaaaaaaaaa";
var LONGU = "ключ-длиннее-шестнадцати-байт-ℵ";   // non-ASCII and > 16 bytes: imported lazily, unscanned until first use
function key(k, r) {
  switch (k) {
  case "n1": return r === "a" ? 1 : (r === "b" ? parseFloat("1") : Math.sqrt(1));
  case "z":  return r === "a" ? 0 : -0;
  case "s1": return r === "a" ? "a" : __goString("a");
  case "nan": return r === "a" ? NaN : -(0/0);
  case "sl": return r === "a" ? LONG : __goString(LONG);   // > 16 bytes: lazily scanned import
  case "su": return r === "a" ? "éℵ" : __goString("éℵ");
  case "slu": return r === "a" ? LONGU : __goString(LONGU);
  case "o1": return objKeys.o1 || (objKeys.o1 = {});
  case "y1": return sym.y1 || (sym.y1 = Symbol("y1"));
  case "big": return r === "a" ? 9007199254740992 : 9007199254740991 + 1;
  case "u": return undefined;
  // keys whose 64-bit hashes collide with an integer key: the hash of a float is its bit pattern, the hash of an integer the integer
  case "c3": return r === "a" ? 5e-324 : Number.MIN_VALUE;            // bit pattern 1: the bucket of the key 1
  case "c2": return r === "a" ? 1e-323 : 5e-324 * 2;                  // bit pattern 2
  case "n2": return r === "a" ? 2 : parseFloat("2");
  }
  throw new Error("unknown key " + k);
}
function kname(x) {
  if (x === undefined) return "u";
  if (typeof x === "number") {
    if (x !== x) return "nan";
    if (x === 0) return Object.is(x, -0) ? "-z" : "z";   // -0 must have been normalised to +0
    if (x === 1) return "n1";
    if (x === 2) return "n2";
    if (x === 5e-324) return "c3";
    if (x === 1e-323) return "c2";
    if (x === 9007199254740992) return "big";
  }
  if (x === "a") return "s1";
  if (x === LONG) return "sl";
  if (x === "éℵ") return "su";
  if (x === LONGU) return "slu";
  if (x === objKeys.o1) return "o1";
  if (x === sym.y1) return "y1";
  return "?" + String(x);
}
function obs() {
  var e = [];
  if (INSTANCE === "map") {
    m.forEach(function(v, k) { e.push({k: kname(k), v: v}); });
    var viaIter = Array.from(m);
    if (viaIter.length !== e.length) return {err: "forEach/iterator length differ"};
    for (var i = 0; i < e.length; i++)
      if (kname(viaIter[i][0]) !== e[i].k || viaIter[i][1] !== e[i].v) return {err: "forEach/iterator differ at " + i};
  } else {
    m.forEach(function(v, k) { e.push({k: kname(k), v: "v"}); if (!Object.is(v, k)) e.push({k: "set value != key"}); });
    var vi = Array.from(m);
    if (vi.length !== e.length) return {err: "forEach/iterator length differ"};
  }
  var c = __omapCheck(m);
  if (c !== "") return {err: c};
  var ex = __exportLen(m);
  if (ex !== e.length) return {err: "Export() has " + ex + " entries"};
  return {size: m.size, entries: e};
}
// construction from an array through a user-defined add / set that changes the array: the array iterator is live
function ctorLive() {
  var arr = [1, 2], S = class extends Set { add(v) { if (v === 1 && arr.length < 3) arr.push(3); return super.add(v); } };
  if (new S(arr).size !== 3) return "new Set(array) with a user-defined add that pushes to the array: the pushed element is not added";
  var arr2 = [1, 2, 3], S2 = class extends Set { add(v) { if (v === 1) arr2.length = 1; return super.add(v); } };
  if (new S2(arr2).size !== 1) return "new Set(array) with a user-defined add that truncates the array: removed elements are still added";
  var a = {}, b = {}, c = {}, arr3 = [a, b], W = class extends WeakSet { add(v) { if (v === a) arr3.push(c); return super.add(v); } };
  if (!new W(arr3).has(c)) return "new WeakSet(array) with a user-defined add that pushes to the array";
  var arr4 = [[1, 1], [2, 2]], M = class extends Map { set(k, v) { if (k === 1 && arr4.length < 3) arr4.push([3, 3]); return super.set(k, v); } };
  if (new M(arr4).size !== 3) return "new Map(array) with a user-defined set that pushes to the array";
  return null;
}
function reset() {
  var ce = ctorLive(); if (ce) throw new Error(ce);
  m = INSTANCE === "map" ? new Map() : new Set();
  iters = [];
  sym = {}; objKeys = {};
  return obs();
}
function step(l) {
  var res;
  switch (l.op) {
  case "set":
    if (INSTANCE === "map") { if (m.set(key(l.k, l.r), l.v) !== m) throw new Error("set must return the map"); }
    else m.add(key(l.k, l.r));
    res = m.size; break;
  case "get":
    if (INSTANCE === "map") { res = m.get(key(l.k, l.r)); if (res === undefined) res = "u"; }
    else res = m.has(key(l.k, l.r)) ? "v" : "u";
    break;
  case "has": res = m.has(key(l.k, l.r)); break;
  case "del": res = m.delete(key(l.k, l.r)); break;
  case "clear": m.clear(); res = 0; break;
  case "newiter":
    iters[l.it] = {kind: l.kind, it: l.kind === "entries" ? (l.it === 1 && INSTANCE === "map" ? m[Symbol.iterator]() : m.entries())
                   : l.kind === "keys" ? m.keys() : m.values()};
    res = "ok"; break;
  case "dropiter": iters[l.it] = undefined; res = "ok"; break;
  case "next":
    var c = iters[l.it], r = c.it.next();
    if (r.done) { res = {done: true}; if (r.value !== undefined) res.value = "not undefined"; }
    else {
      res = {done: false, kind: c.kind};
      var k = null, v = null;
      if (INSTANCE === "map") {
        if (c.kind === "entries") { k = kname(r.value[0]); v = r.value[1]; }
        else if (c.kind === "keys") k = kname(r.value);
        else v = r.value;
      } else {
        if (c.kind === "entries") { k = kname(r.value[0]); v = "v"; if (!Object.is(r.value[0], r.value[1])) k = "pair differs"; }
        else if (c.kind === "keys") k = kname(r.value);
        else v = kname(r.value) === l.k ? "v" : "wrong value";
      }
      if (k !== null) res.k = k;
      if (v !== null) res.v = v;
    }
    break;
  default: throw new Error("unknown op " + l.op);
  }
  return {res: res, obs: obs()};
}
