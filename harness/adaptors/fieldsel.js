// Adaptor binding FieldSel.tla (C13): a wrapped pointer to a fresh struct of type TYPE (prelude: var TYPE = "T1", MAPPER = "none" | "uncap").
"use strict";
var LEAVES = {
  T1: ["X", "Mid.Y", "Mid.Deep.X", "Mid.Deep.Z"],
  T2: ["A.V", "B.C.D.V", "B.C.D.W"],
  T3: ["P.G", "P.Q", "Q"],
  T4: ["Deep2.In.X", "Deep2.In.U", "X"],
  T5: ["P5.P.G", "P5.P.Q", "P5.H", "K"],
};
var PTRS = {T1: [], T2: [], T3: ["P"], T4: [], T5: ["P5", "P5.P"]};
if (MAPPER === "uncap") __fsMapper("uncap");
function jsName(n) { return MAPPER === "uncap" ? n.charAt(0).toLowerCase() + n.slice(1) : n; }
var W, NOPS;
function obs() {
  var val = {}, nil = [];
  LEAVES[TYPE].forEach(function(p) { var v = __fsGo(W, "get", p); val[p] = v === "unreachable" ? 0 : v; });
  // the model keeps only the outermost nil pointer of a chain
  PTRS[TYPE].forEach(function(q) {
    if (!__fsGo(W, "isnil", q)) return;
    var outer = PTRS[TYPE].some(function(r) { return r.length < q.length && q.indexOf(r + ".") === 0 && __fsGo(W, "isnil", r); });
    if (!outer) nil.push(q);
  });
  return {o: {val: val, nil: nil.sort()}, n: NOPS};
}
function reset() { W = __fsNew(TYPE); NOPS = 0; return obs(); }
function step(l) {
  var res;
  NOPS++;
  switch (l.op) {
  case "get": var g = W[jsName(l.n)]; res = g === undefined ? "u" : g; break;
  case "has":
    var a = jsName(l.n) in W, b = Object.prototype.hasOwnProperty.call(W, jsName(l.n)), c = Object.getOwnPropertyDescriptor(W, jsName(l.n)) !== undefined;
    if (a !== b || b !== c) throw new Error("in / hasOwnProperty / getOwnPropertyDescriptor disagree on " + l.n + ": " + [a, b, c]);
    res = a ? "true" : "false"; break;
  case "set":
    try { W[jsName(l.n)] = l.v; res = "ok"; } catch (e) { if (!(e instanceof TypeError)) throw e; res = "TypeError"; }
    // a write that cannot reach a Go field (nil embedded pointer) may be refused or land nowhere: the Go fields are what is compared
    if (l.res === "unreachable") { try { delete W[jsName(l.n)]; } catch (e) {} res = "unreachable"; }
    break;
  case "goSet": __fsGo(W, "set", l.p, l.v); res = "ok"; break;
  case "goAlloc": __fsGo(W, "alloc", l.p); res = "ok"; break;
  case "goNil": __fsGo(W, "nil", l.p); res = "ok"; break;
  case "keys":
    // every leaf name is listed by Object.keys (the type has the field); it denotes a field iff the field is reachable
    var ks = Object.keys(W);
    res = {};
    LEAVES[TYPE].forEach(function(p) {
      var nm = p.split(".").pop();
      if (ks.indexOf(jsName(nm)) < 0) throw new Error("Object.keys does not list " + jsName(nm));
      res[nm] = W[jsName(nm)] !== undefined ? "T" : "F";
    });
    break;
  default: throw new Error("unknown op " + l.op);
  }
  return {res: res, obs: obs()};
}
