var MODE = "str";
