var INSTANCE = "map";
