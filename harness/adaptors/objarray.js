// Adaptor binding ObjArray.tla to real arrays. Prelude: CFG = {c: [concrete indices], twin: "dense"|"sparse"|"s2d", proto: "none"|"A"}
var A, LOG = [], C, BASE = 0;
function g1() { LOG.push("g1"); return "gv"; }
function s1(v) { LOG.push("s1=" + vname(v)); }
function V(x) { return x === "v1" ? 1 : x === "v2" ? 2 : undefined; }
function vname(v) { return v === 1 ? "v1" : v === 2 ? "v2" : v === undefined ? "u" : v === "gv" ? "gv" : "?" + String(v); }
function B(x) { return x === "T"; }
function tf(b) { return b ? "T" : "F"; }
function clen(L) { return L === 0 ? BASE : C[L - 1] + 1; }
function alen(n) { if (n === BASE) return 0; for (var i = 0; i < C.length; i++) if (C[i] + 1 === n) return i + 1; return "?" + n; }
function mkDesc(d) {
  var r = {};
  if (d.v !== "abs") r.value = V(d.v);
  if (d.g !== "abs") r.get = d.g === "g1" ? g1 : undefined;
  if (d.s !== "abs") r.set = d.s === "s1" ? s1 : undefined;
  if (d.w !== "abs") r.writable = B(d.w);
  if (d.e !== "abs") r.enumerable = B(d.e);
  if (d.c !== "abs") r.configurable = B(d.c);
  return r;
}
function desc(k) {
  var d = Object.getOwnPropertyDescriptor(A, k);
  if (A.hasOwnProperty(k) !== (d !== undefined)) return {k: "hasOwnProperty disagrees"};
  if (!d) return {k: "none", v: "-", w: "-", g: "-", s: "-", e: "-", c: "-"};
  if ("value" in d) return {k: "data", v: vname(d.value), w: tf(d.writable), g: "-", s: "-", e: tf(d.enumerable), c: tf(d.configurable)};
  return {k: "acc", v: "-", w: "-", g: d.get === g1 ? "g1" : d.get === undefined ? "u" : "?", s: d.set === s1 ? "s1" : d.set === undefined ? "u" : "?",
          e: tf(d.enumerable), c: tf(d.configurable)};
}
function obs() {
  var el = {}, present = [];
  for (var i = 0; i < C.length; i++) { var d = desc(String(C[i])); el[i] = d; if (d.k !== "none") present.push(String(C[i])); }
  // own keys: exactly the present indices ascending, then "length"
  var keys = Reflect.ownKeys(A), want = present.concat(["length"]);
  if (BASE > 0) keys = keys.slice(BASE);     // twin "s2dlive": BASE untouched elements below the modelled indices
  if (keys.length !== want.length) return {err: "own keys " + keys.join() + " want " + want.join()};
  for (var i = 0; i < keys.length; i++) if (keys[i] !== want[i]) return {err: "own keys " + keys.join() + " want " + want.join()};
  var ld = Object.getOwnPropertyDescriptor(A, "length");
  if (ld.value !== A.length || ld.enumerable || ld.configurable) return {err: "length descriptor inconsistent"};
  if (!Array.isArray(A)) return {err: "not an array any more"};
  // a reader that has hole-free fast paths must agree with the element states just observed (own prototype chain without indices)
  if (CFG.proto === "none" && A.length <= 70000) {
    var accessor = false;
    for (var i = 0; i < C.length; i++) if (el[i].k === "acc") accessor = true;
    if (!accessor) {
      var holes = A.length > present.length + BASE, undef = false;
      for (var i = 0; i < C.length; i++) if (el[i].k === "data" && el[i].v === "u" && C[i] < A.length) undef = true;
      if (A.includes(undefined) !== (holes || undef)) return {err: "includes(undefined) is " + !(holes || undef) + " on an array of length " + A.length + " with " + (present.length + BASE) + " elements"};
      if ((A.indexOf(undefined) !== -1) !== undef) return {err: "indexOf(undefined) is " + A.indexOf(undefined)};
    }
  }
  return {el: el, len: alen(A.length), lenW: tf(ld.writable), ext: tf(Object.isExtensible(A))};
}
function reset() {
  C = CFG.c; LOG = []; BASE = 0;
  A = [];
  if (CFG.twin === "s2dlive") {
    // sparse array holding 1100 live elements: the first new element switches it to dense storage in the middle of
    // the operation that adds it (sparseArrayObject.expand)
    BASE = CFG.base || 1100;
    A[20000] = 1;
    for (var i = 0; i < BASE; i++) A[i] = 0;
    A.length = BASE;
    if (__selfKind(A) !== "sparse") throw new Error("s2dlive twin is " + __selfKind(A));
  }
  if (CFG.twin === "sparse" || CFG.twin === "s2d") {
    A[5000] = 1;
    if (__selfKind(A) !== "sparse") throw new Error("could not force sparse storage: " + __selfKind(A));
    if (CFG.twin === "s2d") {
      for (var i = 0; i < 1100; i++) A[i] = 0;
      A[1100] = 0;
      if (__selfKind(A) !== "array") throw new Error("could not force sparse->dense: " + __selfKind(A));
    }
    A.length = 0;
    if (CFG.twin === "sparse" && __selfKind(A) !== "sparse") throw new Error("sparse twin became " + __selfKind(A));
  }
  if (CFG.proto === "A") {
    var p = Object.create(Array.prototype);
    Object.defineProperty(p, String(C[0]), {value: 2, writable: false, enumerable: true, configurable: true});
    Object.defineProperty(p, String(C[1]), {get: g1, set: s1, enumerable: true, configurable: true});
    Object.setPrototypeOf(A, p);
  }
  return obs();
}
function surf(f) {
  try { var r = f(); return r === true ? "true" : r === false ? "false" : "ok"; }
  catch (e) { return e instanceof TypeError ? "TypeError" : e instanceof RangeError ? "RangeError" : "ERR " + e; }
}
var strictSet = function(o, k, v) { "use strict"; o[k] = v; };
var strictDelete = function(o, k) { "use strict"; return delete o[k]; };
function step(l) {
  var res, k = l.i !== undefined ? C[l.i] : undefined;
  LOG.length = 0;
  switch (l.op) {
  case "define":
    res = surf(function() {
      if (l.via === "refl") return Reflect.defineProperty(A, k, mkDesc(l.d));
      Object.defineProperty(A, String(k), mkDesc(l.d));
    });
    break;
  case "deflen":
    res = surf(function() {
      var d = {};
      if (l.len !== -1) d.value = clen(l.len);
      if (l.w !== "abs") d.writable = B(l.w);
      if (l.bad === "enumerable") d.enumerable = true;
      if (l.bad === "configurable") d.configurable = true;
      if (l.bad === "getter") d.get = g1;
      if (l.via === "refl") return Reflect.defineProperty(A, "length", d);
      Object.defineProperty(A, "length", d);
    });
    break;
  case "setlen":
    res = surf(function() {
      if (l.via === "sloppy") { A.length = clen(l.len); return; }
      if (l.via === "strict") { strictSet(A, "length", clen(l.len)); return; }
      return Reflect.set(A, "length", clen(l.len));
    });
    break;
  case "set":
    var r = surf(function() {
      if (l.via === "sloppy") { A[k] = V(l.v); return; }
      if (l.via === "strict") { strictSet(A, k, V(l.v)); return; }
      return Reflect.set(A, String(k), V(l.v));
    });
    res = {r: r, log: LOG.slice()};
    break;
  case "get":
    var v = A[k], v2 = Reflect.get(A, String(k));
    LOG.length = LOG.length / 2;   // two reads
    res = {v: v === v2 ? vname(v) : "get paths disagree", log: LOG.slice()};
    break;
  case "has":
    var a = k in A, b = Reflect.has(A, String(k));
    res = a !== b ? "in/Reflect.has disagree" : a ? "true" : "false";
    break;
  case "delete":
    res = surf(function() {
      if (l.via === "sloppy") return delete A[k];
      if (l.via === "strict") return strictDelete(A, k);
      return Reflect.deleteProperty(A, String(k));
    });
    break;
  case "prevent": Object.preventExtensions(A); res = "ok"; break;
  case "freeze": Object.freeze(A); res = "ok"; break;
  case "seal": Object.seal(A); res = "ok"; break;
  default: throw new Error("unknown op " + l.op);
  }
  return {res: res, obs: obs()};
}
