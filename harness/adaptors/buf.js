// Adaptor binding Buf.tla: one Go-supplied, guard-byte-surrounded buffer with a fixed family of views.
var VIEWDEF = [["u8",0,8],["u8",2,4],["i8",1,3],["u16",2,2],["i16",0,4],["u32",4,1],["u8c",3,2],["f64",0,1],["f32",4,1],["u16",4,1],["i8",2,2],["i16",2,3]];
var CT = {u8: Uint8Array, i8: Int8Array, u8c: Uint8ClampedArray, u16: Uint16Array, i16: Int16Array, u32: Uint32Array, f32: Float32Array, f64: Float64Array};
var ESZ = {u8: 1, i8: 1, u8c: 1, u16: 2, i16: 2, u32: 4, f32: 4, f64: 8};
var BUF, TA, DVW, NOPS;
function A(x) { return x === 99 ? undefined : x; }
function obs() {
  var st = __bufState(BUF);            // bytes as the Go side sees them + guard bytes
  if (st.guard !== "ok") return {err: "guard bytes around the backing slice were overwritten: " + st.guard};
  var det = st.detached;
  for (var i = 0; i < TA.length; i++) {
    var d = VIEWDEF[i], t = TA[i];
    var wantOff = det ? 0 : d[1], wantLen = det ? 0 : d[2];
    if (t.byteOffset !== wantOff || t.length !== wantLen || t.byteLength !== wantLen * ESZ[d[0]])
      return {err: "view " + (i + 1) + " reports offset/length " + t.byteOffset + "/" + t.length};
  }
  if (BUF.byteLength !== (det ? 0 : 8)) return {err: "byteLength " + BUF.byteLength};
  return {bytes: st.bytes, detached: det ? "T" : "F", n: NOPS};
}
function reset() {
  BUF = __mkBuffer(8);
  TA = VIEWDEF.map(function(d) { return new CT[d[0]](BUF, d[1], d[2]); });
  DVW = new DataView(BUF, 1, 6);
  NOPS = 0;
  return obs();
}
function cls(e) { return e instanceof TypeError ? "TypeError" : e instanceof RangeError ? "RangeError" : "ERR " + e; }
function rawBytes(r) { return Array.from(new Uint8Array(r.buffer, r.byteOffset, r.byteLength)); }
function step(l) {
  var res, t = l.v !== undefined ? TA[l.v - 1] : undefined;
  NOPS++;
  try {
    switch (l.op) {
    case "get": var g = t[l.i]; res = g === undefined ? "u" : String(g); break;
    case "put": t[l.i] = l.n; res = "ok"; break;
    case "fill": l.e === 99 ? (l.s === 99 ? t.fill(l.n) : t.fill(l.n, l.s)) : t.fill(l.n, A(l.s), l.e); res = "ok"; break;
    case "copyWithin": l.e === 99 ? t.copyWithin(l.t, l.s) : t.copyWithin(l.t, l.s, l.e); res = "ok"; break;
    case "reverse": if (t.reverse() !== t) throw new Error("reverse must return the array"); res = "ok"; break;
    case "sort": if (t.sort() !== t) throw new Error("sort must return the array"); res = "ok"; break;
    case "slice": res = {r: "ok", bytes: rawBytes(l.e === 99 ? t.slice(l.s) : t.slice(l.s, l.e))}; break;
    case "sliceSpecies":
      var tgt = TA[l.w - 1];
      Object.defineProperty(t, "constructor", {value: {}, configurable: true});
      t.constructor[Symbol.species] = function() { return tgt; };
      try {
        var sr = l.e === 99 ? t.slice(l.s) : t.slice(l.s, l.e);
        if (sr !== tgt) throw new Error("slice must return what the species constructor returned");
        res = "ok";
      } finally { delete t.constructor; }
      break;
    case "subarray":
      var sa = l.e === 99 ? t.subarray(l.s) : t.subarray(l.s, l.e);
      if (sa.buffer !== BUF) throw new Error("subarray must share the buffer");
      res = {r: "ok", off: sa.byteOffset, len: sa.length}; break;
    case "setFrom": t.set(TA[l.w - 1], l.o); res = "ok"; break;
    case "setArr": t.set([258, -2], l.o); res = "ok"; break;
    case "toArray": res = Array.from(t); break;
    case "filterOdd": res = {r: "ok", vals: Array.from(t.filter(function(x) { return (x & 1) === 1; }))}; break;
    case "dvget":
      var m = {u8: "getUint8", i8: "getInt8", u16: "getUint16", i16: "getInt16"}[l.k];
      res = String(DVW[m](l.p, l.le === "T")); break;
    case "dvset":
      var m2 = {u8: "setUint8", i8: "setInt8", u16: "setUint16", i16: "setInt16"}[l.k];
      DVW[m2](l.p, l.n, l.le === "T"); res = "ok"; break;
    case "bufslice": res = {r: "ok", bytes: Array.from(new Uint8Array(l.e === 99 ? BUF.slice(l.s) : BUF.slice(l.s, l.e)))}; break;
    case "detach": __detach(BUF); res = "ok"; break;
    case "detachDuring":
      var D = function(v) { return {valueOf: function() { __detach(BUF); return v; }, toString: function() { __detach(BUF); return ","; }}; };
      try {
        switch (l.m) {
        case "fill": t.fill(D(7)); break;
        case "copyWithin": t.copyWithin(D(0), 1); break;
        case "put": t[0] = D(1); break;
        case "set": t.set([1], D(0)); break;
        case "slice": t.slice(D(0)); break;
        case "subarray": t.subarray(D(0)); break;
        case "sort": t.sort(function(a, b) { __detach(BUF); return a < b ? -1 : a > b ? 1 : 0; }); break;
        case "filter": t.filter(function() { __detach(BUF); return true; }); break;
        case "map": t.map(function(x) { __detach(BUF); return x; }); break;
        case "indexOf": t.indexOf(11, D(0)); break;
        case "join": t.join(D(0)); break;
        case "reverse-getter": t.forEach(function() { __detach(BUF); }); t.reverse; break;
        case "toLocaleString":
          var nls = Number.prototype.toLocaleString;
          Number.prototype.toLocaleString = function() { __detach(BUF); return "x"; };
          try { t.toLocaleString(); } finally { Number.prototype.toLocaleString = nls; }
          break;
        case "every": t.every(function() { __detach(BUF); return true; }); break;
        case "some": t.some(function() { __detach(BUF); return false; }); break;
        case "find": t.find(function() { __detach(BUF); return false; }); break;
        case "findLast": if (t.findLast) t.findLast(function() { __detach(BUF); return false; }); break;
        case "reduce": t.reduce(function(a, x) { __detach(BUF); return a; }, 0); break;
        case "reduceRight": t.reduceRight(function(a, x) { __detach(BUF); return a; }, 0); break;
        case "lastIndexOf": t.lastIndexOf(1, D(-1)); break;
        case "includes": t.includes(1, D(0)); break;
        case "forEach-set": t.forEach(function(x, i) { __detach(BUF); t[i] = 1; t.fill(2); }); break;
        }
      } catch (e) { if (!(e instanceof TypeError) && !(e instanceof RangeError)) throw e; }
      __detach(BUF);       // (a comparator / callback may never have run on a short view)
      res = "no-access"; break;
    default: throw new Error("unknown op " + l.op);
    }
  } catch (e) {
    var c = cls(e);
    if (c.indexOf("ERR") === 0) throw e;
    res = (l.op === "slice" || l.op === "subarray" || l.op === "bufslice" || l.op === "filterOdd") ? {r: c} : c;
  }
  return {res: res, obs: obs()};
}
