// Adaptor binding RegExpProto.tla to real RegExp objects (property C20, protocol half).
// A prelude file sets  var RXCFG = {engine: "re2" | "regexp2", deopt: false | true};
//   engine "re2":     the pattern source as is (goja compiles it for Go's regexp package)
//   engine "regexp2": the neutral variant (?:P)(?=) -- a lookahead forces the backtracking engine for every call
//   deopt:            RegExp.prototype.exec is replaced by an identity wrapper BEFORE any RegExp is created in this
//                     (fresh) runtime, so @@match / @@replace / @@search / @@split take the generic protocol paths
// Code-unit classes of the model: a, b, H = \uD835 (high surrogate), L = \uDCB3 (low surrogate); "HL" = U+1D4B3.
if (typeof RXCFG === "undefined") var RXCFG = {engine: "re2", deopt: false};
var HI = "\uD835", LO = "\uDCB3";
var SRC = {"a": "a", "ab": "ab", "(?:)": "(?:)", "b*": "b*", "b{0,2}": "b{0,2}", "a|b": "a|b", ".": ".", "^a": "^a", "a$": "a$",
           "astral": HI + LO, "loneH": "\\uD835", "(a)|b": "(a)|b", "(?<n>a)|b": "(?<n>a)|b"};
var WHITEBOX = typeof __rxInfo === "function";
var EXEC_CALLS = 0;
if (RXCFG.deopt) {
  (function() {
    var orig = RegExp.prototype.exec;
    RegExp.prototype.exec = function(s) { EXEC_CALLS++; return orig.call(this, s); };
  })();
}
var RE = null, PAT = "none";

function dec(s) { return s.replace(/H/g, HI).replace(/L/g, LO).replace(/n/g, "\n"); }
function enc(s) {
  var o = "";
  for (var i = 0; i < s.length; i++) {
    var c = s.charCodeAt(i);
    o += c === 0xD835 ? "H" : c === 0xDCB3 ? "L" : c === 10 ? "n" : c < 128 ? s.charAt(i) : "?" + c.toString(16);
  }
  return o;
}
function source(p) { return RXCFG.engine === "regexp2" ? "(?:" + SRC[p] + ")(?=)" : SRC[p]; }
function cap(x) { return x === undefined ? "undef" : typeof x === "string" ? enc(x) : "?" + typeof x; }

// the configuration this adaptor claims to exercise must be the one the engine is really in
function whitebox(re) {
  if (!WHITEBOX) return "";
  var inf = __rxInfo(re);
  if (inf === null) return "not a RegExp object";
  if (inf.re2 !== (RXCFG.engine === "re2")) return "engine: compiled for " + (inf.re2 ? "re2" : "regexp2") + ", configuration wants " + RXCFG.engine;
  if (inf.std !== !RXCFG.deopt) return "path: optimised paths " + (inf.std ? "enabled" : "disabled") + ", configuration deopt=" + RXCFG.deopt;
  return "";
}
function flagGetters(re) {
  var f = "";
  if (re.global) f += "g";
  if (re.ignoreCase) f += "i";
  if (re.multiline) f += "m";
  if (re.dotAll) f += "s";
  if (re.unicode) f += "u";
  if (re.sticky) f += "y";
  return f;
}
function obs() {
  if (RE === null) return {pat: "none", flags: "", li: 0};
  var w = whitebox(RE);
  if (w !== "") return {err: w};
  if (flagGetters(RE) !== RE.flags) return {err: "flag getters say " + flagGetters(RE) + ", flags says " + RE.flags};
  if (RE.source !== source(PAT) && !(PAT === "astral" || PAT === "loneH")) return {err: "source " + RE.source};
  return {pat: PAT, flags: RE.flags, li: RE.lastIndex};
}
function reset() { RE = null; PAT = "none"; return obs(); }

// a match object -> the model's record; checks the fields the model does not carry
function arr(r, S) {
  if (r === null) return "null";
  if (!Array.isArray(r)) return "not an array: " + r;
  if (r.input !== S) return "input property is not the subject";
  if (typeof r.index !== "number") return "index is " + typeof r.index;
  if (r[0] !== S.substring(r.index, r.index + r[0].length)) return "matched string is not the substring at index " + r.index;
  if (PAT === "(?<n>a)|b") {
    if (!("groups" in r) || r.groups === undefined || r.groups === null) return "groups should be an object for a pattern with a named group";
    if (Object.getPrototypeOf(r.groups) !== null || !("n" in r.groups) || r.groups.n !== r[1]) return "groups.n is not capture 1";
  } else if (!("groups" in r) || r.groups !== undefined) return "groups should be an own property with value undefined";
  var c = [];
  for (var k = 1; k < r.length; k++) c.push(cap(r[k]));
  return {i: r.index, m: enc(r[0]), c: c};
}
function sx(e) {
  if (e instanceof SyntaxError) return "SyntaxError";
  if (e instanceof TypeError) return "TypeError";
  throw e;
}

// Number of RegExpExec calls an operation made: observable only through the wrapper of the de-optimised
// configurations; in the pristine ones nothing can observe it and the specified number is passed through.
function R(l, c0, v) { return {v: v, xc: RXCFG.deopt ? EXEC_CALLS - c0 : l.res.xc}; }

function step(l) {
  var res, S = l.s !== undefined ? dec(l.s) : undefined, r, i, c0 = EXEC_CALLS;
  switch (l.op) {
  case "create":
    PAT = l.p;
    // flags in reverse canonical order: the order of the letters in the argument is irrelevant
    RE = new RegExp(source(l.p), l.f.split("").reverse().join(""));
    res = "ok"; break;
  case "ctor":
    try {
      r = new RegExp(source("a"), l.fl);
      res = {flags: r.flags};
      if (flagGetters(r) !== r.flags) res = {flags: r.flags, getters: flagGetters(r)};
    } catch (e) { res = sx(e); }
    break;
  case "ctorpat":
    try { new RegExp(l.src, l.f); res = "ok"; } catch (e) { res = sx(e); }
    break;
  case "setli": RE.lastIndex = l.v; res = "ok"; break;
  case "exec": res = arr(RE.exec(S), S); break;
  case "test": res = R(l, c0, RE.test(S)); break;
  case "match":
    r = S.match(RE);
    if (r === null) res = "null";
    else if (RE.global) {
      if ("index" in r || "input" in r) res = "global match result carries index/input";
      else res = {ms: Array.prototype.map.call(r, enc)};
    } else res = arr(r, S);
    res = R(l, c0, res);
    break;
  case "matchAll":
    try {
      var it = l.via === "str" ? S.matchAll(RE) : RE[Symbol.matchAll](S);
      res = Array.from(it).map(function(m) { return arr(m, S); });
    } catch (e) { res = sx(e); }
    res = R(l, c0, res);
    break;
  case "replace":
    if (l.r === "fn") {
      var calls = [];
      r = S.replace(RE, function(m) {
        var n = arguments.length, c = [];
        if (PAT === "(?<n>a)|b") {
          // a pattern with named groups passes the groups object as one more argument (22.2.6.11 step 14.k)
          var gr = arguments[n - 1];
          if (gr === null || typeof gr !== "object" || gr.n !== arguments[1]) throw new Error("last replacer argument is not the groups object");
          n--;
        }
        if (arguments[n - 1] !== S) throw new Error("last replacer argument is not the subject");
        for (var k = 1; k < n - 2; k++) c.push(cap(arguments[k]));
        calls.push({m: enc(m), c: c, p: arguments[n - 2]});
        return "<" + m + ">";
      });
      res = {s: enc(r), calls: calls};
    } else {
      r = S.replace(RE, l.r === "tpl" ? "<$`|$1|$'>" : l.r);
      res = {s: enc(r)};
    }
    res = R(l, c0, res);
    break;
  case "search": res = R(l, c0, S.search(RE)); break;
  case "split":
    r = l.lim === 99 ? S.split(RE) : S.split(RE, l.lim);
    res = R(l, c0, r.map(cap));
    break;
  default: throw new Error("unknown op " + l.op);
  }
  return {res: res, obs: obs()};
}
