// Adaptor binding Obj.tla actions to real objects. A prelude defines CFG =
//   {objs:[names], keys:[abstract keys], proto:{name: protoName|null}, kind: "<object kind>", kind2: "<kind of other objects>", keymap: "<mapping>"}
var O = {}, KEY = {}, LOG = [];
function g1() { LOG.push("g1@" + nameOf(this)); return "gv"; }
function s1(v) { LOG.push("s1@" + nameOf(this) + "=" + vname(v)); }
function nameOf(x) {
  for (var n in O) if (O[n] === x) return n;
  if (x === null || (typeof x !== "object" && typeof x !== "function")) return "prim";
  if (typeof x === "object" && typeof x.valueOf() === "number") return "prim"; // sloppy getter/setter boxing
  return "?";
}
// abstract values: numbers 1 / 2, or (kind strchar: the key is a character position of a String object) the characters "a" / "b"
function CH() { return CFG.kind === "strchar"; }
// the two abstract values: 1 / 2, or (key mappings "strz" / "strn") two values that === and SameValue tell apart differently:
// +0 / -0 are === but not the same value, NaN is the same value as itself but not === (ValidateAndApplyPropertyDescriptor uses SameValue)
function VZ() { return CFG.keymap === "strz" ? [0, -0] : CFG.keymap === "strn" ? [NaN, 0] : null; }
function V(x) { var z = VZ(); if (z) return x === "v1" ? z[0] : x === "v2" ? z[1] : undefined; return x === "v1" ? (CH() ? "a" : 1) : x === "v2" ? (CH() ? "b" : 2) : undefined; }
function vname(v) {
  var z = VZ();
  if (z) return Object.is(v, z[0]) ? "v1" : Object.is(v, z[1]) ? "v2" : v === undefined ? "u" : v === "gv" ? "gv" : "?" + String(v) + (Object.is(v, -0) ? "(-0)" : "");
  return v === (CH() ? "a" : 1) ? "v1" : v === (CH() ? "b" : 2) ? "v2" : v === undefined ? "u" : v === "gv" ? "gv" : "?" + String(v);
}
function B(x) { return x === "T"; }
function tf(b) { return b ? "T" : "F"; }
var KINDS = {
  plain: function() { return {}; },
  nullproto: function() { return Object.create(null); },
  func: function() { return function() {}; },
  arrow: function() { return () => 1; },
  bound: function() { return (function() {}).bind(null); },
  cls: function() { return class A {}; },
  method: function() { return ({m() {}}).m; },
  array: function() { return []; },
  array3: function() { return [7, 8, 9]; },
  sparse: function() { var a = []; a[100000] = 1; return a; },
  args: function() { return (function(a, b) { return arguments; })(7, 8); },
  sargs: function() { return (function(a, b) { "use strict"; return arguments; })(7, 8); },
  strobj: function() { return new String("xy"); },
  strchar: function() { return new String("a"); },     // index 0 is the model key: a fixed non-writable, non-configurable character
  numobj: function() { return new Number(5); },
  typed: function() { return new Uint8Array(0); },   // with elements Object.freeze must throw (ObjTyped covers indices)
  err: function() { return new Error("e"); },
  date: function() { return new Date(0); },
  regexp: function() { return /x/g; },
  map: function() { return new Map(); },
  promise: function() { return Promise.resolve(1); },
  gen: function() { return (function*() {})(); },
  math: function() { return Math; },
  math2: function() { Object.getOwnPropertyNames(Math); return Math; },
  json: function() { return JSON; },
  global: function() { return globalThis; },
  objproto: function() { return Object.create(Object.prototype); },
  proxy1: function() { return new Proxy({}, {}); },
  proxyfwd: function() { return new Proxy({}, FWD); },
  proxy2: function() { return new Proxy(new Proxy({}, FWD), {}); },
  proxyfunc: function() { return new Proxy(function() {}, FWD); },
  proxyarr: function() { return new Proxy([], FWD); },
  proxyarr2: function() { return new Proxy(new Proxy(new Proxy([], FWD), {}), FWD); },     // three layers over an Array
  goproxy: function() { return __goProxy({}); },
  gomap: function() { return __goMapObject(); },
};
var PE_CALLS = 0;
// forwarding layers (with a preventExtensions trap) of each proxy flavour: one [[PreventExtensions]] runs each trap exactly once
var FWD_LAYERS = {proxyfwd: 1, proxy2: 1, proxyfunc: 1, proxyarr: 1, proxyarr2: 2};
// for-in is the chain walk of [[OwnPropertyKeys]] + [[GetOwnProperty]].enumerable, whatever kind of object each link is
function forInCheck(o) {
  var want = [], seen = {}, got = [];
  for (var c = o; c !== null; c = Object.getPrototypeOf(c)) {
    var ks = Reflect.ownKeys(c);
    for (var i = 0; i < ks.length; i++) {
      if (typeof ks[i] !== "string" || seen["$" + ks[i]]) continue;
      seen["$" + ks[i]] = true;
      var d = Reflect.getOwnPropertyDescriptor(c, ks[i]);
      if (d && d.enumerable) want.push(ks[i]);
    }
  }
  for (var k in o) got.push(k);
  return got.join("|") === want.join("|") ? null : "for-in yields " + got.join("|") + ", the chain walk of own enumerable keys " + want.join("|");
}
var FWD = {
  get: function(t, k, r) { return Reflect.get(t, k, r); },
  set: function(t, k, v, r) { return Reflect.set(t, k, v, r); },
  has: function(t, k) { return Reflect.has(t, k); },
  deleteProperty: function(t, k) { return Reflect.deleteProperty(t, k); },
  defineProperty: function(t, k, d) { return Reflect.defineProperty(t, k, d); },
  getOwnPropertyDescriptor: function(t, k) { return Reflect.getOwnPropertyDescriptor(t, k); },
  ownKeys: function(t) { return Reflect.ownKeys(t); },
  preventExtensions: function(t) { PE_CALLS++; return Reflect.preventExtensions(t); },
  isExtensible: function(t) { return Reflect.isExtensible(t); },
  getPrototypeOf: function(t) { return Reflect.getPrototypeOf(t); },
  setPrototypeOf: function(t, p) { return Reflect.setPrototypeOf(t, p); },
};
// an existing property of a lazily templated built-in (deleted at reset so that the abstract state starts empty)
var TMPLKEY = {math: "abs", math2: "abs", json: "parse", global: "escape", regexpctor: "escape"};
function mkKeys() {
  var m = CFG.keymap, K = {};
  CFG.keys.forEach(function(k) {
    var c;
    if (k === "y" || k === "z") c = Symbol(k);
    else if (k === "i0") c = "0"; else if (k === "i1") c = "1"; else if (k === "i2") c = "2";
    else if (k === "k") {
      c = m === "str" || m === "strz" || m === "strn" ? "vk_a" : m === "sym" ? Symbol("k") : m === "idx" ? "0" : m === "idx7" ? "7" : m === "num7" ? 7 :
          m === "big" ? "4294967295" : m === "neg0" ? "-0" : m === "frac" ? "1.5" : m === "wk" ? Symbol.toStringTag :
          m === "tmpl" ? TMPLKEY[CFG.kind] :
          m === "long" ? "vk_a_rather_long_property_name_to_defeat_small_string_paths" : m === "uni" ? "ключ" : undefined;
    } else c = "vk_" + k;
    if (c === undefined) throw new Error("no mapping for " + k + " under " + m);
    K[k] = c;
  });
  return K;
}
function desc(o, k) {
  var d = Object.getOwnPropertyDescriptor(o, KEY[k]);
  var d2 = Reflect.getOwnPropertyDescriptor(o, KEY[k]);
  if ((d === undefined) !== (d2 === undefined)) return {k: "Object/Reflect.getOwnPropertyDescriptor disagree"};
  var has = Object.prototype.hasOwnProperty.call(o, KEY[k]);
  if (has !== (d !== undefined)) return {k: "hasOwnProperty disagrees with descriptor"};
  if (!d) return {k: "none", v: "-", w: "-", g: "-", s: "-", e: "-", c: "-"};
  if (Object.prototype.propertyIsEnumerable.call(o, KEY[k]) !== d.enumerable) return {k: "propertyIsEnumerable disagrees"};
  if ("value" in d) {
    if ("get" in d || "set" in d) return {k: "mixed descriptor"};
    return {k: "data", v: vname(d.value), w: tf(d.writable), g: "-", s: "-", e: tf(d.enumerable), c: tf(d.configurable)};
  }
  return {k: "acc", v: "-", w: "-", g: d.get === g1 ? "g1" : d.get === undefined ? "u" : "?", s: d.set === s1 ? "s1" : d.set === undefined ? "u" : "?",
          e: tf(d.enumerable), c: tf(d.configurable)};
}
function ourKeys(o) {
  // own keys restricted to the mapped keys, in [[OwnPropertyKeys]] order; cross-checked against the other enumeration APIs
  var all = Reflect.ownKeys(o), r = [], names = Object.getOwnPropertyNames(o), syms = Object.getOwnPropertySymbols(o);
  if (all.length !== names.length + syms.length) return ["ownKeys != names + symbols"];
  for (var i = 0; i < all.length; i++) {
    if (all[i] !== (i < names.length ? names[i] : syms[i - names.length])) return ["ownKeys order != names then symbols"];
    for (var j = i + 1; j < all.length; j++) if (all[i] === all[j]) return ["duplicate own key"];
  }
  var enumKeys = Object.keys(o), ei = 0;
  for (var i = 0; i < all.length; i++) {
    if (typeof all[i] === "string") {
      var d = Object.getOwnPropertyDescriptor(o, all[i]);
      if (!d) return ["own key without descriptor"];
      if (d.enumerable) { if (enumKeys[ei++] !== all[i]) return ["Object.keys inconsistent with descriptors"]; }
    }
    for (var a in KEY) if (typeof KEY[a] === "symbol" || typeof all[i] === "symbol" ? KEY[a] === all[i] : String(KEY[a]) === all[i]) r.push(a);
  }
  if (ei !== enumKeys.length) return ["Object.keys has extra keys"];
  return r;
}
function obs() {
  var st = {};
  CFG.objs.forEach(function(n) {
    var o = O[n], props = {};
    CFG.keys.forEach(function(k) { props[k] = desc(o, k); });
    var p = Object.getPrototypeOf(o);
    if (Reflect.getPrototypeOf(o) !== p) props._err = "getPrototypeOf disagree";
    var pn = p === BASEPROTO[n] ? "null" : nameOf(p);
    if (Object.isExtensible(o) !== Reflect.isExtensible(o)) props._err = "isExtensible disagree";
    // a forwarding proxy has the brand of its target (7.2.2 IsArray looks through every proxy layer; typeof / [[Call]] likewise)
    var kd = n === CFG.objs[0] ? CFG.kind : (CFG.kind2 || "plain");
    if (/^(proxy|goproxy)/.test(kd)) {
      var want = /^proxyarr/.test(kd) ? "true,[object Array],object" : kd === "proxyfunc" ? "false,[object Function],function" : "false,[object Object],object";
      var got = [Array.isArray(o), Object.prototype.toString.call(o), typeof o].join();
      if (got !== want) props._err = "brand of the proxy: " + got + ", of its target: " + want;
      if (kd === "proxyfunc") {
        // a callable proxy is a function to instanceof (OrdinaryHasInstance through the traps) and to Function.prototype.toString, at any depth
        var b2;
        try {
          var o2 = new Proxy(o, {}), inst = Object.create(Reflect.get(o, "prototype"));
          b2 = [inst instanceof o, ({}) instanceof o, inst instanceof o2, typeof Function.prototype.toString.call(o), typeof Function.prototype.toString.call(o2)].join();
        } catch (e) { b2 = "throws " + e; }
        if (b2 !== "true,false,true,string,string") props._err = "function brand of the proxy: " + b2;
      }
    }
    // (only where a link of the chain is an exotic object that answers [[OwnPropertyKeys]] / [[GetOwnProperty]] itself: the walk doubles the cost of an observation)
    var fe = /^(proxy|goproxy|gomap)/.test(CFG.kind) || /^(proxy|goproxy|gomap)/.test(CFG.kind2 || "") ? forInCheck(o) : null;
    if (fe) props._err = fe;
    var ord = ourKeys(o);
    // the model keeps creation order; the observable order is OwnKeys: compare as a multiset here, the order via the ownkeys action
    st[n] = {props: props, order: ord, ext: tf(Object.isExtensible(o)), proto: pn};
  });
  return st;
}
var BASEPROTO = {};
function reset() {
  O = {}; LOG = [];
  KEY = mkKeys();
  CFG.objs.forEach(function(n, i) {
    O[n] = KINDS[i === 0 ? CFG.kind : (CFG.kind2 || "plain")]();
    BASEPROTO[n] = Object.getPrototypeOf(O[n]);
  });
  CFG.objs.forEach(function(n) { if (CFG.proto[n]) Object.setPrototypeOf(O[n], O[CFG.proto[n]]); });
  if (CFG.keymap === "tmpl" && !Reflect.deleteProperty(O[CFG.objs[0]], KEY.k)) throw new Error("template property not deletable");
  if (CFG.initprop === "FrozenV1" && CFG.kind !== "strchar")
    CFG.objs.forEach(function(n) { Object.defineProperty(O[n], KEY.k, {value: V("v1"), writable: false, enumerable: true, configurable: false}); });
  return obs();
}
function mkDesc(d) {
  var r = {};
  if (d.v !== "abs") r.value = V(d.v);
  if (d.g !== "abs") r.get = d.g === "g1" ? g1 : undefined;
  if (d.s !== "abs") r.set = d.s === "s1" ? s1 : undefined;
  if (d.w !== "abs") r.writable = B(d.w);
  if (d.e !== "abs") r.enumerable = B(d.e);
  if (d.c !== "abs") r.configurable = B(d.c);
  return r;
}
function surf(f) {
  try { var r = f(); return r === true ? "true" : r === false ? "false" : "ok"; }
  catch (e) { return e instanceof TypeError ? "TypeError" : "ERR " + e; }
}
var strictSet = function(o, k, v) { "use strict"; o[k] = v; };
var strictDelete = function(o, k) { "use strict"; return delete o[k]; };
function R(x) { return x === "prim" ? 1 : O[x]; }
function step(l) {
  var o = O[l.o], k = l.k !== undefined ? KEY[l.k] : undefined, res;
  LOG.length = 0;   // mutate, do not rebind: the global object itself may be frozen by the history (kind "global")
  switch (l.op) {
  case "define":
    res = surf(function() {
      var d = mkDesc(l.d);
      if (l.via === "refl") return Reflect.defineProperty(o, k, d);
      if (Object.defineProperty(o, k, d) !== o) throw new Error("defineProperty must return the object");
    });
    break;
  case "delete":
    res = surf(function() {
      if (l.via === "sloppy") return delete o[k];
      if (l.via === "strict") return strictDelete(o, k);
      if (l.via === "refl") return Reflect.deleteProperty(o, k);
      return __goDelete(o, k);
    });
    break;
  case "getown": res = desc(o, l.k); break;
  case "has":
    var a = k in o, b = Reflect.has(o, k);
    res = a !== b ? "in/Reflect.has disagree" : a ? "true" : "false";
    break;
  case "get":
    var v;
    try { v = l.via === "sloppy" ? o[k] : l.via === "go" ? __goGet(o, k) : Reflect.get(o, k, R(l.recv)); }
    catch (e) { v = "ERR " + e; }
    res = {v: vname(v), log: LOG.slice()};
    break;
  case "set":
    var r = surf(function() {
      if (l.via === "sloppy") { o[k] = V(l.v); return; }
      if (l.via === "strict") { strictSet(o, k, V(l.v)); return; }
      if (l.via === "go") return __goSet(o, k, V(l.v));
      return Reflect.set(o, k, V(l.v), R(l.recv));
    });
    res = {r: r, log: LOG.slice()};
    break;
  case "ownkeys":
    res = ourKeys(o);
    break;
  case "prevent":
    PE_CALLS = 0;
    res = surf(function() {
      if (l.via === "refl") return Reflect.preventExtensions(o);
      if (Object.preventExtensions(o) !== o) throw new Error("preventExtensions must return the object");
    });
    var kdp = l.o === undefined || l.o === CFG.objs[0] ? CFG.kind : (CFG.kind2 || "plain");
    if (FWD_LAYERS[kdp] !== undefined && PE_CALLS !== FWD_LAYERS[kdp]) throw new Error("one [[PreventExtensions]] on " + kdp + " ran the forwarding trap " + PE_CALLS + " times, not " + FWD_LAYERS[kdp]);
    break;
  case "integrity":
    res = surf(function() { if ((l.level === "frozen" ? Object.freeze(o) : Object.seal(o)) !== o) throw new Error("must return the object"); });
    break;
  case "testintegrity":
    // objects with own properties outside the modelled keys: evaluate TestIntegrityLevel over the modelled keys and
    // require the real answer to be the conjunction with the other keys' state
    var fr = Object.isFrozen(o), se = Object.isSealed(o), ofr = true, ose = true, mfr = !Object.isExtensible(o), mse = mfr;
    Reflect.ownKeys(o).forEach(function(q) {
      var d = Object.getOwnPropertyDescriptor(o, q), mine = false;
      for (var a in KEY) if (typeof KEY[a] === "symbol" || typeof q === "symbol" ? KEY[a] === q : String(KEY[a]) === q) mine = true;
      var f = !d.configurable && (!("value" in d) || !d.writable), s = !d.configurable;
      if (mine) { mfr = mfr && f; mse = mse && s; } else { ofr = ofr && f; ose = ose && s; }
    });
    res = {frozen: fr === (mfr && ofr) ? (mfr ? "true" : "false") : "isFrozen inconsistent",
           sealed: se === (mse && ose) ? (mse ? "true" : "false") : "isSealed inconsistent", ext: tf(Object.isExtensible(o))};
    break;
  case "setproto":
    res = surf(function() {
      var p = l.p === "null" ? BASEPROTO[l.o] : O[l.p];
      if (l.via === "refl") return Reflect.setPrototypeOf(o, p);
      if (Object.setPrototypeOf(o, p) !== o) throw new Error("setPrototypeOf must return the object");
    });
    break;
  default: throw new Error("unknown op " + l.op);
  }
  return {res: res, obs: obs()};
}
