// Adaptor binding JsonSpec.tla (property C19) to the real JSON.parse / JSON.stringify / Object.MarshalJSON.
// Texts travel in the notation of the specification: printable ASCII except '<' as itself, every other UTF-16 code
// unit as <hhhh>.  Values are rendered by render() below, never with JSON.stringify.
var HEXD = "0123456789abcdef";
function hex4(c) { return HEXD.charAt((c >> 12) & 15) + HEXD.charAt((c >> 8) & 15) + HEXD.charAt((c >> 4) & 15) + HEXD.charAt(c & 15); }
function enc1(c, q) {
  if (c >= 32 && c <= 126 && c !== 60 && !(q && c === 34)) return String.fromCharCode(c);
  return "<" + hex4(c) + ">";
}
function enc(s) { var r = ""; for (var i = 0; i < s.length; i++) r += enc1(s.charCodeAt(i), false); return r; }
function encQ(s) { var r = "\""; for (var i = 0; i < s.length; i++) r += enc1(s.charCodeAt(i), true); return r + "\""; }
function hexv(ch) { var i = HEXD.indexOf(ch); if (i < 0) throw new Error("bad marker digit " + ch); return i; }
function dec(m) {
  var r = "";
  for (var i = 0; i < m.length; i++) {
    var ch = m.charAt(i);
    if (ch === "<") {
      r += String.fromCharCode(hexv(m.charAt(i + 1)) * 4096 + hexv(m.charAt(i + 2)) * 256 + hexv(m.charAt(i + 3)) * 16 + hexv(m.charAt(i + 4)));
      if (m.charAt(i + 5) !== ">") throw new Error("bad marker in " + m);
      i += 5;
    } else r += ch;
  }
  return r;
}
function numText(x) { return (x === 0 && 1 / x < 0) ? "-0" : String(x); }
function plainData(o, k) {
  var d = Object.getOwnPropertyDescriptor(o, k);
  return d !== undefined && ("value" in d) && d.writable === true && d.enumerable === true && d.configurable === true;
}
// canonical rendering of a value returned by JSON.parse; anything that is not a plain JSON value shows up as "!..."
function render(v) {
  if (v === null) return "null";
  if (v === true) return "true";
  if (v === false) return "false";
  if (typeof v === "number") return "#" + numText(v);
  if (typeof v === "string") return encQ(v);
  if (typeof v !== "object") return "!" + typeof v;
  var keys = Reflect.ownKeys(v), parts = [], i;
  if (Array.isArray(v)) {
    if (Object.getPrototypeOf(v) !== Array.prototype) return "!array prototype";
    if (keys.length !== v.length + 1 || keys[v.length] !== "length") return "!array keys " + keys.length + "/" + v.length;
    for (i = 0; i < v.length; i++) {
      if (keys[i] !== String(i) || !plainData(v, keys[i])) return "!array element " + i;
      parts.push(render(v[i]));
    }
    return "[" + parts.join(",") + "]";
  }
  if (Object.getPrototypeOf(v) !== Object.prototype) return "!object prototype";
  if (!Object.isExtensible(v)) return "!not extensible";
  for (i = 0; i < keys.length; i++) {
    if (typeof keys[i] !== "string" || !plainData(v, keys[i])) return "!member " + String(keys[i]);
    parts.push(encQ(keys[i]) + ":" + render(Object.getOwnPropertyDescriptor(v, keys[i]).value));
  }
  return "{" + parts.join(",") + "}";
}
function errName(e) { return e instanceof SyntaxError ? "SyntaxError" : e instanceof TypeError ? "TypeError" : "!" + String(e); }
function parseRes(text) {
  var v, r;
  try { v = JSON.parse(text); } catch (e) { return {v: errName(e), canon: "-"}; }
  r = render(v);
  try {     // the identity reviver must not change the value
    var r2 = render(JSON.parse(text, function (k, x) { return x; }));
    if (r2 !== r) r += " !reviver " + r2;
  } catch (e2) { r += " !reviver threw " + errName(e2); }
  var c;
  try { c = JSON.stringify(v); c = typeof c === "string" ? enc(c) : "!" + typeof c; } catch (e3) { c = "!" + errName(e3); }
  return {v: r, canon: c};
}

// ---- part 1: the text built so far -----------------------------------------------------------------------------
var TEXT = "", N = 0, ROOT = null, SHARED = null, REG = null;
function edited(k, i, c) {   // i is 1-based
  var a = TEXT.substring(0, i - 1);
  if (k === "del") return a + TEXT.substring(i);
  if (k === "rep") return a + dec(c) + TEXT.substring(i);
  return a + dec(c) + TEXT.substring(i - 1);
}

// ---- part 2: the value under construction ----------------------------------------------------------------------
function isContainer(kind) { return kind === "obj" || kind === "arr" || kind === "pxobj" || kind === "pxarr"; }
function tag(o, t) { REG.set(o, t); return o; }
function mk(kind) {
  switch (kind) {
  case "null": return null;
  case "true": return true;
  case "false": return false;
  case "n1": return 1;
  case "n15": return 1.5;
  case "nneg0": return -0;
  case "nan": return NaN;
  case "inf": return Infinity;
  case "ninf": return -Infinity;
  case "n1e21": return 1e21;
  case "n1e-7": return 1e-7;
  case "nbig": return 123456789012345680000;
  case "sa": return "a";
  case "sempty": return "";
  case "sq": return "\"\\/";
  case "sctl": return "\b\t\n\f\r\u0000\u0001\u001f\u007f";
  case "suni": return "\u00e9\u2028\u2029\ud83d\ude00\ufeff";
  case "slone": return "\ud800";
  case "slone2": return "\udc00\ud800a\ud83d";
  case "undef": return undefined;
  case "fun": return function () {};
  case "sym": return Symbol("s");
  case "big": return BigInt(1);
  case "bnum": return tag(new Number(3), "B(#3)");
  case "bnan": return tag(new Number(NaN), "B(#NaN)");
  case "bstr": return tag(new String("s"), "B(\"s\")");
  case "bfalse": return tag(new Boolean(false), "B(false)");
  case "bsym": return tag(Object(Symbol("b")), "B(sym)");
  case "bbig": return tag(Object(BigInt(2)), "B(big)");
  case "obj": return {};
  case "arr": return [];
  case "pxobj": var to = {}; return tag(new Proxy(to, {}), {target: to});
  case "pxarr": var ta = []; return tag(new Proxy(ta, {}), {target: ta});
  case "tjkey":
    var self = {toJSON: function (k) { return (typeof k === "string" && this === self) ? "tj:" + k : "tj!bad-call"; }};
    return tag(self, "tj:key");
  case "tjnest": return tag({toJSON: function () { return {x: 2, toJSON: function () { return 1; }}; }}, "tj:nest");
  case "tjundef": return tag({toJSON: function () {}}, "tj:undef");
  case "tjnon": return tag({toJSON: 5, y: 1}, "tj:non");
  case "tjfun": var tf = function () {}; tf.toJSON = function () { return "F"; }; return tag(tf, "tj:fun");
  case "big7": return BigInt(7);
  case "args": return tag((function () { return arguments; })(1, 2), "tj:args");
  case "typed": return tag(new Uint8Array([1, 2]), "tj:typed");
  case "date0": return tag(new Date(0), "date0");
  case "datenan": return tag(new Date(NaN), "datenan");
  case "cyc": return ROOT.real;
  case "shared": return SHARED;
  }
  throw new Error("unknown kind " + kind);
}
function shapeOf(v, top) {
  if (v === null) return "null";
  if (v === true) return "true";
  if (v === false) return "false";
  switch (typeof v) {
  case "number": return "#" + numText(v);
  case "string": return encQ(v);
  case "undefined": return "undef";
  case "function": return REG.get(v) === "tj:fun" ? "tj:fun" : "fun";
  case "symbol": return "sym";
  case "bigint": return v === BigInt(7) ? "tj:big7" : "big";
  }
  if (!top && v === ROOT.real) return "cyc";
  if (v === SHARED) return "shared";
  var t = REG.get(v);
  if (typeof t === "string") return t;
  if (t !== undefined) return "P(" + shapeOf(t.target, true) + ")";
  var parts = [], i;
  if (Array.isArray(v)) {
    for (i = 0; i < v.length; i++) parts.push(i in v ? shapeOf(v[i], false) : "hole");
    return "[" + parts.join(",") + "]";
  }
  var keys = Reflect.ownKeys(v);
  for (i = 0; i < keys.length; i++) {
    var d = Object.getOwnPropertyDescriptor(v, keys[i]);
    parts.push((d.enumerable ? "" : "~") + encQ(keys[i]) + ":" + shapeOf(d.value, false));
  }
  return "{" + parts.join(",") + "}";
}
function mkRep(id) {
  switch (id) {
  case "none": return undefined;
  case "nonfn": return {};
  case "dropa": return function (k, v) { return k === "a" ? undefined : v; };
  case "num": return function (k, v) { return typeof v === "number" ? "N" : v; };
  case "idx0": return function (k, v) { return k === "0" ? "Z" : v; };
  case "wrap": return function (k, v) { return k === "" ? [v, v] : v; };
  case "allow_ba": return ["b", "a"];
  case "allow_mixed": return ["a", 1, new String("b"), {}, "a", new Number(1), null, true, undefined];
  case "allow_nums": return [0, -0, 1.5, 1e21, "1", 1, NaN];
  case "allow_empty": return [];
  case "allow_h": return ["h", "a"];
  case "allow_px": return new Proxy(["b"], {});
  case "allow_ls": return ["\ud800", "\ud800"];
  case "allow_fdls": return ["\ufffd", "\ud800", "a"];
  }
  throw new Error("unknown replacer " + id);
}
function mkInd(id) {
  switch (id) {
  case "none": return undefined;
  case "n2": return 2;
  case "n11": return 11;
  case "n0": return 0;
  case "nneg": return -1;
  case "n2_9": return 2.9;
  case "ninf": return Infinity;
  case "nan": return NaN;
  case "bnum3": return new Number(3);
  case "tab": return "\t";
  case "s16": return "abcdefghijklmnop";
  case "sempty": return "";
  case "bstr": return new String("--");
  case "uni11": return "\u00e9\u00e9\u00e9\u00e9\u00e9\u00e9\u00e9\u00e9\u00e9\u00e9\u00e9";
  case "uni1": return "\u00e9";
  case "btrue": return true;
  }
  throw new Error("unknown space argument " + id);
}
function nodeAt(path) {
  var nd = ROOT;
  for (var i = 0; i < path.length; i++) nd = nd.kids[path[i] - 1];
  return nd;
}

var MODE = "none", PLAN = "none";      // set by the first step of a tour (op "plan")
function obs() {
  if (MODE === "parse") return {plan: PLAN, text: enc(TEXT), n: N};
  if (MODE === "str") return {plan: PLAN, shape: ROOT === null ? "none" : shapeOf(ROOT.real, true), n: N};
  return {plan: PLAN, n: N};
}
// BigInt.prototype.toJSON (kind "big7"): 7n serialises as "seven", every other BigInt is handed on unchanged
Object.defineProperty(BigInt.prototype, "toJSON", {value: function () { "use strict"; return this === BigInt(7) ? "seven" : this; },
                                                   writable: true, enumerable: false, configurable: true});
function reset() {
  MODE = "none"; PLAN = "none";
  TEXT = ""; N = 0; ROOT = null; REG = new Map(); SHARED = {s: 1};
  return obs();
}
function step(l) {
  var res;
  switch (l.op) {
  case "plan": MODE = l.mode; PLAN = l.name; res = "ok"; break;
  case "app": TEXT += dec(l.p); N++; res = parseRes(TEXT); break;
  case "try": res = parseRes(TEXT + dec(l.p)); break;       // a piece after which no continuation can be accepted: probed, not kept
  case "edit": res = parseRes(edited(l.k, l.i, l.c)); break;
  case "root":
    var rv = mk(l.kind);
    ROOT = {real: rv, kids: isContainer(l.kind) ? [] : null};
    N++; res = "ok"; break;
  case "add":
    var nd = nodeAt(l.path), c = nd.real, v = l.kind === "hole" ? undefined : mk(l.kind);
    if (nd.kids === null) throw new Error("not a container");
    if (l.k === "-") {
      if (!Array.isArray(c)) throw new Error("array expected");
      if (l.kind === "hole") c.length = c.length + 1; else c[c.length] = v;
    } else {
      Object.defineProperty(c, dec(l.k), {value: v, writable: true, enumerable: l.a !== "h", configurable: true});
    }
    nd.kids.push({real: v, kids: isContainer(l.kind) ? [] : null});
    N++; res = "ok"; break;
  case "str":
    var s;
    try {
      s = JSON.stringify(ROOT.real, mkRep(l.rep), mkInd(l.ind));
      if (s === undefined) res = {s: "undefined", back: "-"};
      else if (typeof s !== "string") res = {s: "!" + typeof s, back: "-"};
      else {
        var back = "-";      // (l.pb === "F": escaped lone surrogate in the text, documented exception of JSON.parse)
        if (l.pb !== "F") { try { back = render(JSON.parse(s)); } catch (e) { back = errName(e); } }
        res = {s: enc(s), back: back};
      }
    } catch (e) { res = {s: errName(e), back: "-"}; }
    break;
  case "marshal":
    var m = __marshalJSON(ROOT.real);
    res = m === undefined ? "!not an object" : (m.err !== undefined ? m.err : enc(m.s));
    break;
  default: throw new Error("unknown op " + l.op);
  }
  return {res: res, obs: obs()};
}
