var INSTANCE = "set";
