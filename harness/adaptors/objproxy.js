// Adaptor binding ObjProxy.tla: a real target object plus a Proxy whose handler answers with the label's `ans`.
// Prelude: CFG = {handler: "js"|"go", target: "plain"|"func"|"array", keymap: "str"|"sym"|"idx", layers: 1|2}
var T, PX, REVOKE, ANS, P1, P2, KEY = {}, REVOKED = false, CALLS = [], EXTRA = [];
function g1() { return "gv"; }
function s1(v) {}
function V(x) { return x === "v1" ? 1 : x === "v2" ? 2 : undefined; }
function vname(v) { return v === 1 ? "v1" : v === 2 ? "v2" : v === undefined ? "u" : "?" + String(v); }
function B(x) { return x === "T"; }
function tf(b) { return b ? "T" : "F"; }
function mkDesc(d) {
  var r = {};
  if (d.v !== "abs") r.value = V(d.v);
  if (d.g !== "abs") r.get = d.g === "g1" ? g1 : undefined;
  if (d.s !== "abs") r.set = d.s === "s1" ? s1 : undefined;
  if (d.w !== "abs") r.writable = B(d.w);
  if (d.e !== "abs") r.enumerable = B(d.e);
  if (d.c !== "abs") r.configurable = B(d.c);
  return r;
}
function proj(d) {
  if (!d) return {k: "none", v: "-", w: "-", g: "-", s: "-", e: "-", c: "-"};
  if ("value" in d) return {k: "data", v: vname(d.value), w: tf(d.writable), g: "-", s: "-", e: tf(d.enumerable), c: tf(d.configurable)};
  return {k: "acc", v: "-", w: "-", g: d.get === g1 ? "g1" : d.get === undefined ? "u" : "?", s: d.set === s1 ? "s1" : d.set === undefined ? "u" : "?",
          e: tf(d.enumerable), c: tf(d.configurable)};
}
function pname(p) { return p === P1 ? "P1" : p === P2 ? "P2" : p === null ? "null" : "?"; }
function obs() {
  var p = Object.getPrototypeOf(T);
  return {p: {k: proj(Object.getOwnPropertyDescriptor(T, KEY.k)), j: proj(Object.getOwnPropertyDescriptor(T, KEY.j))},
          ext: tf(Object.isExtensible(T)), proto: pname(p), revoked: tf(REVOKED)};
}
var HANDLER = {
  getOwnPropertyDescriptor: function(t, k) { CALLS.push("gopd"); return ANS; },
  defineProperty: function(t, k, d) { CALLS.push("define"); return ANS; },
  has: function(t, k) { CALLS.push("has"); return ANS; },
  get: function(t, k, r) { CALLS.push("get"); return ANS; },
  set: function(t, k, v, r) { CALLS.push("set"); return ANS; },
  deleteProperty: function(t, k) { CALLS.push("delete"); return ANS; },
  ownKeys: function(t) { CALLS.push("ownkeys"); return ANS; },
  getPrototypeOf: function(t) { CALLS.push("getproto"); return ANS; },
  setPrototypeOf: function(t, p) { CALLS.push("setproto"); return ANS; },
  isExtensible: function(t) { CALLS.push("isext"); return ANS; },
  preventExtensions: function(t) { CALLS.push("prevent"); return ANS; },
};
// TestIntegrityLevel completes the trap's descriptor: a data descriptor without "value" is a writable data property all the same
function integrityOfPartialDescriptors() {
  var t = {}; Object.defineProperty(t, "a", {value: 1, writable: true, enumerable: true, configurable: false}); Object.preventExtensions(t);
  var p = new Proxy(t, {getOwnPropertyDescriptor: function (t, k) { return {configurable: false, writable: true, enumerable: true}; }});
  if (Object.isFrozen(p) !== false || Object.isSealed(p) !== true) throw new Error("Object.isFrozen / isSealed of a proxy whose getOwnPropertyDescriptor trap omits value: " + Object.isFrozen(p) + "," + Object.isSealed(p) + ", the target: false,true");
  var t2 = {}; Object.defineProperty(t2, "a", {get: function () {}, configurable: false}); Object.preventExtensions(t2);
  var p2 = new Proxy(t2, {getOwnPropertyDescriptor: function (t, k) { return {configurable: false, get: Reflect.getOwnPropertyDescriptor(t, k).get}; }});
  if (Object.isFrozen(p2) !== true) throw new Error("Object.isFrozen of a proxy over a frozen accessor-only target");
}
function reset() {
  integrityOfPartialDescriptors();
  REVOKED = false; CALLS = [];
  P1 = CFG.target === "func" ? Object.create(Function.prototype) : CFG.target === "array" ? Object.create(Array.prototype) : {};
  P2 = Object.create(P1);
  T = CFG.target === "func" ? function() {} : CFG.target === "array" ? [] : {};
  Object.setPrototypeOf(T, P1);
  EXTRA = Reflect.ownKeys(T);     // keys the target kind is born with (function: length, name, prototype; array: length): always reported honestly
  var m = CFG.keymap;
  KEY = m === "sym" ? {k: Symbol("k"), j: Symbol("j"), x: Symbol("x")} : m === "idx" ? {k: "0", j: "1", x: "2"} : {k: "vk", j: "vj", x: "vx"};
  var inner = T;
  if (CFG.layers === 2) inner = new Proxy(T, {});      // the lying proxy wraps a transparent proxy of the target
  if (CFG.handler === "go") { var r = __goProxyHandler(inner, HANDLER); PX = r.proxy; REVOKE = r.revoke; }
  else { var r = Proxy.revocable(inner, HANDLER); PX = r.proxy; REVOKE = r.revoke; }
  return obs();
}
function tri(f) {
  try { var r = f(); return r === true ? "true" : r === false ? "false" : r; }
  catch (e) { return e instanceof TypeError ? "TypeError" : "ERR " + e; }
}
function P(x) { return x === "P1" ? P1 : x === "P2" ? P2 : x === "null" ? null : 5; }
function step(l) {
  var res, k = l.k !== undefined ? KEY[l.k] : undefined, go = CFG.handler === "go";
  CALLS.length = 0;
  switch (l.op) {
  case "tdefine": res = tri(function() { return Reflect.defineProperty(T, k, mkDesc(l.d)); }); break;
  case "tdelete": res = tri(function() { return Reflect.deleteProperty(T, k); }); break;
  case "tprevent": Object.preventExtensions(T); res = "ok"; break;
  case "tsetproto": Object.setPrototypeOf(T, P(l.p)); res = "ok"; break;
  case "revoke": REVOKE(); REVOKED = true; res = "ok"; break;
  case "gopd":
    if (go && l.ans.t === "nonobj") { res = l.res; break; }   // a Go handler cannot return a non-object: not applicable
    ANS = l.ans.t === "undefined" ? undefined : l.ans.t === "nonobj" ? 5 : mkDesc(l.ans.d);
    if (go && l.ans.t === "desc" && l.ans.d.v === "abs" && l.ans.d.g === "abs" && l.ans.d.s === "abs" && l.ans.d.w === "abs" &&
        l.ans.d.e === "abs" && l.ans.d.c === "abs") { res = l.res; break; }   // the empty Go descriptor means "undefined"
    res = tri(function() {
      var d = Object.getOwnPropertyDescriptor(PX, k);
      return d === undefined ? {r: "undefined"} : {r: "desc", d: proj(d)};
    });
    if (typeof res === "string") res = {r: res};
    break;
  case "define": ANS = l.ans === "true"; res = tri(function() { return Reflect.defineProperty(PX, k, mkDesc(l.d)); }); break;
  case "has": ANS = l.ans === "true"; res = tri(function() { return Reflect.has(PX, k); }); break;
  case "get": ANS = V(l.ans); res = tri(function() { return vname(Reflect.get(PX, k)); }); break;
  case "set": ANS = l.ans === "true"; res = tri(function() { return Reflect.set(PX, k, V(l.v)); }); break;
  case "delete": ANS = l.ans === "true"; res = tri(function() { return Reflect.deleteProperty(PX, k); }); break;
  case "ownkeys":
    ANS = l.ans.map(function(a) { return a === "num" ? 5 : KEY[a]; }).concat(EXTRA);
    res = tri(function() {
      var r = Reflect.ownKeys(PX);
      if (r.length !== ANS.length) return "wrong length";
      for (var i = 0; i < r.length; i++) if (r[i] !== ANS[i]) return "wrong element";
      return "ok";
    });
    break;
  case "getproto":
    if (go && l.ans === "nonobj") { res = l.res; break; }
    ANS = P(l.ans); res = tri(function() { return pname(Reflect.getPrototypeOf(PX)); }); break;
  case "setproto": ANS = l.ans === "true"; res = tri(function() { return Reflect.setPrototypeOf(PX, P(l.v)); }); break;
  case "isext": ANS = l.ans === "true"; res = tri(function() { return Reflect.isExtensible(PX); }); break;
  case "prevent": ANS = l.ans === "true"; res = tri(function() { return Reflect.preventExtensions(PX); }); break;
  default: throw new Error("unknown op " + l.op);
  }
  return {res: res, obs: obs()};
}
