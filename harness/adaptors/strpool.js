// Adaptor binding StrPool.tla: one register holding a string computed on the real engine.
// Tokens of the model stand for UTF-16 code units (numeric order of the tokens = order of the units).
var UNIT = {1: 0x20, 2: 0x61, 3: 0x62, 4: 0xE9, 5: 0x2135, 6: 0xD835, 7: 0xDCB3};
var TOKEN = {}; for (var k in UNIT) TOKEN[UNIT[k]] = +k;
var A;
var PADA = "01234567890123456789", PADU = "0123456789012345678é";   // > 16 bytes: ToValue(go string) imports lazily

function units(toks) { return toks.map(function (t) { return t >= 1000 ? t - 1000 : UNIT[t]; }); }
function toks(s) {
  var out = [];
  for (var i = 0; i < s.length; i++) { var t = TOKEN[s.charCodeAt(i)]; out.push(t === undefined ? 1000 + s.charCodeAt(i) : t); }
  return out;
}
function wellFormed(u) {
  for (var i = 0; i < u.length; i++) {
    if (u[i] >= 0xD800 && u[i] <= 0xDBFF) { if (i + 1 < u.length && u[i + 1] >= 0xDC00 && u[i + 1] <= 0xDFFF) { i++; continue; } return false; }
    if (u[i] >= 0xDC00 && u[i] <= 0xDFFF) return false;
  }
  return true;
}
function esc(u) { return u.map(function (c) { return "\\u" + ("0000" + c.toString(16)).slice(-4); }).join(""); }
// a string with the given content, produced in the given way
function mk(tk, origin) {
  var u = units(tk);
  switch (origin) {
  case "lit": return (0, eval)('"' + (u.every(function (c) { return c < 0x80; }) ? String.fromCharCode.apply(null, u) : esc(u)) + '"');
  case "cat": var s = ""; for (var i = 0; i < u.length; i++) s += String.fromCharCode(u[i]); return s;
  case "json": if (wellFormed(u)) return JSON.parse('"' + esc(u) + '"'); break;
  case "go": if (wellFormed(u)) return __goString(String.fromCharCode.apply(null, u)); break;
  case "golong": if (wellFormed(u)) return __goString((u.length & 1 ? PADA : PADU) + String.fromCharCode.apply(null, u)).substring(20); break;
  case "tmpl": var x = String.fromCharCode.apply(null, u); return `${x}`;
  case "arrjoin": return u.map(function (c) { return String.fromCharCode(c); }).join("");
  }
  return String.fromCharCode.apply(null, u);
}
function rx(m, flags) { return new RegExp(m, flags); }

var ID = {
  String: function (a) { return String(a); }, toString: function (a) { return a.toString(); }, valueOf: function (a) { return new String(a).valueOf(); },
  concat0: function (a) { return a.concat(""); }, slice0: function (a) { return a.slice(0); },
  json: function (a) { return JSON.parse(JSON.stringify(a)); },
  jsonkey: function (a) { var o = {}; o[a] = 1; return Object.keys(JSON.parse(JSON.stringify(o)))[0]; },
  key: function (a) { var o = {}; o[a] = 1; return Object.keys(o)[0]; },
  symdesc: function (a) { return Symbol(a).description; },
  spreadjoin: function (a) { return [...a].join(""); }, fromjoin: function (a) { return Array.from(a).join(""); },
  splitjoin: function (a) { return a.split("").join(""); },
  lower: function (a) { return a.toLowerCase(); }, uplow: function (a) { return a.toUpperCase().toLowerCase(); },
  normalize: function (a) { return a.normalize(); }, escape: function (a) { return unescape(escape(a)); },
  rxnoop: function (a) { return a.replace(/(?:)/g, ""); }, replaceSelf: function (a) { return a.replace(a, a); },
  padnoop: function (a) { return a.padStart(0, "x").padEnd(a.length, "y"); }, repeat1: function (a) { return a.repeat(1); },
  tmpl: function (a) { return `${a}`; }, objstr: function (a) { return String(Object(a)); },
  localeLower: function (a) { return a.toLocaleLowerCase(); }, substringSwap: function (a) { return a.substring(a.length, 0); },
  mapjoin: function (a) { return Array.prototype.map.call(a, function (x) { return x; }).join(""); },
  builder: function (a) { return a.split("").reduce(function (x, y) { return x + y; }, ""); },
  raw: function (a) { return String.raw({raw: ["", ""]}, a); },
  at0slice: function (a) { return a.slice(0, 1) + a.slice(1); }
};

// the engine's string x (expected content: tokens tk) against a reference r of the same content
function sameAs(x, r, what, errs) {
  function chk(name, ok) { if (!ok) errs.push(what + ": " + name + " fails [" + __tag(x) + "/" + __tag(r) + "] content " + JSON.stringify(toks(x))); }
  chk("x===r", x === r); chk("r===x", r === x); chk("x==r", x == r); chk("!(x!=r)", !(x != r));
  chk("Object.is", Object.is(x, r) && Object.is(r, x));
  chk("!(x<r)", !(x < r)); chk("!(x>r)", !(x > r)); chk("x<=r", x <= r); chk("r>=x", r >= x);
  var sw; switch (x) { case r: sw = true; break; default: sw = false; } chk("switch", sw);
  chk("Map", new Map([[x, 1]]).get(r) === 1 && new Map([[r, 1]]).get(x) === 1);
  chk("Set", new Set([x]).has(r) && new Set([r, x]).size === 1);
  var o = {}; o[x] = 1; chk("property key", o[r] === 1 && Object.prototype.hasOwnProperty.call(o, r) && (r in o));
  var o2 = {}; o2[r] = 1; o2[x] = 2; chk("property key rev", Object.keys(o2).length === 1 && o2[r] === 2);
  chk("indexOf", [x].indexOf(r) === 0 && [r].lastIndexOf(x) === 0); chk("includes", [x].includes(r));
  chk("localeCompare", x.localeCompare(r) === 0);
  chk("length", x.length === r.length);
  chk("concat", x + "|" === r + "|" && "|" + x === "|" + r);
  chk("string includes", x.includes(r) && r.startsWith(x) && x.endsWith(r) && x.indexOf(r) === 0);
  chk("Symbol.for", Symbol.for(x) === Symbol.for(r));
  chk("export", __exportEq(x, r));
  chk("JSON", JSON.stringify(x) === JSON.stringify(r));
}
var ORIGINS = ["fcc", "lit", "cat", "json", "go", "golong"];
var REFS = new Map();
function refs(tk) {
  var key = tk.join();
  var r = REFS.get(key);
  if (!r) { r = ORIGINS.map(function (o) { return mk(tk, o); }); REFS.set(key, r); }
  return r;
}
function obs() {
  var tk = toks(A), u = units(tk), errs = [];
  var tag = __tag(A), ascii = u.every(function (c) { return c < 0x80; });
  if (tag === "ascii" && !ascii) errs.push("normal form: ASCII storage holds a unit >= 0x80");
  if (tag === "unicode" && ascii) errs.push("normal form: UTF-16 storage for an ASCII-only string " + JSON.stringify(tk));
  if (tag !== "ascii" && tag !== "unicode" && tag.indexOf("imported") !== 0) errs.push("not a string: " + tag);
  var rs = refs(tk);
  for (var i = 0; i < rs.length; i++) sameAs(A, rs[i], "a/" + ORIGINS[i], errs);
  // a long string: the lazily scanned Go import (> 16 bytes) of PAD + content against the same content concatenated in script
  if (wellFormed(u)) {
    var pad = (tk.length & 1) ? PADU : PADA;
    // hashing contexts first, each on a FRESH import (=== and most other operations scan the string, hashing must not depend on that)
    var mkr = function () { return __goString(pad + String.fromCharCode.apply(null, u)); }, X = pad + A, o1 = {}, o2 = {};
    if (new Map([[X, 1]]).get(mkr()) !== 1 || new Map([[mkr(), 1]]).get(X) !== 1) errs.push("Map key: unscanned long import vs script-built string of equal content " + JSON.stringify(tk));
    if (!new Set([mkr()]).has(X) || new Set([X, mkr()]).size !== 1 || new Set([mkr(), mkr()]).size !== 1) errs.push("Set member: unscanned long import " + JSON.stringify(tk));
    o1[mkr()] = 1; o2[X] = 1;
    if (o1[X] !== 1 || o2[mkr()] !== 1) errs.push("property key: unscanned long import " + JSON.stringify(tk));
    sameAs(pad + A, __goString(pad + String.fromCharCode.apply(null, u)), "pad+a/golong-unscanned", errs);
    sameAs(__goString(pad + String.fromCharCode.apply(null, u)), pad + A, "golong-unscanned/pad+a", errs);
    // the FIRST use of a fresh import is a concatenation with a string that holds unpaired surrogates (which pair up across the join)
    var HI = "\ud83d", LO = "\ude00";
    sameAs(mkr() + HI, X + HI, "golong-unscanned + lone high surrogate", errs);
    sameAs((mkr() + HI) + LO, X + HI + LO, "(golong-unscanned + high) + low", errs);
    sameAs(LO + mkr(), LO + X, "lone low surrogate + golong-unscanned", errs);
    sameAs(mkr().concat(HI, LO), X + HI + LO, "golong-unscanned.concat(high, low)", errs);
    var acc = mkr(); acc += HI; acc += LO;
    if (acc.length !== X.length + 2 || acc.codePointAt(X.length) !== 0x1F600) errs.push("golong-unscanned += high += low: " + acc.length);
  }
  for (var i = 0; i < A.length; i++) if (A.charCodeAt(i) !== u[i] || A[i] !== String.fromCharCode(u[i])) errs.push("code unit " + i);
  if (wellFormed(u) && JSON.stringify(__exportUnits(A)) !== JSON.stringify(u)) errs.push("export content " + JSON.stringify(__exportUnits(A)));
  if (errs.length) return {err: errs[0], n: errs.length};
  return {a: tk};
}
// Go strings that are not valid UTF-8: every invalid sequence is imported as U+FFFD, so strings of different bytes can be the same
// sequence of code units; each comparison is made on FRESH imports (the first use decides whether the string has been scanned)
function invalidImports() {
  var fams = [[[0xff], [0xfe], "\ufffd"], [[0xc3], [0x80], "\ufffd"], [[0x61, 0xed, 0xa0, 0x80], [0x61, 0xff, 0xfe, 0xfd], "a\ufffd\ufffd\ufffd"], [[0xf0, 0x9f, 0x98], [0xf8, 0x88, 0x80], null]];
  var pads = ["", PADA, PADU];
  for (var f = 0; f < fams.length; f++) for (var p = 0; p < pads.length; p++) {
    var pad = pads[p], ba = fams[f][0], bb = fams[f][1];
    var a = function () { return __goRaw(pad, ba); }, b = function () { return __goRaw(pad, bb); };
    var lit = fams[f][2] === null ? null : pad + fams[f][2];
    var x = a(), y = b();
    if (x.length !== y.length) continue; // (not the same code units: nothing to compare)
    var same = true; for (var i = 0; i < x.length; i++) if (x.charCodeAt(i) !== y.charCodeAt(i)) same = false;
    if (!same) continue;
    var o = {}; o[a()] = 1;
    var r = [a() === b(), a() == b(), Object.is(a(), b()), new Set([a()]).has(b()), new Map([[a(), 1]]).get(b()) === 1, [a()].includes(b()), [a()].indexOf(b()) === 0,
             o[b()] === 1, !(a() < b()) && !(a() > b()), a() <= b() && a() >= b(), (function (v) { switch (v) { case b(): return true } return false })(a()),
             lit === null || (a() === lit && lit === b() && new Set([lit]).has(a())), a() + "!" === b() + "!", JSON.stringify(a()) === JSON.stringify(b())];
    if (r.indexOf(false) >= 0) return "Go strings with different invalid UTF-8 bytes but identical code units are told apart (pad " + pad.length + ", bytes " + ba + " / " + bb + "): " + r.join();
  }
  return null;
}
function reset() { A = ""; var e = invalidImports(); if (e) return {err: e, n: 1}; return obs(); }

function step(l) {
  var a = A, m = l.m === undefined ? undefined : mk(l.m, "fcc"), r = l.r === undefined ? undefined : mk(l.r, "fcc"), v, q;
  switch (l.op) {
  case "lit": v = mk(l.m, l.form); break;
  case "concat":
    switch (l.form) {
    case "plus": v = a + m; break;
    case "pluseq": v = a; v += m; break;
    case "concat": v = a.concat(m); break;
    case "tmpl": v = `${a}${m}`; break;
    case "join": v = [a, m].join(""); break;
    case "revplus": v = m + a; break;
    }
    break;
  case "slice": v = a.slice(l.i, l.j); break;
  case "slice1": v = a.slice(l.i); break;
  case "substring": v = a.substring(l.i, l.j); break;
  case "substr": v = a.substr(l.i, l.j); break;
  case "unit":
    switch (l.form) {
    case "charAt": v = a.charAt(l.i); break;
    case "at": v = a.at(l.i); break;
    case "index": v = a[l.i]; break;
    case "fcc": v = String.fromCharCode(a.charCodeAt(l.i)); break;
    case "split": v = a.split("")[l.i]; break;
    case "substr1": v = a.substr(l.i, 1); break;
    }
    break;
  case "cp":
    switch (l.form) {
    case "fcp": v = String.fromCodePoint(a.codePointAt(l.i)); break;
    case "spread": v = [...a][l.i]; break;
    case "from": v = Array.from(a)[l.i]; break;
    case "iter": var it = a[Symbol.iterator](), x; for (var i = 0; i <= l.i; i++) x = it.next(); v = x.value; break;
    }
    break;
  case "atout": q = a.at(l.i) === undefined ? "undefined" : "defined";
    if (a[l.i < 0 ? -1 : a.length] !== undefined || a.charAt(l.i < 0 ? -1 : a.length) !== "") q = "index out of range is defined";
    break;
  case "padStart": v = a.padStart(l.n, m); break;
  case "padEnd": v = a.padEnd(l.n, m); break;
  case "repeat": v = a.repeat(l.n); break;
  case "trim": v = a.trim(); break;
  case "trimStart": v = a.trimStart(); break;
  case "trimEnd": v = a.trimEnd(); break;
  case "replace":
    switch (l.form) {
    case "str": v = a.replace(m, r); break;
    case "rx": v = a.replace(rx(m, ""), r); break;
    case "fn": v = a.replace(rx(m, ""), function () { return r; }); break;
    }
    break;
  case "replaceAll":
    switch (l.form) {
    case "str": v = a.replaceAll(m, r); break;
    case "splitjoin": v = a.split(m).join(r); break;
    case "rxg": v = a.replace(rx(m, "g"), r); break;
    case "rxgu": v = a.replaceAll(rx(m, "gu"), r); break;
    }
    break;
  case "split": v = (l.form === "rx" ? a.split(rx(m, "")) : a.split(m))[l.k]; break;
  case "id": v = ID[l.form](a); break;
  case "indexOf": q = a.indexOf(m, l.from); break;
  case "lastIndexOf": q = a.lastIndexOf(m, l.from); break;
  case "includes": q = String(a.includes(m)); break;
  case "startsWith": q = String(a.startsWith(m)); break;
  case "endsWith": q = String(a.endsWith(m)); break;
  case "cmp": q = a < m ? -1 : a > m ? 1 : 0; if ((a <= m) !== (q <= 0) || (a >= m) !== (q >= 0) || (m < a) !== (q > 0) || (a === m) !== (q === 0)) q = "inconsistent order"; break;
  case "search": q = a.search(rx(m, "")); break;
  case "length": q = a.length; break;
  case "cpcount": q = [...a].length; break;
  case "wellformed": q = String(wellFormed(units(toks(a))) === (function () { try { encodeURIComponent(a); return true; } catch (e) { return false; } })() ? wellFormed(units(toks(a))) : "encodeURIComponent disagrees"); break;
  default: throw new Error("unknown op " + l.op);
  }
  if (q !== undefined) return {res: q, obs: obs()};
  if (typeof v !== "string") return {res: "not a string: " + String(v), obs: obs()};
  A = v;
  return {res: toks(v), obs: obs()};
}
