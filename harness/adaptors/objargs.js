// Adaptor binding ObjArgs.tla: the mapped arguments object of a sloppy function with one formal parameter.
var A, GETP, SETP;
function g1() { return "gv"; }
function s1(v) { }
function V(x) { return x === "v1" ? 1 : x === "v2" ? 2 : undefined; }
function vname(v) { return v === 1 ? "v1" : v === 2 ? "v2" : v === undefined ? "u" : v === "gv" ? "gv" : "?" + String(v); }
function tf(b) { return b ? "T" : "F"; }
function reset() {
  var r = (function(p) { return {a: arguments, g: function() { return p; }, s: function(v) { p = v; }}; })(1);
  A = r.a; GETP = r.g; SETP = r.s;
  return obs();
}
function rec(d) {
  if (d === undefined) return {k: "none", v: "-", w: "-", g: "-", s: "-", e: "-", c: "-"};
  if ("value" in d) return {k: "data", v: vname(d.value), w: tf(d.writable), g: "-", s: "-", e: tf(d.enumerable), c: tf(d.configurable)};
  return {k: "acc", v: "-", w: "-", g: d.get === g1 ? "g1" : d.get === undefined ? "u" : "?", s: d.set === s1 ? "s1" : d.set === undefined ? "u" : "?",
          e: tf(d.enumerable), c: tf(d.configurable)};
}
function isMapped() {
  var d = Object.getOwnPropertyDescriptor(A, "0");
  if (d === undefined || !("value" in d)) return false;
  var old = GETP();
  SETP(99);
  var m = Object.getOwnPropertyDescriptor(A, "0").value === 99 && A[0] === 99;
  SETP(old);
  if (m && A[0] !== old) throw new Error("probe did not restore the mapped value");
  return m;
}
function obs() {
  var m = isMapped();
  var p = rec(Object.getOwnPropertyDescriptor(A, "0"));
  // the stored value of a mapped data property is not observable: the model keeps it equal to the parameter
  return {prop: p, mapped: tf(m), pv: vname(GETP()), ext: tf(Object.isExtensible(A))};
}
function mkDesc(d) {
  var r = {};
  if (d.v !== "abs") r.value = V(d.v);
  if (d.g !== "abs") r.get = d.g === "g1" ? g1 : undefined;
  if (d.s !== "abs") r.set = d.s === "s1" ? s1 : undefined;
  if (d.w !== "abs") r.writable = d.w === "T";
  if (d.e !== "abs") r.enumerable = d.e === "T";
  if (d.c !== "abs") r.configurable = d.c === "T";
  return r;
}
function step(l) {
  var res;
  try {
    switch (l.op) {
    case "define":
      if (l.via === "refl") res = String(Reflect.defineProperty(A, "0", mkDesc(l.d)));
      else { Object.defineProperty(A, "0", mkDesc(l.d)); res = "true"; }
      break;
    case "getown": res = rec(Reflect.getOwnPropertyDescriptor(A, "0")); break;
    case "get": res = vname(A[0]); if (vname(Reflect.get(A, "0")) !== res) res = "Reflect.get differs"; break;
    case "set":
      if (l.via === "refl") res = String(Reflect.set(A, "0", V(l.v)));
      else if (l.via === "strict") { (function() { "use strict"; A[0] = V(l.v); })(); res = "true"; }
      else { A[0] = V(l.v); res = "ok"; }
      break;
    case "delete":
      if (l.via === "refl") res = String(Reflect.deleteProperty(A, "0"));
      else if (l.via === "strict") res = String((function() { "use strict"; return delete A[0]; })());
      else res = String(delete A[0]);
      break;
    case "setparam": SETP(V(l.v)); res = "ok"; break;
    case "getparam": res = vname(GETP()); break;
    case "prevent": res = String(Reflect.preventExtensions(A)); break;
    case "integrity": if (l.level === "sealed") Object.seal(A); else Object.freeze(A); res = "ok"; break;
    case "ownkeys": res = Reflect.ownKeys(A).map(String).indexOf("0") >= 0 ? "present" : "absent";
      if ((Object.keys(A).indexOf("0") >= 0) !== (res === "present" && Object.getOwnPropertyDescriptor(A, "0").enumerable)) res = "Object.keys disagrees";
      break;
    default: throw new Error("unknown op " + l.op);
    }
  } catch (e) {
    if (e instanceof TypeError) res = "TypeError"; else throw e;
  }
  return {res: res, obs: obs()};
}
