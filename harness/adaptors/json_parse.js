var MODE = "parse";
