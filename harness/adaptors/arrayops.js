// Adaptor binding ArrayOps.tla to real arrays (property C07, Array.prototype methods).
// Prelude: var CFG = {cap: 3, twin: "dense" | "sparse" | "s2d", pkind: "none" | "obj" | "AP", pidx: 99 | index}
//   dense  : an ordinary array literal
//   sparse : forced into sparseArrayObject storage (a[5000] = 1; a.length = 0), verified white-box before and after every step
//   s2d    : a dense array that has been sparse before (values slice with capacity > 1100: the in-place paths of splice / unshift)
// Tokens of the model <-> values: "u" undefined, a1 a2 b1 p = objects {k, id} whose toString gives the sort key,
// "r" = the nested array [b1, <hole>, undefined] with toString "r", "hole" = no own property.
// (The white-box natives are optional so that the same file can be run under another engine as a second opinion on the model.)
var A, LOG = [], CAP, CALLS = 0;
var WHITEBOX = typeof __selfKind === "function";
function mkTok(k, id) { var o = {k: k, id: id}; Object.defineProperty(o, "toString", {value: function() { return this.k; }}); return o; }
var TOK, NAMES;
function mkTokens() {
  TOK = {a1: mkTok("a", 1), a2: mkTok("a", 2), b1: mkTok("b", 1), p: mkTok("p", 1)};
  var r = [TOK.b1, , undefined];
  Object.defineProperty(r, "toString", {value: function() { return "r"; }});
  Object.defineProperty(r, "k", {value: "r"});
  Object.defineProperty(r, "id", {value: 1});
  TOK.r = r;
  NAMES = ["a1", "a2", "b1", "p", "r"];
}
function V(t) { if (t === "u") return undefined; if (!(t in TOK)) throw new Error("bad token " + t); return TOK[t]; }
function nm(v) {
  if (v === undefined) return "u";
  for (var i = 0; i < NAMES.length; i++) if (TOK[NAMES[i]] === v) return NAMES[i];
  if (typeof v === "string" || typeof v === "number") return v;
  if (typeof v === "boolean") return v ? "true" : "false";
  return "?" + Object.prototype.toString.call(v);
}
var hop = Object.prototype.hasOwnProperty;
// a result array as a list of tokens with hole marks (never exported with holes: Array.prototype may carry an element)
function lst(r, self) {
  if (!Array.isArray(r)) return "?not an array: " + nm(r);
  if (self !== true && r === A) return "?the receiver itself";
  if (Object.getPrototypeOf(r) !== Array.prototype) return "?result prototype";
  var out = [], n = r.length;
  if (n > 200) return "?length " + n;
  for (var i = 0; i < n; i++) out.push(hop.call(r, i) ? nm(r[i]) : "hole");
  var ks = Object.keys(r);
  for (var j = 0; j < ks.length; j++) if (!(Number(ks[j]) < n)) return "?stray key " + ks[j];
  return out;
}
function kindOK() {
  if (!WHITEBOX) return "";
  var k = __selfKind(A);
  if (CFG.twin === "sparse") return k === "sparse" ? "" : "sparse twin is stored as " + k;
  return k === "array" ? "" : "dense twin is stored as " + k;
}
function obs() {
  var el = [], present = [];
  var ko = kindOK();
  if (ko) return {err: ko};
  for (var i = 0; i < CAP; i++) {
    var own = hop.call(A, i);
    var d = Object.getOwnPropertyDescriptor(A, String(i));
    if (own !== (d !== undefined)) return {err: "hasOwnProperty and getOwnPropertyDescriptor disagree at " + i};
    if (own) {
      if (!("value" in d) || d.value !== A[i]) return {err: "element " + i + " is not a plain data property"};
      if (d.enumerable !== true || d.writable !== (MODE !== "frozen") || d.configurable !== (MODE !== "frozen" && MODE !== "sealed"))
        return {err: "attributes of element " + i + ": " + JSON.stringify([d.writable, d.enumerable, d.configurable]) + " in mode " + MODE};
      present.push(String(i));
      el.push(nm(d.value));
    } else el.push("hole");
  }
  var keys = Reflect.ownKeys(A), want = present.concat(["length"]);
  if (keys.length !== want.length) return {err: "own keys " + keys.join() + " want " + want.join()};
  for (var j = 0; j < keys.length; j++) if (keys[j] !== want[j]) return {err: "own keys " + keys.join() + " want " + want.join()};
  var ek = Object.keys(A);
  if (ek.join() !== present.join()) return {err: "Object.keys " + ek.join() + " want " + present.join()};
  var ld = Object.getOwnPropertyDescriptor(A, "length");
  if (ld.value !== A.length || ld.enumerable || ld.configurable) return {err: "length descriptor inconsistent"};
  if (ld.writable !== (MODE !== "lenRO" && MODE !== "frozen")) return {err: "length writable = " + ld.writable + " in mode " + MODE};
  if (Object.isExtensible(A) !== (MODE === "norm" || MODE === "lenRO")) return {err: "extensible = " + Object.isExtensible(A) + " in mode " + MODE};
  if (!Array.isArray(A)) return {err: "not an array any more"};
  var c = WHITEBOX ? __arrCounters(A) : null;
  if (c && c.length !== undefined && c.length !== A.length) return {err: "internal length " + c.length};
  return {len: A.length, el: el, mode: MODE};
}
var MODE;
function mkArray(twin, spare) {
  var a = [];
  if (twin === "sparse" || twin === "s2d") {
    a[5000 + (spare || 0)] = 1;
    if (WHITEBOX && __selfKind(a) !== "sparse") throw new Error("could not force sparse storage: " + __selfKind(a));
    if (twin === "s2d") {
      for (var i = 0; i <= 1100; i++) a[i] = 0;
      if (WHITEBOX && __selfKind(a) !== "array") throw new Error("could not force sparse->dense: " + __selfKind(a));
    }
    a.length = 0;
    if (WHITEBOX && twin === "sparse" && __selfKind(a) !== "sparse") throw new Error("sparse twin became " + __selfKind(a));
  }
  return a;
}
function reset() {
  CAP = CFG.cap; LOG = []; MODE = "norm";
  mkTokens();
  A = mkArray(CFG.twin);
  if (CFG.pkind === "obj") {
    var p = Object.create(Array.prototype);
    p[CFG.pidx] = TOK.p;
    Object.setPrototypeOf(A, p);
  } else if (CFG.pkind === "AP") {
    Array.prototype[CFG.pidx] = TOK.p;      // (a fresh Runtime per tour)
  }
  return obs();
}
function cls(e) {
  if (e === THROWN) return "throw";
  return e instanceof TypeError ? "TypeError" : e instanceof RangeError ? "RangeError" : "ERR " + e;
}
var THROWN = {thrown: true};
function opt(x) { return x === 99 || x === 98 ? undefined : x; }
// call f with the arguments up to the last one that is present (99 = absent)
function callTrim(f, args) {
  var n = args.length;
  while (n > 0 && args[n - 1] === 99) n--;
  var a = [];
  for (var i = 0; i < n; i++) a.push(opt(args[i]));
  return f.apply(A, a);
}
function key(x) { return x.k; }
function rank(x) { return x.k + x.id; }
function mkCmp(c, n) {
  CALLS = 0;
  switch (c) {
  case "dflt": return undefined;
  case "asc": return function(x, y) { CALLS++; return key(x) < key(y) ? -1 : key(x) > key(y) ? 1 : 0; };
  case "desc": return function(x, y) { CALLS++; return key(x) < key(y) ? 1 : key(x) > key(y) ? -1 : 0; };
  case "nz": return function(x, y) { CALLS++; return key(x) < key(y) ? -1 : key(x) > key(y) ? 1 : -0; };
  case "total": return function(x, y) { return rank(x) < rank(y) ? -1 : rank(x) > rank(y) ? 1 : 0; };
  case "incons": return function(x, y) { CALLS++; return 1; };
  case "throw": return function(x, y) { if (++CALLS === n) throw THROWN; return key(x) < key(y) ? -1 : key(x) > key(y) ? 1 : 0; };
  }
  throw new Error("comparator " + c);
}
function mkCallback(l, reduce) {
  var fx = l.fx, calls = 0;
  function effect(arr) {
    calls++;
    if (fx.k === "throw") { if (calls === fx.n) throw THROWN; return; }
    if (calls !== 1) return;
    if (fx.k === "del") delete arr[fx.n];
    else if (fx.k === "trunc") arr.length = fx.n;
    else if (fx.k === "push") arr.push(TOK.b1);
  }
  function ret(v) {
    switch (l.op) {
    case "map": return v === TOK.a1 ? TOK.b1 : v === TOK.b1 ? TOK.a1 : v;
    case "forEach": return undefined;
    default: return l.pr === "isA" ? (v === TOK.a1 || v === TOK.a2) : v === undefined;
    }
  }
  if (reduce) return function(acc, v, k, arr) {
    if (arr !== A || arguments.length !== 4) LOG.push({bad: "callback protocol"});
    LOG.push({acc: nm(acc), v: nm(v), k: k});
    effect(arr);
    return nm(acc) + "," + nm(v);
  };
  return function(v, k, arr) {
    if (arr !== A || arguments.length !== 3) LOG.push({bad: "callback protocol"});
    LOG.push({v: nm(v), k: k});
    effect(arr);
    return ret(v);
  };
}
// the relation an inconsistent comparator must still satisfy
function isPerm(before, after, skipHoles) {
  if (before.length !== after.length) return "length";
  var b = before.filter(function(t) { return t !== "hole"; }), h = before.length - b.length;
  if (!skipHoles) { b = b.concat(before.filter(function(t) { return t === "hole"; }).map(function() { return "u"; })); h = 0; }
  var a = after.slice(0, b.length);
  for (var i = b.length; i < after.length; i++) if (after[i] !== "hole") return "holes not last";
  var seenU = false;
  for (var j = 0; j < a.length; j++) { if (a[j] === "hole") return "hole inside"; if (a[j] === "u") seenU = true; else if (seenU) return "undefined not last"; }
  if (a.slice().sort().join() !== b.slice().sort().join()) return "not a permutation";
  return "";
}
// the array as HasProperty / Get see it
function seen() {
  var out = [];
  for (var i = 0; i < A.length; i++) out.push(i in A ? nm(A[i]) : "hole");
  return out;
}
function bigBuild(input) {
  var b = mkArray(CFG.twin, input.length), objs = [];
  for (var i = 0; i < input.length; i++) {
    var it = input[i];
    if (it.k === "hole") continue;
    b[i] = it.k === "u" ? undefined : mkTok(it.k, it.id);
  }
  b.length = input.length;
  var want = CFG.twin === "sparse" ? "sparse" : "array";
  if (WHITEBOX && __selfKind(b) !== want) throw new Error("big array is stored as " + __selfKind(b));
  return b;
}
function bigRead(b) {
  var out = [];
  for (var i = 0; i < b.length; i++) {
    if (!hop.call(b, i)) out.push({k: "hole", id: 0});
    else if (b[i] === undefined) out.push({k: "u", id: 0});
    else out.push({k: b[i].k, id: b[i].id});
  }
  return out;
}
function self(r, v) { return r === A ? v : "?does not return the receiver"; }
function step(l) {
  var res, P = Array.prototype, r;
  LOG = [];
  var ko = kindOK();
  if (ko) return {res: "?" + ko, obs: obs()};
  try {
    switch (l.op) {
    case "set": A[l.i] = V(l.v); res = "ok"; break;
    case "del": delete A[l.i]; res = "ok"; break;
    case "setlen": A.length = l.n; res = "ok"; break;
    case "lock":
      if (l.m === "lenRO") Object.defineProperty(A, "length", {writable: false});
      else if (l.m === "noext") Object.preventExtensions(A);
      else if (l.m === "sealed") Object.seal(A);
      else if (l.m === "frozen") Object.freeze(A);
      else throw new Error("mode " + l.m);
      MODE = l.m; res = "ok"; break;
    case "push": res = P.push.apply(A, l.items.map(V)); break;
    case "pop": res = nm(A.pop()); break;
    case "shift": res = nm(A.shift()); break;
    case "unshift": res = P.unshift.apply(A, l.items.map(V)); break;
    case "splice":
    case "toSpliced":
      var sargs = l.s === 99 ? [] : l.dc === 99 ? [l.s] : [l.s, l.dc].concat(l.items.map(V));
      res = lst(P[l.op].apply(A, sargs)); break;
    case "slice": res = lst(callTrim(P.slice, [l.s, l.e])); break;
    case "concat": res = lst(P.concat.apply(A, l.args.map(V))); break;
    case "reverse": res = self(A.reverse(), "this"); break;
    case "fill": res = self(callTrim(P.fill, [l.v === "u" ? 98 : V(l.v), l.s, l.e]), "this"); break;
    case "copyWithin": res = self(callTrim(P.copyWithin, [l.t, l.s, l.e]), "this"); break;
    case "indexOf": res = callTrim(P.indexOf, [V(l.x) === undefined ? 98 : V(l.x), l.from]); break;
    case "lastIndexOf": res = callTrim(P.lastIndexOf, [V(l.x) === undefined ? 98 : V(l.x), l.from]); break;
    case "includes": res = nm(callTrim(P.includes, [V(l.x) === undefined ? 98 : V(l.x), l.from])); break;
    case "join": res = l.sep === 99 ? A.join() : A.join("-"); break;
    case "at": res = nm(A.at(l.i)); break;
    case "with": res = lst(A.with(l.i, V(l.v))); break;
    case "toReversed": res = lst(A.toReversed()); break;
    case "flat": res = lst(l.d === 99 ? A.flat() : A.flat(l.d)); break;
    case "keys": res = Array.from(A.keys()); break;
    case "values":
      var it = A.values(), sp = [], n1;
      while (!(n1 = it.next()).done) sp.push(nm(n1.value));
      var sp2 = lst(Array.from(A));
      res = JSON.stringify(sp) === JSON.stringify(sp2) ? sp : "?values() and Array.from disagree";
      break;
    case "entries":
      res = [];
      for (var en = A.entries(), n2; !(n2 = en.next()).done;) res.push([n2.value[0], nm(n2.value[1])]);
      break;
    case "sort":
      r = A.sort(mkCmp(l.c, l.n));
      res = self(r, "this"); break;
    case "toSorted": res = lst(A.toSorted(mkCmp(l.c, l.n))); break;
    case "sortIncons":
      var before = seen();
      r = A.sort(mkCmp("incons"));
      var after = obs();
      var why = after.err || isPerm(before, after.el.slice(0, after.len), true);
      if (!why) { var ts = lst(A.toSorted(mkCmp("incons"))); why = typeof ts === "string" ? ts : isPerm(seen(), ts, false); }
      A.sort(mkCmp("total"));
      res = why ? "?" + why : self(r, "perm"); break;
    case "bigsort":
      var big = bigBuild(l.input);
      var b2 = big.sort(mkCmp(l.c));
      if (b2 !== big) { res = "?does not return the receiver"; break; }
      res = bigRead(big);
      // the copying variant must agree once holes are read as undefined
      var big3 = bigBuild(l.input).toSorted(mkCmp(l.c)), e3 = bigRead(big3);
      var k3 = 0, ok3 = e3.length === res.length;
      for (var q = 0; ok3 && q < res.length; q++) {
        var w = res[q].k === "hole" ? {k: "u", id: 0} : res[q];
        if (e3[q].k !== w.k || e3[q].id !== w.id) ok3 = false;
      }
      if (!ok3) res = {toSorted: e3, sort: res};
      break;
    case "forEach": case "map": case "filter": case "some": case "every":
    case "find": case "findIndex": case "findLast": case "findLastIndex":
      try {
        r = P[l.op].call(A, mkCallback(l, false));
        res = {r: (l.op === "map" || l.op === "filter") ? lst(r) : nm(r), calls: LOG};
      } catch (e) { var c1 = cls(e); if (c1.indexOf("ERR") === 0) throw e; res = {r: c1, calls: LOG}; }
      break;
    case "reduce": case "reduceRight":
      try {
        r = l.init === "true" ? P[l.op].call(A, mkCallback(l, true), "i") : P[l.op].call(A, mkCallback(l, true));
        res = {r: nm(r), calls: LOG};
      } catch (e) { var c2 = cls(e); if (c2.indexOf("ERR") === 0) throw e; res = {r: c2, calls: LOG}; }
      break;
    default: throw new Error("unknown op " + l.op);
    }
  } catch (e) {
    var c = cls(e);
    if (c.indexOf("ERR") === 0) throw e;
    res = c;
  }
  return {res: res, obs: obs()};
}

// ---- storage-switch differential (supplement to the model replay) ----------------------------------------------------------
// The dense<->sparse switch in the MIDDLE of one method call needs >= 1024 live elements (sparse -> dense) or an index > 4096
// (dense -> sparse), far beyond the model's bound.  Here the reference is the same generic algorithm applied to an ordinary
// array-like object holding the same properties (no array storage at all): for the mutating methods below, which delete
// explicitly before they set length, ECMA-262 gives an array and an array-like the same own index properties, length and
// result.  Every case records white-box whether the storage kind really changed during the call.
function switchFamily(seed) {
  var T = [], out = {cases: 0, switched: 0, mismatches: []};
  for (var i = 0; i < 1200; i++) T.push({id: i});
  var X = {id: "x"}, Y = {id: "y"}, Z = {id: "z"}, Wv = {id: "w"};
  var h1 = 3 + seed % 7, h2 = 500 + (seed * 37) % 500;
  function fillFrom(o, n, holes) { for (var i = 0; i < n; i++) if (holes.indexOf(i) < 0) o[i] = T[i]; }
  var subjects = {
    // sparse array with 1100 positions (two of them holes): the next NEW element switches it to dense storage
    sparseLive: function(ref) {
      if (ref) { var o = {}; fillFrom(o, 1100, [h1, h2]); o.length = 1100; return o; }
      var a = []; a[20000] = 1; fillFrom(a, 1100, [h1, h2]); a.length = 1100; return a;
    },
    // dense array with 3 elements and length 6000: the next element stored beyond index 4096 switches it to sparse storage
    denseLong: function(ref) {
      if (ref) { var o = {}; fillFrom(o, 3, []); o.length = 6000; return o; }
      var a = []; fillFrom(a, 3, []); a.length = 6000; return a;
    }
  };
  var byIdDesc = function(x, y) { return y.id - x.id; };
  var ops = {
    sparseLive: [["push", [X, Y, Z]], ["unshift", [X, Y]], ["splice", [10, 0, X, Y]], ["splice", [h1 - 1, 2, X, Y, Z, Wv]], ["reverse", []],
                 ["copyWithin", [h1, 10, 12]], ["fill", [X, h1 - 1, h1 + 2]], ["sort", [byIdDesc]], ["shift", []], ["splice", [h2, 0, X]],
                 ["copyWithin", [h2 - 1, 0, 3]]],
    denseLong: [["push", [X]], ["reverse", []], ["copyWithin", [5000 + seed % 900, 0, 3]], ["fill", [X, 5990]], ["splice", [5990, 0, X]],
                ["splice", [5000, 10, X, Y]], ["copyWithin", [-2, 0, 2]], ["fill", [Y, -3, -1]]]
  };
  function snap(x) {
    var ks = Object.keys(x).filter(function(k) { return /^\d+$/.test(k); }), s = [];
    for (var i = 0; i < ks.length; i++) s.push(ks[i] + ":" + (x[ks[i]] === undefined ? "u" : x[ks[i]].id));
    return x.length + "|" + s.join(",");
  }
  function resOf(r, x) {
    if (r === x) return "this";
    if (Array.isArray(r)) { var l = []; for (var i = 0; i < r.length; i++) l.push(hop.call(r, i) ? (r[i] === undefined ? "u" : r[i].id) : "hole"); return "[" + l.join(",") + "]"; }
    return r === undefined ? "u" : typeof r === "object" ? "obj " + r.id : String(r);
  }
  for (var sname in subjects) {
    for (var oi = 0; oi < ops[sname].length; oi++) {
      var op = ops[sname][oi], a = subjects[sname](false), o = subjects[sname](true);
      var before = WHITEBOX ? __selfKind(a) : "?", ra, ro;
      try { ra = resOf(Array.prototype[op[0]].apply(a, op[1]), a); } catch (e) { ra = "throws " + e; }
      try { ro = resOf(Array.prototype[op[0]].apply(o, op[1]), o); } catch (e) { ro = "throws " + e; }
      var after = WHITEBOX ? __selfKind(a) : "?";
      out.cases++;
      if (before !== after) out.switched++;
      var sa = snap(a), so = snap(o);
      if (ra !== ro || sa !== so) {
        var at = 0; while (at < sa.length && sa[at] === so[at]) at++;
        out.mismatches.push({subject: sname, op: op[0], index: oi, seed: seed, kinds: before + "->" + after, result_array: ra.slice(0, 200), result_reference: ro.slice(0, 200),
                             first_difference: "array ..." + sa.slice(Math.max(0, at - 30), at + 60) + " / array-like ..." + so.slice(Math.max(0, at - 30), at + 60)});
      }
    }
  }
  return out;
}
