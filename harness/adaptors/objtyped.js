// Adaptor binding ObjTyped.tla: a Uint8Array(2) with every model key also present on its (private) prototype.
var KEY = {i0: "0", i1: "1", oob: "5", negz: "-0", frac: "1.5", nan: "NaN", lead0: "01"};
var T, BUF, PROTO = "proto";
function reset() {
  BUF = __mkBuffer ? new ArrayBuffer(2) : new ArrayBuffer(2);
  T = new Uint8Array(BUF);
  var p = Object.create(Uint8Array.prototype);
  for (var k in KEY) Object.defineProperty(p, KEY[k], {value: PROTO, writable: true, enumerable: true, configurable: true});
  Object.setPrototypeOf(T, p);
  return obs();
}
function obs() {
  var det = false;
  try { det = T.byteLength === 0 && BUF.byteLength === 0; } catch (e) { det = true; }
  var ord = Object.prototype.hasOwnProperty.call(T, "01") ? (T["01"] === 1 ? "v1" : T["01"] === 2 ? "v2" : "?" + T["01"]) : "absent";
  return {el: det ? LAST : [T[0], T[1]], det: det ? "T" : "F", ord: ord, ext: Object.isExtensible(T) ? "T" : "F"};
}
var LAST = [0, 0];
function desc(d) {
  var o = {};
  if (d.v !== 0) o.value = d.v;
  if (d.w !== "-") o.writable = d.w === "T";
  if (d.e !== "-") o.enumerable = d.e === "T";
  if (d.c !== "-") o.configurable = d.c === "T";
  if (d.g === "T") o.get = function() { return 9; };
  return o;
}
function tf(b) { return b ? "T" : "F"; }
function step(l) {
  var k = l.k === undefined ? undefined : KEY[l.k], res, extra;
  try {
    switch (l.op) {
    case "define":
      if (l.via === "refl") res = String(Reflect.defineProperty(T, k, desc(l.d)));
      else { Object.defineProperty(T, k, desc(l.d)); res = "true"; }
      break;
    case "getown":
      var d = Object.getOwnPropertyDescriptor(T, k), d2 = Reflect.getOwnPropertyDescriptor(T, k);
      if ((d === undefined) !== (d2 === undefined)) throw new Error("Object / Reflect getOwnPropertyDescriptor disagree");
      if (d === undefined) res = Object.prototype.hasOwnProperty.call(T, k) ? "hasOwnProperty without descriptor" : "undefined";
      else if ("get" in d || "set" in d) res = "accessor";
      else res = {v: l.k === "lead0" ? (d.value === 1 ? "v1" : d.value === 2 ? "v2" : "?") : d.value, w: tf(d.writable), e: tf(d.enumerable), c: tf(d.configurable)};
      break;
    case "has":
      res = String(Reflect.has(T, k));
      if ((k in T) !== (res === "true")) res = "in / Reflect.has disagree";
      break;
    case "get":
      var v = l.via === "refl" ? Reflect.get(T, k) : T[k];
      res = v === undefined ? "undefined" : v === PROTO ? "proto" : l.k === "lead0" ? (v === 1 ? "v1" : v === 2 ? "v2" : "?") : v;
      break;
    case "set":
      var other = {};
      if (l.via === "refl") res = String(Reflect.set(T, k, l.v, l.recv === "self" ? T : other));
      else if (l.via === "strict") { (function() { "use strict"; T[k] = l.v; })(); res = "true"; }
      else { T[k] = l.v; res = "true"; if (l.k === "lead0" && !Object.prototype.hasOwnProperty.call(T, "01")) res = "false"; }
      extra = Object.prototype.hasOwnProperty.call(other, k) ? other[k] : 0;
      break;
    case "delete":
      if (l.via === "refl") res = String(Reflect.deleteProperty(T, k));
      else if (l.via === "strict") res = String((function() { "use strict"; return delete T[k]; })());
      else res = String(delete T[k]);
      break;
    case "ownkeys":
      res = Reflect.ownKeys(T).map(String);
      var ks = Object.keys(T);
      if (JSON.stringify(ks) !== JSON.stringify(res)) res = "Reflect.ownKeys " + JSON.stringify(res) + " vs Object.keys " + JSON.stringify(ks);
      break;
    case "prevent": res = String(Reflect.preventExtensions(T)); break;
    case "integrity": if (l.level === "sealed") Object.seal(T); else Object.freeze(T); res = "ok"; break;
    case "test": res = String(l.level === "sealed" ? Object.isSealed(T) : Object.isFrozen(T)); break;
    case "detach": LAST = [T[0], T[1]]; __detach(BUF); res = "ok"; break;
    default: throw new Error("unknown op " + l.op);
    }
  } catch (e) {
    if (e instanceof TypeError) res = "TypeError"; else throw e;
  }
  if (l.op !== "detach" && T.byteLength !== 0) LAST = [T[0], T[1]];
  if (l.op === "set") return {res: {r: res, other: extra === undefined ? 0 : extra}, obs: obs()};
  return {res: res, obs: obs()};
}
