// Adaptor binding Bridge.tla (C13): one fresh Go container behind a wrapper (natives/bridge.go), up to NH element
// wrappers kept by script, Go-side reads / writes of the very same value.  A prefix file written by lib/checks/c13.py
// defines KIND, LEN0, CAP0, NH and LEAN (observe through the Go side only, so that the wrapper's caches hold nothing but
// what the operations themselves put there).
"use strict";
var IS_GRAPH = KIND === "graph";            // no container: Export() of script-built object graphs only
var IS_MAP = KIND === "msi" || KIND === "msp" || KIND === "mss";
var IS_S = KIND === "ss" || KIND === "pss" || KIND === "fss" || KIND === "arr" || KIND === "st";
var IS_TOK = KIND === "ifs" || KIND === "pifs" || KIND === "stp" || KIND === "pps";
var BYVAL = KIND === "ss" || KIND === "ifs";
var STRUCT = KIND === "st" || KIND === "stp";
var IS_ARR = !IS_MAP && !STRUCT;
var FN = KIND === "st" ? ["A", "B"] : ["P", "Q"];
var MK = ["a", "b", "c"];
var ABSENT = KIND === "msp" ? "-" : -1;
var SENT = 77;                       // sentinel written through a reference to find out what it aliases
var R, H, NOPS;

function A() { return KIND === "fss" ? R.L : R; }                      // the array wrapper (fss: st.L read afresh)
function cellGet(i) { return STRUCT ? R[FN[i]] : A()[i]; }
function cellSet(i, v) { if (STRUCT) R[FN[i]] = v; else A()[i] = v; }
function P(k) { return __brPtr(R, k); }
// token of a value read from an interface{} / pointer cell
function tok(x) {
  if (x === null) return "nil";
  if (typeof x === "number") return "i" + x;
  if (typeof x === "object") {
    if (x === P(1)) return "p1";
    if (x === P(2)) return "p2";
    return "p?{F:" + x.F + "}";                 // a Go object that is neither p1 nor p2 (same text as natives/bridge.go)
  }
  return typeof x + "?" + x;
}
function show(x) { return x === undefined ? "u" : (IS_S || KIND === "mss") ? x.F : KIND === "msi" ? x : tok(x); }
function val(v) {
  switch (v) {
  case "lit": return {F: 5};
  case "num": return 5;
  case "nil": return null;
  case "h1": return H[0];
  case "h2": return H[1];
  case "pp": return __brPP();
  }
  throw new Error("unknown value " + v);
}
function eq(a, b) { return JSON.stringify(a) === JSON.stringify(b); }
function goRead() { return __brGo(R, "read"); }

// ---- the script-visible cells, read in every way script can and required to agree ----
function scriptCells() {
  var i, out = [], k;
  if (IS_MAP) {
    var ks = Object.keys(R).sort(), fk = [], js = JSON.parse(JSON.stringify(R));
    for (k in R) fk.push(k);
    fk.sort();
    if (!eq(ks, fk)) return {err: "Object.keys " + ks + " vs for-in " + fk};
    if (!eq(Object.keys(js).sort(), ks)) return {err: "JSON.stringify keys " + Object.keys(js) + " vs " + ks};
    for (i = 0; i < ks.length; i++) if (MK.indexOf(ks[i]) < 0) return {err: "unexpected key " + ks[i]};
    for (i = 0; i < MK.length; i++) {
      k = MK[i];
      var has = k in R;
      if (has !== (ks.indexOf(k) >= 0) || has !== Object.prototype.hasOwnProperty.call(R, k)) return {err: "'in' / hasOwnProperty / keys disagree on " + k};
      var x = R[k];
      if (!has) { if (x !== undefined) return {err: "missing key " + k + " reads " + x}; out.push(ABSENT); continue; }
      out.push(show(x));
      var want = KIND === "msi" ? x : x === null ? null : {F: x.F};
      if (!eq(js[k], want)) return {err: "JSON.stringify shows " + JSON.stringify(js[k]) + " for key " + k + ", m[k] shows " + JSON.stringify(want)};
    }
    return {w: out};
  }
  if (STRUCT) {
    var keys = [];
    for (k in R) keys.push(k);
    if (!eq(keys, FN) || !eq(Object.keys(R), FN)) return {err: "struct keys " + keys};
    var sj = JSON.parse(JSON.stringify(R));
    for (i = 0; i < 2; i++) {
      var f = R[FN[i]];
      out.push(show(f));
      if (!eq(sj[FN[i]], f === null ? null : {F: f.F})) return {err: "JSON.stringify shows " + JSON.stringify(sj[FN[i]]) + " for field " + FN[i]};
    }
    return {w: out};
  }
  var a = A(), n = a.length;
  if (!Array.isArray(a)) return {err: "Array.isArray is false"};
  var kk = [];
  for (k in a) kk.push(k);
  var wantKeys = [];
  for (i = 0; i < n; i++) wantKeys.push(String(i));
  if (!eq(kk, wantKeys)) return {err: "for-in keys " + kk + " with length " + n};
  if (!eq(Object.keys(a), wantKeys)) return {err: "Object.keys " + Object.keys(a) + " with length " + n};
  if ((n in a) || a[n] !== undefined) return {err: "index = length is present"};
  var js2 = JSON.parse(JSON.stringify(a)), sp = [...a];
  if (js2.length !== n || sp.length !== n) return {err: "JSON.stringify / spread length " + js2.length + "/" + sp.length + " vs " + n};
  for (i = 0; i < n; i++) {
    if (!(i in a)) return {err: "index " + i + " below length is missing"};
    var e = a[i];
    out.push(show(e));
    if (show(sp[i]) !== show(e)) return {err: "spread shows " + show(sp[i]) + " at " + i + ", a[i] shows " + show(e)};
    var wj = (e === null) ? null : typeof e === "number" ? e : {F: e.F};
    if (!eq(js2[i], wj)) return {err: "JSON.stringify shows " + JSON.stringify(js2[i]) + " at " + i + ", a[i] shows " + JSON.stringify(wj)};
  }
  return {w: out};
}

// the host's cells as a sequence (maps: values of a, b, c)
function goCells() {
  var g = goRead();
  if (!IS_MAP) return g;
  return MK.map(function(k) { return Object.prototype.hasOwnProperty.call(g, k) ? g[k] : ABSENT; });
}

// where a write through the holder lands: slot i of the container, Go object k, or a detached copy (shared with which holders)
function probe(j, cellsNow, lean) {
  var h = H[j];
  if (h === null) return {at: "none", f: 0};
  var f = h.F;
  if (IS_TOK || KIND === "msp") {
    var t = tok(h);
    if (t !== "p1" && t !== "p2") return {at: t, f: f};
    return {at: t, f: f};
  }
  h.F = SENT;
  var at = null, i, seen;
  if (IS_MAP) seen = [];
  else if (lean) seen = goRead();
  else { seen = []; for (i = 0; i < cellsNow.length; i++) seen.push(cellGet(i).F); }
  for (i = 0; i < seen.length; i++) if (seen[i] === SENT) at = at === null ? "s" + i : at + "+s" + i;
  if (at === null) {
    for (i = 0; i < NH; i++) if (H[i] !== null && H[i].F === SENT) { at = "c" + (i + 1); break; }
  }
  h.F = f;
  return {at: at, f: f};
}

function obs() {
  if (IS_GRAPH) return {w: [], g: [], sh: "T", h: [], o: [1, 2], n: NOPS};
  var lean = LEAN && !BYVAL;
  var g = goCells(), sc;
  if (lean) sc = {w: g};
  else {
    sc = scriptCells();
    if (sc.err) return {err: sc.err};
  }
  var sh = "T";
  if (BYVAL && sc.w.length > 0 && g.length > 0) {
    // does the wrapper still use Go's backing array?  write cell 0 from the Go side, read it through the wrapper
    if (IS_S) {
      __brGo(R, "setF", 0, SENT);
      sh = A()[0].F === SENT ? "T" : "F";
      __brGo(R, "setF", 0, g[0]);
    } else {
      __brGo(R, "set", 0, "i" + SENT);
      sh = A()[0] === SENT ? "T" : "F";
      __brGo(R, "set", 0, g[0]);
    }
  }
  var hs = [];
  for (var j = 0; j < NH; j++) hs.push(probe(j, sc.w, lean));
  var same = __brGo(R, "same", sh === "T", sc.w.length);
  if (same !== "ok") return {err: "round trip: " + same};
  return {w: sc.w, g: g, sh: sh, h: hs, o: __brGo(R, "objs"), n: NOPS};
}

function fresh() {
  R = IS_GRAPH ? null : __brNew(KIND, LEN0, CAP0);
  H = [];
  for (var j = 0; j < NH; j++) H.push(null);
}
function reset() { fresh(); NOPS = 0; return obs(); }

function cmp(dir) {
  return dir === "asc" ? function(x, y) { return x.F - y.F; } : function(x, y) { return y.F - x.F; };
}
function elem() { return IS_S ? {F: 5} : (KIND === "pps" || KIND === "stp") ? P(2) : 5; }
function key(x) { return x === undefined || x === null ? 0 : typeof x === "number" ? x : x.F; }

// operations whose callbacks restructure the container in the middle: any script-level outcome is fine, a Go panic is not
function hostile(m) {
  var a = IS_ARR ? A() : R, n = 0;
  var shrink = function(to) { return {valueOf: function() { a.length = to; return 0; }, toString: function() { a.length = to; return ","; }}; };
  try {
    switch (m) {
    case "sortShrink": a.sort(function(x, y) { a.length = 1; return key(y) - key(x); }); break;
    case "sortGrow": a.sort(function(x, y) { if (n++ < 3) a.push(elem()); return key(y) - key(x); }); break;
    case "sortClear": a.sort(function(x, y) { a.length = 0; return key(y) - key(x); }); break;
    case "sortAssign": a.sort(function(x, y) { a[0] = elem(); return key(y) - key(x); }); break;
    case "forEachPop": a.forEach(function() { a.pop(); }); break;
    case "mapShift": a.map(function(x) { a.shift(); return x; }); break;
    case "fillValueOf": a.fill(elem(), shrink(0)); break;
    case "spliceValueOf": a.splice(shrink(0), 1, elem()); break;
    case "copyWithinValueOf": a.copyWithin(0, {valueOf: function() { a.length = 1; return 1; }}); break;
    case "includesShrink": a.includes(elem(), shrink(0)); a.indexOf(elem(), shrink(0)); a.lastIndexOf(elem(), shrink(0)); break;
    case "iterShrink": for (var x of a) { a.length = 0; } for (var e of a.entries()) { a.length = 0; } break;
    case "joinShrink": a.join(shrink(0)); break;
    case "reduceGrow": a.reduce(function(acc, x) { a.push(elem()); return acc; }, 0); a.reduceRight(function(acc, x) { a.length = 0; return acc; }, 0); break;
    case "lengthValueOf": a.length = {valueOf: function() { a.length = 0; return 2; }}; break;
    case "setterShrink":
      if (IS_S) a[1] = {get F() { a.length = 0; return 3; }};
      else a[{toString: function() { a.length = 0; return "1"; }}] = elem();       // (the key coercion shrinks)
      break;
    case "flatGrow": a.flatMap(function(x) { a.push(elem()); a.unshift(elem()); return [x]; }); break;
    case "assignSelf":
      try { R[FN[0]] = R; } catch (e1) { if (!(e1 instanceof TypeError)) throw e1; }
      if (KIND === "st") R.A = {get F() { R.A = {F: 1}; R.B = {F: 3}; return 2; }};
      else R.P = {get F() { R.P = null; return 2; }};
      break;
    case "forInDelete": for (var k in a) { for (var q = 0; q < 3; q++) delete a[MK[q]]; } break;
    case "forInAdd": for (var k2 in a) { if (n++ < 5) a["z" + n] = a[k2]; } break;
    case "keysDuringSet":
      var src = a.a;
      a.c = (KIND === "msi") ? {valueOf: function() { delete a.c; delete a.a; return 4; }}
          : (KIND === "mss") ? {get F() { delete a.c; delete a.a; return 4; }} : src;
      Object.keys(a); break;
    default: throw new Error("unknown hostile op " + m);
    }
  } catch (e) {
    if (!(e instanceof TypeError) && !(e instanceof RangeError)) throw e;
  }
  // the wrapper must still be usable and, for a container shared by reference, both sides must see the same cells
  if (IS_MAP) {
    var gm = goRead(), km = Object.keys(a).sort();
    if (!eq(km, Object.keys(gm).sort())) return "incoherent: script keys " + km + ", Go keys " + Object.keys(gm).sort();
    for (var i = 0; i < km.length; i++) if (show(a[km[i]]) !== gm[km[i]]) return "incoherent at key " + km[i];
  } else {
    var sc = scriptCells();
    if (sc.err) return "incoherent: " + sc.err;
    if (!BYVAL && !eq(sc.w, goRead())) return "incoherent: script sees " + JSON.stringify(sc.w) + ", Go sees " + JSON.stringify(goRead());
  }
  var same = __brGo(R, "same", false, IS_ARR ? a.length : 0);
  if (same !== "ok") return "round trip: " + same;
  return "no-panic";
}

function step(l) {
  var res, a, r, j = l.j === undefined ? -1 : l.j - 1;
  NOPS++;
  try {
    switch (l.op) {
    case "get": res = show(cellGet(l.i)); break;
    case "set": cellSet(l.i, val(l.v)); res = "ok"; break;
    case "setF": cellGet(l.i).F = l.n; res = "ok"; break;
    case "del":
      if (STRUCT) r = delete R[FN[l.i]]; else r = delete A()[l.i];
      if (r !== true) throw new Error("delete returned " + r);
      res = "ok"; break;
    case "len": A().length = l.n; res = "ok"; break;
    case "lendef": Object.defineProperty(A(), "length", l.ro === "T" ? {value: l.n, writable: false} : {value: l.n}); res = "ok"; break;
    case "push": res = A().push(val(l.v)); break;
    case "pop": res = show(A().pop()); break;
    case "shift": res = show(A().shift()); break;
    case "unshift": res = A().unshift(val(l.v)); break;
    case "reverse": a = A(); if (a.reverse() !== a) throw new Error("reverse must return the array"); res = "ok"; break;
    case "fill": a = A(); r = l.e === 99 ? a.fill(val(l.v), l.s) : a.fill(val(l.v), l.s, l.e); if (r !== a) throw new Error("fill must return the array"); res = "ok"; break;
    case "copyWithin": a = A(); r = l.e === 99 ? a.copyWithin(l.t, l.s) : a.copyWithin(l.t, l.s, l.e); if (r !== a) throw new Error("copyWithin must return the array"); res = "ok"; break;
    case "splice":
      a = A();
      r = a.splice.apply(a, [l.s, l.d].concat(l.v.map(val)));
      if (!Array.isArray(r) || r === a) throw new Error("splice must return a new array");
      res = r.map(show); break;
    case "sort": a = A(); if (a.sort(cmp(l.d)) !== a) throw new Error("sort must return the array"); res = "ok"; break;
    case "hold": H[j] = cellGet(l.i); res = "ok"; break;
    case "drop": H[j] = null; res = "ok"; break;
    case "hsetF": H[j].F = l.n; res = "ok"; break;
    case "goSetF": __brGo(R, "setF", l.i, l.n); res = "ok"; break;
    case "goSet": __brGo(R, "set", l.i, l.x); res = "ok"; break;
    case "goObjF": __brGo(R, "objF", l.k, l.n); res = "ok"; break;
    case "goAppend": __brGo(R, "append", l.x); for (r = 0; r < NH; r++) H[r] = null; res = "ok"; break;
    case "mget": res = show(R[MK[l.k - 1]]); break;
    case "mset": R[MK[l.k - 1]] = val(l.v); res = "ok"; break;
    case "msetF": R[MK[l.k - 1]].F = l.n; res = "ok"; break;
    case "mdel": if (delete R[MK[l.k - 1]] !== true) throw new Error("delete returned false"); res = "ok"; break;
    case "mhold": H[j] = R[MK[l.k - 1]]; res = "ok"; break;
    case "goPut": __brGo(R, "set", MK[l.k - 1], KIND === "msp" ? l.x : l.x); res = "ok"; break;
    case "goDel": __brGo(R, "del", MK[l.k - 1]); res = "ok"; break;
    case "hostile": res = hostile(l.m); fresh(); break;
    case "graph":
      // build the described object graph (node = {} or [], children in order), Export() it once, describe what Go got
      var nodes = l.g.map(function(n) { return n.k === "obj" ? {} : []; });
      l.g.forEach(function(n, i) {
        n.ch.forEach(function(c) {
          var v = c.to === 0 ? c.val : nodes[c.to - 1];
          if (n.k === "obj") nodes[i][c.key] = v; else nodes[i].push(v);
        });
      });
      res = __brGraph(nodes[0]); break;
    case "graphTo":
      var tn = l.g.map(function() { return {}; });
      l.g.forEach(function(n, i) { n.ch.forEach(function(c) { tn[i][c.key] = c.to === 0 ? c.val : tn[c.to - 1]; }); });
      res = __brGraphTo(tn[0]); break;
    default: throw new Error("unknown op " + l.op);
    }
  } catch (e) {
    if (!(e instanceof TypeError)) throw e;
    res = "TypeError";
  }
  return {res: res, obs: obs()};
}
