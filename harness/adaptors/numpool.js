// Adaptor binding NumPool.tla: two registers holding numbers computed on the real engine.
var A, B;
function render(x) {
  if (x !== x) return "NaN";
  if (x === Infinity) return "Infinity";
  if (x === -Infinity) return "-Infinity";
  if (x === 0) return 1 / x < 0 ? "-0" : "0";
  return String(x);
}
function lit(v, form) {
  switch (v) {
  case "NaN": return form === 0 ? NaN : form === 1 ? 0 / zero() : Number("x");
  case "Infinity": return form === 0 ? Infinity : form === 1 ? 1 / zero() : Math.pow(10, 400);
  case "-Infinity": return form === 0 ? -Infinity : form === 1 ? -1 / zero() : -Math.pow(10, 400);
  case "-0": return form === 0 ? -0 : form === 1 ? zero() * -1 : Math.round(-0.25);
  }
  if (form === 0) return (0, eval)(v);
  if (form === 1) return (0, eval)(v + "e0");
  return half(Number(v) * 2);       // computed through the float path
}
function zero() { return 0; }
function half(x) { return x / 2; }
var BIN = {
  add: function(x, y) { return x + y; }, sub: function(x, y) { return x - y; }, mul: function(x, y) { return x * y; },
  div: function(x, y) { return x / y; }, rem: function(x, y) { return x % y; },
  max: function(x, y) { return Math.max(x, y); }, min: function(x, y) { return Math.min(x, y); }
};
var UN = {
  neg: function(x) { return -x; }, inc: function(x) { return ++x; }, dec: function(x) { return --x; },
  postinc: function(x) { x++; return x; }, or0: function(x) { return x | 0; }, not2: function(x) { return ~~x; }, shl0: function(x) { return x << 0; },
  floor: Math.floor, ceil: Math.ceil, round: Math.round, trunc: Math.trunc, abs: Math.abs, sign: Math.sign,
  plus: function(x) { return +x; }, viastr: function(x) { return Number(String(x)); }, parsefloat: function(x) { return parseFloat(String(x)); },
  json: function(x) { return JSON.parse(JSON.stringify(x)); }, f64: function(x) { return new Float64Array([x])[0]; },
  i8: function(x) { return new Int8Array([x])[0]; }, sq: function(x) { return x ** 2; }, half: function(x) { return x / 2; }, dbl: function(x) { return x * 2; },
  addeq1: function(x) { x += 1; return x; }, subeq1: function(x) { x -= 1; return x; }, muleq1: function(x) { x *= 1; return x; },
  diveq1: function(x) { x /= 1; return x; }, compoundneg: function(x) { return -(-x); }
};
// every observer must answer as the abstract values prescribe
function observe(x, y, sx, sy, what) {
  var sv = sx === sy, zero = (sx === "0" || sx === "-0") && (sy === "0" || sy === "-0"), svz = sv || zero, strict = svz && sx !== "NaN";
  var errs = [];
  function chk(name, got, want) { if (got !== want) errs.push(what + ": " + name + " is " + got + ", must be " + want + " for " + sx + " vs " + sy + " [" + __tag(x) + "/" + __tag(y) + "]"); }
  chk("Object.is(x,y)", Object.is(x, y), sv);
  chk("Object.is(y,x)", Object.is(y, x), sv);
  chk("x===y", x === y, strict);
  chk("y===x", y === x, strict);
  chk("x==y", x == y, strict);
  var sw; switch (x) { case y: sw = true; break; default: sw = false; } chk("switch", sw, strict);
  chk("Map.get", new Map([[x, 1]]).get(y) === 1, svz);
  chk("Map.get rev", new Map([[y, 1]]).get(x) === 1, svz);
  chk("Set.has", new Set([x]).has(y), svz);
  chk("Set.has rev", new Set([y]).has(x), svz);
  chk("includes", [x].includes(y), svz);
  chk("indexOf", [x].indexOf(y) === 0, strict);
  chk("lastIndexOf", [y].lastIndexOf(x) === 0, strict);
  var o = {}; o[x] = 1; chk("property key", o[y] === 1, String(x) === String(y));
  chk("String", String(x) === String(y), sv || zero);
  chk("toFixed(2)", x.toFixed(2) === y.toFixed(2), sv || zero);
  chk("typed round trip", Object.is(new Float64Array([x])[0], new Float64Array([y])[0]), sv);
  return errs;
}
function obs() {
  var sa = render(A), sb = render(B);
  var errs = observe(A, B, sa, sb, "a/b")
    .concat(observe(A, lit(sa, 0), sa, sa, "a/literal"))
    .concat(observe(B, lit(sb, 0), sb, sb, "b/literal"))
    .concat(observe(A, lit(sa, 2), sa, sa, "a/computed"));
  if (errs.length) return {err: errs[0], n: errs.length};
  return {a: sa, b: sb};
}
function reset() { A = 0; B = 1; return obs(); }
function step(l) {
  if (l.op === "lit") { if (l.reg === "a") A = lit(l.v, l.form); else B = lit(l.v, l.form); }
  else if (l.op === "bin") { if (l.reg === "a") A = BIN[l.o](A, B); else B = BIN[l.o](B, A); }
  else if (l.op === "un") { if (l.reg === "a") A = UN[l.o](A); else B = UN[l.o](B); }
  else throw new Error("unknown op " + l.op);
  return {res: null, obs: obs()};
}
