// vmtrace runs scripts on the real engine built with the verif hooks and records the VM's control-state events
// (binding B): one ndjson trace with a "reset" line between executions, to be validated against VMTrace.tla.
// Fault injection: the script may call probe(); at the k-th call (k = fault position) the chosen fault is raised.
package main

import (
	"encoding/json"
	"errors"
	"flag"
	"fmt"
	"os"
	"strings"
	"sync"
	"time"

	"github.com/dop251/goja"
)

type job struct {
	Id       int    `json:"id"`
	Gen      int    `json:"gen"`
	Src      string `json:"src"`
	Fault    string `json:"fault"`    // "" | "throw" | "goerror" | "interrupt" | "depth" | "gopanic"
	At       int    `json:"at"`       // probe index (1-based) at which the fault is raised
	MaxDepth int    `json:"maxdepth"` // call-stack limit for fault "depth"
	After    string `json:"after"`    // script run on the same runtime after the (faulted) run
	Entry    string `json:"entry"`    // "" (AssertFunction) | "new" (Runtime.New)
	Pre      string `json:"pre"`      // "" | "idleint" (Interrupt while idle) | "idleintclear" (Interrupt + ClearInterrupt while idle)
	AsyncUs  int    `json:"async_us"` // > 0: another goroutine calls Interrupt after this many microseconds
}

type result struct {
	Id       int      `json:"id"`
	Events   int      `json:"events"`
	Probes   int      `json:"probes"`
	Outcome  string   `json:"outcome"`
	Err      string   `json:"err,omitempty"`
	Log      []int64  `json:"log"`
	AfterLog []string `json:"after_log"`
	AfterErr string   `json:"after_err,omitempty"`
	Idle     bool     `json:"idle"`
	Regs     string   `json:"regs"`
	Panic    string   `json:"panic,omitempty"`
	FaultLog int      `json:"fault_log"` // number of log entries when the fault was raised (-1: not raised)
	IntVal   string   `json:"int_val,omitempty"`
}

var (
	mu    sync.Mutex
	sinks = map[*goja.Runtime]*strings.Builder{}
)

func sink(r *goja.Runtime, line []byte) {
	// events of one runtime may come from two goroutines (Interrupt): serialise the writes
	mu.Lock()
	if b := sinks[r]; b != nil {
		b.Write(line)
		b.WriteByte('\n')
	}
	mu.Unlock()
}

type foreignPanic struct{}

func classify(err error) string {
	if err == nil {
		return "value"
	}
	var ie *goja.InterruptedError
	var so *goja.StackOverflowError
	var ex *goja.Exception
	var ce *goja.CompilerSyntaxError
	switch {
	case errors.As(err, &ie):
		return "interrupted"
	case errors.As(err, &so):
		return "stackoverflow"
	case errors.As(err, &ex):
		return "exception"
	case errors.As(err, &ce):
		return "syntax"
	}
	return "other:" + err.Error()
}

func runOne(j job) (res result, trace string) {
	res.Id = j.Id
	res.Log = []int64{}
	vm := goja.New()
	var tb strings.Builder
	mu.Lock()
	sinks[vm] = &tb
	mu.Unlock()
	defer func() {
		mu.Lock()
		delete(sinks, vm)
		mu.Unlock()
	}()
	probes := 0
	res.FaultLog = -1
	vm.Set("log", func(x int64) { res.Log = append(res.Log, x) })
	vm.Set("probe", func(call goja.FunctionCall) goja.Value {
		probes++
		if probes == j.At {
			res.FaultLog = len(res.Log)
			switch j.Fault {
			case "throw":
				panic(vm.ToValue(777))
			case "goerror":
				panic(vm.NewGoError(errors.New("injected")))
			case "interrupt":
				vm.Interrupt("injected")
			case "gopanic":
				panic(foreignPanic{})
			}
		}
		return goja.Undefined()
	})
	vm.Set("reenter", func(call goja.FunctionCall) goja.Value {
		// re-entrant RunProgram from a native function
		v, err := vm.RunString(call.Argument(0).String())
		if err != nil {
			panic(err)
		}
		return v
	})
	vm.Set("reenterq", func(src string) string {
		// re-entrant RunProgram from a reflect-wrapped Go function that swallows the error (an interrupt travels on)
		_, err := vm.RunString(src)
		if err != nil {
			if _, ok := err.(*goja.InterruptedError); ok {
				panic(err)
			}
			return "err" // (also a stack overflow of the nested run: the host is free to carry on)
		}
		return "ok"
	})
	vm.Set("reenterz", func(src string) string {
		// a host function that ignores whatever its nested run returns, an InterruptedError included: the interrupt is still
		// pending for the script that called it (only the outermost exit clears the flag)
		if _, err := vm.RunString(src); err != nil {
			return "err"
		}
		return "ok"
	})
	vm.Set("expect", func(call goja.FunctionCall) goja.Value {
		// a scenario's own assertion about the frame it runs in
		if !call.Argument(0).ToBoolean() {
			res.Panic = "scenario assertion failed: " + call.Argument(1).String()
		}
		return goja.Undefined()
	})
	vm.Set("callfn", func(call goja.FunctionCall) goja.Value {
		// Go -> JS call through the public Callable API from inside a native function
		f, _ := goja.AssertFunction(call.Argument(0))
		v, err := f(goja.Undefined())
		if err != nil {
			panic(err)
		}
		return v
	})
	if j.Fault == "depth" {
		vm.SetMaxCallStackSize(j.MaxDepth)
	}
	trk := &tracker{}
	vm.SetAsyncContextTracker(trk)
	switch j.Pre {
	case "idleint":
		vm.Interrupt("idle-injected")
	case "idleintclear":
		vm.Interrupt("idle-injected")
		vm.ClearInterrupt()
	}
	if j.AsyncUs > 0 {
		go func() {
			time.Sleep(time.Duration(j.AsyncUs) * time.Microsecond)
			vm.Interrupt("async-injected")
		}()
	}
	func() {
		defer func() {
			if r := recover(); r != nil {
				if _, ok := r.(foreignPanic); ok {
					res.Outcome = "foreign"
				} else {
					res.Panic = fmt.Sprint(r)
					res.Outcome = "hostpanic"
				}
			}
		}()
		_, err := vm.RunString(j.Src)
		if err == nil && j.Gen == 0 {
			if j.Entry == "new" {
				// the same function entered through Runtime.New
				_, err = vm.New(vm.Get("f"))
			} else if f, ok := goja.AssertFunction(vm.Get("f")); ok {
				_, err = f(goja.Undefined())
			}
		}
		res.Outcome = classify(err)
		if err != nil {
			res.Err = err.Error()
			var ie *goja.InterruptedError
			if errors.As(err, &ie) {
				res.IntVal = fmt.Sprint(ie.Value())
			}
		}
	}()
	res.Probes = probes
	regs := goja.VerifRegs(vm)
	res.Idle = regs.Idle() && !regs.Interrupted && trk.depth == 0 && !trk.nested
	if trk.depth != 0 || trk.nested {
		res.Regs = fmt.Sprintf("AsyncContextTracker: Resumed without Exited: %d, nested: %v; ", trk.depth, trk.nested)
	}
	res.Regs += fmt.Sprintf("%+v", regs)
	// reusability: the same runtime must behave like a fresh one afterwards
	if j.After != "" {
		vm.SetMaxCallStackSize(1 << 30)
		var alog []string
		vm.Set("alog", func(s string) { alog = append(alog, s) })
		func() {
			defer func() {
				if r := recover(); r != nil {
					res.AfterErr = "host panic: " + fmt.Sprint(r)
				}
			}()
			if _, err := vm.RunString(j.After); err != nil {
				res.AfterErr = err.Error()
			}
		}()
		res.AfterLog = alog
	}
	res.Events = strings.Count(tb.String(), "\n")
	return res, tb.String()
}

// tracker counts the Resumed / Exited bracket of promise reaction jobs: balanced and never nested once the runtime is idle
type tracker struct {
	depth  int
	nested bool
}

func (t *tracker) Grab() interface{} { return nil }
func (t *tracker) Resumed(interface{}) {
	if t.depth != 0 {
		t.nested = true
	}
	t.depth++
}
func (t *tracker) Exited() { t.depth-- }

func main() {
	in := flag.String("in", "", "jobs json")
	out := flag.String("out", "", "results ndjson")
	traceOut := flag.String("trace", "", "trace ndjson (reset-separated)")
	threads := flag.Int("threads", 8, "")
	flag.Parse()
	goja.VerifSink = sink
	data, err := os.ReadFile(*in)
	if err != nil {
		fmt.Fprintln(os.Stderr, err)
		os.Exit(2)
	}
	var jobs []job
	if err := json.Unmarshal(data, &jobs); err != nil {
		fmt.Fprintln(os.Stderr, err)
		os.Exit(2)
	}
	results := make([]result, len(jobs))
	traces := make([]string, len(jobs))
	var wg sync.WaitGroup
	for t := 0; t < *threads; t++ {
		wg.Add(1)
		go func(t int) {
			defer wg.Done()
			for i := t; i < len(jobs); i += *threads {
				results[i], traces[i] = runOne(jobs[i])
			}
		}(t)
	}
	wg.Wait()
	f, _ := os.Create(*out)
	enc := json.NewEncoder(f)
	for _, r := range results {
		enc.Encode(r)
	}
	f.Close()
	if *traceOut != "" {
		tf, _ := os.Create(*traceOut)
		for i, t := range traces {
			tf.WriteString(t)
			fmt.Fprintf(tf, "{\"ev\":\"reset\",\"a\":\"\",\"id\":%d}\n", jobs[i].Id)
		}
		tf.Close()
	}
}
