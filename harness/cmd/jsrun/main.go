// jsrun runs JavaScript files in one fresh Runtime with the white-box natives installed and prints the
// completion value of the last one (development aid and replay helper).
package main

import (
	"fmt"
	"os"

	"github.com/dop251/goja"
	"verifharness/natives"
)

func main() {
	if os.Getenv("VTRACE") != "" {
		goja.VerifSink = func(r *goja.Runtime, line []byte) { fmt.Fprintln(os.Stderr, string(line)) }
	}
	vm := goja.New()
	natives.Install(vm)
	vm.Set("print", func(call goja.FunctionCall) goja.Value {
		for _, a := range call.Arguments {
			fmt.Print(a.String(), " ")
		}
		fmt.Println()
		return goja.Undefined()
	})
	var last goja.Value
	for _, f := range os.Args[1:] {
		src, err := os.ReadFile(f)
		if err != nil {
			fmt.Fprintln(os.Stderr, err)
			os.Exit(2)
		}
		v, err := vm.RunScript(f, string(src))
		if err != nil {
			fmt.Println("ERROR:", err)
			os.Exit(1)
		}
		last = v
	}
	if last != nil {
		fmt.Println(last.String())
	}
}
