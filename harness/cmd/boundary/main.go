// boundary replays the behaviours of Boundary.tla on the real engine: every path raise -> cross* -> host of the TLC state
// graph becomes a call chain built from real closures (frame i calls frame i+1 through its own calling convention); the
// observations of the script frames and what the host receives are compared with the specified ones.
package main

import (
	"encoding/json"
	"errors"
	"flag"
	"fmt"
	"os"
	"reflect"
	"strings"
	"sync"

	"github.com/dop251/goja"
	"verifharness/walk"
)

var errSentinel = errors.New("sentinel")

type customErr struct{ code int }

func (c *customErr) Error() string { return fmt.Sprintf("custom %d", c.code) }

type foreign struct{ tag string }

type label struct {
	Op  string          `json:"op"`
	R   string          `json:"r"`
	K   string          `json:"k"`
	Res json.RawMessage `json:"res"`
}

type chain struct {
	raiser string
	frames []string // innermost first
	want   string   // canonical expected host result
}

type result struct {
	Chain []string `json:"chain"`
	Want  string   `json:"want"`
	Got   string   `json:"got"`
}

func callable(vm *goja.Runtime, v goja.Value) goja.Callable {
	f, ok := goja.AssertFunction(v)
	if !ok {
		panic("not callable")
	}
	return f
}

// thrower builds the innermost frame for a raiser; it is always a JS-callable value
func thrower(vm *goja.Runtime, r string, obj *goja.Object) goja.Value {
	js := func(src string) goja.Value {
		v, err := vm.RunString(src)
		if err != nil {
			panic(err)
		}
		return v
	}
	switch r {
	case "throw-prim":
		return js(`(function thrower(){ throw 42 })`)
	case "throw-obj":
		vm.Set("OBJ", obj)
		return js(`(function thrower(){ throw OBJ })`)
	case "throw-err":
		return js(`(function thrower(){ throw new RangeError("m") })`)
	case "native-panic-value":
		return vm.ToValue(func(call goja.FunctionCall) goja.Value { panic(vm.ToValue("nval")) })
	case "native-panic-goerror":
		return vm.ToValue(func(call goja.FunctionCall) goja.Value { panic(vm.NewGoError(errSentinel)) })
	case "reflect-return-error":
		return vm.ToValue(func() (goja.Value, error) { return nil, errSentinel })
	case "reflect-return-wrapped":
		return vm.ToValue(func() (goja.Value, error) { return nil, fmt.Errorf("ctx: %w", &wrapBoth{}) })
	case "reflect-return-joined":
		return vm.ToValue(func() (goja.Value, error) { return nil, errors.Join(errors.New("other"), errSentinel) })
	case "native-repanic-exception":
		vm.Set("OBJ", obj)
		inner := callable(vm, js(`(function thrower(){ throw OBJ })`))
		return vm.ToValue(func(call goja.FunctionCall) goja.Value {
			_, err := inner(goja.Undefined())
			panic(err) // *goja.Exception
		})
	case "interrupt":
		return vm.ToValue(func(call goja.FunctionCall) goja.Value { vm.Interrupt("iv"); return goja.Undefined() })
	case "overflow":
		return js(`(function thrower(){ return thrower() })`)
	case "foreign-panic":
		return vm.ToValue(func(call goja.FunctionCall) goja.Value { panic(foreign{"f"}) })
	}
	panic("unknown raiser " + r)
}

// wrapBoth wraps the sentinel and carries a custom type (errors.Is and errors.As must both reach through)
type wrapBoth struct{}

func (*wrapBoth) Error() string   { return "both" }
func (*wrapBoth) Unwrap() []error { return []error{errSentinel, &customErr{7}} }

// frame wraps `next` (a JS-callable value) in a frame of kind k and returns a JS-callable value
func frame(vm *goja.Runtime, k string, next goja.Value, id int, obs *[]string, name func(goja.Value) string) goja.Value {
	nextC := callable(vm, next)
	mk := func(src string, args ...goja.Value) goja.Value {
		f, err := vm.RunString(src)
		if err != nil {
			panic(err)
		}
		v, err := callable(vm, f)(goja.Undefined(), args...)
		if err != nil {
			panic(err)
		}
		return v
	}
	// what a well-behaved native does with the error of a nested call: script exceptions and uncatchable errors are
	// re-panicked as they are, a plain Go error (ExportTo'd functions hand out the error wrapped by a GoError) is wrapped
	rethrow := func(err error) {
		if err == nil {
			return
		}
		// (decided on the error itself, not on its chain: a Go error that merely wraps an Exception is a Go error)
		switch err.(type) {
		case *goja.Exception, *goja.InterruptedError, *goja.StackOverflowError:
			panic(err)
		}
		// (an uncatchable condition stays what it is however many Go frames wrapped it)
		var ie *goja.InterruptedError
		var so *goja.StackOverflowError
		if errors.As(err, &ie) || errors.As(err, &so) {
			panic(err)
		}
		panic(vm.NewGoError(err))
	}
	switch k {
	case "js":
		return mk(`(function(next){ return function(){ var r = next(); return r } })`, next)
	case "jscatch":
		seen := vm.ToValue(func(call goja.FunctionCall) goja.Value {
			*obs = append(*obs, "catch:"+name(call.Argument(0)))
			return goja.Undefined()
		})
		return mk(`(function(next, seen){ return function(){ try { return next() } catch (e) { seen(e); throw e } } })`, next, seen)
	case "jsfinally":
		fin := vm.ToValue(func(call goja.FunctionCall) goja.Value { *obs = append(*obs, "finally"); return goja.Undefined() })
		return mk(`(function(next, fin){ return function(){ try { return next() } finally { fin() } } })`, next, fin)
	case "native":
		return vm.ToValue(func(call goja.FunctionCall) goja.Value {
			v, err := nextC(goja.Undefined())
			rethrow(err)
			return v
		})
	case "reflectErr":
		return vm.ToValue(func() (goja.Value, error) { return nextC(goja.Undefined()) })
	case "reflectWrap":
		return vm.ToValue(func() (goja.Value, error) {
			v, err := nextC(goja.Undefined())
			var ie *goja.InterruptedError
			var so *goja.StackOverflowError
			if _, ok := err.(*goja.Exception); ok || errors.As(err, &ie) || errors.As(err, &so) {
				// (a wrapped interrupt / stack overflow must stay uncatchable: the spec's Cross leaves such a payload unchanged)
				return nil, fmt.Errorf("rewrap: %w", err)
			}
			rethrow(err)
			return v, nil
		})
	case "reflectNoErr":
		return vm.ToValue(func() goja.Value {
			v, err := nextC(goja.Undefined())
			rethrow(err)
			return v
		})
	case "exportTo":
		var gf func() (goja.Value, error)
		if err := vm.ExportTo(next, &gf); err != nil {
			panic(err)
		}
		return vm.ToValue(func(call goja.FunctionCall) goja.Value {
			v, err := gf()
			rethrow(err)
			return v
		})
	case "exportToNoErr":
		// an exported func type WITHOUT an error result: a script exception travels on as a panic with the *Exception
		var gf func() goja.Value
		if err := vm.ExportTo(next, &gf); err != nil {
			panic(err)
		}
		return vm.ToValue(func(call goja.FunctionCall) goja.Value {
			return gf()
		})
	case "ctor":
		c := vm.ToValue(func(call goja.ConstructorCall) *goja.Object {
			_, err := nextC(goja.Undefined())
			rethrow(err)
			return nil
		})
		return mk(`(function(C){ return function(){ return new C() } })`, c)
	case "proxytrap":
		return mk(`(function(next){ var p = new Proxy({}, { get: function(){ return next() } }); return function(){ return p.x } })`, next)
	case "getterTry":
		o := mk(`(function(next){ return { get x(){ return next() } } })`, next).(*goja.Object)
		return vm.ToValue(func(call goja.FunctionCall) goja.Value {
			var v goja.Value
			ex := vm.Try(func() { v = o.Get("x") })
			if ex != nil {
				panic(ex)
			}
			return v
		})
	case "forof":
		it := mk(`(function(next){ var o = {}; o[Symbol.iterator] = function(){ return { next: function(){ return {value: next(), done: false} } } }; return o })`, next)
		return vm.ToValue(func(call goja.FunctionCall) goja.Value {
			// ForOf panics on exceptions: pass them on like any native would
			if ex := vm.Try(func() {
				vm.ForOf(it, func(v goja.Value) bool { return false })
			}); ex != nil {
				panic(ex)
			}
			return goja.Undefined()
		})
	}
	panic("unknown frame " + k)
}

func runChain(c chain) (got string) {
	vm := goja.New()
	vm.SetMaxCallStackSize(200)
	obj := vm.NewObject()
	var obs []string
	name := func(v goja.Value) string {
		if o, ok := v.(*goja.Object); ok {
			if o == obj {
				return "obj"
			}
			if n := o.Get("name"); n != nil && n.String() == "RangeError" {
				return "err"
			}
			if n := o.Get("name"); n != nil && n.String() == "GoError" {
				var e error
				if v := o.Get("value"); v != nil {
					e, _ = v.Export().(error)
				}
				switch {
				case e == errSentinel:
					return "goerr:sentinel"
				case e != nil && strings.HasPrefix(e.Error(), "rewrap:"):
					return "goerr:rewrap"
				case e != nil && strings.HasPrefix(e.Error(), "ctx:"):
					return "goerr:wrapped"
				case e != nil && errors.Is(e, errSentinel):
					return "goerr:joined"
				}
				return "goerr:?"
			}
			return "object?"
		}
		if v.ExportType() != nil && v.ExportType().Kind() == reflect.Int64 && v.ToInteger() == 42 {
			return "prim"
		}
		if v.String() == "nval" {
			return "nval"
		}
		return "?" + v.String()
	}
	f := thrower(vm, c.raiser, obj)
	for i, k := range c.frames {
		f = frame(vm, k, f, i, &obs, name)
	}
	outer := callable(vm, f)
	res := map[string]interface{}{"kind": "", "value": "", "isSentinel": "F", "topFrame": "-", "inner": "-"}
	func() {
		defer func() {
			if r := recover(); r != nil {
				if fp, ok := r.(foreign); ok && fp.tag == "f" {
					res["kind"], res["value"] = "panic", "foreign"
				} else {
					res["kind"], res["value"] = "hostpanic", fmt.Sprint(r)
				}
			}
		}()
		_, err := outer(goja.Undefined())
		var ex *goja.Exception
		var ie *goja.InterruptedError
		var so *goja.StackOverflowError
		switch {
		case err == nil:
			res["kind"] = "no error"
		case errors.As(err, &ie):
			res["kind"], res["value"] = "interrupt", "interrupt"
			if ie.Value() != "iv" {
				res["value"] = fmt.Sprint("interrupt with value ", ie.Value())
			}
		case errors.As(err, &so):
			res["kind"], res["value"] = "overflow", "overflow"
		case errors.As(err, &ex):
			res["kind"] = "Exception"
			res["value"] = name(ex.Value())
			var ce *customErr
			is := errors.Is(err, errSentinel)
			if res["value"] == "goerr:wrapped" {
				is = is && errors.As(err, &ce) && ce.code == 7
			}
			if is {
				res["isSentinel"] = "T"
			}
			// the Go error a frame returned is reachable from the host's Exception, and through it the Exception it wrapped
			if ge := ex.Unwrap(); ge != nil {
				var ex2 *goja.Exception
				if errors.As(ge, &ex2) {
					res["inner"] = name(ex2.Value())
				}
			}
			if st := ex.Stack(); len(st) > 0 && st[0].FuncName() == "thrower" {
				res["topFrame"] = "thrower"
			}
		default:
			res["kind"] = "other: " + err.Error()
		}
	}()
	if res["kind"] == "Exception" {
		if v, _ := res["value"].(string); !(v == "prim" || v == "obj" || v == "err") {
			res["topFrame"] = "-" // the top-frame requirement is stated for script throw sites only
		}
	}
	o := []interface{}{}
	for _, x := range obs {
		o = append(o, x)
	}
	res["obs"] = o
	return walk.CanonV(res)
}

func main() {
	graph := flag.String("graph", "", "TLC stdout of Boundary.tla")
	init := flag.String("init", "", "")
	out := flag.String("out", "", "")
	threads := flag.Int("threads", 8, "")
	one := flag.String("one", "", "raiser,frame1,frame2,... : run a single chain")
	flag.Parse()
	if *one != "" {
		parts := strings.Split(*one, ",")
		fmt.Println(runChain(chain{raiser: parts[0], frames: parts[1:]}))
		return
	}
	g, err := walk.LoadTLC(*graph, nil, *init, "", *threads)
	if err != nil {
		fmt.Fprintln(os.Stderr, err)
		os.Exit(2)
	}
	// enumerate every path raise -> cross* -> host
	var chains []chain
	var rec func(node int, c chain)
	rec = func(node int, c chain) {
		for _, ei := range g.Out[node] {
			e := g.Edges[ei]
			var l label
			json.Unmarshal(e.Label, &l)
			switch l.Op {
			case "raise":
				if c.raiser == "" {
					rec(e.To, chain{raiser: l.R})
				}
			case "cross":
				if c.raiser != "" {
					rec(e.To, chain{raiser: c.raiser, frames: append(append([]string{}, c.frames...), l.K)})
				}
			case "host":
				if c.raiser != "" {
					cc := c
					cc.want = e.Res
					chains = append(chains, cc)
				}
			}
		}
	}
	rec(g.Init[0], chain{})
	results := make([]result, len(chains))
	var wg sync.WaitGroup
	for t := 0; t < *threads; t++ {
		wg.Add(1)
		go func(t int) {
			defer wg.Done()
			for i := t; i < len(chains); i += *threads {
				c := chains[i]
				got := func() (g string) {
					defer func() {
						if r := recover(); r != nil {
							g = fmt.Sprintf("{\"harness panic\":%q}", fmt.Sprint(r))
						}
					}()
					return runChain(c)
				}()
				results[i] = result{Chain: append([]string{c.raiser}, c.frames...), Want: c.want, Got: got}
			}
		}(t)
	}
	wg.Wait()
	bad := []result{}
	for _, r := range results {
		if r.Want != r.Got {
			bad = append(bad, r)
		}
	}
	var sample []result
	if len(results) > 2 {
		sample = results[len(results)/2 : len(results)/2+2]
	}
	b, _ := json.Marshal(map[string]interface{}{"chains": len(chains), "bad": bad, "edges": len(g.Edges), "nodes": g.Nodes, "sample": sample})
	os.WriteFile(*out, b, 0644)
}
