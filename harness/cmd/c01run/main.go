// c01run feeds source texts to the engine and checks the C01 criterion on each: the call returns a value or an error of a
// documented kind, no Go panic / internal-bug diagnostic escapes, and the runtime's registers are idle afterwards (the
// ApiExit rule of VMTrace.tla). Inputs are generated here: token sequences over a fixed alphabet, token-level mutations
// of a seed corpus, nesting bombs and random bytes. Workers run in child processes with an address-space limit and a
// journal, so that a fatal runtime error (out of memory, stack exhaustion) is attributed to the input that caused it.
package main

import (
	"bufio"
	"encoding/json"
	"errors"
	"flag"
	"fmt"
	"math/rand"
	"os"
	"os/exec"
	"regexp"
	"strings"
	"sync"
	"syscall"
	"time"

	"github.com/dop251/goja"
)

var alphabet = []string{"a", "b", "1", "\"s\"", "`t${a}`", "/r/g", "(", ")", "{", "}", "[", "]", ";", ",", ".", "?.", "...", "=>", "=", "+", "++", "!", "?", ":",
	"&&=", "**", "function", "function*", "async", "await", "yield", "class", "extends", "super", "new", "this", "return", "var", "let", "const",
	"if", "else", "for", "of", "in", "while", "do", "break", "continue", "switch", "case", "default", "try", "catch", "finally", "throw",
	"typeof", "delete", "void", "static", "get", "set", "#p", "with", "label:", "import", "export", "eval", "arguments", "null", "\n"}

type finding struct {
	Src     string `json:"src"`
	Mode    string `json:"mode"`
	What    string `json:"what"`
	Outcome string `json:"outcome"`
}

func classify(err error) (string, bool) {
	if err == nil {
		return "value", true
	}
	var ie *goja.InterruptedError
	var so *goja.StackOverflowError
	var ex *goja.Exception
	var cs *goja.CompilerSyntaxError
	var cr *goja.CompilerReferenceError
	ok := true
	kind := ""
	switch {
	case errors.As(err, &ie):
		kind = "interrupted"
	case errors.As(err, &so):
		kind = "stackoverflow"
	case errors.As(err, &ex):
		kind = "exception"
	case errors.As(err, &cs):
		kind = "syntax"
	case errors.As(err, &cr):
		kind = "reference"
	default:
		kind, ok = "other:"+err.Error(), false
	}
	msg := err.Error()
	if strings.Contains(msg, "ompiler bug") || strings.Contains(msg, "BUG") || strings.Contains(msg, "nternal bug") ||
		strings.Contains(msg, "runtime error") {
		return kind + ":internal-diagnostic:" + msg, false
	}
	return kind, ok
}

// runOne applies the criterion to one source in one placement mode.
func runOne(src, mode string) (f *finding) {
	outcome := ""
	defer func() {
		if r := recover(); r != nil {
			f = &finding{Src: src, Mode: mode, What: fmt.Sprintf("Go panic escaped: %v", r), Outcome: outcome}
		}
	}()
	vm := goja.New()
	vm.SetMaxCallStackSize(300)
	timer := time.AfterFunc(300*time.Millisecond, func() { vm.Interrupt("watchdog") })
	defer timer.Stop()
	var err error
	switch mode {
	case "sloppy":
		_, err = vm.RunString(src)
	case "strict":
		var p *goja.Program
		p, err = goja.Compile("", src, true)
		if err == nil {
			_, err = vm.RunProgram(p)
		}
	case "func":
		_, err = vm.RunString("(function(){\n" + src + "\n})()")
	case "eval":
		b, _ := json.Marshal(src)
		_, err = vm.RunString("eval(" + string(b) + ")")
	case "parse":
		_, err = goja.Parse("", src)
		if err != nil {
			return nil // parser errors are plain errors; only panics matter here
		}
		return nil
	}
	var ok bool
	outcome, ok = classify(err)
	if !ok {
		return &finding{Src: src, Mode: mode, What: "undocumented outcome", Outcome: outcome}
	}
	regs := goja.VerifRegs(vm)
	if !regs.Idle() || (regs.Interrupted && outcome != "value" && outcome != "exception" && outcome != "syntax" && outcome != "reference") {
		return &finding{Src: src, Mode: mode, What: fmt.Sprintf("runtime not idle afterwards: %+v", regs), Outcome: outcome}
	}
	return nil
}

var tokRe = regexp.MustCompile("`[^`]*`|\"[^\"\\n]*\"|'[^'\\n]*'|[A-Za-z_$#][A-Za-z0-9_$]*|[0-9]+(?:\\.[0-9]+)?|=>|\\?\\.|\\.\\.\\.|[-+*/%&|^<>=!]=+|\\*\\*|&&|\\|\\||\\?\\?|\\+\\+|--|\\s+|.")

func tokenize(s string) []string { return tokRe.FindAllString(s, -1) }

func mutate(rnd *rand.Rand, toks []string) string {
	t := append([]string{}, toks...)
	if len(t) == 0 {
		return ""
	}
	n := 1 + rnd.Intn(2)
	for k := 0; k < n && len(t) > 0; k++ {
		i := rnd.Intn(len(t))
		switch rnd.Intn(7) {
		case 0: // delete
			t = append(t[:i], t[i+1:]...)
		case 1: // duplicate
			t = append(t[:i+1], t[i:]...)
		case 2: // swap with neighbour
			if i+1 < len(t) {
				t[i], t[i+1] = t[i+1], t[i]
			}
		case 3: // replace by an alphabet token
			t[i] = alphabet[rnd.Intn(len(alphabet))]
		case 4: // insert an alphabet token
			t = append(t[:i+1], append([]string{alphabet[rnd.Intn(len(alphabet))]}, t[i+1:]...)...)
		case 5: // truncate
			t = t[:i]
		case 6: // move a token somewhere else
			x := t[i]
			t = append(t[:i], t[i+1:]...)
			j := rnd.Intn(len(t) + 1)
			t = append(t[:j], append([]string{x}, t[j:]...)...)
		}
	}
	return strings.Join(t, "")
}

// inputs for one shard
func genInputs(shard, shards int, seed int64, level int, seeds []string) []string {
	var out []string
	n := len(alphabet)
	// all token sequences up to length L (sharded by index)
	L := 3
	if level >= 2 {
		L = 4
	}
	idx := 0
	var rec func(prefix []string, d int)
	rec = func(prefix []string, d int) {
		if len(prefix) > 0 {
			if idx%shards == shard {
				out = append(out, strings.Join(prefix, " "))
			}
			idx++
		}
		if d == 0 {
			return
		}
		for i := 0; i < n; i++ {
			rec(append(prefix, alphabet[i]), d-1)
		}
	}
	if level >= 2 {
		rec(nil, 3)
	} else {
		rec(nil, 2)
		L = 2
	}
	rnd := rand.New(rand.NewSource(seed*1000 + int64(shard)))
	// sampled longer sequences
	samples := map[int]int{0: 3000, 1: 20000, 2: 150000}[level]
	for i := 0; i < samples; i++ {
		k := L + 1 + rnd.Intn(4)
		t := make([]string, k)
		for j := range t {
			t[j] = alphabet[rnd.Intn(n)]
		}
		out = append(out, strings.Join(t, " "))
	}
	// seeds and their mutations
	muts := map[int]int{0: 30, 1: 300, 2: 3000}[level]
	for si, s := range seeds {
		if si%shards == shard {
			out = append(out, s)
		}
		toks := tokenize(s)
		for m := 0; m < muts; m++ {
			if (si*muts+m)%shards == shard {
				out = append(out, mutate(rnd, toks))
			}
		}
	}
	// nesting bombs and random bytes
	if shard == 0 {
		for _, d := range []int{50, 200} {
			for _, pair := range [][2]string{{"(", ")"}, {"[", "]"}, {"{", "}"}, {"a?.[", "]"}, {"`${", "}`"}, {"function f(){", "}"}, {"x=>", ""}, {"{a:", "}"}, {"!", "1"}, {"if(1)", ";"}, {"try{", "}finally{}"}, {"new ", ""}, {"[...", "]"}, {"class A{static{", "}}"}, {"label: ", ";"}, {"async()=>await ", "1"}} {
				out = append(out, strings.Repeat(pair[0], d)+strings.Repeat(pair[1], d))
				out = append(out, strings.Repeat(pair[0], d))
			}
		}
	}
	for i := 0; i < map[int]int{0: 200, 1: 2000, 2: 20000}[level]; i++ {
		b := make([]byte, rnd.Intn(200))
		for j := range b {
			if rnd.Intn(4) == 0 {
				b[j] = byte(rnd.Intn(256))
			} else {
				const chars = " \n\t(){}[];,.=+-*/'\"`\\$#@abfnu0179xX"
				b[j] = chars[rnd.Intn(len(chars))]
			}
		}
		out = append(out, string(b))
	}
	return out
}

func modesFor(i int, src string) []string {
	if len(src) < 24 {
		return []string{"sloppy", "strict"}
	}
	return []string{"sloppy", "strict", "func", "eval"}
}

func worker(shard, shards int, seed int64, level int, seedFile, journal, out string, start int) {
	var lim syscall.Rlimit
	lim.Cur, lim.Max = 6<<30, 6<<30
	syscall.Setrlimit(syscall.RLIMIT_AS, &lim)
	var seeds []string
	data, _ := os.ReadFile(seedFile)
	json.Unmarshal(data, &seeds)
	inputs := genInputs(shard, shards, seed, level, seeds)
	jf, _ := os.OpenFile(journal, os.O_CREATE|os.O_RDWR, 0644)
	of, _ := os.OpenFile(out, os.O_CREATE|os.O_WRONLY|os.O_APPEND, 0644)
	bw := bufio.NewWriter(of)
	enc := json.NewEncoder(bw)
	runs := 0
	for i := start; i < len(inputs); i++ {
		fmt.Fprintf(jf, "%12d\n", i)
		jf.Seek(0, 0)
		for _, m := range modesFor(i, inputs[i]) {
			runs++
			if f := runOne(inputs[i], m); f != nil {
				enc.Encode(f)
				bw.Flush()
			}
		}
	}
	fmt.Fprintf(jf, "%12d\n", -1)
	bw.Flush()
	fmt.Fprintf(os.Stdout, "{\"inputs\":%d,\"runs\":%d}\n", len(inputs)-start, runs)
}

func main() {
	isWorker := flag.Bool("worker", false, "")
	shard := flag.Int("shard", 0, "")
	shards := flag.Int("shards", 16, "")
	seed := flag.Int64("seed", 1, "")
	level := flag.Int("level", 0, "0 quick, 1 thorough, 2 deep")
	seedFile := flag.String("seeds", "", "json list of seed programs")
	journal := flag.String("journal", "", "")
	out := flag.String("out", "", "findings ndjson / summary json")
	start := flag.Int("start", 0, "")
	one := flag.String("one", "", "run a single source file in all modes (replay)")
	flag.Parse()
	if *one != "" {
		src, _ := os.ReadFile(*one)
		bad := 0
		for _, m := range []string{"parse", "sloppy", "strict", "func", "eval"} {
			if f := runOne(string(src), m); f != nil {
				b, _ := json.Marshal(f)
				fmt.Println(string(b))
				bad++
			}
		}
		if bad > 0 {
			os.Exit(1)
		}
		return
	}
	if *isWorker {
		worker(*shard, *shards, *seed, *level, *seedFile, *journal, *out, *start)
		return
	}
	// parent: one child per shard; a dead child is restarted after the input named by its journal
	var mu sync.Mutex
	total := map[string]int{}
	var crashes []finding
	var wg sync.WaitGroup
	for s := 0; s < *shards; s++ {
		wg.Add(1)
		go func(s int) {
			defer wg.Done()
			jr := fmt.Sprintf("%s.journal.%d", *out, s)
			of := fmt.Sprintf("%s.findings.%d", *out, s)
			os.Remove(jr)
			os.Remove(of)
			st := 0
			for attempt := 0; attempt < 20; attempt++ {
				cmd := exec.Command(os.Args[0], "-worker", "-shard", fmt.Sprint(s), "-shards", fmt.Sprint(*shards), "-seed", fmt.Sprint(*seed),
					"-level", fmt.Sprint(*level), "-seeds", *seedFile, "-journal", jr, "-out", of, "-start", fmt.Sprint(st))
				var so, se strings.Builder
				cmd.Stdout, cmd.Stderr = &so, &se
				err := cmd.Run()
				var sum map[string]int
				if json.Unmarshal([]byte(so.String()), &sum) == nil {
					mu.Lock()
					for k, v := range sum {
						total[k] += v
					}
					mu.Unlock()
				}
				if err == nil {
					return
				}
				// died: which input?
				jb, _ := os.ReadFile(jr)
				var at int
				fmt.Sscanf(strings.TrimSpace(string(jb)), "%d", &at)
				var seeds []string
				data, _ := os.ReadFile(*seedFile)
				json.Unmarshal(data, &seeds)
				inputs := genInputs(s, *shards, *seed, *level, seeds)
				src := ""
				if at >= 0 && at < len(inputs) {
					src = inputs[at]
				}
				msg := se.String()
				if len(msg) > 600 {
					msg = msg[:600]
				}
				mu.Lock()
				crashes = append(crashes, finding{Src: src, Mode: "any", What: "the process died: " + msg, Outcome: "fatal"})
				total["inputs"] += at - st + 1
				mu.Unlock()
				st = at + 1
			}
		}(s)
	}
	wg.Wait()
	var all []finding
	all = append(all, crashes...)
	for s := 0; s < *shards; s++ {
		f, err := os.Open(fmt.Sprintf("%s.findings.%d", *out, s))
		if err != nil {
			continue
		}
		sc := bufio.NewScanner(f)
		sc.Buffer(make([]byte, 1<<20), 1<<24)
		for sc.Scan() {
			var fd finding
			if json.Unmarshal(sc.Bytes(), &fd) == nil {
				all = append(all, fd)
			}
		}
		f.Close()
	}
	res := map[string]interface{}{"inputs": total["inputs"], "runs": total["runs"], "findings": all}
	b, _ := json.Marshal(res)
	os.WriteFile(*out, b, 0644)
}
