package main
import ("fmt";"os";"github.com/dop251/goja")
func main(){ b,_:=os.ReadFile(os.Args[1]); vm:=goja.New(); v,err:=vm.RunString(string(b)); fmt.Println(v,err) }
