// mjsrun executes printed MiniJS programs on the real engine and reports the observable behaviour
// (log calls, completion of f() for plain functions) as ndjson, one line per program.
package main

import (
	"encoding/json"
	"flag"
	"fmt"
	"os"
	"sync"
	"time"

	"github.com/dop251/goja"
)

type src struct {
	Id  int    `json:"id"`
	Gen int    `json:"gen"` // 0: call f(); 1: generator driver inside the script; 2: the script itself is the program
	Pre string `json:"pre,omitempty"`
	Src string `json:"src"`
}

type result struct {
	Id    int     `json:"id"`
	Log   []int64 `json:"log"`
	Ty    string  `json:"ty"`
	V     int64   `json:"v"`
	Err   string  `json:"err,omitempty"`
	Panic string  `json:"panic,omitempty"`
}

type foreignPanic struct{ n int64 }

// fatal classifies an uncatchable condition raised by __fatal(n): the completion type is "fatal", the value is n
func fatal(vm *goja.Runtime, res *result, err error) bool {
	switch e := err.(type) {
	case *goja.InterruptedError:
		if n, ok := e.Value().(int64); ok {
			res.Ty, res.V = "fatal", n
			return true
		}
	case *goja.StackOverflowError:
		res.Ty, res.V = "fatal", vm.Get("__fv").ToInteger()
		return true
	}
	return false
}

func runOne(s src) (res result) {
	res.Id = s.Id
	res.Log = []int64{}
	vm := goja.New()
	defer func() {
		if r := recover(); r != nil {
			if fp, ok := r.(foreignPanic); ok {
				res.Ty, res.V = "fatal", fp.n
				return
			}
			res.Panic = fmt.Sprint(r)
		}
	}()
	vm.SetMaxCallStackSize(400)
	vm.Set("log", func(x int64) { res.Log = append(res.Log, x) })
	vm.Set("__intr", func(n int64) { vm.Interrupt(n) })
	vm.Set("__gopanic", func(n int64) { panic(foreignPanic{n}) })
	timer := time.AfterFunc(5*time.Second, func() { vm.Interrupt("timeout") })
	defer timer.Stop()
	if s.Pre != "" {
		if _, err := vm.RunString(s.Pre); err != nil {
			res.Err = "prelude: " + err.Error()
			return
		}
	}
	_, err := vm.RunString(s.Src)
	if s.Gen == 2 {
		// global placement: normal completion of the script, or the code of the uncaught exception
		res.Ty, res.V = "return", -1000
		if err != nil {
			if ex, ok := err.(*goja.Exception); ok {
				le, _ := goja.AssertFunction(vm.Get("__LE"))
				v, err1 := le(goja.Undefined(), ex.Value())
				if err1 != nil {
					res.Err = err1.Error()
					return
				}
				res.Ty, res.V = "throw", v.ToInteger()
			} else if !fatal(vm, &res, err) {
				res.Err = err.Error()
			}
		}
		return
	}
	if err != nil {
		if !fatal(vm, &res, err) {
			res.Err = err.Error()
		}
		return
	}
	if s.Gen == 0 {
		f, _ := goja.AssertFunction(vm.Get("f"))
		v, err := f(goja.Undefined())
		if err != nil {
			if ex, ok := err.(*goja.Exception); ok {
				res.Ty = "throw"
				res.V = ex.Value().ToInteger()
				// (an uncaught TypeError raised by a built-in: the MiniJS programs name it 9999, as their E() does)
				if o, ok := ex.Value().(*goja.Object); ok && o.ClassName() == "Error" {
					if te, _ := vm.RunString("TypeError"); te != nil && vm.InstanceOf(ex.Value(), te.(*goja.Object)) {
						res.V = 9999
					}
				}
			} else if !fatal(vm, &res, err) {
				res.Err = err.Error()
			}
		} else if goja.IsUndefined(v) {
			res.Ty = "normal"
		} else {
			res.Ty = "return"
			res.V = v.ToInteger()
		}
	}
	return
}

func main() {
	in := flag.String("in", "", "srcs.json")
	out := flag.String("out", "", "results ndjson")
	threads := flag.Int("threads", 8, "")
	flag.Parse()
	data, err := os.ReadFile(*in)
	if err != nil {
		fmt.Fprintln(os.Stderr, err)
		os.Exit(2)
	}
	var srcs []src
	if err := json.Unmarshal(data, &srcs); err != nil {
		fmt.Fprintln(os.Stderr, err)
		os.Exit(2)
	}
	results := make([]result, len(srcs))
	var wg sync.WaitGroup
	for t := 0; t < *threads; t++ {
		wg.Add(1)
		go func(t int) {
			defer wg.Done()
			for i := t; i < len(srcs); i += *threads {
				results[i] = runOne(srcs[i])
			}
		}(t)
	}
	wg.Wait()
	f, err := os.Create(*out)
	if err != nil {
		fmt.Fprintln(os.Stderr, err)
		os.Exit(2)
	}
	defer f.Close()
	enc := json.NewEncoder(f)
	for _, r := range results {
		enc.Encode(r)
	}
}
