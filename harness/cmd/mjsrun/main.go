// mjsrun executes printed MiniJS programs on the real engine and reports the observable behaviour
// (log calls, completion of f() for plain functions) as ndjson, one line per program.
package main

import (
	"encoding/json"
	"flag"
	"fmt"
	"os"
	"sync"
	"time"

	"github.com/dop251/goja"
)

type src struct {
	Id  int    `json:"id"`
	Gen int    `json:"gen"`
	Src string `json:"src"`
}

type result struct {
	Id    int     `json:"id"`
	Log   []int64 `json:"log"`
	Ty    string  `json:"ty"`
	V     int64   `json:"v"`
	Err   string  `json:"err,omitempty"`
	Panic string  `json:"panic,omitempty"`
}

func runOne(s src) (res result) {
	res.Id = s.Id
	res.Log = []int64{}
	defer func() {
		if r := recover(); r != nil {
			res.Panic = fmt.Sprint(r)
		}
	}()
	vm := goja.New()
	vm.Set("log", func(x int64) { res.Log = append(res.Log, x) })
	timer := time.AfterFunc(5*time.Second, func() { vm.Interrupt("timeout") })
	defer timer.Stop()
	_, err := vm.RunString(s.Src)
	if err != nil {
		res.Err = err.Error()
		return
	}
	if s.Gen == 0 {
		f, _ := goja.AssertFunction(vm.Get("f"))
		v, err := f(goja.Undefined())
		if err != nil {
			if ex, ok := err.(*goja.Exception); ok {
				res.Ty = "throw"
				res.V = ex.Value().ToInteger()
			} else {
				res.Err = err.Error()
			}
		} else if goja.IsUndefined(v) {
			res.Ty = "normal"
		} else {
			res.Ty = "return"
			res.V = v.ToInteger()
		}
	}
	return
}

func main() {
	in := flag.String("in", "", "srcs.json")
	out := flag.String("out", "", "results ndjson")
	threads := flag.Int("threads", 8, "")
	flag.Parse()
	data, err := os.ReadFile(*in)
	if err != nil {
		fmt.Fprintln(os.Stderr, err)
		os.Exit(2)
	}
	var srcs []src
	if err := json.Unmarshal(data, &srcs); err != nil {
		fmt.Fprintln(os.Stderr, err)
		os.Exit(2)
	}
	results := make([]result, len(srcs))
	var wg sync.WaitGroup
	for t := 0; t < *threads; t++ {
		wg.Add(1)
		go func(t int) {
			defer wg.Done()
			for i := t; i < len(srcs); i += *threads {
				results[i] = runOne(srcs[i])
			}
		}(t)
	}
	wg.Wait()
	f, err := os.Create(*out)
	if err != nil {
		fmt.Fprintln(os.Stderr, err)
		os.Exit(2)
	}
	defer f.Close()
	enc := json.NewEncoder(f)
	for _, r := range results {
		enc.Encode(r)
	}
}
