// jsdump prints the bytecode goja compiles for a script (development aid).
package main

import (
	"fmt"
	"os"

	"github.com/dop251/goja"
)

func main() {
	src, _ := os.ReadFile(os.Args[1])
	p, err := goja.Compile(os.Args[1], string(src), false)
	if err != nil {
		fmt.Println(err)
		os.Exit(1)
	}
	fmt.Print(goja.VerifDumpProgram(p))
}
