// sharing executes the scenarios of Sharing.tla on the real engine under the Go race detector (build with -race):
// every pair (or larger group) of operations that TLC finds concurrently in flight on one shared object is performed by
// goroutines that own one Runtime each, released together by a barrier. The race detector decides RaceFree, the
// comparison with the result of an isolated run decides Agree ("each run produces exactly the result it produces in
// isolation"). Race reports are attributed to the scenario during which the report file grew.
package main

import (
	"encoding/json"
	"flag"
	"fmt"
	"math/big"
	"os"
	"path/filepath"
	"strings"
	"sync"

	"github.com/dop251/goja"
)

type scenario struct {
	Obj  string   `json:"obj"`
	O    string   `json:"o"`
	With []string `json:"with"`
}

type finding struct {
	Scenario string `json:"scenario"`
	Kind     string `json:"kind"` // "race" | "result" | "panic"
	Detail   string `json:"detail"`
}

// JavaScript operations by access class; `s` is the shared value, `t` a private string
var scanOps = []string{
	"s.length", "s.charCodeAt(3)", "s.charAt(20)", "s === t", "s < t", "s == s.slice(0)", "new Map([[s, 1]]).get(s)", "new Set([s]).has(t)",
	"s.toUpperCase().length", "s.slice(1, 30)", "s.substring(18)", "s.indexOf('q')", "s.lastIndexOf('0')", "[...s].length", "s.replace('0', 'b')",
	"s.split('1').length", "encodeURIComponent(s).length", "parseInt(s)", "Number(s)", "var o = {}; o[s] = 1; o[s]", "Symbol.for(s) === Symbol.for(s)",
	"s.localeCompare(t)", "s.normalize().length", "s.trim().length", "s.padEnd(40, 'x')", "s.codePointAt(19)", "s.includes('89')", "s.startsWith('01')",
	"JSON.stringify(s).length", "s.concat(t).length", "(s + 'x').length", "s.at(-1)", "escape(s).length", "s.match(/9./)[0]", "/é|9/.test(s)",
	"s.search(/9/)", "`${s}`.length", "s.repeat(2).length", "String(new String(s)).length", "Array.from(s).length", "s.toLowerCase() === s",
}
var rawOps = []string{"typeof s", "s ? 1 : 0", "var u = s; typeof u", "[s].length", "(function (a) { return typeof a })(s)"}

var programs = []string{
	// regexp literals (pattern embedded in the instruction), global flag state
	`var re = /a(b+)c/g; var out = []; var m; while ((m = re.exec("abc abbc ac abbbc")) !== null) out.push(m[1] + re.lastIndex); out.join()`,
	`"x1y22z333".replace(/\d+/g, function (d) { return "<" + d.length + ">" }) + "é1".split(/(?=1)/u).length`,
	`var r = /(?<year>\d{4})-(?<m>\d\d)/u.exec("on 2024-05-06"); r.groups.year + r.groups.m + /\bfoo\b/i.test("a FOO b")`,
	// tagged templates: one template object per site and Runtime
	`function tag(s) { return s } function site() { return tag` + "`a${1}b`" + ` } var a = site(), b = site(); (a === b) + "," + a.raw.join("|") + Object.isFrozen(a)`,
	// classes with private names, static blocks, accessors
	`class A { #x = 1; static #c = 0; #m() { return this.#x + A.#c } get v() { return this.#m() } static inc() { return ++A.#c } static has(o) { return #x in o } }
	 A.inc(); new A().v + "," + A.has(new A()) + A.has({})`,
	// dynamic scopes: eval, with, arguments aliasing
	`function f(a, b) { eval("var c = a + b"); with ({d: 4}) { arguments[0] = 10; return a + b + c + d } } f(1, 2)`,
	`var g = 5; function h() { return eval("g + (function () { return typeof k })()") } h()`,
	// names that direct eval adds at run time to the scopes of functions with pattern / default parameters (the scope's name map is
	// embedded in the shared Program and must be copied per call)
	`function p1({a}, b) { var x = 1; eval("var y = 2"); return x + y + a } function p2([a] = [3], ...r) { let z = 4; eval("var w = 5; var v = 6"); return a + z + w + v + r.length }
	 var p3 = ({k}) => { var q = 1; eval("var t = k"); return q + t }; [p1({a: 1}), p1({a: 2}, 0), p2(), p2([1], 2), p3({k: 7})].join()`,
	`function d1(a = 1) { var x = a; eval("var fresh1 = x + 1"); { let blk = 2; eval("var fresh2 = blk") } return typeof fresh1 + typeof fresh2 + fresh1 + fresh2 } d1() + d1(5)`,
	// lazily materialised built-ins whose templates are shared by all Runtimes: one Runtime's deletions stay its own
	`delete Math.sin; delete JSON.parse; delete Reflect.get; var n = Object.getOwnPropertyNames(Math); [n.indexOf("sin"), n.indexOf(""), n.length, Object.keys(JSON).length, Object.getOwnPropertyNames(JSON).join(), typeof Reflect.get, Object.getOwnPropertyNames(Reflect).length].join()`,
	`var before = Object.getOwnPropertyNames(globalThis).length; delete globalThis.escape; delete Object.assign; delete Array.prototype.flat; delete Date.prototype.getYear;
	 [before - Object.getOwnPropertyNames(globalThis).length, typeof escape, Object.getOwnPropertyNames(Object).indexOf("assign"), Object.getOwnPropertyNames(Array.prototype).indexOf(""), Object.getOwnPropertyNames(Date.prototype).length].join()`,
	// constant folding, big constants, template strings, non-ASCII string constants
	`(1 + 2 * 3) + "" + (2 ** 53 + 2) + 0xffffffff + 1e21 + -0 + "é𝒳".length + 10n ** 20n + ("ab" + "cd")`,
	// closures, generators, destructuring, spread, for-of, labelled loops
	`function* gen(n) { for (let i = 0; i < n; i++) { try { yield i } finally { n-- } } } var s = 0; outer: for (var x of gen(6)) { for (var [k, v] of Object.entries({a: x})) { if (x == 3) continue outer; s += v } } s + [...gen(3)].join()`,
	`var fs = []; for (let i = 0; i < 3; i++) fs.push(() => i * i); fs.map(f => f()).join() + (({a, ...r}) => Object.keys(r).length)({a: 1, b: 2, c: 3})`,
	// exceptions with stack traces: source positions of the shared Program
	`function thrower() { null.x } var st; try { thrower() } catch (e) { st = e.stack } st.split("\n").length + ":" + /thrower/.test(st)`,
	`function deep(n) { if (n == 0) throw new RangeError("deep"); return deep(n - 1) } try { deep(20) } catch (e) { e.stack.split("\n").length + e.message }`,
	// promises / async functions (jobs drained by RunProgram), symbols, getters/setters, JSON, typed arrays
	`var log = []; async function af(x) { log.push(await x); return x + 1 } af(1).then(v => log.push(v)); Promise.resolve().then(() => log.push("p")); log`,
	`var sy = Symbol("d"), o = { [sy]: 1, get g() { return this[sy] + 1 }, set g(v) { this[sy] = v } }; o.g = 5; JSON.stringify({a: [o.g, new Date(0).toISOString()], s: sy.description}) + new Uint16Array([1, 70000])[1]`,
	`var m = new Map([[NaN, 1], [0, 2]]); m.get(-0) + m.get(NaN) + new Set("aabbc").size + [3, 1, 2].sort().join("") + Math.max(...[1, 5, 3]) + "abc".at(-1) + [1, [2, [3]]].flat(2).length`,
}

type shared struct {
	name string
	mk   func() goja.Value // a FRESH shared value (lazily computed state must start unset in every repetition)
}

func longs() []shared {
	a := "0123456789012345678901234567890q"
	u := "0123456789012345678é1𝒳234567890q"
	return []shared{
		{"istr-ascii", func() goja.Value { return goja.New().ToValue(a + "") }},
		{"istr-unicode", func() goja.Value { return goja.New().ToValue(u + "") }},
		{"istr-concat", func() goja.Value {
			vm := goja.New()
			vm.Set("p", vm.ToValue(a+"|"))
			vm.Set("q", vm.ToValue(u+"|"))
			v, err := vm.RunString("p + q") // a concatenation of two unscanned imported strings stays unscanned
			if err != nil {
				panic(err)
			}
			return v
		}},
		{"istr-json", func() goja.Value {
			vm := goja.New()
			v, err := vm.RunString(`JSON.stringify("0123456789012345678é1𝒳234567890q").slice(1, -1)`)
			if err != nil {
				panic(err)
			}
			return v
		}},
	}
}

func prims() []shared {
	sym := goja.NewSymbol("shared")
	return []shared{
		{"symbol", func() goja.Value { return sym }},
		{"int", func() goja.Value { return goja.New().ToValue(42) }},
		{"float", func() goja.Value { return goja.New().ToValue(1.5) }},
		{"bigint", func() goja.Value { return goja.New().ToValue(new(big.Int).Lsh(big.NewInt(1), 70)) }},
		{"ascii", func() goja.Value { return goja.New().ToValue("short") }},
		{"unicode-short", func() goja.Value { return goja.New().ToValue("é𝒳") }},
		{"undefined", func() goja.Value { return goja.Undefined() }},
		{"null", func() goja.Value { return goja.Null() }},
		{"nan", func() goja.Value { return goja.NaN() }},
	}
}

var primOps = []string{
	"typeof s", "String(s) + ''", "var o = {}; o[s] = 1; Object.getOwnPropertySymbols(o).length + Object.keys(o).length", "s === s", "new Map([[s, 1]]).get(s)",
	"[s].includes(s)", "typeof s === 'bigint' ? String(s * 3n + 1n) : typeof s === 'symbol' ? s.description : s + 1", "JSON.stringify([typeof s === 'bigint' || typeof s === 'symbol' ? null : s])",
	"Object(s) == s",
}

func runJS(vm *goja.Runtime, v goja.Value, src string) (res string) {
	defer func() {
		if r := recover(); r != nil {
			res = fmt.Sprint("PANIC: ", r)
		}
	}()
	vm.Set("s", v)
	vm.Set("t", "0123456789012345678901234567890q")
	out, err := vm.RunString(src)
	if err != nil {
		return "ERR: " + err.Error()
	}
	return out.String()
}

var raceLog string

func raceBytes() int64 {
	var n int64
	m, _ := filepath.Glob(raceLog + ".*")
	for _, f := range m {
		if st, err := os.Stat(f); err == nil {
			n += st.Size()
		}
	}
	return n
}

func raceTail(from int64) string {
	m, _ := filepath.Glob(raceLog + ".*")
	var sb strings.Builder
	for _, f := range m {
		b, _ := os.ReadFile(f)
		if int64(len(b)) > from {
			sb.Write(b[from:])
		}
	}
	s := sb.String()
	if len(s) > 3000 {
		s = s[:3000]
	}
	return s
}

// newVM: a Runtime with a call-depth limit (a generated program may recurse without bound: that is a StackOverflowError in
// the isolated run and in every concurrent run alike, not a host that grows its stack for minutes)
func newVM() *goja.Runtime {
	vm := goja.New()
	vm.SetMaxCallStackSize(300)
	return vm
}

// conc runs the jobs concurrently (one goroutine and one Runtime each), released by a barrier
func conc(jobs []func(vm *goja.Runtime) string) []string {
	res := make([]string, len(jobs))
	vms := make([]*goja.Runtime, len(jobs))
	for i := range vms {
		vms[i] = newVM()
	}
	var start, done sync.WaitGroup
	start.Add(1)
	for i := range jobs {
		done.Add(1)
		go func(i int) {
			defer done.Done()
			start.Wait()
			res[i] = jobs[i](vms[i])
		}(i)
	}
	start.Done()
	done.Wait()
	return res
}

func main() {
	scen := flag.String("scenarios", "", "json list of scenarios from Sharing.tla")
	out := flag.String("out", "", "")
	reps := flag.Int("reps", 3, "")
	gor := flag.Int("goroutines", 4, "goroutines per scenario (>= number of operations in it)")
	extra := flag.String("progs", "", "json list of additional program sources (generated)")
	flag.StringVar(&raceLog, "racelog", "", "GORACE log_path prefix")
	flag.Parse()
	var scs []scenario
	b, err := os.ReadFile(*scen)
	if err == nil {
		err = json.Unmarshal(b, &scs)
	}
	if err != nil {
		fmt.Fprintln(os.Stderr, err)
		os.Exit(2)
	}
	progSrcs := append([]string{}, programs...)
	if *extra != "" {
		var more []string
		if b, err := os.ReadFile(*extra); err == nil && json.Unmarshal(b, &more) == nil {
			progSrcs = append(progSrcs, more...)
		}
	}
	var findings []finding
	ran := 0
	bigDone := false
	check := func(name string, before int64, got []string, want []string) {
		ran++
		if n := raceBytes(); n > before {
			findings = append(findings, finding{name, "race", raceTail(before)})
		}
		for i := range got {
			if got[i] != want[i] {
				kind := "result"
				if strings.HasPrefix(got[i], "PANIC") {
					kind = "panic"
				}
				findings = append(findings, finding{name, kind, fmt.Sprintf("goroutine %d: concurrent result %q, isolated result %q", i, got[i], want[i])})
				break
			}
		}
	}
	for _, sc := range scs {
		ops := append([]string{sc.O}, sc.With...)
		for len(ops) < *gor {
			ops = append(ops, ops[len(ops)%(len(sc.With)+1)])
		}
		switch sc.Obj {
		case "istr":
			for _, sh := range longs() {
				for rep := 0; rep < *reps*len(scanOps)/4; rep++ {
					srcs := make([]string, len(ops))
					for i, o := range ops {
						if o == "scan" {
							srcs[i] = scanOps[(rep*len(ops)+i*7)%len(scanOps)]
						} else {
							srcs[i] = rawOps[(rep+i)%len(rawOps)]
						}
					}
					want := make([]string, len(ops))
					for i := range ops {
						want[i] = runJS(goja.New(), sh.mk(), srcs[i])
					}
					v := sh.mk()
					jobs := make([]func(*goja.Runtime) string, len(ops))
					for i := range ops {
						src := srcs[i]
						jobs[i] = func(vm *goja.Runtime) string { return runJS(vm, v, src) }
					}
					before := raceBytes()
					got := conc(jobs)
					check(fmt.Sprintf("%s ops=%v value=%s js=%q", sc.Obj, ops, sh.name, srcs), before, got, want)
				}
			}
			if sc.O == "scan" && !bigDone {
				bigDone = true
				// a large string widens the window in which two first uses overlap; every ordered pair of first operations
				big := strings.Repeat("0123456789abcdef", 2048) + "é𝒳"
				wantOf := map[string]string{}
				bigOps := []string{"s.length", "(s + 'x').length", "s.concat('y').length", "s.charCodeAt(5)", "s === t", "s.indexOf('é') > 0", "s.slice(3, 9)",
					"s < t", "new Map([[s, 1]]).has(t)", "('x' + s).length"}
				for rep := 0; rep < *reps; rep++ {
					for i := range bigOps {
						for j := range bigOps {
							srcs := []string{bigOps[i], bigOps[j], bigOps[(i+j+rep)%len(bigOps)], bigOps[(i*3+j+1)%len(bigOps)]}
							want := make([]string, len(srcs))
							for k := range srcs {
								if _, ok := wantOf[srcs[k]]; !ok {
									wantOf[srcs[k]] = runJS(goja.New(), goja.New().ToValue(big+""), srcs[k])
								}
								want[k] = wantOf[srcs[k]]
							}
							v := goja.New().ToValue(big + "")
							jobs := make([]func(*goja.Runtime) string, len(srcs))
							for k := range srcs {
								src := srcs[k]
								jobs[k] = func(vm *goja.Runtime) string { return runJS(vm, v, src) }
							}
							before := raceBytes()
							got := conc(jobs)
							check(fmt.Sprintf("istr ops=first-use pairs value=big-unicode js=%q", srcs), before, got, want)
						}
					}
				}
			}
		case "prim":
			for _, sh := range prims() {
				for rep := 0; rep < *reps; rep++ {
					for oi := range primOps {
						want := runJS(goja.New(), sh.mk(), primOps[oi])
						v := sh.mk()
						jobs := make([]func(*goja.Runtime) string, len(ops))
						wants := make([]string, len(ops))
						for i := range ops {
							wants[i] = want
							jobs[i] = func(vm *goja.Runtime) string { return runJS(vm, v, primOps[oi]) }
						}
						before := raceBytes()
						got := conc(jobs)
						check(fmt.Sprintf("prim value=%s js=%q", sh.name, primOps[oi]), before, got, wants)
					}
				}
			}
		case "prog":
			for pi, src := range progSrcs {
				prg, err := goja.Compile(fmt.Sprintf("p%d.js", pi), src, false)
				if err != nil {
					findings = append(findings, finding{fmt.Sprintf("prog %d", pi), "panic", "does not compile: " + err.Error()})
					continue
				}
				run := func(vm *goja.Runtime) (res string) {
					defer func() {
						if r := recover(); r != nil {
							res = fmt.Sprint("PANIC: ", r)
						}
					}()
					v, err := vm.RunProgram(prg)
					if err != nil {
						return "ERR: " + err.Error()
					}
					if p, ok := v.Export().(*goja.Promise); ok {
						return fmt.Sprint("promise ", p.State())
					}
					return v.String()
				}
				// the isolated result comes from a SEPARATE compilation of the same source
				prg0, _ := goja.Compile(fmt.Sprintf("p%d.js", pi), src, false)
				want0 := func() (res string) {
					defer func() {
						if r := recover(); r != nil {
							res = fmt.Sprint("PANIC: ", r)
						}
					}()
					v, err := newVM().RunProgram(prg0)
					if err != nil {
						return "ERR: " + err.Error()
					}
					if p, ok := v.Export().(*goja.Promise); ok {
						return fmt.Sprint("promise ", p.State())
					}
					return v.String()
				}()
				if strings.HasPrefix(want0, "PANIC") {
					findings = append(findings, finding{fmt.Sprintf("prog %d %.60q", pi, src), "panic", "a single isolated run panics the host: " + want0})
					continue
				}
				for rep := 0; rep < *reps; rep++ {
					jobs := make([]func(*goja.Runtime) string, len(ops))
					wants := make([]string, len(ops))
					for i := range ops {
						wants[i] = want0
						jobs[i] = run
					}
					before := raceBytes()
					got := conc(jobs)
					check(fmt.Sprintf("prog ops=%v program=%d %.60q", ops, pi, src), before, got, wants)
				}
			}
		}
	}
	// an Object of one Runtime is rejected by another one
	{
		vm1, vm2 := goja.New(), goja.New()
		o := vm1.NewObject()
		res := func() (r string) {
			defer func() {
				if x := recover(); x != nil {
					if ex, ok := x.(*goja.Exception); ok {
						r = "exception:" + ex.Value().String()
					} else if v, ok := x.(goja.Value); ok {
						r = "value:" + v.String()
					} else {
						r = fmt.Sprint("panic:", x)
					}
				}
			}()
			if err := vm2.Set("o", o); err != nil {
				return "err:" + err.Error()
			}
			v, err := vm2.RunString("typeof o")
			if err != nil {
				return "err:" + err.Error()
			}
			return "accepted:" + v.String()
		}()
		ran++
		if !strings.Contains(res, "TypeError") {
			findings = append(findings, finding{"foreign object", "result", "an Object of another Runtime was not rejected with a TypeError: " + res})
		}
	}
	bb, _ := json.Marshal(map[string]interface{}{"scenarios": len(scs), "runs": ran, "findings": findings, "programs": len(progSrcs)})
	os.WriteFile(*out, bb, 0644)
}
