// pmrun executes promise programs (lib/pmgen.py) on the real engine: the script phase as one script, Go-side resolver
// calls between runs, and reports the event log (handler calls, thenable calls, tracker notifications, "return" each time
// control comes back to Go with the job-queue length seen there) plus the final state of every script-visible promise.
package main

import (
	"encoding/json"
	"flag"
	"fmt"
	"os"
	"strings"
	"sync"

	"github.com/dop251/goja"
)

type op struct {
	Op string `json:"op"`
	P  int    `json:"p"`
	X  string `json:"x"`
}

type prog struct {
	Id  int    `json:"id"`
	Ngo int    `json:"ngo"`
	Ops []op   `json:"ops"`
	Src string `json:"src"`
}

type result struct {
	Id     int               `json:"id"`
	Log    []string          `json:"log"`
	Finals map[string]string `json:"finals"`
	Err    string            `json:"err,omitempty"`
	Panic  string            `json:"panic,omitempty"`
}

func runOne(p prog) (res result) {
	res.Id = p.Id
	res.Log = []string{}
	res.Finals = map[string]string{}
	defer func() {
		if r := recover(); r != nil {
			res.Panic = fmt.Sprint(r)
		}
	}()
	vm := goja.New()
	ids := map[*goja.Promise]int{}
	type lateEv struct {
		at   int
		name string
		pr   *goja.Promise
	}
	var late []lateEv
	defer func() {
		for _, e := range late {
			if id, ok := ids[e.pr]; ok {
				res.Log[e.at] = fmt.Sprintf("track:%s:%d", e.name, id)
			} else {
				res.Log[e.at] = fmt.Sprintf("track:%s:?", e.name)
			}
		}
	}()
	objs := map[int]*goja.Object{}
	vm.Set("log", func(s string) { res.Log = append(res.Log, s) })
	vm.Set("reg", func(id int, o *goja.Object) {
		if pr, ok := o.Export().(*goja.Promise); ok {
			ids[pr] = id
			objs[id] = o
		}
	})
	vm.SetPromiseRejectionTracker(func(pr *goja.Promise, operation goja.PromiseRejectionOperation) {
		name := "reject"
		if operation == goja.PromiseRejectionHandle {
			name = "handle"
		}
		// the promise may be registered by the script only after this notification (e.g. Promise.any([]) rejects inside
		// the call that creates it): remember the pointer and resolve the id at the end
		late = append(late, lateEv{len(res.Log), name, pr})
		res.Log = append(res.Log, "")
	})
	// Go-created promises
	gp := vm.NewArray()
	gres := vm.NewArray()
	grej := vm.NewArray()
	goRes := make([]func(interface{}) error, p.Ngo)
	goRej := make([]func(interface{}) error, p.Ngo)
	for i := 0; i < p.Ngo; i++ {
		pr, resolve, reject := vm.NewPromise()
		goRes[i], goRej[i] = resolve, reject
		gp.Set(fmt.Sprint(i), vm.ToValue(pr))
		gres.Set(fmt.Sprint(i), func(call goja.FunctionCall) goja.Value { resolve(call.Argument(0)); return goja.Undefined() })
		grej.Set(fmt.Sprint(i), func(call goja.FunctionCall) goja.Value { reject(call.Argument(0)); return goja.Undefined() })
	}
	vm.Set("gp", gp)
	vm.Set("gres", gres)
	vm.Set("grej", grej)
	ret := func() {
		res.Log = append(res.Log, fmt.Sprintf("return"))
		if n := goja.VerifRegs(vm).Jobs; n != 0 {
			res.Log = append(res.Log, fmt.Sprintf("QUEUE-NOT-EMPTY:%d", n))
		}
	}
	if _, err := vm.RunString(p.Src); err != nil {
		res.Err = err.Error()
		return
	}
	ret()
	after := false
	for _, o := range p.Ops {
		if o.Op == "end" {
			after = true
			continue
		}
		if !after {
			continue
		}
		switch o.Op {
		case "resolve":
			var v interface{} = o.X
			if strings.HasPrefix(o.X, "P") {
				var k int
				fmt.Sscanf(o.X[1:], "%d", &k)
				v = objs[k]
			}
			goRes[o.P-1](v)
			ret()
		case "reject":
			goRej[o.P-1](o.X)
			ret()
		case "run":
			if _, err := vm.RunString(""); err != nil {
				res.Err = err.Error()
				return
			}
			ret()
		}
	}
	show, _ := goja.AssertFunction(vm.Get("show"))
	for pr, id := range ids {
		st := map[goja.PromiseState]string{goja.PromiseStatePending: "pend", goja.PromiseStateFulfilled: "ful", goja.PromiseStateRejected: "rej"}[pr.State()]
		v := "u"
		if pr.State() != goja.PromiseStatePending {
			sv, err := show(goja.Undefined(), pr.Result())
			if err == nil {
				v = sv.String()
			}
		}
		res.Finals[fmt.Sprint(id)] = st + ":" + v
	}
	return
}

func main() {
	in := flag.String("in", "", "programs json")
	out := flag.String("out", "", "results ndjson")
	threads := flag.Int("threads", 8, "")
	flag.Parse()
	data, err := os.ReadFile(*in)
	if err != nil {
		fmt.Fprintln(os.Stderr, err)
		os.Exit(2)
	}
	var progs []prog
	if err := json.Unmarshal(data, &progs); err != nil {
		fmt.Fprintln(os.Stderr, err)
		os.Exit(2)
	}
	results := make([]result, len(progs))
	var wg sync.WaitGroup
	for t := 0; t < *threads; t++ {
		wg.Add(1)
		go func(t int) {
			defer wg.Done()
			for i := t; i < len(progs); i += *threads {
				results[i] = runOne(progs[i])
			}
		}(t)
	}
	wg.Wait()
	f, _ := os.Create(*out)
	defer f.Close()
	enc := json.NewEncoder(f)
	for _, r := range results {
		enc.Encode(r)
	}
}
