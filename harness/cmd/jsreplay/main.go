// jsreplay walks a TLC-generated edge graph on the real engine through an adaptor written in
// JavaScript (functions reset() and step(label) returning {res, obs}).
package main

import (
	"encoding/json"
	"flag"
	"fmt"
	"os"
	"strings"
	"time"

	"github.com/dop251/goja"
	"verifharness/natives"
	"verifharness/walk"
)

type jsAdaptor struct {
	prg   []*goja.Program
	vm    *goja.Runtime
	step  goja.Callable
	fresh bool
}

func (a *jsAdaptor) newVM() {
	vm := goja.New()
	natives.Install(vm)
	for _, p := range a.prg {
		if _, err := vm.RunProgram(p); err != nil {
			fmt.Fprintln(os.Stderr, "adaptor load:", err)
			os.Exit(2)
		}
	}
	a.vm = vm
	a.step, _ = goja.AssertFunction(vm.Get("step"))
}

func (a *jsAdaptor) Reset() string {
	if a.vm == nil || a.fresh {
		a.newVM()
	}
	reset, _ := goja.AssertFunction(a.vm.Get("reset"))
	v, err := reset(goja.Undefined())
	if err != nil {
		return "!reset: " + err.Error()
	}
	return walk.CanonV(natives.Export(v))
}

func (a *jsAdaptor) Step(label json.RawMessage) (string, string) {
	var l interface{}
	json.Unmarshal(label, &l)
	v, err := a.step(goja.Undefined(), a.vm.ToValue(l))
	if err != nil {
		return "!step: " + err.Error(), ""
	}
	o := v.ToObject(a.vm)
	return walk.CanonV(natives.Export(o.Get("res"))), walk.CanonV(natives.Export(o.Get("obs")))
}

func main() {
	graph := flag.String("graph", "", "TLC stdout of the pure specification (edge stream)")
	devs := flag.String("devs", "", "name=file,... TLC stdout with a deviation switch on")
	init := flag.String("init", "", "JSON of the initial abstract state")
	obs0 := flag.String("obs0", "", "JSON of the initial observation")
	threads := flag.Int("threads", 1, "worker goroutines in this process")
	adaptor := flag.String("adaptor", "", "comma separated adaptor js files")
	out := flag.String("out", "", "report json")
	worker := flag.Int("worker", 0, "")
	workers := flag.Int("workers", 1, "")
	seed := flag.Int64("seed", 1, "")
	maxTour := flag.Int("maxtour", 40, "")
	walks := flag.Int("walks", 0, "")
	walkLen := flag.Int("walklen", 60, "")
	journal := flag.String("journal", "", "")
	replay := flag.String("replay", "", "replay file (json with path)")
	jobsFile := flag.String("jobs", "", "json list of {adaptor, out, worker, workers, journal}: several adaptors over one graph")
	fresh := flag.Bool("fresh", true, "fresh Runtime per tour")
	flag.Parse()
	a := &jsAdaptor{fresh: *fresh}
	mk := func() walk.Adaptor { return &jsAdaptor{fresh: *fresh, prg: a.prg} }
	for _, f := range strings.Split(*adaptor, ",") {
		if f == "" {
			continue
		}
		src, err := os.ReadFile(f)
		if err != nil {
			fmt.Fprintln(os.Stderr, err)
			os.Exit(2)
		}
		a.prg = append(a.prg, goja.MustCompile(f, string(src), false))
	}
	o := walk.Options{Worker: *worker, Workers: *workers, Seed: *seed, MaxTour: *maxTour, RandomWalks: *walks,
		WalkLen: *walkLen, Journal: *journal, StepTimeout: 120 * time.Second}
	if *replay != "" {
		data, err := os.ReadFile(*replay)
		if err != nil {
			fmt.Fprintln(os.Stderr, err)
			os.Exit(2)
		}
		var r struct {
			Replay walk.Mismatch `json:"replay"`
		}
		json.Unmarshal(data, &r)
		res, obs, pmsg := walk.Replay(a, r.Replay.Path)
		json.NewEncoder(os.Stdout).Encode(map[string]string{"res": res, "obs": obs, "panic": pmsg})
		return
	}
	dm := map[string]string{}
	for _, kv := range strings.Split(*devs, ",") {
		if i := strings.Index(kv, "="); i > 0 {
			dm[kv[:i]] = kv[i+1:]
		}
	}
	g, err := walk.LoadTLC(*graph, dm, *init, *obs0, *threads*2)
	if err != nil {
		fmt.Fprintln(os.Stderr, err)
		os.Exit(2)
	}
	walk.Watchdog(o)
	if *jobsFile != "" {
		var jobs []struct {
			Adaptor string
			Out     string
			Worker  int
			Workers int
			Journal string
		}
		data, err := os.ReadFile(*jobsFile)
		if err == nil {
			err = json.Unmarshal(data, &jobs)
		}
		if err != nil {
			fmt.Fprintln(os.Stderr, err)
			os.Exit(2)
		}
		for _, j := range jobs {
			var prg []*goja.Program
			for _, f := range strings.Split(j.Adaptor, ",") {
				src, err := os.ReadFile(f)
				if err != nil {
					fmt.Fprintln(os.Stderr, err)
					os.Exit(2)
				}
				prg = append(prg, goja.MustCompile(f, string(src), false))
			}
			mkj := func() walk.Adaptor { return &jsAdaptor{fresh: *fresh, prg: prg} }
			oj := o
			oj.Journal = j.Journal
			os.WriteFile(*jobsFile+".current", []byte(j.Out), 0644)
			rep := walk.CoverParallel(g, mkj, oj, j.Worker, *threads, j.Workers)
			rep.Edges, rep.Nodes, rep.DevEdges = len(g.Edges)-g.DevEdges, g.Nodes, g.DevEdges
			if err := walk.WriteReport(rep, j.Out); err != nil {
				fmt.Fprintln(os.Stderr, err)
				os.Exit(2)
			}
		}
		return
	}
	rep := walk.CoverParallel(g, mk, o, *worker, *threads, *workers)
	rep.Edges, rep.Nodes, rep.DevEdges = len(g.Edges)-g.DevEdges, g.Nodes, g.DevEdges
	if err := walk.WriteReport(rep, *out); err != nil {
		fmt.Fprintln(os.Stderr, err)
		os.Exit(2)
	}
}
