package goja

// White-box, read-only accessor for the RegExp checks (C20): which matcher a RegExp object was compiled for and
// whether the optimised paths for unmodified RegExp objects apply to it. Added at build time through `go build -overlay`.

// VerifRegexpInfo returns nil if o is not a RegExp object. Keys:
//   re2     - the pattern was compiled for Go's regexp package (linear time); regexp2 is then only a lazy fallback
//   regexp2 - a regexp2 (backtracking) matcher exists for the pattern right now
//   std     - checkStdRegexp(o) != nil: @@match / @@replace / @@search / @@split take their optimised paths
func VerifRegexpInfo(o *Object) map[string]interface{} {
	if o == nil {
		return nil
	}
	rx, ok := o.self.(*regexpObject)
	if !ok || rx.pattern == nil {
		return nil
	}
	return map[string]interface{}{
		"re2":     rx.pattern.regexpWrapper != nil,
		"regexp2": rx.pattern.regexp2Wrapper != nil,
		"std":     o.runtime.checkStdRegexp(o) != nil,
	}
}
