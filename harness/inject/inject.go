package goja

// White-box, read-only accessors added to package goja at build time through `go build -overlay`
// (never committed to the repository). Used by the /verif replayers to project hidden
// implementation state (representation tags, storage strategies, VM registers).

import (
	"fmt"
	"reflect"
)

// VerifValueTag names the internal representation of a primitive value.
func VerifValueTag(v Value) string {
	switch x := v.(type) {
	case valueInt:
		return "int"
	case valueFloat:
		return "float"
	case asciiString:
		return "ascii"
	case unicodeString:
		return "unicode"
	case *importedString:
		if x.isScanned() {
			if x.u != nil {
				return "imported-u"
			}
			return "imported-a"
		}
		return "imported"
	case valueBool:
		return "bool"
	case valueNull:
		return "null"
	case valueUndefined:
		return "undefined"
	case *Symbol:
		return "symbol"
	case *valueBigInt:
		return "bigint"
	case *Object:
		return "object"
	case nil:
		return "nil"
	}
	return reflect.TypeOf(v).String()
}

// VerifSelfKind names the concrete objectImpl behind an object (storage strategy).
func VerifSelfKind(o *Object) string {
	if o == nil {
		return "nil"
	}
	switch o.self.(type) {
	case *arrayObject:
		return "array"
	case *sparseArrayObject:
		return "sparse"
	}
	return reflect.TypeOf(o.self).String()
}

// VerifArrayCounters returns hidden counters of array storage.
func VerifArrayCounters(o *Object) map[string]int64 {
	switch a := o.self.(type) {
	case *arrayObject:
		return map[string]int64{"length": int64(a.length), "objCount": int64(a.objCount),
			"propValueCount": int64(a.propValueCount), "values": int64(len(a.values))}
	case *sparseArrayObject:
		return map[string]int64{"length": int64(a.length), "propValueCount": int64(a.propValueCount),
			"items": int64(len(a.items))}
	}
	return nil
}

// VerifRegs returns the VM registers that must be balanced on an idle Runtime.
type VerifRegisters struct {
	Cs, Ts, Is, Rs, Sp, Sb, Jobs int
	Interrupted                  bool
	GlobalStash                  bool
	// leftovers of an aborted run: private-name environment, current async runner, program
	PrivEnv, AsyncRunner, Prg bool
	// runtime-wide bookkeeping of built-ins in progress (Array.prototype.join cycle detection)
	ToStr int
}

func VerifRegs(r *Runtime) VerifRegisters {
	vm := r.vm
	return VerifRegisters{Cs: len(vm.callStack), Ts: len(vm.tryStack), Is: len(vm.iterStack), Rs: len(vm.refStack),
		Sp: vm.sp, Sb: vm.sb, Jobs: len(r.jobQueue), Interrupted: vm.interrupted != 0, GlobalStash: vm.stash == nil || vm.stash == &r.global.stash,
		PrivEnv: vm.privEnv != nil, AsyncRunner: vm.curAsyncRunner != nil, Prg: vm.prg != nil, ToStr: len(r.toStringStack)}
}

func (v VerifRegisters) Idle() bool {
	return v.Cs == 0 && v.Ts == 0 && v.Is == 0 && v.Rs == 0 && v.Sp == 0 && v.Jobs == 0 && v.GlobalStash && !v.PrivEnv && !v.AsyncRunner && !v.Prg && v.ToStr == 0
}

func verifOMap(o *Object) *orderedMap {
	switch m := o.self.(type) {
	case *mapObject:
		return m.m
	case *setObject:
		return m.m
	}
	return nil
}

// VerifOMapCheck verifies structural invariants of the orderedMap behind a Map or Set:
// size = number of linked live entries = number of hashed entries; links are mutually consistent;
// every linked entry is live. Returns "" if all hold.
func VerifOMapCheck(o *Object) string {
	m := verifOMap(o)
	if m == nil {
		return "not a map/set"
	}
	n := 0
	var prev *mapEntry
	for e := m.iterFirst; e != nil; e = e.iterNext {
		if e.key == nil {
			return fmt.Sprintf("dead entry linked at position %d", n)
		}
		if e.iterPrev != prev {
			return fmt.Sprintf("iterPrev inconsistent at position %d", n)
		}
		prev = e
		n++
		if n > 1<<20 {
			return "cycle"
		}
	}
	if m.iterLast != prev {
		return "iterLast inconsistent"
	}
	if n != m.size {
		return fmt.Sprintf("size %d but %d linked entries", m.size, n)
	}
	h := 0
	for _, e := range m.hashTable {
		for ; e != nil; e = e.hNext {
			if e.key == nil {
				return "dead entry hashed"
			}
			h++
		}
	}
	if h != n {
		return fmt.Sprintf("%d hashed entries but %d linked", h, n)
	}
	return ""
}

// VerifDumpProgram renders the compiled code of a Program (development aid for triaging compiler findings).
func VerifDumpProgram(p *Program) string {
	var sb []byte
	p.dumpCode(func(format string, args ...interface{}) {
		sb = append(sb, fmt.Sprintf(format, args...)...)
		sb = append(sb, '\n')
	})
	return string(sb)
}
