"""Promise programs for Promise.tla in oracle mode: generator + JavaScript printer (binding C for C10)."""
import json

PRE = r'''
var ps = [], res = [], rej = [];
function T(tag) {
  var o = {__tag: tag};
  if (tag === "Tok") o.then = function(r, j) { log("th:Tok"); r("tv"); };
  else if (tag === "Tthrow") o.then = function(r, j) { log("th:Tthrow"); throw "te"; };
  else if (tag === "Tget") Object.defineProperty(o, "then", {get: function() { log("th:Tget"); throw "tg"; }});
  else if (tag === "Tmulti") o.then = function(r, j) { log("th:Tmulti"); r("m1"); j("m2"); r("m3"); };
  else if (tag === "Tnc") o.then = 5;
  else if (tag === "Trthrow") o.then = function(r, j) { log("th:Trthrow"); r("q1"); throw "qe"; };
  return o;
}
function show(a) {
  if (a === undefined) return "u";
  if (typeof a === "string") return a;
  if (a instanceof AggregateError) return "AggregateError[" + a.errors.map(show).join(",") + "]";
  if (a instanceof TypeError) return "TypeError";
  if (Array.isArray(a)) return "A[" + a.map(show).join(",") + "]";
  if (a && a.__tag) return a.__tag;
  if (a && a.status === "fulfilled") return "{f:" + show(a.value) + "}";
  if (a && a.status === "rejected") return "{r:" + show(a.reason) + "}";
  for (var i = 0; i < ps.length; i++) if (ps[i] === a) return "P" + i;
  return "?" + String(a);
}
function V(x, self) {
  if (x === "self") return ps[self];
  if (/^P\d+$/.test(x)) return ps[+x.slice(1)];
  if (/^T/.test(x)) return T(x);
  return x;
}
function H(id, beh, fin) {
  if (beh === "none") return undefined;
  return function(a) {
    log("h" + id + ":" + (fin ? "" : show(a)));
    if (beh === "val") return "r" + id;
    if (beh === "thr") throw "t" + id;
    if (/^res\d+$/.test(beh)) { res[+beh.slice(3)]("x" + id); return undefined; }
    if (beh === "undef") return undefined;
    return V(beh);
  };
}
class Sub extends Promise {}
function NEW(id, c) { ps[id] = new (c === "S" ? Sub : Promise)(function(a, b) { res[id] = a; rej[id] = b; }); reg(id, ps[id]); }
'''


def print_js(prog):
    """the script phase as one script; Go-created promises (the first prog['ngo'] ones) are injected by the driver"""
    out = [PRE]
    np_ = 0
    nh = 0
    cls = classes(prog)
    for i in range(prog["ngo"]):
        np_ += 1
        out.append("ps[%d] = gp[%d]; res[%d] = gres[%d]; rej[%d] = grej[%d]; reg(%d, ps[%d]);" % (np_, i, np_, i, np_, i, np_, np_))
    for o in prog["ops"][prog["ngo"]:]:
        op = o["op"]
        if op in ("end", "run"):
            break
        if op == "new":
            np_ += 1
            out.append("NEW(%d, %s);" % (np_, json.dumps(o.get("c", "P"))))
        elif op == "resolve":
            out.append("res[%d](V(%s, %d));" % (o["p"], json.dumps(o["x"]), o["p"]))
        elif op == "reject":
            out.append("rej[%d](%s);" % (o["p"], json.dumps(o["x"])))
        elif op == "then":
            np_ += 1
            out.append("ps[%d] = ps[%d].then(H(%d, %s), H(%d, %s)); reg(%d, ps[%d]);" % (
                np_, o["p"], nh + 1, json.dumps(o["bf"]), nh + 2, json.dumps(o["br"]), np_, np_))
            nh += 2
        elif op == "finally":
            np_ += 1
            out.append("ps[%d] = ps[%d].finally(H(%d, %s, true)); reg(%d, ps[%d]);" % (np_, o["p"], nh + 1, json.dumps(o["b"]), np_, np_))
            nh += 2
        elif op in ("all", "any", "race", "allSettled"):
            np_ += 1
            out.append("ps[%d] = Promise.%s([%s]); reg(%d, ps[%d]);" % (np_, op, ",".join("ps[%d]" % x for x in o["xs"]), np_, np_))
            np_ += sum(2 if cls[x] == "S" else 1 for x in o["xs"])
            nh += 2 * len(o["xs"])
        else:
            raise AssertionError(op)
    return "\n".join(out)


def classes(prog):
    """{visible promise id: "P" | "S"}: a derived promise has the class of the promise then() / finally() was called on; the
    combinators are called on %Promise% and wrap every subclass element in a new promise (one more internal id)"""
    cls = {}
    np_ = 0
    for o in prog["ops"]:
        op = o["op"]
        if op == "new":
            np_ += 1
            cls[np_] = o.get("c", "P")
        elif op in ("then", "finally"):
            np_ += 1
            cls[np_] = cls[o["p"]]
        elif op in ("all", "any", "race", "allSettled"):
            np_ += 1
            cls[np_] = "P"
            np_ += sum(2 if cls[x] == "S" else 1 for x in o["xs"])
    return cls


def visible_ids(prog):
    """promise ids the script can see (internal derived promises of combinators are not)"""
    return sorted(classes(prog))


def count_now(ops):
    cls = classes({"ops": ops})
    n = 0
    for o in ops:
        if o["op"] in ("new", "then", "finally"):
            n += 1
        elif o["op"] in ("all", "any", "race", "allSettled"):
            n += 1 + sum(2 if cls[x] == "S" else 1 for x in o["xs"])
    return n


def random_program(pid, rnd, maxops=10, np_max=14):
    ngo = rnd.randint(0, 2)
    ops = [{"op": "new", "c": "P"} for _ in range(ngo)]
    np_ = ngo
    exposed = list(range(1, ngo + 1))       # promises whose resolving functions the script / Go holds
    n = rnd.randint(2, maxops)
    for _ in range(n):
        if np_ == 0 or (np_ < np_max and rnd.random() < 0.18):
            ops.append({"op": "new", "c": rnd.choice(["P", "P", "S"])})
            np_ += 1
            exposed.append(np_)
            continue
        c = rnd.choice(["resolve", "resolve", "reject", "then", "then", "then", "finally", "comb"])
        if c in ("resolve", "reject") and exposed:
            p = rnd.choice(exposed)
            if c == "resolve":
                x = rnd.choice(["v1", "v1", "self", "Tok", "Tthrow", "Tget", "Tmulti", "Tnc", "Trthrow"] + ["P%d" % k for k in visible_now(ops)])
                ops.append({"op": "resolve", "p": p, "x": x})
            else:
                ops.append({"op": "reject", "p": p, "x": "e%d" % len(ops)})
        elif c == "then" and np_ < np_max:
            vis = visible_now(ops)
            p = rnd.choice(vis)
            behs = ["none", "val", "thr", "undef", "Tok", "Tmulti", "Tnc", "Trthrow"] + ["P%d" % k for k in vis] + ["res%d" % k for k in exposed]
            ops.append({"op": "then", "p": p, "bf": rnd.choice(behs), "br": rnd.choice(["none", "none", "val", "thr"] + ["P%d" % k for k in vis])})
            np_ += 1
        elif c == "finally" and np_ < np_max:
            vis = visible_now(ops)
            ops.append({"op": "finally", "p": rnd.choice(vis), "b": rnd.choice(["val", "thr", "undef"] + ["P%d" % k for k in vis])})
            np_ += 1
        elif c == "comb" and np_ + 4 < np_max:
            vis = visible_now(ops)
            k = rnd.randint(0, 3)
            xs = [rnd.choice(vis) for _ in range(k)]
            ops.append({"op": rnd.choice(["all", "any", "race", "allSettled"]), "xs": xs})
            np_ = count_now(ops)
    ops.append({"op": "end"})
    # Go-side resolver calls between runs, then another run
    gops = 0
    for _ in range(rnd.randint(0, 3) if ngo else 0):
        p = rnd.randint(1, ngo)
        if rnd.random() < 0.7:
            ops.append({"op": "resolve", "p": p, "x": rnd.choice(["v1", "g%d" % len(ops)] + ["P%d" % k for k in visible_now(ops)])})
        else:
            ops.append({"op": "reject", "p": p, "x": "ge%d" % len(ops)})
        gops += 1
        if rnd.random() < 0.5:
            ops.append({"op": "run"})
            gops = 0
    if gops:
        ops.append({"op": "run"})
    return {"id": pid, "ngo": ngo, "ops": ops}


def visible_now(ops):
    return visible_ids({"ops": ops})
