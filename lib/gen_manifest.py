#!/usr/bin/env python3
"""Regenerates /verif/MANIFEST.json from the table below (run after adding a check)."""
import json
import os

V = os.path.dirname(os.path.dirname(os.path.abspath(__file__)))

CHECKS = {
    "C14": dict(cat="model_checking", ref="§3.10, §4 C14", tech="TLA+ Boundary.tla (payload x frame-kind transition system) enumerated by TLC; every path of the state graph rebuilt as a real call chain of JS / Go closures and compared",
                text="Boundary.tla specifies, for every payload raiser (JS throw of a primitive / object / Error, native panic(Value), panic(GoError), reflect-wrapped functions returning a plain / %w-wrapped / joined Go error, a native re-panicking an *Exception, Interrupt, stack overflow, foreign Go panic) and every frame kind (plain JS, try/catch+rethrow, try/finally, native FunctionCall, reflect-wrapped func with and without error result, ExportTo'd func, ConstructorCall, Proxy trap, getter under Runtime.Try, iterator under ForOf), how the payload crosses the frame and what the frame observes; TLC checks that no crossing changes class or value and that uncatchable / foreign payloads are never observed by script. Every path raise -> cross^(1..3, thorough 4) -> host of the generated graph (16.6k chains at depth 3) is built from real closures, frame i calling frame i+1 through its own calling convention, and executed: the host's error type, identity of Exception.Value(), errors.Is / errors.As reaching the original Go error through GoError, the top stack frame for script throws, and what each catch / finally saw must equal the specification.",
                note="Trusts TLC and harness/cmd/boundary. A plain Go error handed out by an ExportTo'd function is re-wrapped by the calling native (documented convention), so GoError object identity across that boundary is not required; promise-job and DynamicObject frames are not in the frame menu."),
    "C17": dict(cat="model_checking", ref="§3.8, §4 C17", tech="TLA+ Buf.tla (byte model of one buffer with a family of aliasing views) model-checked by TLC; every transition replayed on a Go-supplied guard-byte-surrounded buffer with a bounds monitor hooked into the raw element access sites",
                text="Buf.tla models the bytes of one ArrayBuffer, its detached flag and ten views of eight element kinds at different offsets plus a DataView; each action is one method call (element get/set with modular / clamped conversion, fill, copyWithin, reverse, sort, slice, subarray, set from another view of the same buffer and from an array, filter, Array.from, DataView 8/16-bit accessors at every offset and both endiannesses, ArrayBuffer.slice, detach, and twelve operations during which an argument coercion or callback detaches the buffer). TLC checks that no operation changes a byte outside its view's window (Window, DvWindow) and enumerates every behaviour of two operations; each transition is replayed on the real engine over a backing slice supplied by Go inside a slab of guard bytes: result, all bytes as seen through ArrayBuffer.Bytes(), guard bytes and every view's byteOffset/length are compared, and the ptr() bounds monitor (hook commit 3a32012) panics before any access outside the current buffer.",
                note="Trusts TLC, harness/adaptors/buf.js and the natives. 32- and 64-bit element kinds are covered as byte movers only (TLC integers are 32-bit); float rounding and BigInt conversion are not covered. For detach-during-operation the oracle is 'no access outside the buffer, then throw or treat as empty', not the exact result."),
    "C01": dict(cat="exploration", ref="§4 C01", tech="acceptance criterion taken from the TLA+ trace specification VMTrace.tla (ApiExit rule: documented outcome classes, idle registers) applied to generated source texts; TLC validates the recorded VM traces of the seed corpus",
                text="Every generated source text is handed to RunString (sloppy), Compile(strict)+RunProgram, a function wrapper and eval; the run must return a value or an error of a documented kind (Exception, CompilerSyntaxError, CompilerReferenceError, InterruptedError, StackOverflowError), no Go panic and no 'Compiler bug'/'BUG'/'Internal bug' diagnostic may escape, and the Runtime's registers must be idle afterwards (the ApiExit / Idle rule of VMTrace.tla evaluated through the white-box accessor). Sources: all token sequences up to length 3 over a 71-token alphabet plus sampled longer ones, token-level mutations (delete, duplicate, swap, replace, insert, truncate, move) of a seed corpus covering the supported syntax plus generated MiniJS programs, nesting bombs to depth 200 and random byte strings. Workers run in child processes with an address-space limit and a journal, so a fatal runtime error is attributed to its input. The VM traces of the seed corpus are validated by TLC against VMTrace.tla.",
                note="The specification supplies the acceptance criterion, not the inputs: inputs no generator produces are not covered (no coverage-guided fuzzing in this technique family). Trusts the Go driver harness/cmd/c01run."),
    "C10": dict(cat="model_checking", ref="§3.4, §4 C10", tech="TLA+ Promise.tla: exhaustive model check of the design (explore mode) + the same module as oracle (TLC evaluates generated promise programs; goja must produce the same event log)",
                text="Promise.tla specifies promise records, resolving functions with their shared alreadyResolved latch, reaction lists, PromiseReactionJob / PromiseResolveThenableJob, the FIFO job queue drained before control returns to Go, then / finally (thenFinally / catchFinally closures) / all / allSettled / any / race with their element functions, and HostPromiseRejectionTracker. In explore mode TLC visits every state reachable with 4-5 script operations over 4-5 promises and checks SettledStable, NoReactionsWhenSettled, LatchMonotone, TrackOK (reject before handle, each once) and QueueEmptyAtReturn. In oracle mode TLC evaluates seeded random programs (resolve with values / promises / itself / five thenable shapes, handlers that return, throw, return promises or thenables or settle other promises, combinators, Go-side NewPromise resolvers called between runs) and goja must log the same handler calls with the same arguments in the same order, the same thenable calls and tracker notifications, an empty queue at every return to Go and the same final states.",
                note="Trusts TLC, the printer lib/pmgen.py and the driver harness/cmd/pmrun. Async functions (await) are covered through the VM trace checks (C03/C15 scenarios), not by this module; jobs dropped by an interrupt are checked in C15."),
    "C15": dict(cat="model_checking", ref="§3.2, §4 C15", tech="TLA+ Interrupt.tla (two-goroutine protocol, safety + liveness) model-checked by TLC; engine executions with interrupts at every probe point / while idle / asynchronously under the race detector validated against VMTrace.tla",
                text="Interrupt.tla models Interrupt() as lock / write value / store flag / unlock, ClearInterrupt as a lone atomic store, and the VM goroutine (poll before every instruction, native stretches without polls, error construction under the lock, nested exits that keep the flag, leaveAbrupt at the outermost exit, job drain); TLC checks Prompt (<= 1 instruction after the flag is visible), CarriesSetValue, IdleClean, NestedKeepsFlag and the liveness property Stops over all interleavings, and must reject the poll-every-3rd-instruction mutation (vacuity control). The engine is then driven with Interrupt(v) at every probe point of generated and hand-written programs (generators, async functions, promise jobs, getters, comparator/iterator callbacks, proxies, nested RunProgram and Go->JS calls), with and without a preceding idle Interrupt+ClearInterrupt, with Interrupt while idle, and from a second goroutine at random delays in a -race build; every execution's event trace must be a behaviour of VMTrace.tla (IntSeen only after IntSet, only uncatchable unwinding afterwards, no catch/finally/iterator close, IntLate <= 1, flag and queue cleared exactly at the outermost exit) and each run must return InterruptedError carrying v, log nothing after the interrupt and leave a reusable Runtime.",
                note="Trusts TLC, the hooks (a52bad1, f340b8d), the Go race detector as the data-race oracle, and the vmtrace driver. Asynchronous positions are sampled, not enumerated."),
    "C03": dict(cat="model_checking", ref="§3.1, §4 C03", tech="TLA+ VMTrace.tla (control state of a Runtime) checked by TLC against event traces recorded from the real engine (trace validation) over fault-enumerated histories",
                text="VMTrace.tla specifies the VM's stack discipline (call/try/iterator stacks, handler phases, re-entrant unwinding, generator suspend/resume re-basing, API entry/exit) with the properties Idle (nothing left at the outermost exit, flag and queue cleared after an abrupt one), Nesting (exit registers = entry registers), FrameWF, Unwind and Uncatchable built into its enabling conditions. The engine, built with the verif hooks, records one event per critical section; TLC accepts a trace only if every event is an enabled action and every logged stack length equals the model's. Histories: programs with probe() at every statement boundary x every probe position x {thrown value, Go error, interrupt, foreign Go panic} + call-depth limits, over generated bodies (incl. generators) and hand-written generator/async/promise/proxy/class/re-entrant scenarios; additionally each faulted Runtime must run a fixed script exactly like a fresh Runtime.",
                note="Trusts TLC, the hooks (a52bad1, add-only, compiled out without -tags verif), the vmtrace driver and the white-box register accessor. A rejected trace has no counterexample: the failing event and its predecessors are reported. Queued jobs are not required to be dropped after a FOREIGN Go panic."),
    "C08": dict(cat="model_checking", ref="§3.3, §4 C08", tech="TLA+ MiniJS.tla (definitional small-step machine) evaluated by TLC as an oracle on generated programs; goja runs the printed programs; logs and completions compared",
                text="MiniJS.tla is a small-step definitional semantics of the control-flow subset (try/catch/finally, five loop kinds, labels, switch with fall-through, break/continue/return/throw, for-of / destructuring / spread over instrumented iterators with IteratorClose). TLC evaluates the machine — checking its own invariants TypeOK/CompOK/FinOnce in every state — on a systematic family (every nesting of two (thorough: three) constructs and try positions with an abrupt completion of each kind innermost) and on seeded random programs; the same trees are printed as JavaScript and run by goja; every finally entry, catch entry, next()/return() call and the final completion must agree.",
                note="Trusts TLC, the printer (lib/mjgen.py) and the runner. Uncatchable conditions (interrupt, stack overflow) running no finally/close are decided by the VM trace check (C03/C15), not here. Subset: constants as values, no closures."),
    "C09": dict(cat="model_checking", ref="§3.3 L2, §4 C09", tech="TLA+ MiniJS.tla generator layer evaluated by TLC as oracle over (generator body, driver history) pairs; goja runs the printed programs",
                text="The generator layer of MiniJS.tla (states start/run/suspended/done, next(v)/throw(e)/return(v) from the driver, yield inside every statement position incl. catch and finally blocks, yield* delegation to instrumented iterators with/without throw and return methods, return through pending finally regions that yield again) is evaluated by TLC for systematic bodies x all driver histories of length <= 3 and for seeded random bodies x histories of length <= 6; goja must produce the same IteratorResults, thrown errors and side-effect log.",
                note="Trusts TLC, the printer and the runner. yield appears as a statement-level expression (`log(7000 + (yield n))`); yields in arbitrary operand positions, re-entrant calls and async functions are not yet in the model."),
    "C11": dict(cat="model_checking", ref="§3.5 ObjProxy, §4 C11", tech="TLA+ ObjProxy.tla (trap x target state x answer lattice) and Obj.tla model-checked by TLC; every transition replayed on real Proxies (JS handler and Go ProxyTrapConfig, 1-2 layers)",
                text="Invariant half: TLC enumerates ObjProxy.tla — for each of 11 traps, every target cell state (absent/data/accessor x writable x configurable x extensible, prototype) x every trap answer from a lattice of honest and lying answers (descriptors differing in one field, booleans, key lists with missing/extra/duplicate/non-key entries, wrong prototype, non-object) x revoked — with ECMA-262 10.5 deciding accept vs TypeError, and checks that a proxy operation never changes the target and never reports something contradicting a non-configurable target property; each transition is replayed on a real Proxy with an answering JS handler and with a Go ProxyTrapConfig handler. Forwarding half: the complete Obj.tla edge sets (C04) are replayed on handler-less, Reflect-forwarding (1 and 2 layers), Go-handler, function-target and array-target proxies and must behave exactly like ordinary objects.",
                note="Trusts TLC, the JS adaptors (objproxy.js, obj.js) running in goja and natives.DelegatingTraps/ForwardingTraps. apply/construct traps are exercised only by the forwarding kinds. Quick tier uses the descriptor lattice (50 shapes), thorough all 729."),
    "C07": dict(cat="model_checking", ref="§3.5 ObjArray, §3.6, §4 C07", tech="TLA+ ObjArray.tla (array exotic object incl. ArraySetLength) model-checked by TLC; every transition replayed on dense / forced-sparse / sparse->dense twin arrays under order-preserving index embeddings",
                text="TLC exhaustively explores ObjArray.tla — ECMA-262 10.4.2 array [[DefineOwnProperty]] on indices and on length (ArraySetLength with partial truncation at non-configurable elements, non-writable length), OrdinarySet/Get/Has/Delete through a prototype carrying indexed data and accessor properties, freeze/seal — checking LenBound/Essential/NoGrow on the model; every transition is replayed on real arrays in lock-step variants: dense, forced sparse (empty sparseArrayObject), sparse->dense (history), a live sparse array that switches to dense storage in the middle of an operation, and under 7 index embeddings (up to 2^32-2) that make arrays cross the dense->sparse threshold mid-sequence.",
                note="Trusts TLC, the JS adaptor harness/adaptors/objarray.js running in goja, and the white-box storage-kind tag. Bounds: 3 abstract indices, 6 element descriptors, lengths 0..3. Array.prototype methods (ArrayOps.tla) are added separately; until then the method half of C07 is not claimed."),
    "C04": dict(cat="model_checking", ref="§3.5, §4 C04", tech="TLA+ Obj.tla (+ObjBase) model-checked by TLC; every generated transition replayed on real objects of ~30 kinds x 9 key mappings (edge replay)",
                text="TLC exhaustively explores Obj.tla — ECMA-262 ordinary-object internal methods incl. ValidateAndApplyPropertyDescriptor over all 729 descriptor shapes, OrdinarySet with every receiver, own-key order, integrity levels, prototype surgery — checking the essential invariants (Essential, NoGrow, OrderOK, Frame) on the model; every transition is then replayed on real goja objects of each kind (plain, function kinds, class, arrays for non-index keys, arguments, String, typed array, Error/Date/RegExp/Map/Promise, lazily materialised Math/JSON, global object) with each key mapping (string, symbol, index, 2^32-1, '-0', fractional, unicode) and each issuer (Object.*, Reflect.*, sloppy/strict syntax, Go API), comparing result and full descriptor/extensibility/prototype/key-order projection after every step.",
                note="Trusts TLC, the JS adaptor (harness/adaptors/obj.js) running inside goja, and the natives for the Go-API issuer. Bounds: 1-3 objects, 1 key (6 for ordering), values {v1,v2,undefined}, one getter/setter function. Exotic index/length behaviour is covered by ObjArray/ObjTyped/ObjArgs/ObjString configs as they are added."),
    "C18": dict(cat="model_checking", ref="§3.7, §4 C18", tech="TLA+ OMap.tla model-checked by TLC; every generated transition replayed on real Map/Set objects (edge replay) + refinement invariant against ECMA-262's list-with-emptied-slots",
                text="TLC exhaustively explores OMap.tla (insertion-ordered SameValueZero dictionary with live cursors) under small constants, checks NoDup/PosOK/Yielded and that the compact model refines ECMA-262's literal List-with-empty-slots formulation; every transition TLC generates is then replayed on real goja Map and Set objects along tours from a fresh object, comparing each result, the full entry list, size and the hidden orderedMap link/hash structure.",
                note="Trusts TLC, the JS adaptor (harness/adaptors/omap.js) running inside goja itself, and the white-box accessor. Bounds: 3-4 abstract keys x 2 representations, <=3-4 live entries, 2-3 cursors; forEach with mutating callbacks only via iterator equivalence."),
}

NOT_APPLICABLE = {
    "C12": "numeric exactness of dtoa/strtod over all float64 bit patterns is a pure-function accuracy question with no state or history; TLC has 32-bit integers and no reals (DESIGN.md §5)",
}
PENDING = "model not built yet in this tree (DESIGN.md §7 build order); not replaced by a non-model technique"


def main():
    props = [json.loads(l)["id"] for l in open(os.path.join(V, "properties.jsonl"))]
    checks = []
    for pid in props:
        c = CHECKS.get(pid)
        if not c:
            continue
        checks.append({
            "property_id": pid,
            "quick_cmd": "./bin/check %s --tier quick" % pid,
            "thorough_cmd": "./bin/check %s --tier thorough" % pid,
            "evidence_file": "/verif/evidence/%s.json" % pid,
            "replay_cmd_template": "./bin/check %s --replay {path}" % pid,
            "engine": "tlc+go-harness",
            "level_claimed": {"category": c["cat"], "text": c["text"], "design_ref": c["ref"]},
            "level_note": c["note"],
            "technique": c["tech"],
        })
    na = []
    for pid in props:
        if pid in CHECKS:
            continue
        na.append({"property_id": pid, "reason": NOT_APPLICABLE.get(pid, PENDING)})
    hooks_commits = []
    hc = os.path.join(V, "hooks_commits.txt")
    if os.path.exists(hc):
        hooks_commits = [l.split()[0] for l in open(hc) if l.strip()]
    m = {
        "version": 1,
        "setup_cmd": "cd /verif && ./bin/setup",
        "hooks": {
            "guard": "verif",
            "enable": "go build -tags verif (plus -overlay adding harness/inject/*.go read-only accessors to package goja)",
            "baseline_off_cmd": "cd /repo && GOFLAGS=-mod=mod GOPROXY=off go test -vet=off -count=1 -timeout 25m ./...",
            "source_commits": hooks_commits,
            "add_only": True,
        },
        "engines": [
            {"name": "tlc", "path": "/opt/veriftools/tla/tla2tools.jar", "serves_properties": sorted(CHECKS), "kind_free_text": "explicit-state model checker for the TLA+ specifications in /verif/specs"},
            {"name": "go-harness", "path": "/verif/harness", "serves_properties": sorted(CHECKS), "kind_free_text": "replayers / drivers that bind the specifications to the real engine built from /repo's working tree"},
        ],
        "checks": checks,
        "not_applicable": na,
        "notes": "All checks: ./bin/check <ID> --tier quick|thorough. Exit 0 held / 1 VIOLATION / 2 inconclusive. known_findings.json lists genuine defects recorded rather than repaired.",
    }
    json.dump(m, open(os.path.join(V, "MANIFEST.json"), "w"), indent=1)


if __name__ == "__main__":
    main()
