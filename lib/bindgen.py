"""Program generator + JavaScript printer for specs/Bind.tla (bindings, closures, scopes; property C02).

A program is {"id", "strict", "body": [stmt...]}; nodes are {"t", "x", "n", "k": [children], ...} exactly as Bind.tla reads them.
print_js(prog, variant) emits the same tree as JavaScript; every variant only changes decisions of goja's compiler."""
import json
import random

VARS = ["x", "y", "z", "w"]
FUNS = ["g", "h"]
PARAMS = ["p", "q"]

PRE = '''function E(e){ return e instanceof ReferenceError ? 9998 : e instanceof TypeError ? 9999 : e; }
function L(v){ if (v instanceof ReferenceError) return 9998; if (v instanceof TypeError) return 9999; switch (typeof v) { case 'number': return v !== v ? -999 : v; case 'boolean': return 2000 + (v ? 1 : 0); case 'undefined': return -1000; case 'function': return -1001; case 'object': return -1003; default: return -1002; } }
function LOG(v){ log(L(v)); return v; }
function K(v){ return v; }
function TY(s){ return ({number: 1, undefined: 2, "function": 3, boolean: 4, string: 5, object: 6})[s]; }
function __LE(e){ return L(E(e)); }
'''


def N(t, **kw):
    n = dict(t=t, x="", n=0, k=[])
    n.update(kw)
    return n


class Gen:
    def __init__(self, rnd, maxd=3):
        self.r = rnd
        self.maxd = maxd

    # ---- scope bookkeeping: per function, a name is declared at most once (avoids early errors) ----
    def fresh(self, fs, pool):
        c = [n for n in pool if n not in fs["declared"]]
        return self.r.choice(c) if c else None

    def anyname(self, fs):
        r = self.r
        ini = fs.get("inited") or []
        if ini and r.random() < 0.7:              # a name whose declaration has (textually) been passed already
            return r.choice(ini)
        vis = sorted(fs["declared"] | fs.get("outer", set())) + (["e"] if fs["incatch"] else [])
        if vis and r.random() < 0.85:
            return r.choice(vis)
        pool = VARS + FUNS + (["e"] if fs["incatch"] else []) + fs["params"]
        return r.choice(pool)

    def expr(self, d, fs):
        r = self.r
        ch = ["num", "ref", "ref", "ref", "assign", "addassign", "postinc", "typeof", "log", "log"]
        if fs.get("argsok"):
            ch += ["arglen", "argget", "argget", "argset"]
        if d > 0:
            ch += ["fn", "fn", "call", "call", "call", "add", "lt", "seq", "logassign", "incdec", "and", "or", "nullish", "cond", "sub",
                   "objlit", "objlit", "mget", "mget", "passign", "mset", "mset", "maddassign", "mincdec", "mcall", "mcall", "new", "new", "classe", "ownname"]
            if fs.get("thisok"):
                ch += ["this", "this"]
        c = r.choice(ch)
        if c == "objlit":
            return self.objlit(d - 1, fs)
        if c == "this":
            return N("this")
        if c == "ownname":
            # an immediately called named function expression with a non-simple parameter list whose own name is read by eval code only
            nm = r.choice(FUNS)
            par = r.choice(PARAMS)
            inner = dict(declared={par}, params=[], loopvars=set(), incatch=False, top=True, outer=fs["declared"] | fs.get("outer", set()) | {nm},
                         argsok=True, thisok=True, strict=bool(fs.get("strict")), revar={par}, inited=list(fs.get("inited") or []) + [par, nm],
                         fnames=list(fs.get("fnames") or []))
            ev = N("evalcode", k=[N("expr", k=[N("log", k=[N("typeof", x=nm)])]), N("expr", k=[N("log", k=[N("ref", x=nm)])])])
            if r.random() < 0.4:
                ev = N("expr", k=[N("call", k=[N("fn", x="", kind="arrow", p=[], d=[], pp=[], s=0, k=[ev])])])
            body = [ev] + self.stmts(max(d - 1, 0), inner, top=True, maxn=2)
            if r.random() < 0.5:
                fnode = N("fn", x=nm, kind="named", p=[par], d=[self.expr(0, fs)], pp=[N("none")], s=0, k=body)
            else:
                fnode = N("fn", x=nm, kind="named", p=[""], d=[N("none")], pp=[N("opat", k=[N("pel", x=par, key="a", n=1, k=[])])], s=0, k=body)
            return N("call", k=[fnode] + ([self.objlit(max(d - 1, 0), fs)] if r.random() < 0.6 else []))
        if c == "classe":
            return self.klass(d - 1, fs, None)
        if c == "new":
            fn_names = (fs.get("fnames") or []) + (fs.get("classes") or []) * 2
            q = r.random()
            callee = N("ref", x=r.choice(fn_names)) if (fn_names and q < 0.55) else self.fn(d - 1, fs) if q < 0.7 else self.klass(d - 1, fs, None) if q < 0.85 else N("ref", x=self.anyname(fs))
            return N("new", k=[callee] + [self.expr(d - 1, fs) for _ in range(r.randint(0, 2))])
        if c in ("mset", "maddassign", "mincdec", "mcall"):
            q = r.random()
            base = self.objlit(d - 1, fs) if q < 0.25 else N("this") if (q < 0.5 and fs.get("thisok")) else N("ref", x=self.anyname(fs))
            key = r.choice(["a", "b", "a", "b", "x", "y"]) if base["t"] != "this" else r.choice(["a", "b"])
            if c == "mincdec":
                return N("mincdec", x=key, n=r.choice([1, -1]), op=r.choice(["pre", "post"]), k=[base])
            if c == "mcall":
                return N("mcall", x=key, k=[base] + [self.expr(d - 1, fs) for _ in range(r.randint(0, 2))])
            return N(c, x=key, k=[base, self.expr(d - 1, fs)])
        if c == "mget":
            base = self.objlit(d - 1, fs) if r.random() < 0.4 else N("ref", x=self.anyname(fs))
            return N("mget", x=r.choice(["a", "b", "a", "b", "x", "y"]), k=[base])
        if c == "passign":
            tg = [t for t in [self.anyname(fs), self.anyname(fs)] if t not in fs["loopvars"]]
            if not tg:
                return N("num", n=1)
            return N("passign", pat=self.pat("opat", list(dict.fromkeys(tg)), d - 1, fs), k=[self.objlit(d - 1, fs) if r.random() < 0.6 else self.expr(d - 1, fs)])
        if c == "logassign":
            x = self.anyname(fs)
            if x in fs["loopvars"]:
                return N("addassign", x=x, k=[N("num", n=1)])
            return N("logassign", x=x, op=r.choice(["or", "and", "nullish"]), k=[self.expr(d - 1, fs)])
        if c == "incdec":
            x = self.anyname(fs)
            return N("incdec", x=x, n=1 if x in fs["loopvars"] else r.choice([1, -1]), op=r.choice(["pre", "post"]))
        if c in ("and", "or", "nullish", "sub"):
            return N(c, k=[self.expr(d - 1, fs), self.expr(d - 1, fs)])
        if c == "cond":
            return N("cond", k=[self.expr(d - 1, fs), self.expr(d - 1, fs), self.expr(d - 1, fs)])
        if c == "num":
            return N("num", n=r.randint(0, 3))
        if c == "arglen":
            return N("arglen")
        if c == "argget":
            return N("argget", n=r.randint(0, 2))
        if c == "argset":
            return N("argset", n=r.randint(0, 2), k=[self.expr(d - 1, fs)])
        if c in ("ref", "typeof"):
            return N(c, x=self.anyname(fs))
        if c in ("assign", "addassign"):
            x = self.anyname(fs)
            if x in fs["loopvars"]:
                return N("addassign", x=x, k=[N("num", n=1)])
            return N(c, x=x, k=[self.expr(d - 1, fs)])
        if c == "postinc":
            return N("postinc", x=self.anyname(fs))
        if c == "log":
            return N("log", k=[self.expr(d - 1, fs)])
        if c == "fn":
            return self.fn(d - 1, fs)
        if c == "call":
            fn_names = fs.get("fnames") or []
            if fn_names and r.random() < 0.75:
                callee = N("ref", x=r.choice(fn_names))
            else:
                callee = N("ref", x=self.anyname(fs) if r.random() < 0.8 else r.choice(FUNS)) if r.random() < 0.6 else self.fn(d - 1, fs)
            return N("call", k=[callee] + [self.expr(d - 1, fs) for _ in range(r.randint(0, 2))])
        if c in ("add", "lt"):
            return N(c, k=[self.expr(d - 1, fs), self.expr(d - 1, fs)])
        return N("seq", k=[self.expr(d - 1, fs), self.expr(d - 1, fs)])

    def klass(self, d, fs, decl_name, force_ext=None):
        """a class declaration (decl_name) or expression: optional heritage, constructor, members on the keys a / b (x / y)"""
        r = self.r
        d = max(d, 0)
        name = decl_name or (r.choice(FUNS) if r.random() < 0.4 else "")
        known = list(fs.get("classes") or [])
        ext = []
        q = r.random()
        if force_ext:
            ext = [N("ref", x=force_ext)]
        elif q < 0.45 and known:
            ext = [N("ref", x=r.choice(known))]
        elif q < 0.55 and d > 0:
            ext = [self.klass(d - 1, fs, None)]
        elif q < 0.6:
            ext = [N("ref", x=self.anyname(fs))]
        derived = bool(ext)
        outer = fs["declared"] | fs.get("outer", set()) | ({name} if name else set())

        def body_fs(params):
            return dict(declared=set(params), params=list(params), loopvars=set(), incatch=False, top=True, outer=outer, argsok=True, thisok=True,
                        strict=True, revar=set(params), inited=list(fs.get("inited") or []) + list(params) + ([name] if name else []),
                        fnames=list(fs.get("fnames") or []), classes=known, ownnames=list(fs.get("ownnames") or []) + ([name] if name else []))

        def mkfn(params, body):
            return N("fn", x="", kind="func", p=list(params), d=[N("none") for _ in params], pp=[N("none") for _ in params], s=0, k=body)
        ctor = []
        if r.random() < 0.7:
            params = r.sample(PARAMS, r.randint(0, 2))
            bfs = body_fs(params)
            body = self.stmts(d, bfs, top=True, maxn=3)
            if derived and r.random() < 0.8:
                sup = N("expr", k=[N("supercall", spread=0, k=[self.expr(max(d - 1, 0), bfs) for _ in range(r.randint(0, 2))])])
                body.insert(0 if r.random() < 0.7 else r.randint(0, len(body)), sup)
                if r.random() < 0.15:
                    body.append(sup)
            ctor = [mkfn(params, body)]
        members = []
        for _ in range(r.randint(0, 3)):
            kind = r.choice(["m", "m", "get", "set"])
            params = ["p"] if kind == "set" else r.sample(PARAMS, r.randint(0, 1)) if kind == "m" else []
            bfs = body_fs(params)
            if r.random() < 0.6:
                body = [N("return", k=[N("log", k=[self.expr(d, bfs)])])]
            else:
                body = self.stmts(d, bfs, top=True, maxn=2)
            members.append(N("member", x=r.choice(["a", "b", "a", "b", "x"]), kind=kind, st=1 if r.random() < 0.3 else 0, k=[mkfn(params, body)]))
        return N("classd" if decl_name else "classe", x=name, ext=ext, ctor=ctor, k=members)

    def objlit(self, d, fs):
        r = self.r
        props = []
        keys = r.sample(["a", "b"], r.randint(1, 2))
        if r.random() < 0.3:
            keys.append(r.choice(keys))
        if r.random() < 0.35:
            keys.append(r.choice(["x", "y"]))      # a key that coincides with a variable name (matters under `with`)        # a second definition of one key: getter + setter pairs, replaced data properties
        for key in keys:
            q = r.random()
            if q < 0.5:
                params = ["p"] if q < 0.2 else []
                ifs = dict(declared=set(params), params=params, loopvars=set(), incatch=False, top=True, outer=fs["declared"] | fs.get("outer", set()),
                           argsok=True, thisok=True, strict=bool(fs.get("strict")), revar=set(params), inited=list(fs.get("inited") or []) + params, fnames=list(fs.get("fnames") or []))
                if r.random() < 0.7:
                    body = [N("return", k=[N("log", k=[self.expr(max(d, 0), dict(fs, thisok=True, argsok=True))])])]
                else:
                    body = self.stmts(max(d, 0), ifs, top=True, maxn=2)
                g = N("fn", x="", kind="func", p=params, d=[N("none") for _ in params], pp=[N("none") for _ in params], s=0, k=body)
                props.append(N("prop", x=key, kind="set" if params else "get", k=[g]))
            elif q < 0.65:
                props.append(N("prop", x=key, kind="data", k=[self.fn(max(d, 1) - 1, fs)]))     # a method
            else:
                props.append(N("prop", x=key, kind="data", k=[self.expr(d, fs)]))
        return N("objlit", k=props)

    def pat(self, kind, targets, d, fs):
        """a pattern binding / assigning the given target names"""
        r = self.r
        els = []
        keys = r.sample(["a", "b"], 2)
        for i, t in enumerate(targets[:2]):
            dflt = [self.expr(max(d, 0), fs)] if r.random() < 0.5 else []
            els.append(N("pel", x=t, key=keys[i], n=i + 1, k=dflt))
        return N(kind, k=els)

    def fn(self, d, fs, decl_name=None):
        r = self.r
        kind = "func" if decl_name else r.choice(["arrow", "func", "named"])
        params = r.sample(PARAMS, r.randint(0, 2))
        name = decl_name or (r.choice(FUNS) if kind == "named" else "")
        inner = dict(declared=set(params), params=params, loopvars=set(), incatch=False, top=True, outer=fs["declared"] | fs.get("outer", set()),
                     argsok=(kind != "arrow") or fs.get("argsok", False), revar=set(params),
                     inited=list(fs.get("inited") or []) + list(params), fnames=list(fs.get("fnames") or []))
        inner["thisok"] = True if kind != "arrow" else bool(fs.get("thisok"))
        inner["strict"] = bool(fs.get("strict"))      # (parameter expressions are generated before the function's own directive is chosen)
        if kind == "named":
            # the function's own name: an immutable binding in the scope around the parameters, assignments to it are
            # ignored in sloppy code and a TypeError in strict code (wherever the assigning code is nested)
            inner["inited"].append(name)
            inner["outer"] = inner["outer"] | {name}
            inner["ownnames"] = list(fs.get("ownnames") or []) + [name]
        elif fs.get("ownnames"):
            inner["ownnames"] = list(fs["ownnames"])
        defaults = [N("none") for _ in params]
        pp = [N("none") for _ in params]
        if r.random() < 0.2:
            # one object-pattern parameter binding the names p / q (a non-simple parameter list)
            tg = r.sample(PARAMS, r.randint(1, 2))
            inner["declared"] = set(tg)
            inner["inited"] = list(fs.get("inited") or []) + tg
            inner["revar"] = set(tg)
            inner["params"] = []
            pfs = dict(inner, declared=set(tg), revar=set())
            params = [""]
            pp = [self.pat("opat", tg, max(d, 1), pfs)]
            defaults = [self.objlit(max(d, 1) - 1, pfs) if r.random() < 0.4 else N("none")]
        elif params and r.random() < 0.35:
            # default value expressions live in the parameter scope: they see the parameters (earlier ones initialised) and the outer scope
            dfs = dict(inner, declared=set(params), revar=set())
            for i in range(len(params)):
                if r.random() < 0.7:
                    defaults[i] = self.dexpr(max(d, 1), dfs, params)
        strict = 1 if (r.random() < (0.35 if fs.get("ownnames") else 0.15) and all(x["t"] == "none" for x in defaults + pp)) else 0
        inner["strict"] = bool(strict) or bool(fs.get("strict"))
        body = self.stmts(d, inner, top=True)
        if kind == "named" and r.random() < (0.7 if any(x["t"] != "none" for x in defaults + pp) else 0.25):
            # the function's own name is referenced from direct eval code only (also when the parameter list is not simple)
            ev = N("evalcode", k=[N("expr", k=[N("log", k=[N("typeof", x=name)])]), N("expr", k=[N("log", k=[N("ref", x=name)])])])
            body.insert(r.randint(0, len(body)), ev if r.random() < 0.6 else
                        N("expr", k=[N("call", k=[N("fn", x="", kind="arrow", p=[], d=[], pp=[], s=0, k=[ev])])]))
        if kind == "named" and r.random() < 0.3:
            # strict code nested in the (possibly sloppy) function assigns to the function's own name, in statement position
            asg = r.choice([N("assign", x=name, k=[N("num", n=r.randint(0, 3))]), N("addassign", x=name, k=[N("num", n=1)]), N("postinc", x=name)])
            iife = N("fn", x="", kind="func", p=[], d=[], pp=[], s=1, k=[N("expr", k=[asg]), N("expr", k=[N("log", k=[N("num", n=3)])])])
            body.insert(r.randint(0, len(body)), N("expr", k=[N("call", k=[iife])]))
        return N("fdecl" if decl_name else "fn", x=name, kind=kind, p=params, d=defaults, pp=pp, s=strict, k=body)

    def dexpr(self, d, fs, params):
        """a default value: a number, another parameter, or a closure over the parameter scope"""
        r = self.r
        c = r.random()
        if c < 0.3:
            return N("num", n=r.randint(0, 3))
        if c < 0.55:
            return N("ref", x=r.choice(params + VARS[:2]))
        if c < 0.8:
            x = r.choice(params + VARS[:2])
            body = [N("return", k=[N("log", k=[N("ref", x=x)])])] if r.random() < 0.5 else \
                   [N("expr", k=[N("addassign", x=x, k=[N("num", n=1)])]), N("return", k=[N("ref", x=x)])]
            return N("fn", x="", kind=r.choice(["arrow", "func"]), p=[], d=[], pp=[], s=0, k=body)
        return N("log", k=[N("ref", x=r.choice(params + VARS[:2]))])

    def stmts(self, d, fs, top=False, maxn=4):
        out = []
        r = self.r
        if top and d > 0 and r.random() < 0.35:
            nm = self.fresh(fs, FUNS)
            if nm:
                fs["declared"].add(nm)
                fs.setdefault("revar", set()).add(nm)
                fs.setdefault("fnames", []).append(nm)
                fs.setdefault("inited", []).append(nm)
                out.append(self.fn(d - 1, fs, decl_name=nm))
                if r.random() < 0.15:       # a second declaration of the same function name: the last one wins
                    out.append(self.fn(d - 1, fs, decl_name=nm))
        for _ in range(r.randint(1, maxn)):
            st = self.stmt(d, fs, blocktop=True)
            out.append(st)
            if st["t"] == "classd":
                sts = [st]
                if r.random() < 0.6:
                    # a class derived from it, declared right after
                    n2 = self.fresh(fs, FUNS + VARS)
                    if n2 is not None:
                        fs["declared"].add(n2)
                        st2 = self.klass(max(d - 1, 0), fs, n2, force_ext=st["x"])
                        fs.setdefault("inited", []).append(n2)
                        fs["classes"] = list(fs.get("classes") or []) + [n2]
                        out.append(st2)
                        sts.append(st2)
                # use the classes: construct them, read / call / write members of the instance and of the constructor
                for _ in range(r.randint(1, 4)):
                    st = r.choice(sts)
                    inst = N("new", k=[N("ref", x=st["x"])] + [self.expr(max(d - 1, 0), fs) for _ in range(r.randint(0, 2))])
                    key = r.choice(["a", "b", "a", "b", "x"])
                    use = r.choice([N("log", k=[inst]), N("log", k=[N("mget", x=key, k=[inst])]), N("log", k=[N("mcall", x=key, k=[inst, N("num", n=1)])]),
                                    N("log", k=[N("mcall", x=key, k=[N("ref", x=st["x"])])]), N("mset", x=key, k=[inst, N("num", n=2)]),
                                    N("log", k=[N("mget", x=key, k=[N("ref", x=st["x"])])]), N("call", k=[N("ref", x=st["x"])])])
                    out.append(N("try", x="e", cp=N("none"), k=[N("block", k=[N("expr", k=[use])]), N("block", k=[N("expr", k=[N("log", k=[N("ref", x="e")])])])]))
        if top and r.random() < 0.2:
            r.shuffle(out)
        return out

    def block(self, d, fs):
        return N("block", k=self.stmts(d, fs, maxn=3))

    def stmt(self, d, fs, blocktop=False):
        r = self.r
        ch = ["expr", "expr", "expr", "decl", "decl"]
        if d > 0:
            ch += ["block", "if", "for", "for", "forof", "try", "try", "return", "expr", "switch", "evalcode"]
            if fs.get("noreturn"):
                ch = [x for x in ch if x != "return"]
        if fs.get("inloop") or fs.get("inswitch"):
            ch += ["break"]
        if fs.get("inloop"):
            ch += ["continue"]
        if d > 0 and not fs.get("strict") and r.random() < 0.1:
            # with (object) { ... }: the object's x / y shadow the variables of those names inside the block
            wobj = self.objlit(d - 1, fs) if r.random() < 0.7 else N("ref", x=self.anyname(fs))
            if wobj["t"] == "objlit" and not any(pr["x"] in ("x", "y") for pr in wobj["k"]):
                wobj["k"].append(N("prop", x=r.choice(["x", "y"]), kind="data", k=[self.expr(max(d - 1, 0), fs)]))
            fsw = dict(fs, inited=list(fs.get("inited") or []) + ["x", "y"])
            return N("with", k=[wobj, self.block(d - 1, fsw)])
        if fs.get("ownnames") and r.random() < 0.12:
            # an assignment, in statement position, to the own name of an enclosing named function expression
            x = r.choice(fs["ownnames"])
            return N("expr", k=[r.choice([N("assign", x=x, k=[N("num", n=r.randint(0, 3))]), N("addassign", x=x, k=[N("num", n=1)]), N("postinc", x=x)])])
        c = r.choice(ch)
        if d > 0 and r.random() < 0.04:
            c = "throw"
        if c == "decl":
            kind = r.choice(["var", "let", "let", "const"])
            if kind != "var" and not blocktop:
                kind = "var"
            if d > 0 and r.random() < 0.12:
                cn = self.fresh(fs, FUNS)
                if cn is not None:
                    fs["declared"].add(cn)
                    node = self.klass(d - 1, fs, cn)
                    fs.setdefault("inited", []).append(cn)
                    fs["classes"] = list(fs.get("classes") or []) + [cn]
                    return node
            if d > 0 and r.random() < 0.25:
                n1, n2 = self.fresh(fs, VARS + FUNS), None
                if n1 is not None:
                    fs["declared"].add(n1)
                    n2 = self.fresh(fs, VARS + FUNS) if r.random() < 0.6 else None
                    if n2 is not None:
                        fs["declared"].add(n2)
                    tg = [n for n in (n1, n2) if n]
                    if kind == "var":
                        fs.setdefault("revar", set()).update(tg)
                    if r.random() < 0.6:
                        node = N(kind + "p", pat=self.pat("opat", tg, d - 1, fs), k=[self.objlit(d - 1, fs) if r.random() < 0.7 else self.expr(d - 1, fs)])
                    else:
                        node = N(kind + "p", pat=self.pat("apat", tg, d - 1, fs), k=[N("arr", k=[self.expr(d - 1, fs) for _ in range(r.randint(0, 3))])])
                    fs.setdefault("inited", []).extend(tg)
                    return node
            nm = self.fresh(fs, VARS + FUNS)
            if kind == "var" and fs.get("revar") and r.random() < 0.3:
                nm = r.choice(sorted(fs["revar"]))           # var over a parameter / an earlier var / a function declaration
            if nm is None:
                c = "expr"
            else:
                fs["declared"].add(nm)
                if kind == "var":
                    fs.setdefault("revar", set()).add(nm)
                init = [self.expr(d, fs)] if (kind == "const" or r.random() < 0.8) else []
                if init and init[0]["t"] == "fn":
                    fs.setdefault("fnames", []).append(nm)
                fs.setdefault("inited", []).append(nm)
                return N(kind, x=nm, k=init)
        if c == "expr":
            return N("expr", k=[self.expr(d, fs)])
        if c in ("break", "continue"):
            return N(c)
        if c == "forof":
            nm = self.fresh(fs, VARS)
            if nm is None:
                return N("expr", k=[self.expr(d, fs)])
            fs["declared"].add(nm)
            kind = r.choice([0, 0, 1, 2])
            if kind == 1:
                fs.setdefault("revar", set()).add(nm)
            fs2 = dict(fs, inloop=True, inswitch=False)
            elems = [self.expr(d - 1, fs) for _ in range(r.randint(1, 3))]
            body = self.block(d - 1, fs2)
            if r.random() < 0.6:
                body["k"].insert(r.randint(0, len(body["k"])), N("expr", k=[N("assign", x=r.choice(FUNS + ["y"]), k=[self.capt(nm) if kind != 2 else
                                 N("fn", x="", kind="arrow", p=[], d=[], pp=[], s=0, k=[N("return", k=[N("log", k=[N("ref", x=nm)])])])])]))
            return N("forof", x=nm, n=kind, k=[N("arr", k=elems), body])
        if c == "evalcode":
            fs2 = dict(fs, inloop=False, inswitch=False, noreturn=True)
            return N("evalcode", k=[self.stmt(d - 1, fs2, blocktop=True) for _ in range(r.randint(1, 3))])
        if c == "switch":
            fs2 = dict(fs, inswitch=True)
            vals = r.sample([0, 1, 2, 3], r.randint(1, 3))
            cases = []
            for v in vals:
                cases.append(N("case", n=0, k=[N("num", n=v)] + [self.stmt(d - 1, fs2, blocktop=True) for _ in range(r.randint(0, 2))]))
            if r.random() < 0.6:
                cases.insert(r.randint(0, len(cases)), N("case", n=1, k=[N("num", n=0)] + [self.stmt(d - 1, fs2, blocktop=True) for _ in range(r.randint(0, 2))]))
            return N("switch", k=[self.expr(d - 1, fs)] + cases)
        if c == "block":
            return self.block(d - 1, fs)
        if c == "if":
            k = [self.expr(d - 1, fs), self.block(d - 1, fs)]
            if r.random() < 0.4:
                k.append(self.block(d - 1, fs))
            return N("if", k=k)
        if c == "for":
            nm = self.fresh(fs, VARS)
            if nm is None:
                return N("expr", k=[self.expr(d, fs)])
            fs["declared"].add(nm)
            fs2 = dict(fs, loopvars=fs["loopvars"] | {nm}, inloop=True, inswitch=False)
            isvar = 1 if r.random() < 0.25 else 0
            init = N("num", n=0)
            if r.random() < 0.4:       # a closure created in the initialiser sees the loop variable of the initialiser's environment
                init = N("seq", k=[N("assign", x=r.choice(FUNS), k=[self.capt(nm)]), N("num", n=0)])
            test = N("lt", k=[N("ref", x=nm), N("num", n=r.randint(1, 3))])
            if r.random() < 0.3:
                test = N("seq", k=[N("assign", x=r.choice(FUNS), k=[self.capt(nm)]) if r.random() < 0.5 else N("log", k=[N("ref", x=nm)]), test])
            upd = r.choice([N("postinc", x=nm), N("addassign", x=nm, k=[N("num", n=1)])])
            if r.random() < 0.3:
                upd = N("seq", k=[N("assign", x=r.choice(FUNS), k=[self.capt(nm)]), upd])
            body = self.block(d - 1, fs2)
            if r.random() < 0.5:       # closures created in the body, called later
                body["k"].insert(r.randint(0, len(body["k"])), N("expr", k=[N("assign", x=r.choice(FUNS + ["y"]), k=[self.capt(nm)])]))
            return N("for", x=nm, n=isvar, k=[init, test, upd, body])
        if c == "try":
            fs2 = dict(fs, incatch=True)
            k = [self.block(d - 1, fs), self.block(d - 1, fs2)]
            if r.random() < 0.4:
                k.append(self.block(d - 1, fs))
            cp = N("none")
            if r.random() < 0.2:       # catch ({a: e = default}): the parameter is a binding pattern
                cp = N("opat", k=[N("pel", x="e", key=r.choice(["a", "b"]), n=1, k=[self.expr(max(d - 1, 0), fs)] if r.random() < 0.5 else [])])
            return N("try", x="e", cp=cp, k=k)
        if c == "return":
            return N("return", k=[self.expr(d - 1, fs)])
        return N("throw", k=[self.expr(d - 1, fs)])

    def capt(self, nm):
        """a closure reading (and sometimes writing) nm"""
        r = self.r
        self._capt_made = True
        if r.random() < 0.3:
            body = [N("expr", k=[N("addassign", x=nm, k=[N("num", n=1)])]), N("return", k=[N("ref", x=nm)])]
        else:
            body = [N("return", k=[N("log", k=[N("ref", x=nm)])])]
        return N("fn", x="", kind=r.choice(["arrow", "func"]), p=[], d=[], pp=[], s=0, k=body)


def guard(stmt):
    """try { stmt } catch (e) { LOG(e) }: an exception does not end the program (declarations are not wrapped: they would become block-scoped)"""
    if stmt["t"] in ("var", "let", "const", "fdecl", "return", "varp", "letp", "constp", "classd"):
        return stmt
    return N("try", x="e", cp=N("none"), k=[N("block", k=[stmt]), N("block", k=[N("expr", k=[N("log", k=[N("ref", x="e")])])])])


def random_program(pid, rnd, maxd=3):
    g = Gen(rnd, maxd)
    pstrict = 1 if rnd.random() < 0.4 else 0
    fs = dict(declared=set(), params=[], loopvars=set(), incatch=False, top=True, inited=[], fnames=[], strict=bool(pstrict))
    body = g.stmts(maxd, fs, top=True, maxn=6)
    if rnd.random() < 0.7:
        body = [guard(s) if rnd.random() < 0.8 else s for s in body]
    # make the closures observable: call what may hold one at the end
    for nm in FUNS + ["y"]:
        if rnd.random() < 0.6:
            body.append(N("try", x="e", cp=N("none"), k=[N("block", k=[N("expr", k=[N("log", k=[N("call", k=[N("ref", x=nm)])])])]),
                                         N("block", k=[N("expr", k=[N("log", k=[N("ref", x="e")])])])]))
    return dict(id=pid, strict=pstrict, body=body)


def class_program(pid, rnd):
    """a small program about one class hierarchy: base class, derived class with one of the constructor shapes the specification
    distinguishes, uses of instances and constructors (each in its own try / catch that logs the exception)"""
    g = Gen(rnd, 2)
    r = rnd
    pstrict = 1 if r.random() < 0.3 else 0
    fs = dict(declared={"g", "h", "w"}, params=[], loopvars=set(), incatch=False, top=True, inited=["g", "h", "w"], fnames=[], strict=bool(pstrict),
              classes=["g", "h"])

    def mkfn(params, body):
        return N("fn", x="", kind="func", p=list(params), d=[N("none") for _ in params], pp=[N("none") for _ in params], s=0, k=body)

    def bfs(params):
        return dict(declared=set(params), params=list(params), loopvars=set(), incatch=False, top=True, outer={"g", "h", "w"}, argsok=True, thisok=True,
                    strict=True, revar=set(params), inited=["g", "h", "w"] + list(params), fnames=[], classes=["g", "h"], ownnames=[])

    def small(params):
        f = bfs(params)
        return r.choice([N("this"), N("mget", x=r.choice(["a", "b"]), k=[N("this")]), N("num", n=r.randint(0, 3)), N("ref", x=params[0]) if params else N("num", n=1),
                         g.expr(1, f), N("arglen"), N("mset", x=r.choice(["a", "b"]), k=[N("this"), N("num", n=r.randint(1, 3))]),
                         N("superget", x=r.choice(["a", "b"])), N("superget", x=r.choice(["a", "b"])),
                         N("supermcall", x=r.choice(["a", "b"]), k=[N("num", n=r.randint(0, 3))] if r.random() < 0.5 else []),
                         N("superset", x=r.choice(["a", "b"]), k=[N("num", n=r.randint(1, 3))])])

    def members():
        ms = []
        for _ in range(r.randint(0, 3)):
            kind = r.choice(["m", "m", "get", "set", "field", "field"])
            if kind == "field":
                fld = small([])
                if fld["t"] in ("arglen", "supermcall", "superget", "superset") or "arg" in json.dumps(fld) or "super" in json.dumps(fld):
                    fld = N("mget", x="a", k=[N("this")])       # (no arguments / super in a field initialiser)
                ms.append(N("member", x=r.choice(["a", "b"]), kind="field", st=1 if r.random() < 0.3 else 0, k=[N("log", k=[fld])] if r.random() < 0.85 else []))
                continue
            params = ["p"] if kind == "set" else (["p"] if r.random() < 0.4 else []) if kind == "m" else []
            ms.append(N("member", x=r.choice(["a", "b"]), kind=kind, st=1 if r.random() < 0.3 else 0,
                        k=[mkfn(params, [N("return", k=[N("log", k=[small(params)])])])]))
        return ms

    def logst(e):
        return N("expr", k=[N("log", k=[e])])
    # base class
    bparams = r.sample(PARAMS, r.randint(0, 1))
    bbody = [N("expr", k=[N("mset", x="a", k=[N("this"), small(bparams)])])] if r.random() < 0.7 else []
    bret = r.random()
    if bret < 0.15:
        bbody.append(N("return", k=[N("objlit", k=[N("prop", x="b", kind="data", k=[N("num", n=3)])])]))
    elif bret < 0.25:
        bbody.append(N("return", k=[N("num", n=1)]))
    base = N("classd", x="g", ext=[], ctor=[mkfn(bparams, bbody)] if r.random() < 0.8 else [], k=members())
    # derived class: constructor shapes
    sup = N("expr", k=[N("supercall", spread=0, k=[small([]) for _ in range(r.randint(0, 2))])])
    shape = r.choice(["none", "first", "first", "missing", "late", "double", "arrow", "retobj", "retprim", "cond", "thisbefore", "evalsuper", "arrowthis", "evalthis"])
    dparams = r.sample(PARAMS, r.randint(0, 1))
    use_this = logst(N("mget", x="a", k=[N("this")]))
    if shape == "none":
        dctor = []
    elif shape == "first":
        dctor = [mkfn(dparams, [sup, use_this])]
    elif shape == "missing":
        dctor = [mkfn(dparams, [logst(N("num", n=1))])]
    elif shape == "late":
        dctor = [mkfn(dparams, [logst(N("num", n=1)), sup, use_this])]
    elif shape == "double":
        dctor = [mkfn(dparams, [sup, use_this, sup, logst(N("num", n=2))])]
    elif shape == "arrow":
        arrow = N("fn", x="", kind="arrow", p=[], d=[], pp=[], s=0, k=[N("return", k=[sup["k"][0]])])
        dctor = [mkfn(dparams, [N("expr", k=[N("call", k=[arrow])]), use_this])]
    elif shape == "evalsuper":       # super() inside direct eval code of the constructor
        dctor = [mkfn(dparams, [N("evalcode", k=[sup]), use_this])]
    elif shape == "arrowthis":       # an arrow created before super() reads this afterwards (and before, in a try)
        arrow = N("fn", x="", kind="arrow", p=[], d=[], pp=[], s=0, k=[N("return", k=[N("this")])])
        dctor = [mkfn(dparams, [N("let", x="w", k=[arrow]),
                                N("try", x="e", cp=N("none"), k=[N("block", k=[logst(N("call", k=[N("ref", x="w")]))]), N("block", k=[logst(N("ref", x="e"))])]),
                                sup, logst(N("mget", x="a", k=[N("call", k=[N("ref", x="w")])]))])]
    elif shape == "evalthis":        # this read by direct eval code before and after super()
        dctor = [mkfn(dparams, [N("try", x="e", cp=N("none"), k=[N("block", k=[N("evalcode", k=[use_this])]), N("block", k=[logst(N("ref", x="e"))])]),
                                sup, N("evalcode", k=[use_this])])]
    elif shape == "retobj":
        dctor = [mkfn(dparams, ([sup] if r.random() < 0.5 else []) + [N("return", k=[N("objlit", k=[N("prop", x="a", kind="data", k=[N("num", n=2)])])])])]
    elif shape == "retprim":
        dctor = [mkfn(dparams, ([sup] if r.random() < 0.7 else []) + [N("return", k=[N("num", n=3)])])]
    elif shape == "cond":
        dctor = [mkfn(dparams, [N("if", k=[small(dparams), N("block", k=[sup])]), use_this])]
    else:
        dctor = [mkfn(dparams, [use_this, sup])]
    derived = N("classd", x="h", ext=[N("ref", x="g")], ctor=dctor, k=members())
    body = [base, derived]
    if r.random() < 0.3:
        body.append(N("classd", x="w", ext=[N("ref", x="h")], ctor=[] if r.random() < 0.5 else [mkfn([], [sup, use_this])], k=members()))

    def tr(e):
        return N("try", x="e", cp=N("none"), k=[N("block", k=[N("expr", k=[e])]), N("block", k=[N("expr", k=[N("log", k=[N("ref", x="e")])])])])
    names = [c["x"] for c in body]
    for _ in range(r.randint(2, 6)):
        c = r.choice(names)
        inst = N("new", k=[N("ref", x=c)] + [N("num", n=r.randint(1, 3)) for _ in range(r.randint(0, 2))])
        key = r.choice(["a", "b"])
        body.append(tr(r.choice([N("log", k=[inst]), N("log", k=[N("mget", x=key, k=[inst])]), N("log", k=[N("mcall", x=key, k=[inst, N("num", n=1)])]),
                              N("log", k=[N("mcall", x=key, k=[N("ref", x=c)])]), N("log", k=[N("mset", x=key, k=[inst, N("num", n=2)])]),
                              N("log", k=[N("mget", x=key, k=[N("ref", x=c)])]), N("call", k=[N("ref", x=c)]),
                              N("log", k=[N("typeof", x=c)]), N("assign", x=c, k=[N("num", n=0)])])))
    if r.random() < 0.3:      # the class binding is in its temporal dead zone before the declaration
        body.insert(0, tr(N("log", k=[N("new", k=[N("ref", x="g")])])))
    return dict(id=pid, strict=pstrict, body=body)


# ---------------------------------------------------------------------------------------------------------------
# printer

def has_top_return(stmts):
    for s in stmts:
        t = s["t"]
        if t == "return":
            return True
        if t in ("block",) and has_top_return(s["k"]):
            return True
        if t == "with" and has_top_return([s["k"][1]]):
            return True
        if t == "if" and any(has_top_return([b]) for b in s["k"][1:]):
            return True
        if t == "for" and has_top_return([s["k"][3]]):
            return True
        if t == "try" and any(has_top_return([b]) for b in s["k"]):
            return True
        if t == "switch" and any(has_top_return(cs["k"][1:]) for cs in s["k"][1:]):
            return True
        if t == "forof" and has_top_return([s["k"][1]]):
            return True
    return False


def mem(base, key, o):
    """a property reference: dot form, or (variant compkey) a computed key whose value the compiler cannot see"""
    return "(%s)[KEY_%s]" % (base, key) if o.get("compkey") else "(%s).%s" % (base, key)


def pe(e, o):
    t = e["t"]
    if t == "num":
        return ("K%d" % e["n"]) if o.get("constvar") else str(e["n"])
    if t == "ref":
        return e["x"]
    if t == "typeof":
        return "TY(typeof %s)" % e["x"]
    if t == "assign":
        return "(%s = %s)" % (e["x"], pe(e["k"][0], o))
    if t == "addassign":
        return "(%s += %s)" % (e["x"], pe(e["k"][0], o))
    if t == "postinc":
        return "(%s++)" % e["x"]
    if t == "log":
        return "LOG(%s)" % pe(e["k"][0], o)
    if t == "add":
        return "(%s + %s)" % (pe(e["k"][0], o), pe(e["k"][1], o))
    if t == "lt":
        return "(%s < %s)" % (pe(e["k"][0], o), pe(e["k"][1], o))
    if t == "seq":
        return "(%s, %s)" % (pe(e["k"][0], o), pe(e["k"][1], o))
    if t == "call":
        return "(%s)(%s)" % (pe(e["k"][0], o), ", ".join(pe(a, o) for a in e["k"][1:]))
    if t == "this":
        return "this"
    if t == "mset":
        return "(%s = %s)" % (mem(pe(e["k"][0], o), e["x"], o), pe(e["k"][1], o))
    if t == "maddassign":
        return "(%s += %s)" % (mem(pe(e["k"][0], o), e["x"], o), pe(e["k"][1], o))
    if t == "mincdec":
        sym = "++" if e["n"] == 1 else "--"
        return "(%s%s)" % (sym, mem(pe(e["k"][0], o), e["x"], o)) if e["op"] == "pre" else "(%s%s)" % (mem(pe(e["k"][0], o), e["x"], o), sym)
    if t == "classe":
        return "(%s)" % pclass(e, o, 0)
    if t == "superget":
        return "super[KEY_%s]" % e["x"] if o.get("compkey") else "super.%s" % e["x"]
    if t == "supermcall":
        return "%s(%s)" % ("super[KEY_%s]" % e["x"] if o.get("compkey") else "super.%s" % e["x"], ", ".join(pe(a, o) for a in e["k"]))
    if t == "superset":
        return "(%s = %s)" % ("super[KEY_%s]" % e["x"] if o.get("compkey") else "super.%s" % e["x"], pe(e["k"][0], o))
    if t == "supercall":
        return "super(%s)" % ", ".join(pe(a, o) for a in e["k"])
    if t == "new":
        return "new (%s)(%s)" % (pe(e["k"][0], o), ", ".join(pe(a, o) for a in e["k"][1:]))
    if t == "mcall":
        return "%s(%s)" % (mem(pe(e["k"][0], o), e["x"], o), ", ".join(pe(a, o) for a in e["k"][1:]))
    if t == "objlit":
        parts = []
        for pr in e["k"]:
            if pr["kind"] == "set":
                parts.append("set %s(%s) {%s}" % (pr["x"], params(pr["k"][0], o), fbody(pr["k"][0], o, 0)))
            elif pr["kind"] == "get":
                parts.append("get %s() {%s}" % (pr["x"], fbody(pr["k"][0], o, 0)))
            else:
                parts.append("%s: %s" % (pr["x"], pe(pr["k"][0], o)))
        return "({%s})" % ", ".join(parts)
    if t == "mget":
        return mem(pe(e["k"][0], o), e["x"], o)
    if t == "passign":
        return "(%s = %s)" % (ppat(e["pat"], o), pe(e["k"][0], o))
    if t == "logassign":
        return "(%s %s %s)" % (e["x"], {"or": "||=", "and": "&&=", "nullish": "??="}[e["op"]], pe(e["k"][0], o))
    if t == "incdec":
        sym = "++" if e["n"] == 1 else "--"
        return "(%s%s)" % (sym, e["x"]) if e["op"] == "pre" else "(%s%s)" % (e["x"], sym)
    if t in ("and", "or", "nullish", "sub"):
        return "(%s %s %s)" % (pe(e["k"][0], o), {"and": "&&", "or": "||", "nullish": "??", "sub": "-"}[t], pe(e["k"][1], o))
    if t == "cond":
        return "(%s ? %s : %s)" % (pe(e["k"][0], o), pe(e["k"][1], o), pe(e["k"][2], o))
    if t == "arglen":
        return "arguments.length"
    if t == "argget":
        return "arguments[%d]" % e["n"]
    if t == "argset":
        return "(arguments[%d] = %s)" % (e["n"], pe(e["k"][0], o))
    if t == "fn":
        body = fbody(e, o, 0)
        ps = params(e, o)
        if e["kind"] == "arrow":
            return "((%s) => {%s})" % (ps, body)
        return "(function %s(%s) {%s})" % (e["x"] if e["kind"] == "named" else "", ps, body)
    raise AssertionError(t)


def pclass(c, o, ind):
    out = "class %s%s{" % (c["x"] + " " if c["x"] else "", "extends (%s) " % pe(c["ext"][0], o) if c["ext"] else "")
    if c["ctor"]:
        out += "\n  constructor(%s) {%s}" % (params(c["ctor"][0], o), fbody(c["ctor"][0], o, ind))
    for mb in c["k"]:
        if mb["kind"] == "field":
            out += "\n  %s%s%s;" % ("static " if mb["st"] else "", mb["x"], (" = " + pe(mb["k"][0], o)) if mb["k"] else "")
            continue
        pre = ("static " if mb["st"] else "") + ({"m": "", "get": "get ", "set": "set "}[mb["kind"]])
        out += "\n  %s%s(%s) {%s}" % (pre, mb["x"], params(mb["k"][0], o), fbody(mb["k"][0], o, ind))
    return out + "\n}"


def ppat(pat, o):
    if pat["t"] == "opat":
        return "{%s}" % ", ".join("%s: %s%s" % (el["key"], el["x"], (" = " + pe(el["k"][0], o)) if el["k"] else "") for el in pat["k"])
    return "[%s]" % ", ".join("%s%s" % (el["x"], (" = " + pe(el["k"][0], o)) if el["k"] else "") for el in pat["k"])


def params(fn, o):
    d = fn.get("d") or []
    pp = fn.get("pp") or []
    out = []
    for i, p in enumerate(fn["p"]):
        tgt = ppat(pp[i], o) if i < len(pp) and pp[i]["t"] != "none" else p
        out.append(tgt + (" = " + pe(d[i], o) if i < len(d) and d[i]["t"] != "none" else ""))
    return ", ".join(out)


def fbody(fn, o, ind, strict=None):
    pre = ""
    if (fn.get("s") if strict is None else strict):
        pre += ' "use strict";'
    if o.get("evaldyn"):
        pre += ' eval("");'
    if o.get("closure"):
        pre += " var __never = function(){ return [x, y, z, w, g, h, e, p, q] };"
    return pre + "\n" + ps(fn["k"], o, ind + 1) + "\n" + "  " * ind


def ps(stmts, o, ind):
    out = []
    p = "  " * ind
    for s in stmts:
        t = s["t"]
        if t == "expr":
            out.append(p + ("K(%s);" if o.get("exprpos") else "%s;") % pe(s["k"][0], o))
        elif t in ("var", "let", "const"):
            out.append(p + "%s %s%s;" % (t, s["x"], (" = " + pe(s["k"][0], o)) if s["k"] else ""))
        elif t == "classd":
            out.append(p + pclass(s, o, ind))
        elif t == "with":
            out.append(p + "with (%s) {\n%s\n%s}" % (pe(s["k"][0], o), ps(s["k"][1]["k"], o, ind + 1), p))
        elif t in ("varp", "letp", "constp"):
            rhs = "[%s]" % ", ".join(pe(x, o) for x in s["k"][0]["k"]) if s["pat"]["t"] == "apat" else pe(s["k"][0], o)
            out.append(p + "%s %s = %s;" % (t[:-1], ppat(s["pat"], o), rhs))
        elif t == "fdecl":
            out.append(p + "function %s(%s) {%s}" % (s["x"], params(s, o), fbody(s, o, ind)))
        elif t == "block":
            out.append(p + "{\n" + ps(s["k"], o, ind + 1) + "\n" + p + "}")
        elif t == "if":
            r = p + "if (%s) {\n%s\n%s}" % (pe(s["k"][0], o), ps(s["k"][1]["k"], o, ind + 1), p)
            if len(s["k"]) > 2:
                r += " else {\n%s\n%s}" % (ps(s["k"][2]["k"], o, ind + 1), p)
            out.append(r)
        elif t == "for":
            out.append(p + "for (%s %s = %s; %s; %s) {\n%s\n%s}" % ("var" if s["n"] == 1 else "let", s["x"], pe(s["k"][0], o), pe(s["k"][1], o),
                                                                    pe(s["k"][2], o), ps(s["k"][3]["k"], o, ind + 1), p))
        elif t == "forof":
            out.append(p + "for (%s %s of [%s]) {\n%s\n%s}" % (["let", "var", "const"][s["n"]], s["x"], ", ".join(pe(x, o) for x in s["k"][0]["k"]),
                                                               ps(s["k"][1]["k"], o, ind + 1), p))
        elif t == "evalcode":
            code = "eval(%s)" % json.dumps(ps(s["k"], o, 0))
            out.append(p + ("K(%s);" if o.get("exprpos") else "%s;") % code)
        elif t in ("break", "continue"):
            out.append(p + t + ";")
            if o.get("deadcode"):
                out.append(p + "LOG(987656);")
        elif t == "switch":
            r = p + "switch (%s) {\n" % pe(s["k"][0], o)
            for cs in s["k"][1:]:
                r += p + ("  default:\n" if cs["n"] == 1 else "  case %s:\n" % pe(cs["k"][0], o))
                body = ps(cs["k"][1:], o, ind + 2)
                if body:
                    r += body + "\n"
            out.append(r + p + "}")
        elif t == "return":
            out.append(p + "return %s;" % pe(s["k"][0], o))
            if o.get("deadcode"):
                out.append(p + "LOG(987654);")
        elif t == "throw":
            out.append(p + "throw %s;" % pe(s["k"][0], o))
            if o.get("deadcode"):
                out.append(p + "LOG(987655);")
        elif t == "try":
            cpar = s["x"] if s.get("cp", {"t": "none"})["t"] == "none" else ppat(s["cp"], o)
            r = p + "try {\n%s\n%s} catch (%s) {\n%s\n%s}" % (ps(s["k"][0]["k"], o, ind + 1), p, cpar, ps(s["k"][1]["k"], o, ind + 1), p)
            if len(s["k"]) > 2:
                r += " finally {\n%s\n%s}" % (ps(s["k"][2]["k"], o, ind + 1), p)
            out.append(r)
        else:
            raise AssertionError(t)
    return "\n".join(out)


VARIANTS = ["base", "closure", "evaldyn", "with", "exprpos", "deadcode", "constvar", "block", "iife", "arrowiife", "tostring", "evalplace",
            "evalbody", "global", "compkey"]


def top_eval_vars(stmts):
    """does direct eval code outside nested functions declare a var? (in global code such a var merges with a property that a sloppy
    assignment created on the global object, in a function it shadows it: the placements are not equivalent then)"""
    for s in stmts:
        t = s["t"]
        if t == "evalcode":
            if has_var(s["k"]) or top_eval_vars(s["k"]):
                return True
        elif t in ("block", "case"):
            if top_eval_vars(s["k"][1:] if t == "case" else s["k"]):
                return True
        elif t in ("if", "try", "switch"):
            if top_eval_vars([c for c in s["k"] if c["t"] in ("block", "case")]):
                return True
        elif t in ("for", "forof", "with"):
            if top_eval_vars([s["k"][-1]]):
                return True
    return False


def has_var(stmts):
    for s in stmts:
        t = s["t"]
        if t in ("var", "varp") or (t in ("for", "forof") and s["n"] == 1):
            return True
        if t in ("block",) and has_var(s["k"]):
            return True
        if t == "case" and has_var(s["k"][1:]):
            return True
        if t in ("if", "try", "switch") and has_var([c for c in s["k"] if c["t"] in ("block", "case")]):
            return True
        if t in ("for", "forof", "with") and has_var([s["k"][-1]]):
            return True
    return False


def applicable(prog, v):
    top_fdecl = any(s["t"] == "fdecl" for s in prog["body"])
    if v == "with":
        return not prog["strict"] and not top_fdecl
    if v == "block":
        return not top_fdecl
    if v == "global" and top_eval_vars(prog["body"]):
        return False
    if v in ("evalbody", "global"):
        return not has_top_return(prog["body"])
    return True


def print_js(prog, variant="base"):
    """Returns (pre, src, mode): mode 0 = call f() (mjsrun mode 0), 2 = the script itself is the program (global placement)."""
    o = {}
    if variant in ("closure", "evaldyn", "exprpos", "deadcode", "constvar", "compkey"):
        o[variant] = True
    top = dict(k=prog["body"], s=prog["strict"])
    consts = "var K0 = 0, K1 = 1, K2 = 2, K3 = 3;\n" if variant == "constvar" else ""
    if variant == "compkey":
        consts = 'var KEY_a = "a", KEY_b = "b", KEY_x = "x", KEY_y = "y";\n'
    if variant == "global":
        src = ('"use strict";\n' if prog["strict"] else "") + ps(prog["body"], o, 0)
        return PRE, src, 2
    body = ps(prog["body"], o, 1)
    strict = ' "use strict";' if prog["strict"] else ""
    head = strict + (' eval("");' if variant == "evaldyn" else "") + (
        " var __never = function(){ return [x, y, z, w, g, h, e, p, q] };" if variant == "closure" else "")
    if variant == "with":
        body = "  with ({}) {\n" + body + "\n  }"
    if variant == "block":
        body = "  { let __blk = 1;\n" + body + "\n  }"
    if variant == "iife":
        body = "  return (function(){\n" + body + "\n  }).call(this);"
    if variant == "arrowiife":
        body = "  return (() => {\n" + body + "\n  })();"
    if variant == "evalbody":
        body = "  eval(%s);" % json.dumps(ps(prog["body"], o, 0))
    fdef = "function __F(){%s\n%s\n}" % (head, body)
    if variant == "tostring":
        fdef += '\n__F = (0, eval)("(" + __F.toString() + ")");'
    if variant == "evalplace":
        fdef = "var __F = (0, eval)(%s);" % json.dumps("(" + fdef + ")")
    src = PRE + consts + fdef + "\nfunction f(){ var r; try { r = __F(); } catch (e) { throw L(E(e)); } return L(r); }\n"
    return "", src, 0
