"""Binding C: TLC evaluates MiniJS.tla on generated programs (sharded over processes); goja runs the printed sources;
the observable behaviours are compared. Disagreements are re-evaluated with each deviation switch (known findings)."""
import json
import os
import subprocess
from concurrent.futures import ThreadPoolExecutor

import mjgen
from vlib import NCPU, Inconclusive, run_tlc

CFG = """SPECIFICATION Spec
CONSTANTS Deviations = {%s}
INVARIANTS TypeOK CompOK FinOnce Bounded
CHECK_DEADLOCK FALSE
"""


def tlc_eval(progs, wd, tag, devs=(), shards=None, timeout=1200):
    """Returns {id: {log, ty, v}} as specified by MiniJS.tla (with the given deviation switches on)."""
    shards = shards or max(1, min(NCPU, len(progs) // 200 + 1))
    os.makedirs(wd, exist_ok=True)
    parts = [progs[i::shards] for i in range(shards)]
    cfg = CFG % ", ".join('"%s"' % d for d in devs)

    def one(i):
        pf = os.path.join(wd, "%s-progs-%d.ndjson" % (tag, i))
        with open(pf, "w") as f:
            for p in parts[i]:
                f.write(json.dumps(p) + "\n")
        res = run_tlc("MiniJS", cfg, os.path.join(wd, "%s-tlc-%d" % (tag, i)), workers=1, timeout=timeout, heap="2g",
                      env_extra={"PROGS": pf})
        return res

    with ThreadPoolExecutor(max_workers=shards) as ex:
        results = list(ex.map(one, [i for i in range(shards) if parts[i]]))
    out = {}
    states = 0
    for r in results:
        if r.violation or r.rc not in (0,):
            raise Inconclusive("TLC failed evaluating MiniJS (%s): %s\n%s" % (tag, r.violation, r.out[-2500:]))
        states += r.distinct
        for v in r.lines:
            out[v["id"]] = v
    if len(out) != len(progs):
        raise Inconclusive("MiniJS oracle evaluated %d of %d programs" % (len(out), len(progs)))
    return out, states


def goja_run(binp, progs, wd, tag, timeout=1200, variant="base"):
    sp = os.path.join(wd, "%s-srcs.json" % tag)
    with open(sp, "w") as f:
        json.dump([{"id": p["id"], "gen": p["gen"], "src": mjgen.print_js(p, variant=variant)} for p in progs], f)
    op = os.path.join(wd, "%s-goja.ndjson" % tag)
    r = subprocess.run([binp, "-in", sp, "-out", op, "-threads", str(NCPU)], stdout=subprocess.PIPE, stderr=subprocess.PIPE,
                       text=True, timeout=timeout)
    if r.returncode != 0:
        raise Inconclusive("mjsrun failed rc=%d: %s" % (r.returncode, r.stderr[-2000:]))
    out = {}
    for l in open(op):
        v = json.loads(l)
        out[v["id"]] = v
    return out


def agree(prog, want, got):
    if got.get("panic") or got.get("err"):
        return False
    if want["log"] != got["log"]:
        return False
    if want["ty"] == "fatal" or got.get("ty") == "fatal":       # uncatchable condition: same kind, and nothing ran after it
        return got.get("ty") == want["ty"] and got["v"] == want["v"]
    if prog["gen"]:
        return True
    wt = want["ty"]
    if wt in ("normal", "return"):
        return got["ty"] in ("normal", "return") and got["v"] == (want["v"] if wt == "return" else 0)
    return got["ty"] == wt and got["v"] == want["v"]


LAST_WANT = None


def compare(chk, binp, progs, wd, tag, devs_known, what):
    """devs_known: {deviation switch: finding id}. Adds violations / known hits to chk; returns (n, disagreements)."""
    global LAST_WANT
    want, states = tlc_eval(progs, wd, tag)
    LAST_WANT = want
    got = goja_run(binp, progs, wd, tag)
    byid = {p["id"]: p for p in progs}
    nfatal = sum(1 for p in progs if want[p["id"]]["ty"] == "fatal")
    if nfatal:
        chk.add("uncatchable_outcomes", nfatal)
    bad = [p for p in progs if not agree(p, want[p["id"]], got[p["id"]])]
    explained = {}
    if bad and devs_known:
        for dev, fid in devs_known.items():
            rest = [p for p in bad if p["id"] not in explained]
            if not rest:
                break
            w2, _ = tlc_eval(rest, wd, tag + "-" + dev, devs=[dev])
            for p in rest:
                if agree(p, w2[p["id"]], got[p["id"]]):
                    explained[p["id"]] = (dev, fid)
    for p in bad:
        pid = p["id"]
        if pid in explained:
            dev, fid = explained[pid]
            f = [k for k in chk.known if k["id"] == fid]
            chk.known_hit(fid, f[0]["what"] if f else dev)
            continue
        chk.violation("%s: program %d: specified log=%s %s/%s; goja log=%s %s/%s %s" % (
            what, pid, want[pid]["log"], want[pid]["ty"], want[pid]["v"], got[pid]["log"], got[pid].get("ty"), got[pid].get("v"),
            (got[pid].get("err") or got[pid].get("panic") or "")[:200]),
            {"module": "MiniJS", "program": p, "source": mjgen.print_js(p), "want": want[pid], "got": got[pid]})
    for p in progs[:2]:
        chk.sample({"source": mjgen.print_js(p).split("\n", 2)[2][:600], "specified": want[p["id"]]["log"]})
    return states, len(bad), len(explained)


# ---------------------------------------------------------------------------------------------------------------
# Bind.tla (bindings / closures / scopes) as oracle

BIND_CFG = """SPECIFICATION Spec
CONSTANTS Deviations = {%s}
CHECK_DEADLOCK FALSE
"""


def bind_eval(progs, wd, tag, shards=None, timeout=1800, devs=()):
    """{id: {log, ty, v}} as specified by Bind.tla."""
    shards = shards or max(1, min(NCPU, len(progs) // 100 + 1))
    os.makedirs(wd, exist_ok=True)
    parts = [progs[i::shards] for i in range(shards)]

    def one(i):
        pf = os.path.join(wd, "%s-bprogs-%d.ndjson" % (tag, i))
        with open(pf, "w") as f:
            for p in parts[i]:
                f.write(json.dumps(p) + "\n")
        return run_tlc("Bind", BIND_CFG % ", ".join('"%s"' % d for d in devs), os.path.join(wd, "%s-btlc-%d" % (tag, i)), workers=1, timeout=timeout, heap="2g", xss="512m",
                       env_extra={"PROGS": pf})

    with ThreadPoolExecutor(max_workers=shards) as ex:
        results = list(ex.map(one, [i for i in range(shards) if parts[i]]))
    out = {}
    for r in results:
        if r.violation or r.rc not in (0,):
            raise Inconclusive("TLC failed evaluating Bind (%s): %s\n%s" % (tag, r.violation, r.out[-2500:]))
        for v in r.lines:
            out[v["id"]] = v
    if len(out) != len(progs):
        raise Inconclusive("Bind oracle evaluated %d of %d programs" % (len(out), len(progs)))
    return out


def bind_run(binp, progs, wd, tag, variant, timeout=1200):
    import bindgen
    sp = os.path.join(wd, "%s-bsrcs.json" % tag)
    items = []
    for p in progs:
        pre, src, mode = bindgen.print_js(p, variant)
        items.append({"id": p["id"], "gen": mode, "pre": pre, "src": src})
    with open(sp, "w") as f:
        json.dump(items, f)
    op = os.path.join(wd, "%s-bgoja.ndjson" % tag)
    r = subprocess.run([binp, "-in", sp, "-out", op, "-threads", str(NCPU)], stdout=subprocess.PIPE, stderr=subprocess.PIPE, text=True, timeout=timeout)
    if r.returncode != 0:
        raise Inconclusive("mjsrun failed rc=%d: %s" % (r.returncode, r.stderr[-2000:]))
    out = {}
    for l in open(op):
        v = json.loads(l)
        out[v["id"]] = v
    return out


def bind_agree(want, got):
    if got.get("panic") or got.get("err"):
        return False
    return want["log"] == got["log"] and want["ty"] == got.get("ty") and want["v"] == got.get("v")
