"""C07 (Array.prototype methods half) — every Array.prototype method behaves as its ECMA-262 algorithm on dense, forced-sparse
and formerly-sparse arrays, with holes, an inherited element, and restricted receivers (ArrayOps.tla).

Same shape as c07.py (run(chk, tier), replay(path)); meant to be merged into C07."""
import json
import os
import threading

import edges
import replay as rp
from vlib import HARNESS, Inconclusive, go_build, phase, seed, workdir

CFG = """SPECIFICATION Spec
CONSTANTS
  Cap = %(cap)d
  Vals = {%(vals)s}
  PIdx = %(pidx)d
  PKind = "%(pkind)s"
  Modes = {%(modes)s}
  Full = %(full)s
  NBig = %(nbig)d
  BigSeed = %(bigseed)d
  NoCmps = {%(nocmps)s}
INVARIANTS TypeOK LenBound Agree
PROPERTIES Restricted SortPost Pure
ACTION_CONSTRAINT Emit
VIEW View
CHECK_DEADLOCK FALSE
"""
TWINS = ["dense", "sparse", "s2d"]
BASE_VALS = ["u", "a1", "a2", "b1"]


def q(xs):
    return ", ".join('"%s"' % x for x in xs)


def configs(thorough):
    """(name, constants). One TLC graph per configuration, three twin jobs per graph."""
    bs = seed() % 1000
    if not thorough:
        return [
            ("plain", dict(cap=3, vals=BASE_VALS, pidx=99, pkind="none", modes=["lenRO", "noext"], full="FALSE", nbig=60, bigseed=bs)),
            ("protoAP1", dict(cap=3, vals=BASE_VALS, pidx=1, pkind="AP", modes=[], full="FALSE", nbig=0, bigseed=bs)),
        ]
    return [
        ("plain4", dict(cap=4, vals=BASE_VALS, pidx=99, pkind="none", modes=[], full="TRUE", nbig=1500, bigseed=bs)),
        ("restricted", dict(cap=3, vals=BASE_VALS, pidx=99, pkind="none", modes=["lenRO", "noext", "sealed", "frozen"], full="FALSE",
                            nbig=0, bigseed=bs)),
        ("nested", dict(cap=3, vals=BASE_VALS + ["r"], pidx=99, pkind="none", modes=[], full="FALSE", nbig=0, bigseed=bs)),
        ("protoAP1", dict(cap=3, vals=BASE_VALS, pidx=1, pkind="AP", modes=["frozen"], full="TRUE", nbig=0, bigseed=bs)),
        ("protoAP0r", dict(cap=3, vals=BASE_VALS + ["r"], pidx=0, pkind="AP", modes=[], full="FALSE", nbig=0, bigseed=bs)),
        ("protoObj1", dict(cap=3, vals=BASE_VALS, pidx=1, pkind="obj", modes=["lenRO"], full="FALSE", nbig=300, bigseed=bs + 1)),
        ("protoObj2", dict(cap=4, vals=BASE_VALS, pidx=2, pkind="obj", modes=[], full="FALSE", nbig=0, bigseed=bs)),
    ]


def init_state(cap):
    return {"len": 0, "el": ["hole"] * cap, "mode": "norm"}


def prelude(path, c, twin):
    open(path, "w").write("var CFG = %s;\n" % json.dumps({"cap": c["cap"], "twin": twin, "pkind": c["pkind"], "pidx": c["pidx"]}))


def run(chk, tier):
    wd = workdir("C07b")
    thorough = tier == "thorough"
    binp = os.path.join(wd, "jsreplay")
    go_build("jsreplay", binp)
    cfgs = configs(thorough)
    # the TLC runs are independent: two at a time, 8 workers each
    graphs, errs = {}, []
    sem = threading.Semaphore(2)

    def tlc(name, c):
        with sem:
            try:
                gwd = os.path.join(wd, "g-" + name)
                os.makedirs(gwd)
                nocmps = q(["nz"]) if any(f["id"] == "F-SORT-NEGZERO" for f in chk.known) else ""
                text = CFG % dict(c, vals=q(c["vals"]), modes=q(c["modes"]), nocmps=nocmps)
                ini = init_state(c["cap"])
                graphs[name] = (gwd,) + edges.build_graph("ArrayOps", text, gwd, ini, obs0=ini, workers=8, timeout=1700)
            except BaseException as e:      # noqa: B902 (re-raised below)
                errs.append(e)

    with phase(chk, "tlc"):
        ts = [threading.Thread(target=tlc, args=nc) for nc in cfgs]
        for t in ts:
            t.start()
        for t in ts:
            t.join()
    if errs:
        raise errs[0]
    tours = 0
    for n, (name, c) in enumerate(cfgs):
        gwd, g, st = graphs[name]
        chk.add("states", st["states"])
        chk.add("transitions", st["transitions"])
        jobs = []
        for tn, twin in enumerate(TWINS):
            pre = os.path.join(gwd, "prelude-%s.js" % twin)
            prelude(pre, c, twin)
            jobs.append(dict(what="ArrayOps/%s twin=%s" % (name, twin), tag=twin, share=None,
                             args=["-adaptor", pre + "," + os.path.join(HARNESS, "adaptors", "arrayops.js")],
                             meta={"module": "ArrayOps", "config": name, "twin": twin, "cap": c["cap"], "pkind": c["pkind"],
                                   "pidx": c["pidx"]}))
        with phase(chk, "replay-" + name):
            results = rp.run_jobs(binp, g, gwd, jobs, conc=3, threads=5, walks=300 if thorough else 40, walklen=40,
                                  maxtour=30, timeout=2400)
        for job, (reps, crashes) in zip(jobs, results):
            tot, nodes = rp.fold(chk, reps, crashes, job["what"], {}, job["meta"])
            chk.add("edges_replayed", tot["covered"])
            chk.add("distinct_nontrivial", tot["nontrivial"])
            chk.add("evaluations", tot["steps"])
            chk.add("abstract_states_reached_on_real_objects", nodes)
            tours += tot["tours"]
            chk.setcov("edges_per_graph_arrayops_" + name, tot["edges"])
            if tot["covered"] + tot["lost_to_known"] < tot["mine"] and not chk.violations:
                raise Inconclusive("%s: %d of %d assigned edges not replayed" % (job["what"], tot["mine"] - tot["covered"], tot["mine"]))
    tours += run_switch(chk, wd, 40 if thorough else 6)
    _spread(chk)
    chk.setcov("traces_validated_against_impl", tours)
    chk.setcov("exhaustive", True)
    chk.setcov("configurations", [name for name, _ in cfgs])
    chk.setcov("rule", "every transition of ArrayOps.tla (push pop shift unshift splice toSpliced slice concat reverse fill copyWithin indexOf "
               "lastIndexOf includes join at with toReversed flat keys/entries/values sort toSorted and the eleven callback methods with "
               "the callback menu {pure, delete j, truncate, push, throw at n-th call}; arrays of up to %s elements over "
               "{hole, undefined, a1, a2, b1%s}, an inherited element on Array.prototype or on an intermediate prototype, receivers with "
               "non-writable length / non-extensible / sealed / frozen; plus a generated family of %s arrays of length 13..48 whose result "
               "must be THE stable sort) replayed from the empty array on a dense array, a twin forced into sparse storage and a formerly "
               "sparse dense twin (storage kind verified white-box before and after every step); compared after every step: result incl. "
               "callback invocation sequence, own elements with holes, own-key order, attributes, length"
               % (("4", ", nested array r", "1800") if thorough else ("3", "", "60")))
    chk.assumptions += ["elements of the receiver are plain data properties (attributes per element are ObjArray.tla's half)",
                        "a comparator that mutates the array, and the number of comparator calls, are implementation-defined and not compared",
                        "the dense<->sparse switch in the middle of one method call (needs > 1024 elements or an index > 4096) is outside "
                        "the small-scope bound of the model: it is covered differentially (the same call on an array-like object as "
                        "reference, storage change proven white-box), not against ArrayOps.tla"]


def switch_family(jsrun, wd, sd):
    """Runs the storage-switch differential of arrayops.js (method call during which the array changes storage kind vs the same
    generic algorithm on an array-like object) for one seed; returns its report."""
    import subprocess
    pre = os.path.join(wd, "switch-prelude.js")
    prelude(pre, {"cap": 3, "pkind": "none", "pidx": 99}, "dense")
    call = os.path.join(wd, "switch-call-%d.js" % sd)
    open(call, "w").write("JSON.stringify(switchFamily(%d))\n" % sd)
    r = subprocess.run([jsrun, pre, os.path.join(HARNESS, "adaptors", "arrayops.js"), call], stdout=subprocess.PIPE, stderr=subprocess.STDOUT,
                       text=True, timeout=600)
    lines = [l for l in r.stdout.strip().splitlines() if l.startswith("{")]
    if r.returncode != 0 or not lines:
        raise Inconclusive("storage-switch differential did not run: %s" % r.stdout[-600:])
    return json.loads(lines[-1])


def run_switch(chk, wd, nseeds):
    jsrun = os.path.join(wd, "jsrun")
    go_build("jsrun", jsrun)
    cases = switched = 0
    with phase(chk, "switch-differential"):
        for sd in range(seed(), seed() + nseeds):
            rep = switch_family(jsrun, wd, sd)
            cases += rep["cases"]
            switched += rep["switched"]
            for mm in rep["mismatches"]:
                chk.violation("ArrayOps/switch %s.%s: array (storage %s) and array-like disagree: result %s vs %s; %s" % (
                    mm["subject"], mm["op"], mm["kinds"], mm["result_array"], mm["result_reference"], mm["first_difference"]),
                    {"module": "ArrayOps-switch", "switch": mm})
    chk.add("switch_cases", cases)
    chk.add("switch_cases_with_storage_change_during_the_call", switched)
    if switched * 2 < cases:
        raise Inconclusive("storage-switch differential is vacuous: only %d of %d calls changed the storage kind" % (switched, cases))
    return cases


def _spread(chk):
    """Several independent defects can be open at once and only the first 40 violations get replay files: put the operation into
    the violation class and interleave the classes so that every (twin, operation) pair is shown."""
    groups = {}
    for what, payload in chk.violations:
        path = payload.get("path") or []
        op = "?"
        if isinstance(path, list) and path and isinstance(path[-1], dict):
            last = path[-1]
            op = str(last.get("op", "?")) + ("/" + str(last["c"]) if "c" in last else "")
        head, _, rest = what.partition(":")
        groups.setdefault((head, op), []).append(("%s op=%s:%s" % (head, op, rest), payload))
    out = []
    while any(groups.values()):
        for key in sorted(groups):
            if groups[key]:
                out.append(groups[key].pop(0))
    chk.violations[:] = out
    if out:
        chk.setcov("violation_classes", sorted(set(w.split(":")[0] for w, _ in out)))


def replay(path):
    import subprocess
    d = json.load(open(path))
    m = d["replay"]
    wd = workdir("C07br")
    if m.get("module") == "ArrayOps-switch":
        jsrun = os.path.join(wd, "jsrun")
        go_build("jsrun", jsrun)
        want = m["switch"]
        rep = switch_family(jsrun, wd, want["seed"])
        again = [x for x in rep["mismatches"] if x["subject"] == want["subject"] and x["index"] == want["index"]]
        print("storage-switch differential seed=%s %s.%s" % (want["seed"], want["subject"], want["op"]))
        if not again:
            print("replay: array and array-like agree now")
            return 0
        print(json.dumps(again[0], indent=1))
        print("VIOLATION property=C07 replay=%s" % path)
        return 1
    binp = os.path.join(wd, "jsreplay")
    go_build("jsreplay", binp)
    pre = os.path.join(wd, "prelude.js")
    prelude(pre, {"cap": m.get("cap", 3), "pkind": m.get("pkind", "none"), "pidx": m.get("pidx", 99)}, m.get("twin", "dense"))
    r = subprocess.run([binp, "-replay", path, "-adaptor", pre + "," + os.path.join(HARNESS, "adaptors", "arrayops.js")],
                       stdout=subprocess.PIPE, text=True)
    got = json.loads(r.stdout)
    print("configuration: %s twin=%s" % (m.get("config"), m.get("twin")))
    for l in m.get("path", []):
        print("   ", json.dumps(l)[:400])
    print("want res=%s\n     obs=%s" % (m.get("want_res"), m.get("want_obs")))
    print("got  res=%s\n     obs=%s %s" % (got["res"], got["obs"], got.get("panic", "")[:600]))
    if got["res"] == m.get("want_res") and got["obs"] == m.get("want_obs"):
        print("replay: agrees with the specification now")
        return 0
    print("VIOLATION property=C07 replay=%s" % path)
    return 1
