"""C05 — equal numbers are indistinguishable however computed (NumPool.tla) [conversion tables: NumConv, see below]."""
import glob
import json
import os
import shutil
import subprocess

import edges
import replay as rp
from vlib import HARNESS, SPECS, Inconclusive, go_build, phase, workdir

CFG = """SPECIFICATION Spec
CONSTANTS Bound = %d
INVARIANTS WinOK Laws
ACTION_CONSTRAINT Emit
VIEW View
CHECK_DEADLOCK FALSE
"""
INIT = {"a": "0", "b": "1"}


def run(chk, tier):
    wd = workdir("C05")
    thorough = tier == "thorough"
    binp = os.path.join(wd, "jsreplay")
    go_build("jsreplay", binp)
    with phase(chk, "tlc-numpool"):
        g, st = edges.build_graph("NumPool", CFG % (40 if thorough else 16), wd, INIT, obs0=INIT, timeout=1800)
    chk.add("states", st["states"])
    chk.add("transitions", st["transitions"])
    ad = os.path.join(HARNESS, "adaptors", "numpool.js")
    with phase(chk, "replay-numpool"):
        reps, crashes = rp.run_walkers(binp, g, wd, ["-adaptor", ad, "-fresh=false"], procs=2, walks=300 if thorough else 30, walklen=30,
                                       maxtour=30, timeout=2400)
    tot, nodes = rp.fold(chk, reps, crashes, "NumPool", {}, {"module": "NumPool"})
    chk.add("edges_replayed", tot["covered"])
    chk.add("distinct_nontrivial", tot["nontrivial"])
    chk.add("evaluations", tot["steps"])
    chk.setcov("traces_validated_against_impl", tot["tours"])
    chk.setcov("edges_total", tot["edges"])
    chk.setcov("exhaustive", True)
    if tot["covered"] + tot["lost_to_known"] < tot["mine"] and not chk.violations:
        raise Inconclusive("NumPool: %d of %d assigned edges not replayed" % (tot["mine"] - tot["covered"], tot["mine"]))
    chk.setcov("rule", "every transition of NumPool.tla (two registers over the dyadic window |x| <= %s plus -0, NaN, +-Infinity; 14 literals in 3 "
               "written forms, 7 binary operators / Math functions, 27 unary operators, update and compound-assignment forms, conversions and round "
               "trips) replayed on the engine; after every step 17 observers (Object.is both orders, ===, ==, switch, Map, Set, includes, indexOf, "
               "lastIndexOf, property key, String, toFixed, typed-array round trip) are evaluated for the pairs (a,b), (a, literal), (b, literal), "
               "(a, recomputed) and must answer as SameValue / SameValueZero / strict equality prescribe" % ("10" if thorough else "4"))
    jsrun = os.path.join(wd, "jsrun")
    go_build("jsrun", jsrun)
    numconv(chk, wd, jsrun)
    chk.assumptions += ["results outside the window rely on Go's float64 arithmetic (not modelled)",
                        "the modular conversions are decided on the boundary inputs listed in NumConv.tla (evaluated by Apalache, since TLC has 32-bit integers), "
                        "each written in 13 forms; other huge magnitudes are not sampled"]


def apalache_table(wd):
    """Evaluate NumConv.tla with Apalache (unbounded integers): check RangeOK, then read the table from the 'counterexample' of Tabulated."""
    d = os.path.join(wd, "numconv")
    os.makedirs(d, exist_ok=True)
    shutil.copy(os.path.join(SPECS, "NumConv.tla"), d)
    env = dict(os.environ, JVM_ARGS="-Xmx4g")
    for inv, want in (("RangeOK", "EXITCODE: OK"), ("Tabulated", "EXITCODE: ERROR (12)")):
        try:
            r = subprocess.run(["apalache-mc", "check", "--init=Init", "--next=Next", "--inv=" + inv, "--length=0", "--out-dir=" + os.path.join(d, inv),
                                "--run-dir=" + os.path.join(d, inv, "run"), "NumConv.tla"], cwd=d, env=env, stdout=subprocess.PIPE, stderr=subprocess.STDOUT, text=True, timeout=900)
        except subprocess.TimeoutExpired:
            raise Inconclusive("apalache timed out on NumConv (%s)" % inv)
        if want not in r.stdout:
            raise Inconclusive("apalache: NumConv %s: unexpected outcome: %s" % (inv, r.stdout[-600:]))
    fs = glob.glob(os.path.join(d, "Tabulated", "run", "violation1.itf.json")) or glob.glob(os.path.join(d, "Tabulated", "**", "violation1.itf.json"), recursive=True)
    if not fs:
        raise Inconclusive("apalache: no ITF counterexample for NumConv")
    st = json.load(open(fs[0]))["states"][0]["tbl"]["#map"]

    def num(v):
        return int(v["#bigint"]) if isinstance(v, dict) else int(v)
    return {num(k): {f: num(v) for f, v in row.items()} for k, row in st}


def forms(x):
    """JavaScript expressions that all denote the number x (an integer exactly representable as a double)."""
    a = abs(x)
    e = 0
    while a and a % 2 == 0:
        a //= 2
        e += 1
    sgn = "-" if x < 0 else ""
    out = ["%d" % x if x >= 0 else "(%d)" % x, 'Number("%d")' % x, '+"%d"' % x, 'parseFloat("%d")' % x, 'JSON.parse("%d")' % x, "Number(%dn)" % x if x >= 0 else "Number(-%dn)" % -x,
           "(%s%d * 2**%d)" % (sgn, a, e), "(%sMath.pow(2, %d) * %d)" % (sgn, e, a), "(-(%d))" % -x if x < 0 else "(-(-%d))" % x, "(%d + 0)" % x if x >= 0 else "(0 + (%d))" % x,
           "(%s%d.0)" % (sgn, abs(x)), "(%s%se0)" % (sgn, abs(x)), "(function () { var t = %s%d; t++; t--; return t })()" % (sgn, abs(x)) if abs(x) < 2**53 else "(%s%d / 1)" % (sgn, abs(x))]
    if abs(x) == 2**53:
        # integers just beyond 2^53 whose nearest double is exactly 2^53: every way of computing them is the same number
        out += ["(%s9007199254740993)" % sgn, "(%s(9007199254740992 + 1))" % sgn, "(%s(3002399751580331 * 3))" % sgn, '(%sparseInt("9007199254740993"))' % sgn,
                '(%sNumber("9007199254740993"))' % sgn, "(%sNumber(9007199254740993n))" % sgn, "(function () { var t = %s9007199254740992; t%s; return t })()" % (sgn, "--" if x < 0 else "++"),
                "(%sJSON.parse('9007199254740993'))" % sgn, "(%s9007199254740991 %s 2)" % (sgn, "-" if x < 0 else "+")]
    return out


MISC = [('Number("-00")', "-0"), ('+"-00"', "-0"), ('"-00" * 1', "-0"), ('Number(" -000 ")', "-0"), ('Number("-0.0")', "-0"), ('Number("-0e5")', "-0"), ('Number("00")', "0"),
        ('Number("-01")', "-1"), ('Math.min("-00")', "-0"), ('-"-00"', "0"), ('1 / Number("-00")', "-Infinity"),
        ('Math.sign("0")', "0"), ('Math.sign("-0")', "-0"), ('Math.sign("abc")', "NaN"), ("Math.sign(null)", "0"), ("Math.sign(undefined)", "NaN"), ("Math.sign(false)", "0"),
        ('Math.sign({valueOf: function () { return -0 }})', "-0"), ('Math.sign("")', "0"), ("Math.sign([])", "0"), ('Math.sign("-3")', "-1"),
        # an operand is converted ONCE by every unary / update / arithmetic operator
        ('(function () { var c = 0, o = {valueOf: function () { c++; return c + 0.5 }}; var r = -o; return r * 10 + c })()', "-14"),
        ('(function () { var c = 0, o = {valueOf: function () { c++; return c + 0.5 }}; var r = +o; return r * 10 + c })()', "16"),
        ('(function () { var c = 0, o = {valueOf: function () { c++; return c + 0.5 }}; var r = ~o; return r * 10 + c })()', "-19"),
        ('(function () { var c = 0, o = {valueOf: function () { c++; return c + 0.5 }}; var r = o; r++; return r * 10 + c })()', "26"),
        ('(function () { var c = 0, o = {valueOf: function () { c++; return c + 0.5 }}; var r = o * 2; return r * 10 + c })()', "31"),
        ('(function () { var c = 0, o = {valueOf: function () { c++; return String(c + 0.5) }}; var r = -o; return r * 10 + c })()', "-14"),
        # searching a float typed array compares NUMBERS (SameValueZero / strict equality), not bit patterns
        ("new Float64Array([-0]).includes(0)", "true"), ("new Float64Array([-0]).indexOf(0)", "0"), ("new Float64Array([1, -0]).lastIndexOf(0)", "1"), ("new Float64Array([0]).includes(-0)", "true"),
        ("new Float32Array([1.1]).includes(1.1)", "false"), ("new Float32Array([1.1]).indexOf(1.1)", "-1"), ("new Float32Array([1.1]).includes(Math.fround(1.1))", "true"),
        ("new Float32Array([16777216]).indexOf(16777217)", "-1"), ("new Float32Array([16777216]).lastIndexOf(16777217)", "-1"), ("new Float32Array([-0]).includes(0)", "true"),
        ("new Float64Array(new BigUint64Array([0x7ff8000000000001n]).buffer).includes(NaN)", "true"), ("new Float64Array([NaN]).indexOf(NaN)", "-1"),
        ("new Int8Array([1, 2]).includes(1.5)", "false"), ("new Int8Array([1, 2]).includes(258)", "false"), ("new Uint8Array([0]).includes(-0)", "true"),
        ('parseInt("-0")', "-0"), ('parseInt("-0x0")', "-0"), ('parseInt("-000", 8)', "-0"), ('parseInt("-0.9")', "-0"), ('Number.parseInt(" -0 ")', "-0"), ('parseInt("+0")', "0"),
        ('parseInt("0")', "0"), ('parseFloat("-0")', "-0"), ('parseFloat("-0.0e3x")', "-0"),
        ('[1, 2, 3].slice(0, "1e30").length', "3"), ('"abc".substring(0, "1e30")', '"abc"'), ('[1, 2, 3].slice("-1e30").length', "3"), ('"abc".slice("-1e400")', '"abc"'),
        ('[1, 2, 3].indexOf(3, "-1e30")', "2"), ('"abc".charAt("1e30")', '""'), ('[1, 2, 3].at("1e30")', "undefined"), ('"abcabc".lastIndexOf("c", "1e30")', "5")]


def _u8c_rows():
    # ToUint8Clamp rounds ties to even (NumConv.tla covers the integer inputs; these are the fractional ones, through every store path)
    out = []
    for k in list(range(-2, 12)) + list(range(120, 132)) + list(range(248, 258)):
        for fr in (0.25, 0.5, 0.75):
            v = k + fr
            want = min(255, max(0, round(v)))
            for op in OPS_U8C:
                out.append(("(function (v) { var ta; return %s })(%r)" % (op, v), "%d" % want))
            out.append(("new Uint8ClampedArray([%s])[0]" % json.dumps(repr(v)), "%d" % want))
    return out


OPS_U8C = ["new Uint8ClampedArray([v])[0]", "(ta = new Uint8ClampedArray(1), ta[0] = v, ta[0])", "new Uint8ClampedArray(1).fill(v)[0]", "new Uint8ClampedArray(new Float64Array([v]))[0]",
           "Uint8ClampedArray.of(v)[0]", "(ta = new Uint8ClampedArray(1), ta.set([v]), ta[0])", "Uint8ClampedArray.from([v])[0]"]
MISC += _u8c_rows()


def spellings(x):
    """string literals whose StringToNumber value is the integer x"""
    d = "%d" % x
    out = [d, d + ".0", " " + d + " ", "\u00a0" + d, "\ufeff" + d + "\u2028", d + "e0", d + ".", "\t\n" + d + "\u3000", d + "0e-1"]
    if x >= 0:
        out += ["+" + d, "0x%x" % x, "0X%X" % x, "\u2003" + "0b" + bin(x)[2:], "0o%o" % x, "00" + d]
    return out


OPS = {
    "i32": ["v | 0", "~~v", "v ^ 0", "v << 0", "v >> 0", "v & -1", "0 | v", "-1 & v", "new Int32Array([v])[0]", "Int32Array.of(v)[0]", "(ta = new Int32Array(1), ta[0] = v, ta[0])",
            "new Int32Array(1).fill(v)[0]", "(ta = new Int32Array(1), ta.set([v]), ta[0])", "(dv.setInt32(0, v), dv.getInt32(0))", "Math.imul(v, 1)", "Math.imul(1, v)",
            "(function () { var t = v; t |= 0; return t })()", "(function () { var t = v; t >>= 0; return t })()", "__exportInt(v, 'i32')", "Int32Array.from([v])[0]",
            "Int32Array.from({length: 1, 0: v})[0]", "new Int32Array(new Float64Array([v]))[0]"],
    "u32": ["v >>> 0", "new Uint32Array([v])[0]", "(ta = new Uint32Array(1), ta[0] = v, ta[0])", "new Uint32Array(1).fill(v)[0]", "(dv.setUint32(0, v), dv.getUint32(0))",
            "(function () { var t = v; t >>>= 0; return t })()", "__exportInt(v, 'u32')", "Uint32Array.of(v)[0]", "new Uint32Array(new Float64Array([v]))[0]"],
    "i16": ["new Int16Array([v])[0]", "(ta = new Int16Array(1), ta[0] = v, ta[0])", "new Int16Array(1).fill(v)[0]", "(dv.setInt16(0, v), dv.getInt16(0))", "__exportInt(v, 'i16')",
            "new Int16Array(new Float64Array([v]))[0]"],
    "u16": ["new Uint16Array([v])[0]", "(ta = new Uint16Array(1), ta[0] = v, ta[0])", "new Uint16Array(1).fill(v)[0]", "(dv.setUint16(0, v), dv.getUint16(0))",
            "String.fromCharCode(v).charCodeAt(0)", "__exportInt(v, 'u16')", "new Uint16Array(new Float64Array([v]))[0]"],
    "i8": ["new Int8Array([v])[0]", "(ta = new Int8Array(1), ta[0] = v, ta[0])", "new Int8Array(1).fill(v)[0]", "(dv.setInt8(0, v), dv.getInt8(0))", "__exportInt(v, 'i8')",
           "new Int8Array(new Float64Array([v]))[0]"],
    "u8": ["new Uint8Array([v])[0]", "(ta = new Uint8Array(1), ta[0] = v, ta[0])", "new Uint8Array(1).fill(v)[0]", "(dv.setUint8(0, v), dv.getUint8(0))", "__exportInt(v, 'u8')",
           "new Uint8Array(new Float64Array([v]))[0]"],
    "u8c": ["new Uint8ClampedArray([v])[0]", "(ta = new Uint8ClampedArray(1), ta[0] = v, ta[0])", "new Uint8ClampedArray(1).fill(v)[0]",
            "new Uint8ClampedArray(new Float64Array([v]))[0]"],
}
# derived observations: operators that apply one of the conversions to an operand and then compute in 32 bits
DERIVED = [("Math.clz32(v)", lambda r: 32 - r["u32"].bit_length()), ("v >>> 4", lambda r: r["u32"] >> 4), ("v >> 4", lambda r: r["i32"] >> 4),
           ("1 << v", lambda r: _i32(1 << (r["u32"] & 31))), ("~v", lambda r: ~r["i32"]), ("v & 0xffff", lambda r: r["u32"] & 0xffff), ("v | 1", lambda r: r["i32"] | 1),
           ("v ^ v", lambda r: 0), ("-8 >>> v", lambda r: (2**32 - 8) >> (r["u32"] & 31))]


def _i32(x):
    x %= 2**32
    return x - 2**32 if x >= 2**31 else x


def numconv(chk, wd, binp):
    with phase(chk, "apalache-numconv"):
        tbl = apalache_table(wd)
    for x in tbl:
        if int(float(x)) != x:
            raise Inconclusive("NumConv input %d is not exactly representable as a double" % x)
    rows = []
    for x, row in sorted(tbl.items()):
        for fi, f in enumerate(forms(x)):
            for conv, ops in OPS.items():
                for op in ops:
                    rows.append((x, f, op, row[conv]))
            for op, fn in DERIVED:
                rows.append((x, f, op, fn(row)))
    js = ["var dv = new DataView(new ArrayBuffer(8)), ta, bad = [], n = 0;"]
    js.append("function T(v, f, want, id) { n++; var got; try { got = f(v) } catch (e) { got = 'throws ' + e } if (!Object.is(got, want)) bad.push([id, String(got)]); }")
    for i, (x, f, op, want) in enumerate(rows):
        js.append("T(%s, function (v) { return %s }, %d, %d);" % (f, op, want, i))
    # all written forms of one input denote the same number: no observer may tell them apart (first sentence, at large magnitudes)
    js.append("function EQ(a, b, id) { n++; var o = {}; o[a] = 1; var sw; switch (a) { case b: sw = true; break; default: sw = false } "
              "var r = [Object.is(a, b), Object.is(b, a), a === b, a == b, sw, new Map([[a, 1]]).get(b) === 1, new Set([a]).has(b), [a].includes(b), [a].indexOf(b) === 0, "
              "[a].lastIndexOf(b) === 0, o[b] === 1, String(a) === String(b), JSON.stringify(a) === JSON.stringify(b), a.toString(2) === b.toString(2), a - b === 0, !(a < b) && !(a > b), "
              "new Float64Array([a])[0] === b, BigInt(a) === BigInt(b)]; if (r.indexOf(false) >= 0) bad.push([id, r.join()]); }")
    eqrows = []
    for x in sorted(tbl):
        fs = forms(x)
        for f in fs[1:]:
            eqrows.append((x, fs[0], f))
            js.append("EQ(%s, %s, %d);" % (fs[0], f, len(rows) + len(eqrows) - 1))
    # string spellings of the same inputs: every conversion site applies ToNumber (StringToNumber: Unicode white space, radix prefixes,
    # exponents, magnitudes beyond 2^64), also the loose-equality operator in both operand orders
    js.append("function SEQ(s, x, i32, u32, id) { n++; var r; try { r = [Object.is(Number(s), x), Object.is(+s, x), s == x, x == s, !(s != x), s - 0 === x, s * 1 === x, "
              "!(s < x) && !(s > x), s >= x && s <= x, (s | 0) === i32, (s >>> 0) === u32, ~~s === i32, new Float64Array([s])[0] === x, Math.max(s) === x, "
              "new Int32Array([s])[0] === i32, [x].includes(Number(s)), (x === 1 || x === 0) ? (s == (x === 1) && (x === 1) == s) : true, "
              "new Number(s) == x, [s] == x, ({valueOf: function () { return s }}) == x, isFinite(s), x + s === String(x) + s]; } catch (e) { r = [false, 'throws ' + e]; } "
              "if (r.indexOf(false) >= 0) bad.push([id, r.join()]); }")
    srows = []
    for x in sorted(tbl):
        for sp in spellings(x):
            srows.append((x, sp))
            js.append("SEQ(%s, %s, %d, %d, %d);" % (json.dumps(sp), forms(x)[0], tbl[x]["i32"], tbl[x]["u32"], len(rows) + len(eqrows) + len(srows) - 1))
    # strings that are NOT a StringNumericLiteral: NaN at every site
    js.append("function SNAN(s, id) { n++; var r = [Number(s) !== Number(s), isNaN(s), isNaN(+s), (s | 0) === 0, (s >>> 0) === 0, !(s == 0), !(0 == s), !(s < 1) && !(s > -1), "
              "Object.is(Math.abs(s), NaN), Object.is(new Float64Array([s])[0], NaN), Object.is(s - 0, NaN)]; if (r.indexOf(false) >= 0) bad.push([id, r.join()]); }")
    nrows = ["0x-5", "0x+5", "-0x5", "+0b1", "0x", "0b", "0o", "0b12", "0o8", "0xg", "1_0", "0x1_0", "0x1p3", "0x1.8", "1e", "e1", ".", "+", "- 5", "5 5", "1..", "Inf", "infinity", "INFINITY", "+-1",
             "0x\u00a01", "\u00a0\u00a0x", "1n", "0b1n", "NaN1", "\u180e1", "1\u200b"]
    for sp in nrows:
        js.append("SNAN(%s, %d);" % (json.dumps(sp), len(rows) + len(eqrows) + len(srows) + nrows.index(sp)))
    js.append("function MI(f, want, id) { n++; var got; try { got = f() } catch (e) { got = 'throws ' + e } if (!Object.is(got, want)) bad.push([id, String(got)]); }")
    nbase = len(rows) + len(eqrows) + len(srows) + len(nrows)
    for i, (ex, want) in enumerate(MISC):
        js.append("MI(function () { return %s }, %s, %d);" % (ex, want, nbase + i))
    js.append("JSON.stringify({n: n, bad: bad})")
    src = os.path.join(wd, "numconv.js")
    open(src, "w").write("\n".join(js))
    with phase(chk, "eval-numconv"):
        r = subprocess.run([binp, src], stdout=subprocess.PIPE, stderr=subprocess.PIPE, text=True, timeout=600)
    try:
        out = json.loads(r.stdout.strip().splitlines()[-1])
    except Exception:
        raise Inconclusive("numconv driver failed: %s %s" % (r.stdout[-300:], r.stderr[-300:]))
    if out["n"] != nbase + len(MISC):
        raise Inconclusive("numconv driver evaluated %d of %d rows" % (out["n"], len(rows)))
    chk.add("conversion_rows", len(rows))
    chk.add("conversion_inputs", len(tbl))
    chk.add("equal_form_pairs", len(eqrows))
    chk.add("string_spelling_rows", len(srows))
    for i, got in out["bad"]:
        if i >= nbase:
            ex, want = MISC[i - nbase]
            chk.violation("%s is %s, ToNumber / ToIntegerOrInfinity give %s" % (ex, got, want), {"module": "NumConvMisc", "expr": ex, "want": want, "got": got})
            continue
        if i >= len(rows) + len(eqrows) + len(srows):
            sp = nrows[i - len(rows) - len(eqrows) - len(srows)]
            chk.violation("string %s is not a numeric literal, but a conversion site does not give NaN: observers %s" % (json.dumps(sp), got),
                          {"module": "NumConvStr", "s": sp, "x": "NaN", "got": got})
            continue
        if i >= len(rows) + len(eqrows):
            x, sp = srows[i - len(rows) - len(eqrows)]
            chk.violation("string spelling %s of %d: a conversion site disagrees with ToNumber: observers %s" % (json.dumps(sp), x, got),
                          {"module": "NumConvStr", "s": sp, "x": str(x), "got": got})
            continue
        if i >= len(rows):
            x, f0, f1 = eqrows[i - len(rows)]
            chk.violation("equal numbers told apart: a = %s, b = %s: observers %s" % (f0, f1, got), {"module": "NumConvEq", "a": f0, "b": f1, "got": got})
            continue
        x, f, op, want = rows[i]
        chk.violation("integer conversion: v = %s; %s gives %s, NumConv.tla says %d" % (f, op, got, want),
                      {"module": "NumConv", "x": str(x), "form": f, "op": op, "want": want, "got": got})


def replay_numconv(m):
    wd = workdir("C05r")
    binp = os.path.join(wd, "jsrun")
    go_build("jsrun", binp)
    src = os.path.join(wd, "r.js")
    open(src, "w").write("var dv = new DataView(new ArrayBuffer(8)), ta; var v = %s; String(%s)" % (m["form"], m["op"]))
    r = subprocess.run([binp, src], stdout=subprocess.PIPE, stderr=subprocess.STDOUT, text=True)
    got = r.stdout.strip().splitlines()[-1] if r.stdout.strip() else ""
    print("v = %s; %s  => %s (specified: %s)" % (m["form"], m["op"], got, m["want"]))
    if got == str(m["want"]):
        print("replay: agrees with the specification now")
        return 0
    return 1


def replay(path):
    m0 = json.load(open(path))["replay"]
    if m0.get("module") == "NumConvEq":
        wd = workdir("C05r")
        binp = os.path.join(wd, "jsrun")
        go_build("jsrun", binp)
        src = os.path.join(wd, "r.js")
        open(src, "w").write("var a = %s, b = %s; [Object.is(a, b), a === b, new Map([[a, 1]]).get(b) === 1, [a].includes(b), String(a) === String(b), "
                             "new Float64Array([a])[0] === b].join()" % (m0["a"], m0["b"]))
        r = subprocess.run([binp, src], stdout=subprocess.PIPE, stderr=subprocess.STDOUT, text=True)
        print("a = %s; b = %s => %s" % (m0["a"], m0["b"], r.stdout.strip()))
        if "false" in r.stdout or "Error" in r.stdout:
            print("VIOLATION property=C05 replay=%s" % path)
            return 1
        print("replay: agrees with the specification now")
        return 0
    if m0.get("module") == "NumConvMisc":
        wd = workdir("C05r")
        binp = os.path.join(wd, "jsrun")
        go_build("jsrun", binp)
        src = os.path.join(wd, "r.js")
        open(src, "w").write("var got = %s; Object.is(got, %s) + ' ' + typeof got + ' ' + String(got)" % (m0["expr"], m0["want"]))
        r = subprocess.run([binp, src], stdout=subprocess.PIPE, stderr=subprocess.STDOUT, text=True)
        print("%s => %s (specified: %s)" % (m0["expr"], r.stdout.strip(), m0["want"]))
        if not r.stdout.strip().splitlines()[-1].startswith("true"):
            print("VIOLATION property=C05 replay=%s" % path)
            return 1
        print("replay: agrees with the specification now")
        return 0
    if m0.get("module") == "NumConvStr":
        wd = workdir("C05r")
        binp = os.path.join(wd, "jsrun")
        go_build("jsrun", binp)
        src = os.path.join(wd, "r.js")
        if m0["x"] == "NaN":
            body = "var s = %s; [isNaN(s), isNaN(+s), (s | 0) === 0, !(s == 0), !(0 == s), Object.is(Math.abs(s), NaN), Object.is(new Float64Array([s])[0], NaN)].join()" % json.dumps(m0["s"])
        else:
            body = ("var s = %s, x = %s; [Object.is(Number(s), x), Object.is(+s, x), s == x, x == s, s - 0 === x, !(s < x) && !(s > x), new Float64Array([s])[0] === x, "
                    "Math.max(s) === x, isFinite(s), new Number(s) == x, [s] == x].join()" % (json.dumps(m0["s"]), m0["x"] if not m0["x"].startswith("-") else "(" + m0["x"] + ")"))
        open(src, "w").write(body)
        r = subprocess.run([binp, src], stdout=subprocess.PIPE, stderr=subprocess.STDOUT, text=True)
        print("s = %s (denotes %s) => %s" % (json.dumps(m0["s"]), m0["x"], r.stdout.strip()))
        if "false" in r.stdout or "Error" in r.stdout:
            print("VIOLATION property=C05 replay=%s" % path)
            return 1
        print("replay: agrees with the specification now")
        return 0
    if m0.get("module") == "NumConv":
        rc = replay_numconv(m0)
        if rc:
            print("VIOLATION property=C05 replay=%s" % path)
        return rc
    wd = workdir("C05r")
    binp = os.path.join(wd, "jsreplay")
    go_build("jsreplay", binp)
    m = json.load(open(path))["replay"]
    r = subprocess.run([binp, "-replay", path, "-adaptor", os.path.join(HARNESS, "adaptors", "numpool.js")], stdout=subprocess.PIPE, text=True)
    got = json.loads(r.stdout)
    for l in m.get("path", []):
        print("   ", json.dumps(l))
    print("want obs=%s" % m.get("want_obs"))
    print("got  obs=%s %s" % (got["obs"], got.get("panic", "")[:400]))
    if got["obs"] == m.get("want_obs"):
        print("replay: agrees with the specification now")
        return 0
    print("VIOLATION property=C05 replay=%s" % path)
    return 1
