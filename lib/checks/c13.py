"""C13 (aliasing / history half) — Go values behind script wrappers: live view, copy-on-change references, by-value slices,
pointer identity, Export round trip, no host panic (Bridge.tla)."""
import json
import os
import subprocess
import time
from concurrent.futures import ThreadPoolExecutor

import edges
import replay as rp
from vlib import HARNESS, NCPU, Inconclusive, go_build, phase, seed, workdir

CFG = """SPECIFICATION Spec
CONSTANTS
  Kind = "%(kind)s"
  Len0 = %(len0)d
  Cap0 = %(cap0)d
  NH = %(nh)d
  MaxOps = %(maxops)d
  Rich = %(rich)d
  OpSet = {%(opset)s}
  Script <- %(script)s
INVARIANTS Shape LiveView Unshared
PROPERTIES KeepsValue NoAliasAfterSet SortOK BadIsNoop
ACTION_CONSTRAINT Emit
VIEW View
CHECK_DEADLOCK FALSE
"""
ADAPTOR = os.path.join(HARNESS, "adaptors", "bridge.js")
BYVAL = ("ss", "ifs")
# long histories over the operations that create, move, detach and use references
CORE = ("hold", "set", "hsetF", "sort", "pop", "reverse", "goSetF", "goAppend", "splice")
# a reference kept across shrinking, re-growing within the capacity and re-allocating (the element-wrapper cache of the slice wrapper)
DEEP = ("hold", "len", "push", "get", "hsetF")


# directed histories for the element-wrapper cache: references taken, the slice shrunk below them, re-grown within the capacity,
# the cache re-extended by a read further up, a re-allocating push, then a write through the old reference
SCRIPTS = {"SA": 8, "SB": 8, "SC": 8, "SD": 9, "SE": 8}       # Bridge.tla SA..SE (name: length); SN = no script


def plan(kind, len0=2, cap0=None, nh=2, maxops=3, rich=0, opset=(), lean=True, share=None, script="SN"):
    """lean: replay a second time observing through the Go side only (kinds whose wrapper and host share one header)"""
    return dict(kind=kind, len0=len0, cap0=cap0 if cap0 is not None else len0, nh=nh, maxops=maxops, rich=rich, opset=tuple(opset),
                lean=lean and kind not in BYVAL and kind != "graph", share=share, script=script)


def plans(thorough):
    if not thorough:
        return [plan("pss"), plan("ss", cap0=3), plan("fss", nh=1, lean=False), plan("arr"), plan("st"), plan("ifs", cap0=3, nh=1),
                plan("pifs", lean=False), plan("pps"), plan("stp"), plan("msi"), plan("msp"), plan("mss"),
                plan("graph", len0=0, nh=0, maxops=1)]
    out = []
    # three elements, larger argument sets
    out += [plan("pss", len0=3, rich=1), plan("fss", len0=3, rich=1, lean=False), plan("arr", len0=3, rich=1),
            plan("pifs", len0=3, rich=1, lean=False), plan("pps", len0=3, rich=1),
            plan("ss", len0=2, cap0=3, rich=1), plan("ss", len0=3, cap0=3, rich=1), plan("ifs", len0=2, cap0=3, rich=1),
            plan("st", maxops=4, rich=1), plan("stp", maxops=4, rich=1), plan("msi", maxops=4, rich=1), plan("msp", maxops=4, rich=1),
            plan("mss", maxops=4, rich=1), plan("graph", len0=0, nh=0, maxops=2)]
    # four operations, all of them
    for k, c in (("pss", 2), ("pps", 2)):
        out.append(plan(k, len0=2, cap0=c, maxops=4, lean=False))
    # five operations over the reference-handling core
    out.append(plan("ss", cap0=3, maxops=5, opset=CORE[:-1], lean=False))
    out.append(plan("pss", len0=3, cap0=3, nh=1, maxops=5, opset=DEEP, lean=False))
    for sc in sorted(SCRIPTS):
        # (lean: also replayed observing through the Go side only - the full observation reads every element after every step and so
        # re-fills the wrapper cache, which hides histories that depend on an element NOT having been read)
        out.append(plan("pss", len0=3, cap0=3, nh=1, maxops=SCRIPTS[sc], script=sc, lean=True))
    return out


def tag_of(p):
    return "%s-l%dc%d-h%d-m%d-r%d%s" % (p["kind"], p["len0"], p["cap0"], p["nh"], p["maxops"], p["rich"],
                                        ("-deep" if p["opset"] == DEEP else "-core" if p["opset"] else "") +
                                        ("-" + p["script"] if p["script"] != "SN" else ""))


def init_state(p):
    k, n = p["kind"], p["len0"]
    if k in ("ss", "pss", "fss", "arr", "st"):
        w = [2, 1, 3, 4][:n]
    elif k in ("ifs", "pifs"):
        w = ["p1", "i1", "p1", "i2"][:n]
    elif k == "pps":
        w = ["p1", "p2", "p1", "nil"][:n]
    elif k == "stp":
        w = ["p1", "nil"]
    elif k in ("msi", "mss"):
        w = [2, 1, -1]
    elif k == "msp":
        w = ["p1", "p1", "-"]
    else:
        w = []
    return {"w": w, "g": w, "sh": "T", "h": [{"at": "none", "f": 0} for _ in range(p["nh"])], "o": [1, 2], "n": 0}


def prefix_file(wd, p, lean):
    path = os.path.join(wd, "cfg-%s-%s.js" % (tag_of(p), "lean" if lean else "full"))
    open(path, "w").write('var KIND = "%s", LEN0 = %d, CAP0 = %d, NH = %d, LEAN = %s;\n' % (
        p["kind"], p["len0"], p["cap0"], p["nh"], "true" if lean else "false"))
    return path


def run_plan(binp, wd, p, tlc_workers, threads, thorough):
    """TLC edge stream of one configuration + its replay (full observation; Go-side-only observation in addition for the
    kinds where Go and script share one header).  Returns what fold needs; runs in a worker thread."""
    t0 = time.time()
    gwd = os.path.join(wd, tag_of(p))
    os.makedirs(gwd, exist_ok=True)
    cfg = CFG % dict(p, opset=", ".join('"%s"' % x for x in p["opset"]), script=p.get("script", "SN"))
    init = init_state(p)
    g, st = edges.build_graph("Bridge", cfg, gwd, init, obs0=init, workers=tlc_workers, timeout=2400, heap="6g")
    t1 = time.time()
    modes = [False, True] if p["lean"] else [False]
    jobs = [{"args": ["-adaptor", prefix_file(gwd, p, lean) + "," + ADAPTOR], "tag": "lean" if lean else "full", "share": p.get("share")} for lean in modes]
    res = rp.run_jobs(binp, g, gwd, jobs, conc=len(jobs), threads=threads, walks=200 if thorough else 20, walklen=p["maxops"],
                      maxtour=p["maxops"] + 1, timeout=3000)
    return p, st, modes, res, round(t1 - t0, 1), round(time.time() - t1, 1)


FS_CFG = """SPECIFICATION Spec
CONSTANTS T = "%s"
INVARIANTS ValsOK
PROPERTIES WriteFrame
ACTION_CONSTRAINT Emit
VIEW View
CHECK_DEADLOCK FALSE
"""
FS_LEAVES = {"T1": ["X", "Mid.Y", "Mid.Deep.X", "Mid.Deep.Z"], "T2": ["A.V", "B.C.D.V", "B.C.D.W"], "T3": ["P.G", "P.Q", "Q"],
             "T4": ["Deep2.In.X", "Deep2.In.U", "X"], "T5": ["P5.P.G", "P5.P.Q", "P5.H", "K"]}
FS_NIL0 = {"T1": [], "T2": [], "T3": ["P"], "T4": [], "T5": ["P5"]}


def run_fieldsel(chk, wd, binp):
    """FieldSel.tla: which Go field a property of a wrapped struct with embedded structs / pointers denotes, under two name mappers"""
    tours = 0
    for ty in sorted(FS_LEAVES):
        gwd = os.path.join(wd, "fs-" + ty)
        os.makedirs(gwd)
        init = {"o": {"val": {p: 0 for p in FS_LEAVES[ty]}, "nil": FS_NIL0[ty]}, "n": 0}
        g, st = edges.build_graph("FieldSel", FS_CFG % ty, gwd, init, obs0=init, workers=2, timeout=900)
        chk.add("states", st["states"])
        chk.add("transitions", st["transitions"])
        jobs = []
        for mapper in ("none", "uncap"):
            pre = os.path.join(gwd, "pre-%s.js" % mapper)
            open(pre, "w").write('var TYPE = "%s", MAPPER = "%s";\n' % (ty, mapper))
            jobs.append({"args": ["-adaptor", pre + "," + os.path.join(HARNESS, "adaptors", "fieldsel.js")], "tag": mapper})
        res = rp.run_jobs(binp, g, gwd, jobs, conc=2, threads=4, walks=20, walklen=3, maxtour=4, timeout=900)
        for job, (reps, crashes) in zip(jobs, res):
            what = "FieldSel/%s mapper=%s" % (ty, job["tag"])
            tot, nodes = rp.fold(chk, reps, crashes, what, {}, {"module": "FieldSel", "type": ty, "mapper": job["tag"]})
            chk.add("edges_total", tot["edges"])
            chk.add("edges_replayed", tot["covered"])
            chk.add("distinct_nontrivial", tot["nontrivial"])
            chk.add("evaluations", tot["steps"])
            tours += tot["tours"]
            if tot["covered"] + tot["lost_to_known"] < tot["edges"] and not chk.violations:
                raise Inconclusive("%s: %d of %d edges not replayed" % (what, tot["edges"] - tot["covered"], tot["edges"]))
    return tours


def run(chk, tier):
    wd = workdir("C13")
    thorough = tier == "thorough"
    binp = os.path.join(wd, "jsreplay")
    go_build("jsreplay", binp)
    ps = plans(thorough)
    par = 4 if NCPU >= 8 else 2
    tlc_workers = max(2, NCPU // par)
    threads = max(2, NCPU // par)
    with ThreadPoolExecutor(max_workers=par) as ex:
        futs = [ex.submit(run_plan, binp, wd, p, tlc_workers, threads, thorough) for p in ps]
        results = []
        for f in futs:
            results.append(f.result())     # (Inconclusive from a worker propagates here)
    traces = 0
    walls = {}
    for p, st, modes, res, t_tlc, t_rep in results:
        chk.add("states", st["states"])
        chk.add("transitions", st["transitions"])
        walls[tag_of(p)] = {"tlc_s": t_tlc, "replay_s": t_rep, "states": st["states"], "edges": st["transitions"]}
        for lean, (reps, crashes) in zip(modes, res):
            what = "Bridge/%s%s" % (tag_of(p), "/lean" if lean else "")
            meta = {"module": "Bridge", "plan": p, "lean": lean}
            tot, nodes = rp.fold(chk, reps, crashes, what, {}, meta)
            chk.add("edges_total", tot["edges"])
            chk.add("edges_replayed", tot["covered"])
            chk.add("distinct_nontrivial", tot["nontrivial"])
            chk.add("evaluations", tot["steps"])
            chk.add("abstract_states_reached_on_real_objects", nodes)
            traces += tot["tours"]
            if tot["covered"] + tot["lost_to_known"] < tot["edges"] and not chk.violations:
                raise Inconclusive("%s: %d of %d edges not replayed" % (what, tot["edges"] - tot["covered"], tot["edges"]))
    with phase(chk, "fieldsel"):
        traces += run_fieldsel(chk, wd, binp)
    chk.setcov("configurations", walls)
    chk.setcov("traces_validated_against_impl", traces)
    chk.setcov("exhaustive", True)
    chk.setcov("rule", "every transition TLC generates for Bridge.tla under each listed configuration (container kind, initial length / "
               "capacity, references kept, history length) is replayed on a fresh Go container wrapped with Runtime.ToValue, along tours "
               "from the initial contents; after every step the operation's result, the cells script sees (index reads, JSON.stringify, "
               "for-in / Object.keys, spread, `in`), the cells Go sees through its own variable, what every kept element wrapper shows and "
               "what it aliases (probed by a write through it), the Go objects behind pointers, whether a by-value wrapper still shares Go's "
               "array, and Export() identity + ExportTo deep-equality are compared with the specified state; a Go panic escaping any "
               "operation (also the hostile-callback family) is a violation")
    chk.assumptions += [
        "the host's append is modelled as the re-allocating case (fresh backing array); element references taken before it are dropped "
        "by the scenario because neither the documentation nor the property says what they must refer to afterwards",
        "argument values are {F: 5}, 5, null and kept references; plain objects are not stored into interface{} / pointer cells "
        "(that creates anonymous Go values the model has no name for)",
        "map key order is unspecified (Go maps): keys are compared as sets",
        "of the type-quantified half of C13 only the field selection of embedded structs / embedded pointers is covered (FieldSel.tla, 5 type "
        "families x 2 name mappers); the round trip over generated Go types and function signatures is not",
    ]


def replay(path):
    wd = workdir("C13r")
    binp = os.path.join(wd, "jsreplay")
    go_build("jsreplay", binp)
    m = json.load(open(path))["replay"]
    if m.get("module") == "FieldSel":
        pre = os.path.join(wd, "pre.js")
        open(pre, "w").write('var TYPE = "%s", MAPPER = "%s";\n' % (m["type"], m["mapper"]))
        r = subprocess.run([binp, "-replay", path, "-adaptor", pre + "," + os.path.join(HARNESS, "adaptors", "fieldsel.js")], stdout=subprocess.PIPE, text=True)
        got = json.loads(r.stdout)
        for l in m.get("path", []):
            print("   ", json.dumps(l))
        print("want res=%s obs=%s" % (m.get("want_res"), m.get("want_obs")))
        print("got  res=%s obs=%s %s" % (got.get("res"), got.get("obs"), got.get("panic", "")[:400]))
        if got.get("obs") == m.get("want_obs") and got.get("res") == m.get("want_res"):
            print("replay: agrees with the specification now")
            return 0
        print("VIOLATION property=C13 replay=%s" % path)
        return 1
    p = m.get("plan") or plan("pss")
    pre = prefix_file(wd, p, bool(m.get("lean")))
    r = subprocess.run([binp, "-replay", path, "-adaptor", pre + "," + ADAPTOR], stdout=subprocess.PIPE, text=True)
    try:
        got = json.loads(r.stdout)
    except ValueError:
        print("replayer produced no result (rc=%s): %s" % (r.returncode, r.stdout[-600:]))
        print("VIOLATION property=C13 replay=%s" % path)
        return 1
    print("container %s (len %d, cap %d), %d reference(s), %s observation" % (p["kind"], p["len0"], p["cap0"], p["nh"],
                                                                             "Go-side" if m.get("lean") else "full"))
    for l in m.get("path", []):
        print("   ", json.dumps(l))
    print("want res=%s\n     obs=%s" % (m.get("want_res"), m.get("want_obs")))
    print("got  res=%s\n     obs=%s %s" % (got["res"], got["obs"], got.get("panic", "")[:900]))
    if not got.get("panic") and got["res"] == m.get("want_res") and got["obs"] == m.get("want_obs"):
        print("replay: agrees with the specification now")
        return 0
    print("VIOLATION property=C13 replay=%s" % path)
    return 1
