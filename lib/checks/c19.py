"""C19 — JSON.parse / JSON.stringify conform to the JSON grammar and round-trip (JsonSpec.tla).

Binding A: TLC enumerates every transition of JsonSpec.tla for a list of small configurations ("plans"); the edge
labels carry the specified outcome of JSON.parse / JSON.stringify / Object.MarshalJSON; harness/cmd/jsreplay drives
harness/adaptors/json.js along tours covering every edge.  Parse plans: the state is a text grown piece by piece,
self loops are single-character corruptions.  Stringify plans: the state is a value grown member by member, self
loops are stringify calls over a replacer x space menu and MarshalJSON."""
import json
import os
import time
from concurrent.futures import ThreadPoolExecutor

import edges
import replay as rp
from vlib import HARNESS, NCPU, Inconclusive, go_build, workdir

CFG = """SPECIFICATION Spec
CONSTANTS
  Mode = "%(mode)s"
  PieceIds = {%(pieces)s}
  MaxSteps = %(maxsteps)d
  EditChars = {%(editchars)s}
  EditOn = "%(editon)s"
  Kinds = {%(kinds)s}
  KeyIds = {%(keys)s}
  MaxNodes = %(maxnodes)d
  Reps = {%(reps)s}
  Inds = {%(inds)s}
INVARIANTS %(inv)s
PROPERTIES DeadStays
ACTION_CONSTRAINT Emit
VIEW View
CHECK_DEADLOCK FALSE
"""


def q(xs):
    return ", ".join('"%s"' % x for x in xs)


def cfg(mode, pieces=(), maxsteps=0, editchars=(), editon="none", kinds=(), keys=(), maxnodes=0, reps=(), inds=()):
    return CFG % dict(mode=mode, pieces=q(pieces), maxsteps=maxsteps, editchars=", ".join(str(c) for c in editchars),
                      editon=editon, kinds=q(kinds), keys=q(keys), maxnodes=maxnodes, reps=q(reps), inds=q(inds),
                      inv="Agree WellFormedInv RoundTrip" if mode == "parse" else "ParsesBack ReprRoundTrip")


# piece names of JsonSpec.tla!PieceText
NUMS = ["n0", "n1", "nm0", "n15", "n10", "n010", "nE2", "ne400", "nme400", "nem400", "nmem400", "ne21", "nem7", "n000001",
        "n1e20", "n1e21", "nehuge", "n0ehuge", "nemhuge", "nlong30", "nlongfrac", "n2p53", "nmin", "nmin3", "nmin2", "nmax",
        "nmax9", "n15dig", "n0lead"]
BADNUMS = ["b01", "b1dot", "bdot5", "bminus", "b1e", "b1eplus", "bplus1", "bhex", "b1dote", "bmm1", "bsep", "binf", "bnan",
           "bninf", "bfullw", "bm01", "b1n"]
STRS = ["sA", "sE", "s1", "sproto", "su41", "sesc", "suni", "sraw", "snul", "sspace", "sufff"]
BADSTRS = ["bctl", "btab", "blf", "bx41", "bu12", "bu12g4", "bescq", "bsq", "bopen", "bescend", "bescv", "besc0", "bescU", "bdel"]
LITS = ["true", "false", "null", "bnul", "bTrue", "bnulll", "bundef", "bcomment", "blinec", "bparen", "bsemi", "bident"]
WS = ["sp", "ws3", "nbsp", "bom", "vt", "ff", "ls", "idsp"]
MEMBERS = ["mb1", "m12", "ma3", "ma4", "mp5", "m106", "m97", "me8", "mmax", "mmax1", "m01", "mneg0", "mpobj", "mu61"]
# code units used by corruptions:  " \ , : ] } 0 e . - space NBSP U+0001 u TAB
EDITCH = [34, 92, 44, 58, 93, 125, 48, 101, 46, 45, 32, 160, 1, 117, 9]
# value kinds of JsonSpec.tla!Node
LEAVES = ["null", "true", "false", "n1", "n15", "nneg0", "nan", "inf", "ninf", "n1e21", "n1e-7", "nbig", "sa", "sempty", "sq",
          "sctl", "suni", "slone", "slone2", "undef", "fun", "sym", "big", "bnum", "bnan", "bstr", "bfalse", "bsym", "bbig",
          "tjkey", "tjnest", "tjundef", "tjnon", "tjfun", "big7", "args", "typed", "date0", "datenan", "cyc", "shared", "hole"]
CONT = ["obj", "arr", "pxobj", "pxarr"]
REPS = ["none", "nonfn", "dropa", "num", "idx0", "wrap", "allow_ba", "allow_mixed", "allow_nums", "allow_empty", "allow_h", "allow_px"]
INDS = ["none", "n2", "n11", "n0", "nneg", "n2_9", "ninf", "nan", "bnum3", "tab", "s16", "sempty", "bstr", "uni11", "uni1", "btrue"]


def plans(thorough):
    T = thorough
    return [
        # every string over the structural tokens + one representative of each value class + a blank
        ("struct", dict(mode="parse", pieces=["lb", "rb", "lc", "rc", "cm", "cl", "sA", "n1", "true", "sp"],
                        maxsteps=7 if T else 5, editchars=[44, 34, 93], editon="accepted")),
        # every lexeme representative (valid and malformed numbers, strings, literals, blanks) in every short context
        ("lex", dict(mode="parse", pieces=["lb", "rb", "cm"] + NUMS + BADNUMS + STRS + BADSTRS + LITS + WS,
                     maxsteps=4 if T else 3, editon="none")),
        # objects: duplicate keys, __proto__, index / non-index keys in every order
        ("members", dict(mode="parse", pieces=["lc", "rc", "cm", "sp"] + MEMBERS, maxsteps=8 if T else 6, editon="none")),
        # nesting up to 8 (thorough: 12) levels of arrays and objects
        ("deep", dict(mode="parse", pieces=["open4", "close4", "oopen", "oclose", "n1", "cm", "lb", "rb", "lc", "rc", "maobj", "maarr", "sA", "cl"],
                      maxsteps=6 if T else 5, editon="none")),
        # single-character corruptions of texts with every white space placement, every escape form, exponent forms
        ("edits", dict(mode="parse", pieces=["wsrich", "sesc", "suni", "nmem400", "nE2", "n15", "mpobj", "lc", "rc", "lb", "rb", "cm", "true"],
                       maxsteps=3, editchars=EDITCH, editon="accepted")),
    ] + ([
        # thorough: corruptions of every lexeme, accepted or not
        ("editlex", dict(mode="parse", pieces=["lb", "rb"] + NUMS + STRS + ["true", "false", "null", "ws3"],
                         maxsteps=2, editchars=EDITCH, editon="all")),
    ] if T else []) + [
        # shapes: key orders, nesting, empty containers, holes, undefined members x replacer kinds x indentation
        ("shape", dict(mode="str", kinds=["obj", "arr", "n1", "undef", "hole"], keys=["a", "b", "1"], maxnodes=5 if T else 4,
                       reps=["none", "allow_ba", "dropa"], inds=["none", "n2", "tab"])),
        # every kind of value at top level, as array element and as object member x every replacer
        ("leaves", dict(mode="str", kinds=LEAVES + CONT, keys=["a"], maxnodes=3 if T else 2, reps=REPS if not T else ["none", "num", "wrap", "allow_ba", "dropa"],
                        inds=["none", "n2"])),
        # every form of the space argument
        ("indent", dict(mode="str", kinds=["obj", "arr", "n1", "sa"], keys=["a", "q"], maxnodes=4, reps=["none"], inds=INDS)),
        # forwarding proxies as values and as allow-list, cyclic references
        ("proxy", dict(mode="str", kinds=["pxobj", "pxarr", "n1", "undef", "hole", "cyc"], keys=["a", "1", "b"], maxnodes=4 if T else 3,
                       reps=["none", "allow_ba", "wrap"], inds=["none", "n2"])),
        # own-key order (array indices first), __proto__, non-enumerable and escaped keys x allow-lists
        ("keys", dict(mode="str", kinds=["obj", "n1"], keys=["a", "b", "1", "0", "10", "__proto__", "h", "q"] + (["9", "empty"] if T else []),
                      maxnodes=4, reps=["none", "allow_ba", "allow_h", "allow_mixed", "allow_nums"], inds=["none", "n2"])),
    ]


def adaptor(mode):
    return ",".join(os.path.join(HARNESS, "adaptors", f) for f in ("json_%s.js" % mode, "json.js"))


def init_of(mode):
    if mode == "parse":
        return {"text": "", "n": 0}, {"text": "", "n": 0}
    return {"val": {"t": "none"}, "n": 0}, {"shape": "none", "n": 0}


def diagnose(mm):
    """A label for the probable root cause of a mismatch (only used to group the report lines)."""
    path = mm.get("path") or []
    try:
        last = json.loads(path[-1]) if isinstance(path[-1], str) else path[-1]
    except (ValueError, IndexError):
        return "other"
    want, got = str(mm.get("want_res")), str(mm.get("got_res"))
    if mm.get("mkind") == "panic":
        return "panic"
    if last.get("op") in ("app", "edit"):
        if "Infinity" in want and "SyntaxError" in got:
            return "numeral beyond double range rejected"
        return "parse"
    if last.get("op") in ("str", "marshal"):
        if any(isinstance(l, dict) and l.get("kind") == "bsym" for l in path) and ("undefined" in got or "null" in got):
            return "Symbol object not serialised as object"
        if last.get("ind") == "ninf":
            return "space=Infinity ignored"
        if last.get("ind") in ("uni11", "uni1"):
            return "non-ASCII gap string"
        strip = lambda s: s.replace("<000a>", "").replace("<0009>", "").replace(" ", "")
        if strip(want) == strip(got):
            return "indentation"
        return "stringify"
    return "other"


def run_plan(binp, wd, name, p, thorough, tlc_workers, threads):
    gwd = os.path.join(wd, name)
    os.makedirs(gwd)
    init, obs0 = init_of(p["mode"])
    g, st = edges.build_graph("JsonSpec", cfg(**p), gwd, init, obs0=obs0, workers=tlc_workers, timeout=3000, heap="6g" if thorough else "3g")
    ad = adaptor(p["mode"])
    t1 = time.time()
    reps, crashes = rp.run_walkers(binp, g, gwd, ["-adaptor", ad], procs=1, threads=threads, walks=40 if thorough else 4,
                                   walklen=8, maxtour=12, timeout=3000)
    st["walk_wall_s"] = round(time.time() - t1, 1)
    return name, p, st, reps, crashes


def run(chk, tier):
    wd = workdir("C19")
    thorough = tier == "thorough"
    binp = os.path.join(wd, "jsreplay")
    go_build("jsreplay", binp)
    pl = plans(thorough)
    conc = 4
    per = max(2, NCPU // conc)
    results = []
    with ThreadPoolExecutor(max_workers=conc) as ex:
        futs = [ex.submit(run_plan, binp, wd, name, p, thorough, per, per) for name, p in pl]
        for f in futs:
            results.append(f.result())       # (an Inconclusive raised in a worker thread propagates here)
    traces = 0
    unreplayed = []
    per_plan = {}
    for name, p, st, reps, crashes in results:
        chk.add("states", st["states"])
        chk.add("transitions", st["transitions"])
        nv = len(chk.violations)
        tot, nodes = rp.fold(chk, reps, crashes, "JsonSpec/%s" % name, {}, {"module": "JsonSpec", "plan": name})
        # group the report by probable root cause
        for i in range(nv, len(chk.violations)):
            what, payload = chk.violations[i]
            chk.violations[i] = ("JsonSpec/%s [%s]: %s" % (name, diagnose(payload), what.split(": ", 1)[-1]), payload)
        chk.add("edges_total", tot["edges"])
        chk.add("edges_replayed", tot["covered"])
        chk.add("distinct_nontrivial", tot["nontrivial"])
        chk.add("evaluations", tot["steps"])
        chk.add("abstract_states_reached_on_real_objects", nodes)
        traces += tot["tours"]
        per_plan[name] = {"states": st["states"], "edges": tot["edges"], "replayed": tot["covered"], "tlc_s": st["tlc_wall_s"], "walk_s": st["walk_wall_s"]}
        if tot["covered"] + tot["lost_to_known"] < tot["edges"]:
            unreplayed.append("%s: %d of %d" % (name, tot["edges"] - tot["covered"], tot["edges"]))
    chk.setcov("plans", per_plan)
    chk.setcov("traces_validated_against_impl", traces)
    chk.setcov("exhaustive", True)
    if unreplayed and not chk.violations:
        raise Inconclusive("edges not replayed: " + "; ".join(unreplayed))
    chk.setcov("rule", "every transition TLC generates for JsonSpec.tla under the listed plans is replayed on the real engine along tours from "
               "the empty text / no value. Parse plans: texts grown from lexeme and phrase pieces (every structural token string, every "
               "lexeme representative incl. numerals beyond double range and malformed forms, duplicate / __proto__ / index keys, nesting "
               "<= 8, white space at every placement) and every single-character deletion / replacement / insertion of the accepted ones; "
               "compared: SyntaxError or the rendered value (key order, -0, Infinity, property attributes, prototype), the identity "
               "reviver, and JSON.stringify of the value. Stringify plans: values grown member by member (key orders, holes, boxed "
               "primitives, toJSON, proxies, cycles, BigInt, symbols) x replacer menu x space menu; compared: the exact text / undefined "
               "/ TypeError, the value JSON.parse returns for that text, Object.MarshalJSON. TLC checks on the same runs: grammar = "
               "pushdown automaton on every text and corruption, canonical form is a fixed point, stringify texts parse back to the "
               "serialisation tree for every white-space gap, JSON-representable values round-trip")
    chk.assumptions += ["lone surrogates in JSON.parse input are excluded (goja's documented deviation); a stringify text containing an "
                        "escaped lone surrogate is compared as text but not parsed back",
                        "number rendering of parsed values relies on the engine's Number::toString (String(x))",
                        "numerals outside the computed domain (more than 15 significant digits, near the overflow / underflow thresholds) "
                        "are specified by a table of ten entries in JsonSpec.tla!LongNums"]


def replay(path):
    import subprocess
    wd = workdir("C19r")
    binp = os.path.join(wd, "jsreplay")
    go_build("jsreplay", binp)
    m = json.load(open(path))["replay"]
    first = (m.get("path") or [{}])[0]
    mode = "parse" if first.get("op") in ("app", "edit") or m.get("plan") in ("struct", "lex", "members", "deep", "edits", "editlex") else "str"
    r = subprocess.run([binp, "-replay", path, "-adaptor", adaptor(mode)], stdout=subprocess.PIPE, text=True)
    got = json.loads(r.stdout)
    for l in m.get("path", []):
        print("   ", json.dumps(l))
    print("want res=%s\n     obs=%s" % (m.get("want_res"), m.get("want_obs")))
    print("got  res=%s\n     obs=%s %s" % (got["res"], got["obs"], got.get("panic", "")[:600]))
    if got["res"] == m.get("want_res") and got["obs"] == m.get("want_obs"):
        print("replay: agrees with the specification now")
        return 0
    print("VIOLATION property=C19 replay=%s" % path)
    return 1
