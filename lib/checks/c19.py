"""C19 — JSON.parse / JSON.stringify conform to the JSON grammar and round-trip (JsonSpec.tla).

Binding A: TLC enumerates every transition of JsonSpec.tla for its plans (bounded configurations defined in the
specification: PlanOf); the edge labels carry the specified outcome of JSON.parse / JSON.stringify /
Object.MarshalJSON; harness/cmd/jsreplay drives harness/adaptors/json.js along tours covering every edge.
Parse plans: the state is a text grown piece by piece, self loops are single-character corruptions.  Stringify
plans: the state is a value grown member by member, self loops are stringify calls over a replacer x space menu and
MarshalJSON.  (The module is JsonSpec, not Json: a Json.tla in /verif/specs would shadow the standard module.)"""
import json
import os
import time
from concurrent.futures import ThreadPoolExecutor

import edges
import replay as rp
from vlib import HARNESS, NCPU, Inconclusive, go_build, workdir, probe_known

CFG = """SPECIFICATION Spec
CONSTANTS
  Plans = {%s}
  Big = %s
INVARIANTS Agree NeverDead WellFormedInv RoundTrip ParsesBack ReprRoundTrip
ACTION_CONSTRAINT Emit
VIEW View
CHECK_DEADLOCK FALSE
"""
PARSE_PLANS = ["struct", "lex", "members", "deep", "edits"]
STR_PLANS = ["shape", "leaves", "indent", "proxy", "keys", "keysurr"]
INIT = {"plan": "none", "n": 0}


def cfg(names, big):
    return CFG % (", ".join('"%s"' % x for x in names), "TRUE" if big else "FALSE")


def groups(thorough):
    """Each group is one TLC run + one walker run; groups run concurrently."""
    if not thorough:
        return [PARSE_PLANS, STR_PLANS]
    return [["struct"], ["lex", "lexnum"], ["lexstr", "members", "deep"], ["edits", "editlex"], ["shape", "proxy", "indent"], ["leaves", "keys", "keysurr"]]


def diagnose(mm):
    """A label for the probable root cause of a mismatch (only used to group the report lines)."""
    path = mm.get("path") or []
    if mm.get("mkind") in ("panic", "crash"):
        return "panic"
    if not path or not isinstance(path[-1], dict):
        return "other"
    last = path[-1]
    want, got = str(mm.get("want_res")), str(mm.get("got_res"))
    if last.get("op") in ("app", "edit"):
        if "Infinity" in want and "SyntaxError" in got:
            return "numeral beyond double range rejected"
        return "parse"
    if last.get("op") in ("str", "marshal"):
        if any(isinstance(l, dict) and l.get("kind") == "bsym" for l in path):
            return "Symbol object not serialised as an object"
        if last.get("ind") == "ninf":
            return "space=Infinity ignored"
        if last.get("ind") in ("uni11", "uni1"):
            return "non-ASCII gap string"

        def strip(s):
            return s.replace("<000a>", "").replace("<0009>", "").replace(" ", "")
        if strip(want) == strip(got):
            return "indentation"
        return "stringify"
    return "other"


def run_group(binp, wd, gi, names, thorough, tlc_workers, threads):
    gwd = os.path.join(wd, "g%d" % gi)
    os.makedirs(gwd)
    g, st = edges.build_graph("JsonSpec", cfg(names, thorough), gwd, INIT, obs0=INIT, workers=tlc_workers, timeout=3000,
                              heap="12g" if thorough else "4g")
    ad = os.path.join(HARNESS, "adaptors", "json.js")
    t1 = time.time()
    reps, crashes = rp.run_walkers(binp, g, gwd, ["-adaptor", ad], procs=1, threads=threads, walks=200 if thorough else 20,
                                   walklen=30, maxtour=150, timeout=3000, tag="w%d" % gi)
    st["walk_wall_s"] = round(time.time() - t1, 1)
    return names, st, reps, crashes


def run(chk, tier):
    wd = workdir("C19")
    thorough = tier == "thorough"
    binp = os.path.join(wd, "jsreplay")
    go_build("jsreplay", binp)
    gs = groups(thorough)
    conc = 2 if not thorough else 3
    per = max(2, NCPU // conc)
    results = []
    with ThreadPoolExecutor(max_workers=conc) as ex:
        futs = [ex.submit(run_group, binp, wd, gi, names, thorough, per, per) for gi, names in enumerate(gs)]
        for f in futs:
            results.append(f.result())       # (an Inconclusive raised in a worker thread propagates here)
    traces = 0
    unreplayed = []
    per_group = {}
    for names, st, reps, crashes in results:
        gname = "+".join(names)
        chk.add("states", st["states"])
        chk.add("transitions", st["transitions"])
        nv = len(chk.violations)
        tot, nodes = rp.fold(chk, reps, crashes, "JsonSpec", {}, {"module": "JsonSpec", "plans": names})
        for i in range(nv, len(chk.violations)):          # group the report by plan and probable root cause
            what, payload = chk.violations[i]
            path = payload.get("path") or [{}]
            pl = path[0].get("name", "?") if isinstance(path[0], dict) else "?"
            chk.violations[i] = ("JsonSpec/%s [%s]: %s" % (pl, diagnose(payload), what.split(": ", 1)[-1]), payload)
        chk.add("edges_total", tot["edges"])
        chk.add("edges_replayed", tot["covered"])
        chk.add("distinct_nontrivial", tot["nontrivial"])
        chk.add("evaluations", tot["steps"])
        chk.add("abstract_states_reached_on_real_objects", nodes)
        traces += tot["tours"]
        per_group[gname] = {"states": st["states"], "edges": tot["edges"], "replayed": tot["covered"], "tlc_s": st["tlc_wall_s"],
                            "walk_s": st["walk_wall_s"]}
        if tot["covered"] + tot["lost_to_known"] < tot["edges"]:
            unreplayed.append("%s: %d of %d" % (gname, tot["edges"] - tot["covered"], tot["edges"]))
    # show every root cause among the first reported violations (finish() reports the first 40)
    bycls, order = {}, []
    for v in chk.violations:
        c = v[0].split(":")[0]
        if c not in bycls:
            bycls[c] = []
            order.append(c)
        bycls[c].append(v)
    mixed = []
    while any(bycls.values()):
        for c in order:
            if bycls[c]:
                mixed.append(bycls[c].pop(0))
    chk.violations[:] = mixed
    chk.setcov("plan_groups", per_group)
    chk.setcov("traces_validated_against_impl", traces)
    chk.setcov("exhaustive", True)
    if unreplayed and not chk.violations:
        raise Inconclusive("edges not replayed: " + "; ".join(unreplayed))
    _jsrun = os.path.join(wd, "jsrun")
    go_build("jsrun", _jsrun)
    probe_known(chk, _jsrun, wd)      # the recorded lone-surrogate finding is probed on its specific inputs
    chk.setcov("rule", "every transition TLC generates for the plans of JsonSpec.tla is replayed on the real engine along tours from the "
               "initial state. Parse plans: texts grown from lexeme and phrase pieces (every structural token string, every lexeme "
               "representative incl. numerals beyond double range and malformed forms, duplicate / __proto__ / index keys, nesting "
               "<= 8, white space at every placement) and every single-character deletion / replacement / insertion of the accepted "
               "ones; compared: SyntaxError or the rendered value (key order, -0, Infinity, property attributes, prototype), the "
               "identity reviver, and JSON.stringify of the value. Stringify plans: values grown member by member (key orders, holes, "
               "boxed primitives, toJSON, proxies, cycles, BigInt, symbols) x replacer menu x space menu; compared: the exact text / "
               "undefined / TypeError, the value JSON.parse returns for that text, Object.MarshalJSON. TLC checks on the same runs: "
               "grammar = pushdown automaton on every text and corruption, canonical form is a fixed point, stringify texts parse back "
               "to the serialisation tree for every white-space gap, JSON-representable values round-trip")
    chk.assumptions += ["lone surrogates in JSON.parse input are excluded (goja's documented deviation); a stringify text containing an "
                        "escaped lone surrogate is compared as text but not parsed back",
                        "number rendering of parsed values relies on the engine's Number::toString (String(x))",
                        "numerals outside the computed domain (more than 15 significant digits, near the overflow / underflow thresholds) "
                        "are specified by the table JsonSpec.tla!LongNums"]


def replay(path):
    import subprocess
    wd = workdir("C19r")
    binp = os.path.join(wd, "jsreplay")
    go_build("jsreplay", binp)
    m = json.load(open(path))["replay"]
    r = subprocess.run([binp, "-replay", path, "-adaptor", os.path.join(HARNESS, "adaptors", "json.js")], stdout=subprocess.PIPE, text=True)
    got = json.loads(r.stdout)
    for l in m.get("path", []):
        print("   ", json.dumps(l))
    print("want res=%s\n     obs=%s" % (m.get("want_res"), m.get("want_obs")))
    print("got  res=%s\n     obs=%s %s" % (got["res"], got["obs"], got.get("panic", "")[:600]))
    if got["res"] == m.get("want_res") and got["obs"] == m.get("want_obs"):
        print("replay: agrees with the specification now")
        return 0
    print("VIOLATION property=C19 replay=%s" % path)
    return 1
