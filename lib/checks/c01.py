"""C01 — no script, valid or not, can crash the embedding Go process.
Criterion = the ApiExit rule of VMTrace.tla (documented outcome classes, idle registers) applied to every generated
source; a sample of executions is additionally recorded with the hooks and validated against VMTrace.tla by TLC."""
import json
import os
import random
import subprocess

import c01seeds
import mjgen
from checks import c03
from vlib import NCPU, Inconclusive, go_build, phase, seed, workdir


def run(chk, tier):
    wd = workdir("C01")
    thorough = tier == "thorough"
    binp = os.path.join(wd, "c01run")
    go_build("c01run", binp)
    rnd = random.Random(seed())
    seeds = list(c01seeds.SEEDS)
    for i in range(60 if thorough else 20):
        p = mjgen.random_program(i, rnd, gen=(i % 2 == 1), maxd=3)
        seeds.append(mjgen.print_js(p) + ("\nf()" if not p["gen"] else ""))
    sf = os.path.join(wd, "seeds.json")
    json.dump(seeds, open(sf, "w"))
    out = os.path.join(wd, "c01.json")
    with phase(chk, "sources"):
        r = subprocess.run([binp, "-shards", str(NCPU), "-seed", str(seed()), "-level", "2" if thorough else "1", "-seeds", sf, "-out", out],
                           stdout=subprocess.PIPE, stderr=subprocess.PIPE, text=True, timeout=3000)
        if r.returncode != 0 or not os.path.exists(out):
            raise Inconclusive("c01run failed: %s" % r.stderr[-2000:])
    res = json.load(open(out))
    seen = set()
    for f in res["findings"] or []:
        key = (f["what"][:60], f["src"][:40])
        if key in seen:
            continue
        seen.add(key)
        chk.violation("%s [%s mode, outcome %s]: %r" % (f["what"][:300], f["mode"], f["outcome"][:80], f["src"][:200]),
                      {"module": "C01", "src": f["src"], "mode": f["mode"], "what": f["what"]})
    chk.setcov("evaluations", res["runs"])
    chk.setcov("distinct_nontrivial", res["inputs"])
    # a sample of executions validated against VMTrace.tla
    with phase(chk, "trace-sample"):
        vbin = os.path.join(wd, "vmtrace")
        go_build("vmtrace", vbin)
        jobs = [dict(id=i, gen=1, src=s, fault="", at=0, after="") for i, s in enumerate(seeds)]
        c03.run_jobs(vbin, jobs, wd, "seedtrace", trace=True)
        st, ev, rej = c03.validate_traces(os.path.join(wd, "seedtrace-trace"), wd, chk, jobs)
    chk.setcov("states", st)
    chk.setcov("trace_events", ev)
    chk.sample({"seed": seeds[3][:200]})
    chk.setcov("rule", "sources: all token sequences of length <= 3 (thorough: 3 + 150k sampled longer per shard) over a %d-token alphabet + sampled longer ones, token-level "
               "mutations (delete / duplicate / swap / replace / insert / truncate / move) of %d seed programs covering the supported syntax, "
               "nesting bombs to depth 200, random byte strings; each run sloppy, strict, inside a function and inside eval; per run: documented "
               "outcome class, no Go panic or internal-bug diagnostic, idle registers; the seed programs' VM traces validated by TLC against "
               "VMTrace.tla; a child process that dies is attributed to the journalled input" % (71, len(seeds)))


def replay(path):
    d = json.load(open(path))
    m = d["replay"]
    wd = workdir("C01r")
    binp = os.path.join(wd, "c01run")
    go_build("c01run", binp)
    sp = os.path.join(wd, "src.js")
    open(sp, "w").write(m["src"])
    print(m["src"][:500])
    try:
        r = subprocess.run([binp, "-one", sp], stdout=subprocess.PIPE, stderr=subprocess.PIPE, text=True, timeout=120)
    except subprocess.TimeoutExpired:
        print("VIOLATION property=C01 replay=%s (hang)" % path)
        return 1
    print(r.stdout[-1500:], r.stderr[-800:])
    if r.returncode != 0:
        print("VIOLATION property=C01 replay=%s" % path)
        return 1
    print("replay: satisfies the criterion now")
    return 0
