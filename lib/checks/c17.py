"""C17 — typed arrays / DataViews never touch memory outside their buffer; bytes match the specification (Buf.tla)."""
import json
import os

import edges
import replay as rp
from vlib import HARNESS, Inconclusive, go_build, phase, seed, workdir

CFG = """SPECIFICATION Spec
CONSTANTS
  BufLen = 8
  MaxOps = %d
  Views <- ViewFamily
INVARIANTS LenOK ByteRange ViewsInside
PROPERTIES Window DvWindow
ACTION_CONSTRAINT Emit
VIEW View
CHECK_DEADLOCK FALSE
"""
INIT = {"bytes": [137, 174, 211, 248, 29, 66, 103, 140], "detached": "F", "n": 0}


def run(chk, tier):
    wd = workdir("C17")
    thorough = tier == "thorough"
    binp = os.path.join(wd, "jsreplay")
    go_build("jsreplay", binp)
    with phase(chk, "tlc-buf"):
        g, st = edges.build_graph("Buf", CFG % 2, wd, INIT, obs0=INIT, timeout=1800)
    chk.add("states", st["states"])
    chk.add("transitions", st["transitions"])
    ad = os.path.join(HARNESS, "adaptors", "buf.js")
    with phase(chk, "replay-buf"):
        reps, crashes = rp.run_walkers(binp, g, wd, ["-adaptor", ad], procs=2, walks=300 if thorough else 20, walklen=2, maxtour=2,
                                       timeout=2400, share=None)
    tot, nodes = rp.fold(chk, reps, crashes, "Buf", {}, {"module": "Buf"})
    chk.add("edges_replayed", tot["covered"])
    chk.add("distinct_nontrivial", tot["nontrivial"])
    chk.add("evaluations", tot["steps"])
    chk.setcov("traces_validated_against_impl", tot["tours"])
    chk.setcov("edges_total", tot["edges"])
    chk.setcov("exhaustive", thorough)
    if tot["covered"] + tot["lost_to_known"] < tot["mine"] and not chk.violations:
        raise Inconclusive("Buf: %d of %d assigned edges not replayed" % (tot["mine"] - tot["covered"], tot["mine"]))
    chk.setcov("rule", "every transition of Buf.tla within 2 operations of the initial contents (12 views of 8 element kinds over one 8-byte "
               "Go-supplied buffer + a DataView; get/put/fill/copyWithin/reverse/sort/slice (also into an existing view through a species constructor)/subarray/set from view and array/filter/Array.from, "
               "DataView 8/16-bit accessors at every offset and endianness, ArrayBuffer.slice, detach, and 22 operations during which a callback or "
               "argument coercion detaches the buffer) replayed on the real engine; compared: result, all bytes through Go's Bytes(), guard bytes, "
               "each view's window; the ptr() bounds monitor panics before any out-of-buffer access")


def replay(path):
    import subprocess
    wd = workdir("C17r")
    binp = os.path.join(wd, "jsreplay")
    go_build("jsreplay", binp)
    m = json.load(open(path))["replay"]
    r = subprocess.run([binp, "-replay", path, "-adaptor", os.path.join(HARNESS, "adaptors", "buf.js")], stdout=subprocess.PIPE, text=True)
    got = json.loads(r.stdout)
    for l in m.get("path", []):
        print("   ", json.dumps(l))
    print("want res=%s\n     obs=%s" % (m.get("want_res"), m.get("want_obs")))
    print("got  res=%s\n     obs=%s %s" % (got["res"], got["obs"], got.get("panic", "")[:600]))
    if got["res"] == m.get("want_res") and got["obs"] == m.get("want_obs"):
        print("replay: agrees with the specification now")
        return 0
    print("VIOLATION property=C17 replay=%s" % path)
    return 1
