"""C04 — essential object invariants / ordinary-object algorithms for every object kind and key kind (Obj.tla)."""
import json
import os

import edges
import replay as rp
from vlib import HARNESS, Inconclusive, go_build, phase, seed, workdir

CFG = """SPECIFICATION Spec
CONSTANTS
  Objs = {%(objs)s}
  Keys = {%(keys)s}
  DescSet <- %(descs)s
  Vias = {%(vias)s}
  Recvs = {%(recvs)s}
  InitProto <- %(proto)s
  InitProp <- %(initprop)s
  ProtoOps = %(protoops)s
  Ops = {%(ops)s}
INVARIANTS OrderOK NoProtoCycle
PROPERTIES Essential NoGrow Frame
ACTION_CONSTRAINT Emit
VIEW View
CHECK_DEADLOCK FALSE
"""
ALLOPS = ["define", "delete", "getown", "has", "get", "set", "ownkeys", "prevent", "integrity"]


def q(xs):
    return ", ".join('"%s"' % x for x in xs)


CONFIGS = {
    # one object, one key, all 729 descriptor shapes, all issuers
    "cell": dict(objs=["o1"], keys=["k"], descs="AllDescs", vias=["obj", "refl", "sloppy", "strict", "go"],
                 recvs=["o1"], proto="NullProto", protoops="FALSE", ops=ALLOPS, chain={}),
    # child -> parent, Get/Set with every receiver (incl. a primitive)
    "chain": dict(objs=["o1", "o2"], keys=["k"], descs="MenuDescs", vias=["refl", "strict", "sloppy"],
                  recvs=["o1", "o2", "prim"], proto="ChainProto", protoops="FALSE", ops=ALLOPS, chain={"o1": "o2"}),
    # prototype surgery on three objects
    "proto": dict(objs=["o1", "o2", "o3"], keys=["k"], descs="SimpleDescs", vias=["refl", "obj"], recvs=["o1"],
                  proto="NullProto", protoops="TRUE", ops=["prevent", "integrity"], chain={}),
    # a key that exists from the start as a non-writable, non-configurable, enumerable data property: the index keys of a String
    # exotic object (10.4.3: [[DefineOwnProperty]] = IsCompatiblePropertyDescriptor against the character), and ordinary objects as control
    "fixed": dict(objs=["o1"], keys=["k"], descs="AllDescs", vias=["obj", "refl", "sloppy", "strict"], recvs=["o1"], proto="NullProto",
                  protoops="FALSE", ops=ALLOPS, chain={}, initprop="FrozenV1"),
    # own-key order over index / string / symbol keys
    "order": dict(objs=["o1"], keys=["i0", "i1", "s", "t", "y", "z"], descs="OneDesc", vias=["refl"], recvs=["o1"],
                  proto="NullProto", protoops="FALSE", ops=["define", "delete", "ownkeys"], chain={}),
}

# object kinds for which the ordinary algorithms are the specified behaviour for the mapped key
ORD_ANYKEY = ["plain", "nullproto", "func", "arrow", "bound", "cls", "method", "err", "date", "regexp", "map", "promise",
              "gen", "numobj", "objproto", "math", "math2", "json"]
NONINDEX = ["array", "array3", "sparse", "args", "sargs", "strobj"]          # index keys are exotic there
KEYMAPS_ALL = ["str", "strz", "strn", "sym", "idx", "idx7", "num7", "big", "neg0", "frac", "long", "uni"]      # num7: the key passed as the NUMBER 7 (integer-key paths); strz / strn: the abstract values are +0 / -0 resp. NaN / 0
KEYMAPS_NONIDX = ["str", "sym", "big", "neg0", "frac", "uni"]


def variants(cfgname, thorough):
    v = []
    if cfgname == "fixed":
        return [("strchar", "idx", "plain"), ("plain", "str", "plain"), ("plain", "idx", "plain"), ("func", "sym", "plain"), ("array", "str", "plain")]
    if cfgname == "cell":
        for k in ORD_ANYKEY:
            for m in KEYMAPS_ALL:
                v.append((k, m, "plain"))
        for k in NONINDEX:
            for m in KEYMAPS_NONIDX:
                v.append((k, m, "plain"))
        # an integer key beyond the characters of a String object is an ordinary property (as string and as number)
        v.append(("strobj", "idx7", "plain"))
        v.append(("strobj", "num7", "plain"))
        v.append(("typed", "str", "plain"))
        v.append(("typed", "sym", "plain"))
        v.append(("global", "str", "plain"))
        v.append(("global", "sym", "plain"))
        for k in ["math", "math2", "json", "global"]:
            v.append((k, "tmpl", "plain"))
    elif cfgname == "chain":
        for k in ["plain", "func", "array", "cls", "nullproto", "strobj", "args"]:
            for m in ["str", "sym", "big", "idx" if k in ("plain", "func", "cls", "nullproto") else "neg0"]:
                for k2 in ["plain", "func", "array"]:
                    if k2 == "array" and m == "idx":
                        continue
                    v.append((k, m, k2))
    elif cfgname == "proto":
        for k in ["plain", "func", "array", "cls", "map", "strobj", "args", "typed", "bound"]:
            v.append((k, "str", "plain"))
            v.append((k, "str", k))
    elif cfgname == "order":
        for k in ["plain", "nullproto", "func", "cls", "err", "map", "math", "objproto", "date", "bound"]:
            v.append((k, "str", "plain"))
    if thorough:
        return v
    # quick: the plain-object column in full, every other kind with one key mapping chosen by the seed
    out, seen = [], {}
    for (k, m, k2) in v:
        if k == "plain" and k2 == "plain":
            out.append((k, m, k2))
        else:
            seen.setdefault((k, k2, m == "tmpl"), []).append(m)
    for (k, k2, _), ms in sorted(seen.items()):
        out.append((k, ms[(seed() + len(out)) % len(ms)], k2))
    return out


def run_config(chk, wd, binp, name, thorough, kinds_filter=None, devmap=None, vs_override=None, quick_share=4):
    c = CONFIGS[name]
    gwd = os.path.join(wd, name)
    os.makedirs(gwd, exist_ok=True)
    cfgtext = CFG % dict(objs=q(c["objs"]), keys=q(c["keys"]), descs=c["descs"], vias=q(c["vias"]), recvs=q(c["recvs"]),
                         proto=c["proto"], protoops=c["protoops"], ops=q(c["ops"]), initprop=c.get("initprop", "None"))
    p0 = {"k": "none", "v": "-", "w": "-", "g": "-", "s": "-", "e": "-", "c": "-"}
    if c.get("initprop") == "FrozenV1":
        p0 = {"k": "data", "v": "v1", "w": "F", "g": "-", "s": "-", "e": "T", "c": "F"}
    init = {o: {"props": {k: dict(p0) for k in c["keys"]},
                "order": [] if p0["k"] == "none" else list(c["keys"]), "ext": "T", "proto": c["chain"].get(o, "null")} for o in c["objs"]}
    with phase(chk, "tlc-" + name):
        g, st = edges.build_graph("Obj", cfgtext, gwd, init, obs0=init, timeout=1200)
    chk.add("states", st["states"])
    chk.add("transitions", st["transitions"])
    vs = vs_override if vs_override is not None else variants(name, thorough)
    if kinds_filter:
        vs = [v for v in vs if v[0] in kinds_filter]
    tours = 0
    jobs = []
    for (kind, keymap, kind2) in vs:
        pre = os.path.join(gwd, "prelude-%s-%s-%s.js" % (kind, keymap, kind2))
        open(pre, "w").write("var CFG = %s;\n" % json.dumps(dict(objs=c["objs"], keys=c["keys"], proto=c["chain"],
                                                                  kind=kind, kind2=kind2, keymap=keymap, initprop=c.get("initprop", "None"))))
        ad = pre + "," + os.path.join(HARNESS, "adaptors", "obj.js")
        what = "Obj/%s kind=%s key=%s other=%s" % (name, kind, keymap, kind2)
        share = None
        if not thorough and not (kind == "plain" and kind2 == "plain") and name in ("cell", "chain"):
            share = (seed() + len(jobs), quick_share)      # quick: a rotating slice of the edge set for non-plain kinds
        jobs.append(dict(what=what, args=["-adaptor", ad], tag="%s-%s-%s" % (kind, keymap, kind2), share=share,
                         meta={"module": "Obj", "config": name, "kind": kind, "keymap": keymap, "kind2": kind2}))
    with phase(chk, "replay-" + name):
        results = rp.run_jobs(binp, g, gwd, jobs, walks=200 if thorough else 10, walklen=60, timeout=3600 if thorough else 1500)
    tot = {"edges": 0}
    for job, (reps, crashes) in zip(jobs, results):
        tot, nodes = rp.fold(chk, reps, crashes, job["what"], devmap or {}, job["meta"])
        chk.add("edges_replayed", tot["covered"])
        chk.add("distinct_nontrivial", tot["nontrivial"])
        chk.add("evaluations", tot["steps"])
        tours += tot["tours"]
        chk.cov.setdefault("variants", []).append(job["tag"] + "@" + name)
        if tot["covered"] + tot["lost_to_known"] < tot["mine"] and not chk.violations:
            raise Inconclusive("%s: %d of %d assigned edges not replayed" % (job["what"], tot["mine"] - tot["covered"], tot["mine"]))
    chk.setcov("edges_per_graph_" + name, tot["edges"] if vs else 0)
    return tours


TYPED_CFG = """SPECIFICATION Spec
INVARIANTS TypeOK DetachedEmpty
PROPERTIES ElemFrame NoGrow
ACTION_CONSTRAINT Emit
VIEW View
CHECK_DEADLOCK FALSE
"""
TYPED_INIT = {"el": [0, 0], "det": "F", "ord": "absent", "ext": "T"}


def run_typed(chk, wd, binp):
    """ObjTyped.tla: the integer-indexed exotic object (canonical numeric string keys of a typed array)."""
    gwd = os.path.join(wd, "typed")
    os.makedirs(gwd, exist_ok=True)
    with phase(chk, "tlc-typed"):
        g, st = edges.build_graph("ObjTyped", TYPED_CFG, gwd, TYPED_INIT, obs0=TYPED_INIT, timeout=600)
    chk.add("states", st["states"])
    chk.add("transitions", st["transitions"])
    ad = os.path.join(HARNESS, "adaptors", "objtyped.js")
    with phase(chk, "replay-typed"):
        reps, crashes = rp.run_walkers(binp, g, gwd, ["-adaptor", ad], procs=2, walks=30, walklen=30, maxtour=30, timeout=1200)
    tot, nodes = rp.fold(chk, reps, crashes, "ObjTyped", {}, {"module": "ObjTyped"})
    chk.add("edges_replayed", tot["covered"])
    chk.add("distinct_nontrivial", tot["nontrivial"])
    chk.add("evaluations", tot["steps"])
    chk.setcov("edges_per_graph_typed", tot["edges"])
    if tot["covered"] + tot["lost_to_known"] < tot["mine"] and not chk.violations:
        raise Inconclusive("ObjTyped: %d of %d assigned edges not replayed" % (tot["mine"] - tot["covered"], tot["mine"]))
    return tot["tours"]


ARGS_CFG = """SPECIFICATION Spec
INVARIANTS MapOK
PROPERTIES Essential Unmap FrozenStays
ACTION_CONSTRAINT Emit
VIEW View
CHECK_DEADLOCK FALSE
"""
ARGS_INIT = {"prop": {"k": "data", "v": "v1", "w": "T", "g": "-", "s": "-", "e": "T", "c": "T"}, "mapped": "T", "pv": "v1", "ext": "T"}


def run_args(chk, wd, binp):
    """ObjArgs.tla: the mapped arguments exotic object."""
    gwd = os.path.join(wd, "args")
    os.makedirs(gwd, exist_ok=True)
    with phase(chk, "tlc-args"):
        g, st = edges.build_graph("ObjArgs", ARGS_CFG, gwd, ARGS_INIT, obs0=ARGS_INIT, timeout=600)
    chk.add("states", st["states"])
    chk.add("transitions", st["transitions"])
    ad = os.path.join(HARNESS, "adaptors", "objargs.js")
    with phase(chk, "replay-args"):
        reps, crashes = rp.run_walkers(binp, g, gwd, ["-adaptor", ad], procs=2, walks=30, walklen=30, maxtour=30, timeout=1200)
    tot, nodes = rp.fold(chk, reps, crashes, "ObjArgs", {}, {"module": "ObjArgs"})
    chk.add("edges_replayed", tot["covered"])
    chk.add("distinct_nontrivial", tot["nontrivial"])
    chk.add("evaluations", tot["steps"])
    chk.setcov("edges_per_graph_args", tot["edges"])
    if tot["covered"] + tot["lost_to_known"] < tot["mine"] and not chk.violations:
        raise Inconclusive("ObjArgs: %d of %d assigned edges not replayed" % (tot["mine"] - tot["covered"], tot["mine"]))
    return tot["tours"]


def run(chk, tier):
    wd = workdir("C04")
    thorough = tier == "thorough"
    binp = os.path.join(wd, "jsreplay")
    go_build("jsreplay", binp)
    tours = 0
    only = os.environ.get("VERIF_ONLY")
    for name in ["cell", "chain", "proto", "order", "fixed"]:
        if only and name not in only.split(","):
            continue
        tours += run_config(chk, wd, binp, name, thorough,
                            kinds_filter=os.environ.get("VERIF_KINDS", "").split(",") if os.environ.get("VERIF_KINDS") else None)
    if not only or "typed" in only.split(","):
        tours += run_typed(chk, wd, binp)
    if not only or "args" in only.split(","):
        tours += run_args(chk, wd, binp)
    if not only or "array" in only.split(","):
        # the Array exotic object across its storage transitions (ObjArray.tla; the full embedding / twin matrix is C07's)
        from checks import c07
        awd = os.path.join(wd, "objarray")
        os.makedirs(awd)
        tours += c07.run_objarray(chk, awd, binp, False, protos=("none",), twins=("s2dlive", "sparse"))
    chk.setcov("traces_validated_against_impl", tours)
    chk.setcov("exhaustive", True)
    chk.setcov("rule", "ObjArray.tla (Array exotic object: index / length definitions, ArraySetLength) on arrays in sparse storage and on arrays that "
               "switch from sparse to dense storage in the middle of the operation (a rotating share of the edges; C07 replays the whole matrix). ObjArgs.tla: every transition (mapped index of a sloppy arguments object: 729 descriptor shapes, set / delete / freeze / seal, "
               "writes through the parameter) replayed on a real arguments object. ObjTyped.tla: every transition (7 keys: valid / out-of-range / -0 / fractional / NaN canonical numeric strings and a non-canonical "
               "one, 162 descriptor shapes, Reflect / Object / syntax issuers, receivers, integrity levels, detach) replayed on a real Uint8Array. "
               "Every transition TLC generates for Obj.tla (cell: 1 object x 1 key x all 729 descriptor shapes x issuers; "
               "chain: child/parent x receivers; proto: prototype surgery; order: own-key order) is replayed on real objects of "
               "each listed kind with each key mapping; non-trivial = changes the abstract state or returns a non-default result")
    chk.assumptions += ["the adaptor (harness/adaptors/obj.js) runs inside goja itself",
                        "abstract values v1/v2, accessor functions g1/s1 stand for all values/functions"]


def replay(path):
    """Re-run a recorded violation path on the current tree; exit 1 if it still disagrees with the specification."""
    import subprocess
    d = json.load(open(path))
    m = d["replay"]
    if m.get("module") == "ObjArray":
        from checks import c07
        return c07.replay(path)
    if m.get("module") in ("ObjTyped", "ObjArgs"):
        wd = workdir("C04r")
        binp = os.path.join(wd, "jsreplay")
        go_build("jsreplay", binp)
        r = subprocess.run([binp, "-replay", path, "-adaptor", os.path.join(HARNESS, "adaptors", "objtyped.js" if m["module"] == "ObjTyped" else "objargs.js")],
                           stdout=subprocess.PIPE, text=True)
        got = json.loads(r.stdout)
        for l in m.get("path", []):
            print("   ", json.dumps(l))
        print("want res=%s obs=%s" % (m.get("want_res"), m.get("want_obs")))
        print("got  res=%s obs=%s %s" % (got.get("res"), got.get("obs"), got.get("panic", "")[:400]))
        if got.get("obs") == m.get("want_obs") and got.get("res") == m.get("want_res"):
            print("replay: agrees with the specification now")
            return 0
        print("VIOLATION property=C04 replay=%s" % path)
        return 1
    wd = workdir("C04r")
    binp = os.path.join(wd, "jsreplay")
    go_build("jsreplay", binp)
    c = CONFIGS[m["config"]]
    pre = os.path.join(wd, "prelude.js")
    open(pre, "w").write("var CFG = %s;\n" % json.dumps(dict(objs=c["objs"], keys=c["keys"], proto=c["chain"],
                                                              kind=m["kind"], kind2=m["kind2"], keymap=m["keymap"], initprop=c.get("initprop", "None"))))
    r = subprocess.run([binp, "-replay", path, "-adaptor", pre + "," + os.path.join(HARNESS, "adaptors", "obj.js")],
                       stdout=subprocess.PIPE, text=True)
    got = json.loads(r.stdout)
    print("path:")
    for l in m.get("path", []):
        print("   ", json.dumps(l))
    print("want res=%s\n     obs=%s" % (m.get("want_res"), m.get("want_obs")))
    print("got  res=%s\n     obs=%s %s" % (got["res"], got["obs"], got.get("panic", "")))
    if got["res"] == m.get("want_res") and got["obs"] == m.get("want_obs"):
        print("replay: agrees with the specification now")
        return 0
    print("VIOLATION property=C04 replay=%s" % path)
    return 1
