"""C02 — compiled code matches the definitional semantics; compiler choices are invisible.
MiniJS.tla gives ONE specified behaviour per syntax tree; every rewrite of the catalogue (lib/mjgen.py VARIANTS) that only
changes compiler decisions must produce exactly that behaviour on goja."""
import hashlib
import json
import os
import random

import bindgen
import mjgen
import oracle
from vlib import go_build, phase, seed, workdir


BIND_DEVS = {"calleeLate": "F-CALL-UNRESOLVED-ORDER"}     # deviation switch of Bind.tla -> known finding


def bind_family(chk, wd, binp, rnd, thorough):
    """Bind.tla as oracle: bindings, closures, scopes, TDZ, per-iteration environments x 14 compiler-decision rewrites."""
    n = 12000 if thorough else 800
    progs = [bindgen.random_program(i, rnd, 2 + i % 3) for i in range(n)]
    # focused family: one class hierarchy per program (constructor shapes, this before / without / after super(), members, statics)
    progs += [bindgen.class_program(n + i, rnd) for i in range(n // 4)]
    with phase(chk, "bind-oracle"):
        want = oracle.bind_eval(progs, wd, "b")
    live = [p for p in progs if want[p["id"]]["ty"] != "fuel"]
    bad = []
    runs = 0
    for v in bindgen.VARIANTS:
        sel = [p for p in live if bindgen.applicable(p, v)]
        with phase(chk, "bind-goja-" + v):
            got = oracle.bind_run(binp, sel, wd, "b-" + v, v)
        runs += len(sel)
        bad += [(p, v, got[p["id"]]) for p in sel if not oracle.bind_agree(want[p["id"]], got[p["id"]])]
    explained = {}
    if bad:
        uniq = list({p["id"]: p for p, _, _ in bad}.values())
        for dev, fid in BIND_DEVS.items():
            with phase(chk, "bind-oracle-" + dev):
                w2 = oracle.bind_eval(uniq, wd, "b-" + dev, devs=[dev])
            for p, v, g in bad:
                if (p["id"], v) in explained:
                    continue
                if w2[p["id"]]["ty"] == "fuel":
                    explained[(p["id"], v)] = "outside"      # with the recorded deviation the run leaves the modelled subset: undecidable here
                elif oracle.bind_agree(w2[p["id"]], g):
                    explained[(p["id"], v)] = fid
    for p, v, g in bad:
        fid = explained.get((p["id"], v))
        if fid == "outside":
            chk.add("bind_runs_undecided_under_known_deviation", 1)
            continue
        f = [k for k in chk.known if k["id"] == fid] if fid else []
        if f:
            chk.known_hit(fid, f[0]["what"])
            continue
        w = want[p["id"]]
        chk.violation("Bind variant %s of program %d: specified log=%s %s/%s; goja log=%s %s/%s %s" % (
            v, p["id"], w["log"], w["ty"], w["v"], g["log"], g.get("ty"), g.get("v"), (g.get("err") or g.get("panic") or "")[:200]),
            {"module": "Bind", "variant": v, "program": p, "source": bindgen.print_js(p, v)[1], "want": w, "got": g})
    chk.setcov("bind_programs", len(live))
    chk.setcov("bind_variant_runs", runs)
    chk.setcov("bind_programs_outside_model", len(progs) - len(live))
    chk.sample({"bind_variant": "closure", "source": bindgen.print_js(live[0], "closure")[1].split("function __F")[1][:500], "specified": want[live[0]["id"]]["log"]})
    return len(live), runs


def run(chk, tier):
    wd = workdir("C02")
    thorough = tier == "thorough"
    binp = os.path.join(wd, "mjsrun")
    go_build("mjsrun", binp, overlay=False)
    rnd = random.Random(seed())
    bind_family(chk, wd, binp, random.Random(seed() + 1), thorough)
    progs = []
    with phase(chk, "generate"):
        sysf = mjgen.systematic_programs(0, gen=False, depth=2)
        progs += sysf if thorough else rnd.sample(sysf, 600)
        for p in mjgen.systematic_programs(0, gen=True, depth=2, rnd=rnd)[:: (1 if thorough else 12)]:
            progs.append(p)
        for i in range(20000 if thorough else 2500):
            progs.append(mjgen.random_program(0, rnd, gen=(i % 3 == 2), maxd=2 + i % 3))
        for i, p in enumerate(progs):
            p["id"] = i
    with phase(chk, "oracle"):
        want, states = oracle.tlc_eval(progs, wd, "o")
    total = bad = trivial = 0
    srchash = {}
    for v in mjgen.VARIANTS:
        sel = [p for p in progs if not (v == "with" and False)]
        with phase(chk, "goja-" + v):
            got = oracle.goja_run(binp, sel, wd, "g-" + v, variant=v)
        for p in sel:
            total += 1
            src = mjgen.print_js(p, variant=v)
            h = hashlib.md5(src.encode()).hexdigest()
            if v != "base" and srchash.get(p["id"]) == h:
                trivial += 1          # the rewrite did not change this program's text
            if v == "base":
                srchash[p["id"]] = h
            if not oracle.agree(p, want[p["id"]], got[p["id"]]):
                bad += 1
                g = got[p["id"]]
                chk.violation("variant %s of program %d: specified log=%s %s/%s; goja log=%s %s/%s %s" % (
                    v, p["id"], want[p["id"]]["log"], want[p["id"]]["ty"], want[p["id"]]["v"], g["log"], g.get("ty"), g.get("v"),
                    (g.get("err") or g.get("panic") or "")[:200]),
                    {"module": "MiniJS", "variant": v, "program": p, "source": src, "want": want[p["id"]], "got": g})
    chk.setcov("programs", len(progs))
    chk.setcov("variant_runs", total)
    chk.setcov("variants_textually_identical_to_base", trivial)
    chk.setcov("disagreements_checked", bad)
    chk.setcov("states", states)
    chk.sample({"variant": "evaldyn", "source": mjgen.print_js(progs[0], variant="evaldyn").split("GR;\n", 1)[1][:500],
                "specified": want[progs[0]["id"]]["log"]})
    chk.setcov("rule", "MiniJS programs (systematic + random, functions and generators) x %d rewrites: literal operands vs variables, never-called "
               "closure capturing the loop variables, direct eval(\"\") in the function, body inside with({}), extra block with a lexical declaration, "
               "IIFE / arrow IIFE wrapping, re-evaluation of f.toString(), 'use strict', creation through indirect eval, unreachable statements after "
               "every abrupt statement; TLC evaluates MiniJS.tla once per tree, every variant must reproduce that log and completion" % len(mjgen.VARIANTS))


def replay(path):
    d = json.load(open(path))
    m = d["replay"]
    wd = workdir("C02r")
    binp = os.path.join(wd, "mjsrun")
    go_build("mjsrun", binp, overlay=False)
    p = m["program"]
    want, _ = oracle.tlc_eval([p], wd, "r")
    got = oracle.goja_run(binp, [p], wd, "r", variant=m["variant"])
    print(mjgen.print_js(p, variant=m["variant"]).split("GR;\n", 1)[1])
    print("specified:", want[p["id"]])
    print("goja     :", got[p["id"]])
    if oracle.agree(p, want[p["id"]], got[p["id"]]):
        print("replay: agrees with the specification now")
        return 0
    print("VIOLATION property=C02 replay=%s" % path)
    return 1
