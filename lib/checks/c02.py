"""C02 — compiled code matches the definitional semantics; compiler choices are invisible.
MiniJS.tla gives ONE specified behaviour per syntax tree; every rewrite of the catalogue (lib/mjgen.py VARIANTS) that only
changes compiler decisions must produce exactly that behaviour on goja."""
import hashlib
import json
import os
import random

import mjgen
import oracle
from vlib import go_build, phase, seed, workdir


def run(chk, tier):
    wd = workdir("C02")
    thorough = tier == "thorough"
    binp = os.path.join(wd, "mjsrun")
    go_build("mjsrun", binp, overlay=False)
    rnd = random.Random(seed())
    progs = []
    with phase(chk, "generate"):
        sysf = mjgen.systematic_programs(0, gen=False, depth=2)
        progs += sysf if thorough else rnd.sample(sysf, 600)
        for p in mjgen.systematic_programs(0, gen=True, depth=2, rnd=rnd)[:: (1 if thorough else 12)]:
            progs.append(p)
        for i in range(20000 if thorough else 2500):
            progs.append(mjgen.random_program(0, rnd, gen=(i % 3 == 2), maxd=2 + i % 3))
        for i, p in enumerate(progs):
            p["id"] = i
    with phase(chk, "oracle"):
        want, states = oracle.tlc_eval(progs, wd, "o")
    total = bad = trivial = 0
    srchash = {}
    for v in mjgen.VARIANTS:
        sel = [p for p in progs if not (v == "with" and False)]
        with phase(chk, "goja-" + v):
            got = oracle.goja_run(binp, sel, wd, "g-" + v, variant=v)
        for p in sel:
            total += 1
            src = mjgen.print_js(p, variant=v)
            h = hashlib.md5(src.encode()).hexdigest()
            if v != "base" and srchash.get(p["id"]) == h:
                trivial += 1          # the rewrite did not change this program's text
            if v == "base":
                srchash[p["id"]] = h
            if not oracle.agree(p, want[p["id"]], got[p["id"]]):
                bad += 1
                g = got[p["id"]]
                chk.violation("variant %s of program %d: specified log=%s %s/%s; goja log=%s %s/%s %s" % (
                    v, p["id"], want[p["id"]]["log"], want[p["id"]]["ty"], want[p["id"]]["v"], g["log"], g.get("ty"), g.get("v"),
                    (g.get("err") or g.get("panic") or "")[:200]),
                    {"module": "MiniJS", "variant": v, "program": p, "source": src, "want": want[p["id"]], "got": g})
    chk.setcov("programs", len(progs))
    chk.setcov("variant_runs", total)
    chk.setcov("variants_textually_identical_to_base", trivial)
    chk.setcov("disagreements_checked", bad)
    chk.setcov("states", states)
    chk.sample({"variant": "evaldyn", "source": mjgen.print_js(progs[0], variant="evaldyn").split("var T=true, Fa=false;\n")[1][:500],
                "specified": want[progs[0]["id"]]["log"]})
    chk.setcov("rule", "MiniJS programs (systematic + random, functions and generators) x %d rewrites: literal operands vs variables, never-called "
               "closure capturing the loop variables, direct eval(\"\") in the function, body inside with({}), extra block with a lexical declaration, "
               "IIFE / arrow IIFE wrapping, re-evaluation of f.toString(), 'use strict', creation through indirect eval, unreachable statements after "
               "every abrupt statement; TLC evaluates MiniJS.tla once per tree, every variant must reproduce that log and completion" % len(mjgen.VARIANTS))


def replay(path):
    d = json.load(open(path))
    m = d["replay"]
    wd = workdir("C02r")
    binp = os.path.join(wd, "mjsrun")
    go_build("mjsrun", binp, overlay=False)
    p = m["program"]
    want, _ = oracle.tlc_eval([p], wd, "r")
    got = oracle.goja_run(binp, [p], wd, "r", variant=m["variant"])
    print(mjgen.print_js(p, variant=m["variant"]).split("var T=true, Fa=false;\n")[1])
    print("specified:", want[p["id"]])
    print("goja     :", got[p["id"]])
    if oracle.agree(p, want[p["id"]], got[p["id"]]):
        print("replay: agrees with the specification now")
        return 0
    print("VIOLATION property=C02 replay=%s" % path)
    return 1
