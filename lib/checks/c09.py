"""C09 — generators resume faithfully under any driver call sequence (MiniJS.tla generator layer as oracle)."""
import json
import os
import random

import mjgen
import oracle
from checks import c08
from vlib import go_build, phase, seed, workdir

DEVS = {}


def run(chk, tier):
    wd = workdir("C09")
    thorough = tier == "thorough"
    binp = os.path.join(wd, "mjsrun")
    go_build("mjsrun", binp, overlay=False)
    rnd = random.Random(seed())
    progs = []
    with phase(chk, "generate"):
        # every nesting of two constructs x abrupt/yield statement x every driver history of length <= 3 (sampled in quick)
        progs += mjgen.systematic_programs(0, gen=True, depth=2, rnd=None if thorough else rnd)
        nrand = 80000 if thorough else 12000
        for i in range(nrand):
            progs.append(mjgen.random_program(len(progs), rnd, gen=True, maxd=2 + i % 3))
        # uncatchable conditions raised inside a (resumed) generator body or inside an inner iterator driven by yield*
        nf = 0
        for p in list(progs):
            if thorough or p["id"] % 3 == 0:
                q = mjgen.with_fault(p, len(progs), rnd)
                if q:
                    progs.append(q)
                    nf += 1
    chk.add("fault_programs", nf)
    with phase(chk, "oracle+goja"):
        states, bad, explained = oracle.compare(chk, binp, progs, wd, "l2", DEVS, "MiniJS L2 (generators)")
    # the same programs with every yield moved into a deeper expression position (array / object literal, call argument, template,
    # conditional, comma, arrow call): the specified behaviour is unchanged
    want2 = oracle.LAST_WANT
    # "scopes": every block of the body declares a block-scoped variable captured by a closure, and every logged number checks that all
    # enclosing blocks' variables are seen with their own values (suspension, resumption and return() / throw() into a finally block
    # must restore the lexical environment of the code that runs next)
    for variant, label, counter in [("yform", "yield inside expressions", "yield_form_runs"), ("scopes", "captured block scopes", "block_scope_runs"),
                                    ("reenter", "re-entrant next() / return() from the methods of every iterator the body uses", "reentrant_runs")]:
        with phase(chk, "goja-" + variant):
            got2 = oracle.goja_run(binp, [p for p in progs if variant != "reenter" or p["gen"]], wd, variant[:2], variant=variant)
            for p in progs:
                if p["id"] not in got2:
                    continue
                if not oracle.agree(p, want2[p["id"]], got2[p["id"]]):
                    g = got2[p["id"]]
                    chk.violation("MiniJS L2 (generators, %s): program %d: specified log=%s %s/%s; goja log=%s %s/%s %s" % (
                        label, p["id"], want2[p["id"]]["log"], want2[p["id"]]["ty"], want2[p["id"]]["v"], g["log"], g.get("ty"), g.get("v"),
                        (g.get("err") or g.get("panic") or "")[:200]),
                        {"module": "MiniJS", "variant": variant, "program": p, "source": mjgen.print_js(p, variant=variant), "want": want2[p["id"]], "got": g})
            chk.add(counter, len(progs))
    # the same bodies as async functions: yield -> await, the driver's next(v) / throw(e) -> settlement of the awaited operand
    with phase(chk, "async-twins"):
        twins = []
        for p in progs:
            q = mjgen.async_twin(p, len(progs) + len(twins))
            if q:
                twins.append(q)
        want3, st3 = oracle.tlc_eval(twins, wd, "as")
        got3 = oracle.goja_run(binp, twins, wd, "asg", variant="async")
        for q in twins:
            w, g = want3[q["id"]], got3[q["id"]]
            exp = mjgen.async_expected(w["log"])
            if g.get("panic") or g.get("err") or g["log"] != exp:
                chk.violation("MiniJS L2 (async function = generator driven by promise reactions): program %d: specified log=%s; goja log=%s %s" % (
                    q["id"], exp, g["log"], (g.get("err") or g.get("panic") or "")[:200]),
                    {"module": "MiniJS", "variant": "async", "program": q, "source": mjgen.print_js(q, variant="async"), "want": dict(w, log=exp), "got": g})
        chk.add("async_function_runs", len(twins))
        states += st3
    chk.setcov("programs", len(progs))
    chk.setcov("disagreements_checked", bad)
    chk.setcov("states", states)
    chk.setcov("transitions", states)
    chk.setcov("traces_validated_against_impl", len(progs))
    chk.setcov("rule", "generator bodies (systematic nestings of try/catch/finally positions, loops, for-of, labels, switch with a yield or an "
               "abrupt completion innermost; seeded random bodies with yield, yield* over instrumented iterators, destructuring, spread) x driver "
               "histories over next(v)/throw(e)/return(v) (all of length <= 3 for the systematic family, random length <= 6 otherwise); "
               "every body without yield* also as an async function (yield -> await; next(v) / throw(e) -> the awaited promise, value or thenable "
               "fulfils with v / rejects with e), compared with the generator state machine up to completion")


def replay(path):
    d = json.load(open(path))
    d["property"] = "C09"
    rc = c08.replay(path)
    return rc
