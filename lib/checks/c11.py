"""C11 — a forwarding Proxy equals its target; invariant-breaking handlers are rejected (Obj.tla on proxies + ObjProxy.tla)."""
import json
import os

import edges
import replay as rp
from checks import c04
from vlib import HARNESS, Inconclusive, go_build, phase, seed, workdir

CFG = """SPECIFICATION Spec
CONSTANTS
  DescSet <- %(descs)s
  TDescs <- TargetMenu
PROPERTIES TargetUntouched SeenThroughProxy AbsentOnlyIfAllowed
ACTION_CONSTRAINT Emit
VIEW View
CHECK_DEADLOCK FALSE
"""
NONE = {"k": "none", "v": "-", "w": "-", "g": "-", "s": "-", "e": "-", "c": "-"}
INIT = {"p": {"k": NONE, "j": NONE}, "ext": "T", "proto": "P1", "revoked": "F"}

PROXY_KINDS = ["proxy1", "proxyfwd", "proxy2", "goproxy", "proxyfunc", "proxyarr", "proxyarr2"]


def forwarding(chk, wd, binp, thorough):
    """the Obj.tla edge sets (ordinary-object semantics) replayed on forwarding proxies of every flavour"""
    tours = 0
    for name in ["cell", "chain", "order"]:
        vs = []
        for k in PROXY_KINDS:
            maps = ["str", "sym", "idx"] if name == "cell" else ["str", "sym"] if name == "chain" else ["str"]
            if k in ("proxyarr", "proxyarr2"):
                maps = [m for m in maps if m != "idx"]
            for m in maps:
                vs.append((k, m, "plain"))
            if name == "chain":
                vs.append((k, "str", k))          # proxy inheriting from a proxy
        if not thorough:
            vs = [v for i, v in enumerate(vs) if name != "cell" or (i + seed()) % 2 == 0]
        tours += c04.run_config(chk, wd, binp, name, thorough, vs_override=vs, quick_share=6)
    return tours


def invariants(chk, wd, binp, thorough):
    gwd = os.path.join(wd, "px")
    os.makedirs(gwd)
    with phase(chk, "tlc-objproxy"):
        g, st = edges.build_graph("ObjProxy", CFG % dict(descs="AllDescs" if thorough else "LatticeDescs"), gwd, INIT,
                                  obs0=INIT, timeout=1800)
    chk.add("states", st["states"])
    chk.add("transitions", st["transitions"])
    jobs = []
    for handler in ["js", "go"]:
        for target, keymap in [("plain", "str"), ("plain", "sym"), ("plain", "idx"), ("func", "str"), ("array", "str"), ("array", "sym")]:
            for layers in [1, 2]:
                if layers == 2 and (target != "plain" or keymap == "idx"):
                    continue
                n = len(jobs)
                pre = os.path.join(gwd, "prelude-%d.js" % n)
                cfg = {"handler": handler, "target": target, "keymap": keymap, "layers": layers}
                open(pre, "w").write("var CFG = %s;\n" % json.dumps(cfg))
                jobs.append(dict(what="ObjProxy handler=%s target=%s key=%s layers=%d" % (handler, target, keymap, layers),
                                 tag="p%d" % n, args=["-adaptor", pre + "," + os.path.join(HARNESS, "adaptors", "objproxy.js")],
                                 share=None if thorough or n < 2 else (seed() + n, 3), meta=dict(cfg, module="ObjProxy")))
    with phase(chk, "replay-objproxy"):
        results = rp.run_jobs(binp, g, gwd, jobs, walks=100 if thorough else 10, walklen=40, timeout=2400)
    tours = 0
    for job, (reps, crashes) in zip(jobs, results):
        tot, nodes = rp.fold(chk, reps, crashes, job["what"], {}, job["meta"])
        chk.add("edges_replayed", tot["covered"])
        chk.add("distinct_nontrivial", tot["nontrivial"])
        chk.add("evaluations", tot["steps"])
        chk.setcov("edges_per_graph_objproxy", tot["edges"])
        tours += tot["tours"]
        if tot["covered"] + tot["lost_to_known"] < tot["mine"] and not chk.violations:
            raise Inconclusive("%s: %d of %d assigned edges not replayed" % (job["what"], tot["mine"] - tot["covered"], tot["mine"]))
    return tours


def run(chk, tier):
    wd = workdir("C11")
    thorough = tier == "thorough"
    binp = os.path.join(wd, "jsreplay")
    go_build("jsreplay", binp)
    only = os.environ.get("VERIF_ONLY", "fwd,inv").split(",")
    tours = 0
    if "inv" in only:
        tours += invariants(chk, wd, binp, thorough)
    if "fwd" in only:
        tours += forwarding(chk, wd, binp, thorough)
    chk.setcov("traces_validated_against_impl", tours)
    chk.setcov("exhaustive", thorough)
    chk.setcov("rule", "invariant half: every (target state, trap, trap answer) transition of ObjProxy.tla replayed on a real Proxy "
               "with a JS handler and with a Go ProxyTrapConfig handler; forwarding half: every transition of Obj.tla cell/chain/order "
               "replayed on forwarding proxies (no-trap, Reflect-forwarding JS handler, 2 layers, Go handler, function and array targets)")


def replay(path):
    import subprocess
    d = json.load(open(path))
    m = d["replay"]
    if m.get("module") == "Obj":
        return c04.replay(path)
    wd = workdir("C11r")
    binp = os.path.join(wd, "jsreplay")
    go_build("jsreplay", binp)
    pre = os.path.join(wd, "prelude.js")
    open(pre, "w").write("var CFG = %s;\n" % json.dumps({k: m[k] for k in ("handler", "target", "keymap", "layers")}))
    r = subprocess.run([binp, "-replay", path, "-adaptor", pre + "," + os.path.join(HARNESS, "adaptors", "objproxy.js")],
                       stdout=subprocess.PIPE, text=True)
    got = json.loads(r.stdout)
    for l in m.get("path", []):
        print("   ", json.dumps(l))
    print("want res=%s\n     obs=%s" % (m.get("want_res"), m.get("want_obs")))
    print("got  res=%s\n     obs=%s %s" % (got["res"], got["obs"], got.get("panic", "")))
    if got["res"] == m.get("want_res") and got["obs"] == m.get("want_obs"):
        print("replay: agrees with the specification now")
        return 0
    print("VIOLATION property=C11 replay=%s" % path)
    return 1
