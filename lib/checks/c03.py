"""C03 — a Runtime stays consistent and reusable after every kind of abrupt outcome.
VMTrace.tla (Idle / Nesting / FrameWF / Unwind / Uncatchable) validated on recorded executions of fault-enumerated
histories: for each program every probe point k x fault kind {throw value, Go error, interrupt, foreign Go panic} and
call-depth limits; afterwards the same Runtime must run a fixed script exactly like a fresh Runtime."""
import json
import os
import random
import subprocess
from concurrent.futures import ThreadPoolExecutor

import mjgen
from vlib import NCPU, Inconclusive, go_build, phase, run_tlc, seed, workdir

AFTER = r'''
var out = [];
function* g(){ try { out.push("g1"); var x = yield 1; out.push("g" + x); yield* [7, 8]; } finally { out.push("gf"); } }
var it = g(); it.next(); it.next(2); it.next(); it.return(5);
for (var x of [1, 2, 3]) { if (x == 2) break; out.push("fo" + x); }
try { try { throw 1 } finally { out.push("fin") } } catch (e) { out.push("c" + e) }
(function(a, b){ arguments[0] = 9; out.push("arg" + a); })(1, 2);
var [p, q] = new Set([4, 5, 6]); out.push("d" + p + q);
Promise.resolve(1).then(function(v){ out.push("then" + v); return Promise.reject(2) }).catch(function(e){ out.push("catch" + e) });
(async function(){ out.push("a0"); await null; out.push("a1"); })();
out.push("sync-end");
out.push("decl:" + typeof declared0 + "/" + (function(){ try { return typeof lex0 } catch (e) { return e.name } })());
Promise.resolve().then(function(){ alog(out.join(",")); });
'''

SCENARIOS = [
    # hand-written bodies with generators / async / promise jobs / nested try (the generated programs have none of the last three)
    "function f(){ function* g(){ probe(); try { probe(); yield 1; probe(); yield 2 } finally { probe(); log(1) } } var it=g(); probe(); it.next(); probe(); it.next(); probe(); it.return(3); probe(); }",
    "function f(){ function* g(){ probe(); yield 1; probe(); r(); } function r(){ probe(); return r2() } function r2(){ probe(); return 1 } var it=g(); it.next(); probe(); it.next(); }",
    "function f(){ function* g(){ for (var x of [1,2,3]) { probe(); yield x } } for (var y of g()) { probe(); if (y==2) break } probe(); var a=[...g()]; probe(); }",
    "function f(){ (async function(){ probe(); try { await null; probe(); await Promise.reject(1) } catch(e) { probe(); log(2) } finally { probe(); log(3) } })(); probe(); Promise.resolve().then(function(){ probe(); log(4) }); probe(); }",
    "function f(){ var p = new Promise(function(res){ probe(); res(1) }); p.then(function(){ probe(); return new Promise(function(r2){ probe(); r2(2) }) }).then(function(){ probe(); throw 5 }).catch(function(){ probe() }).finally(function(){ probe() }); }",
    "function f(){ var o = { get x(){ probe(); return 1 }, set x(v){ probe() } }; o.x; probe(); o.x = 2; [3,1,2].sort(function(a,b){ probe(); return a-b }); [1,2].forEach(function(){ probe() }); new Map([[1,2]]).forEach(function(){ probe() }); JSON.stringify({toJSON(){ probe(); return 1 }}); }",
    "function f(){ function rec(n){ probe(); if (n>0) { try { return rec(n-1) } finally { probe() } } return 0 } rec(3); probe(); }",
    "function f(){ var px = new Proxy({}, { get(t,k){ probe(); return 1 }, has(t,k){ probe(); return true }, ownKeys(t){ probe(); return [] } }); px.a; 'a' in px; Object.keys(px); with (px) { probe(); } }",
    "function f(){ class A { constructor(){ probe() } static m(){ probe() } get y(){ probe(); return 1 } } class B extends A { constructor(){ probe(); super(); probe() } } new B().y; A.m(); try { null.x } catch(e) { probe() } }",
    "function f(){ var s = 0; L: for (var i=0;i<2;i++) { for (var k in {a:1,b:2}) { probe(); try { if (k=='b') continue L; s++ } finally { probe() } } } probe(); switch (s) { case 1: probe(); default: probe() } }",
    "function f(){ probe(); class K { #s = 1; static m(){ return eval('1') } [probe()](){ } static [probe()] = 2; static { probe() } get #g(){ probe(); return 1 } static t(o){ return #s in o && o.#g } } probe(); K.t(new K) }",
    "function f(){ async function inner(n){ probe(); await null; probe(); return r(n) } function r(n){ probe(); return n > 0 ? r(n - 1) : 0 } async function outer(){ probe(); await inner(3); probe() } outer(); probe(); }",
    "function f(){ var cap = 1; function g(){ probe(); return function(){ return cap++ } } probe(); g()(); (function(){ let blk = 2; probe(); return () => blk })()(); }",
    "function f(){ reenter('probe(); try { probe(); throw 1 } catch(e) { probe() } finally { probe() }'); probe(); callfn(function(){ probe(); return 1 }); probe(); }",
    # a native that re-enters RunProgram and swallows a script exception (also the stack overflow at the depth limit): the caller's frame is intact
    # a native promise-job handler re-enters the runtime (swallowing the error): the nested run is NOT the outermost call, whether f was
    # entered through RunProgram or through a Callable - an interrupt in it stops the outer call too, later jobs do not run
    "function f(){ Promise.resolve().then(function(){ probe(); reenterq('probe(); Promise.resolve().then(function(){ probe() }); probe(); 1'); probe() }); "
    "Promise.resolve().then(function(){ probe(); log(2) }); probe(); }",
    "function f(){ Promise.resolve().then(function(){ reenter('probe(); try { probe() } finally { probe() }') }); Promise.resolve().then(function(){ probe() }); }",
    "function f(){ Promise.resolve().then(function(){ reenterz('probe(); Promise.resolve().then(function(){ probe() }); probe()') }); Promise.resolve().then(function(){ probe(); log(2) }); }",
    "function f(){ reenterz('probe(); probe()'); probe(); Promise.resolve().then(function(){ reenterz('probe()'); probe() }); }",
    # (the job handler IS the native function: no script frame between the job queue and the nested entry)
    "function f(){ Promise.resolve('probe(); Promise.resolve().then(function(){ probe() }); probe()').then(reenterz); Promise.resolve().then(function(){ probe(); log(2) }); }",
    "function f(){ Promise.resolve('probe(); 1').then(reenterz).then(function(){ probe() }); Promise.resolve('probe()').then(reenterq); Promise.resolve('probe(); 2').then(reenter); probe(); }",
    "function f(){ function d(n){ var r = reenterq('probe(); 1'); var s = r + 5; expect(s === 'ok5' || s === 'err5', s); return n > 0 ? d(n - 1) : s } d(3); probe(); }",
    # built-ins that keep runtime-wide bookkeeping while they call back into script (join's cycle detection)
    "function f(){ var a = [1, {toString(){ probe(); return 'b' }}, 3]; a.join('-'); probe(); String([a, 4]); var sep = {toString(){ probe(); return '+' }}; [1, 2].join(sep); a.toString(); a.toLocaleString(); probe(); }",
    # a generator closed (break / return()) while it is suspended inside a for-of over another generator whose finally block runs script
    "function f(){ function* inner(){ try { yield 1; yield 2 } finally { probe(); log(1) } } function* outer(){ try { for (var x of inner()) { probe(); yield x } } finally { probe(); log(2) } } for (var y of outer()) { probe(); break } probe(); var it = outer(); it.next(); probe(); it.return(5); probe(); var [d] = outer(); probe(); }",
]


TOPLEVEL = [
    "probe(); class K { #s = 1; static m(){ return eval('1') } [probe()](){ } static [probe()] = 2; static { probe() } } probe(); new K;",
    "probe(); with ({a: 1}) { let blk = 1; var fn = () => blk; probe(); { let inner = 2; var g2 = () => inner; probe(); } } probe();",
    "probe(); for (let i = 0; i < 2; i++) { let cap = () => i; probe(); try { probe(); } finally { probe(); } } L: { let z = 1; var h = () => z; probe(); }",
]


def run(chk, tier):
    wd = workdir("C03")
    thorough = tier == "thorough"
    binp = os.path.join(wd, "vmtrace")
    go_build("vmtrace", binp)
    rnd = random.Random(seed())
    with phase(chk, "generate"):
        base = []
        n_rand = 400 if thorough else 60
        for i in range(n_rand):
            p = mjgen.random_program(i, rnd, gen=(i % 3 == 2), maxd=2 + i % 2)
            base.append({"gen": p["gen"], "src": mjgen.print_js(p, probes=True)})
        for s in SCENARIOS:
            base.append({"gen": 0, "src": s})
        for s in TOPLEVEL:
            base.append({"gen": 1, "src": s})     # executed as the program itself (no f() call)
        # 1. fault-free pass: counts probe points and gives the reference log of the AFTER script
        jobs = [dict(b, id=i, fault="", at=0, after=AFTER) for i, b in enumerate(base)]
    with phase(chk, "count-probes"):
        res0 = run_jobs(binp, jobs, wd, "p0", trace=False)
    ref = [r for r in res0 if r["outcome"] in ("value", "exception")]
    if not ref:
        raise Inconclusive("no fault-free reference run")
    fresh = run_jobs(binp, [dict(id=0, gen=0, src="function f(){}", fault="", at=0, after=AFTER)], wd, "fresh", trace=False)[0]
    want_after = fresh["after_log"]
    if not want_after:
        raise Inconclusive("reference AFTER script produced no log: %s" % fresh)
    # 2. every probe position x fault kind (+ depth limits)
    jobs = []
    cap = 40 if thorough else 12
    for i, b in enumerate(base):
        np_ = res0[i]["probes"]
        ks = list(range(1, np_ + 1))
        if len(ks) > cap:
            ks = sorted(rnd.sample(ks, cap))
        for k in ks:
            for fk in ("throw", "goerror", "interrupt", "gopanic"):
                jobs.append(dict(b, id=len(jobs), fault=fk, at=k, after=AFTER, base=i))
        for d in ((0, 1, 2, 3, 5, 8) if thorough else (1, 3)):
            jobs.append(dict(b, id=len(jobs), fault="depth", at=0, maxdepth=d, after=AFTER, base=i))
    with phase(chk, "faulted-runs"):
        res = run_jobs(binp, jobs, wd, "fx", trace=True)
    nontrivial = 0
    for j, r in zip(jobs, res):
        what = None
        fk = j["fault"]
        if r.get("panic"):
            what = "host panic escaped: %s" % r["panic"][:200]
        elif fk == "interrupt" and r["probes"] >= j["at"] and r["outcome"] != "interrupted":
            what = "interrupt at probe %d did not end the run with InterruptedError (outcome %s)" % (j["at"], r["outcome"])
        elif fk == "gopanic" and r["probes"] >= j["at"] and r["outcome"] != "foreign":
            what = "foreign Go panic was swallowed (outcome %s)" % r["outcome"]
        elif r["outcome"].startswith("other"):
            what = "undocumented error kind: %s" % r["outcome"]
        elif not r["idle"] and not (fk == "gopanic" and r["regs"].replace("Jobs:1", "Jobs:0").replace("Jobs:2", "Jobs:0").replace("Jobs:3", "Jobs:0") == IDLE):
            what = "runtime not idle after the call returned: %s" % r["regs"]
        elif r["after_log"] != want_after or r.get("after_err"):
            what = "runtime not reusable: next script logged %s (err %s), a fresh runtime logs %s" % (r["after_log"], r.get("after_err"), want_after)
        if r["probes"] >= j["at"] > 0 or fk == "depth":
            nontrivial += 1
        if what:
            chk.violation("fault %s at probe %d (depth limit %s): %s" % (fk, j["at"], j.get("maxdepth"), what),
                          {"module": "VMTrace", "job": j, "result": r})
    chk.setcov("evaluations", len(jobs))
    chk.setcov("distinct_nontrivial", nontrivial)
    # 3. every recorded execution is a behaviour of VMTrace.tla
    with phase(chk, "trace-validation"):
        st, ev, rejected = validate_traces(os.path.join(wd, "fx-trace"), wd, chk, jobs)
    chk.setcov("states", st)
    chk.setcov("transitions", ev)
    chk.setcov("traces_validated_against_impl", len(jobs))
    chk.setcov("trace_events", ev)
    chk.sample({"job": {k: jobs[0][k] for k in ("fault", "at")}, "src": jobs[0]["src"][-400:]})
    chk.setcov("rule", "programs with probe() at every statement boundary (seeded random MiniJS bodies incl. generators + hand-written generator/"
               "async/promise/proxy/class/re-entrant scenarios) x every probe position x {throw, Go error, interrupt, foreign panic} + call-depth "
               "limits; per run: outcome class, idle registers, reusability script vs fresh runtime, and the recorded VM trace validated against VMTrace.tla")


def run_jobs(binp, jobs, wd, tag, trace):
    jf = os.path.join(wd, tag + "-jobs.json")
    json.dump(jobs, open(jf, "w"))
    out = os.path.join(wd, tag + "-res.ndjson")
    cmd = [binp, "-in", jf, "-out", out, "-threads", str(NCPU)]
    if trace:
        cmd += ["-trace", os.path.join(wd, tag + "-trace")]
    r = subprocess.run(cmd, stdout=subprocess.PIPE, stderr=subprocess.PIPE, text=True, timeout=1800)
    if r.returncode != 0:
        raise Inconclusive("vmtrace failed rc=%d: %s" % (r.returncode, r.stderr[-3000:]))
    return [json.loads(l) for l in open(out)]


IDLE = "{Cs:0 Ts:0 Is:0 Rs:0 Sp:0 Sb:-1 Jobs:0 Interrupted:false GlobalStash:true PrivEnv:false AsyncRunner:false Prg:false ToStr:0}"
CFG = """SPECIFICATION Spec
CONSTANT Deviations = {%s}
CONSTRAINT HW
POSTCONDITION Accepted
CHECK_DEADLOCK FALSE
"""


def split_trace(path, shards):
    """split a reset-separated trace into `shards` files at reset boundaries; returns [(file, [job ids])]"""
    runs, cur = [], []
    for l in open(path):
        cur.append(l)
        if l.startswith('{"ev":"reset"'):
            runs.append(cur)
            cur = []
    parts = [[] for _ in range(shards)]
    for i, r in enumerate(runs):
        parts[i % shards].append((i, r))
    out = []
    for s, part in enumerate(parts):
        if not part:
            continue
        f = "%s.%d" % (path, s)
        with open(f, "w") as fh:
            for _, r in part:
                fh.writelines(r)
        out.append((f, [i for i, _ in part], [len(r) for _, r in part]))
    return out


def validate_traces(path, wd, chk, jobs, devs=(), shards=None):
    shards = shards or NCPU
    parts = split_trace(path, shards)
    cfg = CFG % ", ".join('"%s"' % d for d in devs)

    def one(a):
        n, (f, ids, lens) = a
        res = run_tlc("VMTrace", cfg, os.path.join(wd, "tv-%d" % n), workers=1, timeout=1500, heap="3g", env_extra={"TRACE": f})
        return res

    with ThreadPoolExecutor(max_workers=shards) as ex:
        results = list(ex.map(one, enumerate(parts)))
    states = events = rejected = 0
    for (f, ids, lens), r in zip(parts, results):
        states += r.distinct
        events += sum(lens)
        if r.ok:
            continue
        hwm = None
        for v in r.out.splitlines():
            if v.startswith('<<"HWM"'):
                hwm = int(v.split(",")[1].strip(" >"))
        if hwm is None:
            raise Inconclusive("TLC error during trace validation: %s" % r.out[-2000:])
        # locate the execution containing the first rejected line
        acc = 0
        for jid, ln in zip(ids, lens):
            if acc + ln >= hwm:
                lines = open(f).read().splitlines()
                ctx = lines[max(0, hwm - 6):hwm]
                rejected += 1
                chk.violation("VM trace rejected by VMTrace.tla at event %d of execution %d: %s" % (hwm - acc, jid, lines[hwm - 1][:200]),
                              {"module": "VMTrace", "job": jobs[jid] if jid < len(jobs) else None, "rejected_line": lines[hwm - 1],
                               "preceding": ctx})
                break
            acc += ln
    return states, events, rejected


def replay(path):
    d = json.load(open(path))
    m = d["replay"]
    wd = workdir("C03r")
    binp = os.path.join(wd, "vmtrace")
    go_build("vmtrace", binp)
    j = dict(m["job"], id=0)
    res = run_jobs(binp, [j], wd, "r", trace=True)[0]
    print(json.dumps(res)[:1500])

    class C:
        violations = []

        def violation(self, w, p):
            self.violations.append(w)
    c = C()
    validate_traces(os.path.join(wd, "r-trace"), wd, c, [j], shards=1)
    bad = c.violations or res.get("panic") or not res["idle"]
    for v in c.violations:
        print(v)
    if bad:
        print("VIOLATION property=C03 replay=%s" % path)
        return 1
    print("replay: accepted now")
    return 0
