"""C10 — promise jobs run exactly once, in specification FIFO order, before control returns to Go (Promise.tla)."""
import json
import os
import random
import subprocess
from concurrent.futures import ThreadPoolExecutor

import pmgen
from vlib import NCPU, Inconclusive, go_build, phase, run_tlc, seed, tlc_must_pass, workdir

EXPLORE = """SPECIFICATION Spec
CONSTANTS
  Mode = "explore"
  NP = %d
  MaxOps = %d
INVARIANTS NoReactionsWhenSettled TrackOK
PROPERTIES SettledStable LatchMonotone QueueEmptyAtReturn
VIEW View
CHECK_DEADLOCK FALSE
"""
ORACLE = """SPECIFICATION Spec
CONSTANTS
  Mode = "oracle"
  NP = 40
  MaxOps = 0
INVARIANTS NoReactionsWhenSettled
CHECK_DEADLOCK FALSE
"""


def tlc_eval(progs, wd, tag, shards=None):
    shards = shards or max(1, min(NCPU, len(progs) // 150 + 1))
    parts = [progs[i::shards] for i in range(shards)]

    def one(i):
        pf = os.path.join(wd, "%s-progs-%d.ndjson" % (tag, i))
        with open(pf, "w") as f:
            for p in parts[i]:
                f.write(json.dumps({"id": p["id"], "ops": p["ops"]}) + "\n")
        return run_tlc("Promise", ORACLE, os.path.join(wd, "%s-tlc-%d" % (tag, i)), workers=1, timeout=1500, heap="2g",
                       env_extra={"PROGS": pf})

    with ThreadPoolExecutor(max_workers=shards) as ex:
        results = list(ex.map(one, [i for i in range(shards) if parts[i]]))
    out, states = {}, 0
    for r in results:
        if r.violation or r.rc != 0:
            raise Inconclusive("TLC failed evaluating Promise.tla: %s\n%s" % (r.violation, r.out[-3000:]))
        states += r.distinct
        for v in r.lines:
            out[v["id"]] = v
    if len(out) != len(progs):
        raise Inconclusive("Promise oracle evaluated %d of %d programs" % (len(out), len(progs)))
    return out, states


def goja_run(binp, progs, wd, tag):
    jf = os.path.join(wd, tag + "-progs.json")
    json.dump([dict(p, src=pmgen.print_js(p)) for p in progs], open(jf, "w"))
    out = os.path.join(wd, tag + "-res.ndjson")
    r = subprocess.run([binp, "-in", jf, "-out", out, "-threads", str(NCPU)], stdout=subprocess.PIPE, stderr=subprocess.PIPE, text=True, timeout=1500)
    if r.returncode != 0:
        raise Inconclusive("pmrun failed: %s" % r.stderr[-2000:])
    return {v["id"]: v for v in map(json.loads, open(out))}


def normalise(p, want):
    """model log / finals restricted to what the script can observe"""
    vis = set(pmgen.visible_ids(p))
    log = []
    for e in want["log"]:
        if e.startswith("track:"):
            a, b, c = e.split(":")
            if int(c) not in vis:
                e = "%s:%s:?" % (a, b)
        log.append(e)
    fin = {str(i + 1): s for i, s in enumerate(want["finals"]) if i + 1 in vis}
    return log, fin


def run(chk, tier):
    wd = workdir("C10")
    thorough = tier == "thorough"
    with phase(chk, "tlc-explore"):
        r = run_tlc("Promise", EXPLORE % ((5, 5) if thorough else (4, 4)), os.path.join(wd, "ex"), timeout=2400, heap="12g")
        if r.violation:
            chk.violation("Promise.tla design model: %s" % r.violation, {"module": "Promise", "tlc": r.out[-3000:]})
        else:
            tlc_must_pass(r, "Promise explore")
        chk.add("states", r.distinct)
        chk.add("transitions", r.generated)
    binp = os.path.join(wd, "pmrun")
    go_build("pmrun", binp)
    rnd = random.Random(seed())
    n = 40000 if thorough else 4000
    progs = [pmgen.random_program(i, rnd, maxops=12 if thorough else 9) for i in range(n)]
    with phase(chk, "oracle"):
        want, states = tlc_eval(progs, wd, "o")
    with phase(chk, "goja"):
        got = goja_run(binp, progs, wd, "g")
    bad = 0
    for p in progs:
        w, g = want[p["id"]], got[p["id"]]
        wl, wf = normalise(p, w)
        if g.get("panic") or g.get("err") or g["log"] != wl or g["finals"] != wf:
            bad += 1
            chk.violation("promise program %d: specified log=%s finals=%s; goja log=%s finals=%s %s" % (
                p["id"], wl, wf, g["log"], g["finals"], (g.get("err") or g.get("panic") or "")[:200]),
                {"module": "Promise", "program": p, "source": pmgen.print_js(p), "want_log": wl, "want_finals": wf, "got": g})
    chk.add("states", states)
    chk.add("transitions", states)
    chk.setcov("programs", len(progs))
    chk.setcov("disagreements_checked", bad)
    chk.setcov("traces_validated_against_impl", len(progs))
    chk.sample({"ops": progs[0]["ops"], "specified_log": want[progs[0]["id"]]["log"]})
    chk.setcov("rule", "Promise.tla explore mode: every reachable state of <= 4-5 script operations over <= 4-5 promises with the full operation menu "
               "(invariants SettledStable, NoReactionsWhenSettled, LatchMonotone, TrackOK, QueueEmptyAtReturn); oracle mode: seeded random promise "
               "programs (new / resolve with value, promise, self, 5 thenable kinds / reject / then with 7 handler behaviours / finally / all / any / "
               "race / allSettled / Go-side NewPromise resolvers called between runs) evaluated by TLC and run on goja: handler call order and "
               "arguments, thenable calls, rejection-tracker notifications, queue empty at every return to Go, final states")


def replay(path):
    d = json.load(open(path))
    p = d["replay"]["program"]
    wd = workdir("C10r")
    binp = os.path.join(wd, "pmrun")
    go_build("pmrun", binp)
    want, _ = tlc_eval([p], wd, "r", shards=1)
    got = goja_run(binp, [p], wd, "r")[p["id"]]
    wl, wf = normalise(p, want[p["id"]])
    print(pmgen.print_js(p).split("function NEW")[1])
    print("ops:", json.dumps(p["ops"]))
    print("specified:", wl, wf)
    print("goja     :", got["log"], got["finals"], got.get("err"), got.get("panic"))
    if got["log"] == wl and got["finals"] == wf and not got.get("err") and not got.get("panic"):
        print("replay: agrees with the specification now")
        return 0
    print("VIOLATION property=C10 replay=%s" % path)
    return 1
