"""C08 — abrupt exits run each pending finally and iterator close exactly once, in order (MiniJS.tla as oracle)."""
import json
import os
import random

import mjgen
import oracle
from vlib import Inconclusive, go_build, phase, seed, workdir

DEVS = {}   # deviation switch -> known finding id


def run(chk, tier):
    wd = workdir("C08")
    thorough = tier == "thorough"
    binp = os.path.join(wd, "mjsrun")
    go_build("mjsrun", binp, overlay=False)
    rnd = random.Random(seed())
    progs = []
    with phase(chk, "generate"):
        progs += mjgen.systematic_programs(0, gen=False, depth=2)
        if thorough:
            progs += mjgen.systematic_programs(len(progs), gen=False, depth=3, limit=120000)
        nrand = 60000 if thorough else 12000
        for i in range(nrand):
            progs.append(mjgen.random_program(len(progs), rnd, gen=False, maxd=3 + (i % 3 if thorough else i % 2)))
        # fault scenarios: one abrupt statement / scripted iterator failure of a program becomes an uncatchable condition
        # (interrupt, stack overflow, foreign Go panic): "interrupts and stack-overflow errors run none of them"
        base = list(progs)
        nf = 0
        for p in base:
            if thorough or p["id"] % 2 == 0:
                q = mjgen.with_fault(p, len(progs), rnd)
                if q:
                    progs.append(q)
                    nf += 1
    chk.add("fault_programs", nf)
    with phase(chk, "oracle+goja"):
        states, bad, explained = oracle.compare(chk, binp, progs, wd, "l0", DEVS, "MiniJS L0-L1")
    # generator return() / throw() and yield* delegation through pending finally blocks (the full driver-history family is C09's)
    gprogs = []
    with phase(chk, "generate-generators"):
        for i in range(40000 if thorough else 6000):
            gprogs.append(mjgen.random_program(len(progs) + len(gprogs), rnd, gen=True, maxd=2 + i % 2, focus="abrupt"))
    with phase(chk, "oracle+goja-generators"):
        st2, bad2, _ = oracle.compare(chk, binp, gprogs, wd, "l2", DEVS, "MiniJS L2 (generator return / throw / yield* through finally)")
    chk.add("generator_programs", len(gprogs))
    states += st2
    bad += bad2
    progs = progs + gprogs
    chk.setcov("programs", len(progs))
    chk.setcov("disagreements_checked", bad)
    chk.setcov("states", states)
    chk.setcov("transitions", states)
    chk.setcov("traces_validated_against_impl", len(progs))
    chk.setcov("rule", "systematic nestings (depth 2%s) of try/catch/finally positions, 5 loop kinds, for-of over instrumented iterators, "
               "labels, switch with one abrupt completion of each kind at the innermost position + seeded random programs + seeded random generator "
               "bodies (try/finally around yield and yield* over instrumented iterators) driven by next / return / throw histories; TLC evaluates "
               "MiniJS.tla on each, goja runs the printed source, logs and completions are compared" % (" and 3" if thorough else ""))


def replay(path):
    d = json.load(open(path))
    m = d["replay"]
    wd = workdir("C08r")
    binp = os.path.join(wd, "mjsrun")
    go_build("mjsrun", binp, overlay=False)
    p = m["program"]
    want, _ = oracle.tlc_eval([p], wd, "r")
    variant = m.get("variant", "base")
    got = oracle.goja_run(binp, [p], wd, "r", variant=variant)
    print(mjgen.print_js(p, variant=variant))
    print("specified:", want[p["id"]])
    print("goja     :", got[p["id"]])
    if oracle.agree(p, want[p["id"]], got[p["id"]]):
        print("replay: agrees with the specification now")
        return 0
    print("VIOLATION property=C08 replay=%s" % path)
    return 1
