"""C14 — errors cross the Go/JS boundary in both directions with identity preserved (Boundary.tla)."""
import json
import os
import subprocess

import edges
from vlib import NCPU, Inconclusive, go_build, phase, workdir

CFG = """SPECIFICATION Spec
CONSTANTS MaxDepth = %d
INVARIANTS Unobserved
PROPERTIES Preserved
ACTION_CONSTRAINT Emit
VIEW View
CHECK_DEADLOCK FALSE
"""
INIT = {"pl": {"cls": "none", "val": "-", "sent": "F", "inner": "-", "site": "-"}, "depth": 0, "obs": []}


def run(chk, tier):
    wd = workdir("C14")
    thorough = tier == "thorough"
    binp = os.path.join(wd, "boundary")
    go_build("boundary", binp)
    with phase(chk, "tlc-boundary"):
        g, st = edges.build_graph("Boundary", CFG % (4 if thorough else 3), wd, INIT, timeout=1200)
    chk.add("states", st["states"])
    chk.add("transitions", st["transitions"])
    out = os.path.join(wd, "res.json")
    with phase(chk, "chains"):
        r = subprocess.run([binp, "-graph", g["pure"], "-init", g["init"], "-out", out, "-threads", str(NCPU)],
                           stdout=subprocess.PIPE, stderr=subprocess.PIPE, text=True, timeout=2400)
        if r.returncode != 0:
            raise Inconclusive("boundary failed: %s" % r.stderr[-2000:])
    res = json.load(open(out))
    for b in res["bad"][:60]:
        chk.violation("chain %s (innermost first): specified %s; observed %s" % (" <- ".join(b["chain"]), b["want"], b["got"]),
                      {"module": "Boundary", "chain": b["chain"], "want": b["want"], "got": b["got"]})
    chk.setcov("traces_validated_against_impl", res["chains"])
    chk.setcov("evaluations", res["chains"])
    chk.setcov("distinct_nontrivial", res["chains"])
    for s in res.get("sample") or []:
        chk.sample({"chain_innermost_first": s["chain"], "specified": json.loads(s["want"])})
    chk.setcov("exhaustive", True)
    chk.setcov("rule", "every path raise -> cross^(1..%d) -> host of Boundary.tla: 12 payload raisers x 12 frame kinds (JS plain / try-catch-rethrow / "
               "try-finally, native FunctionCall, reflect-wrapped func with and without error return and one returning a new Go error that wraps the callee's Exception, ExportTo'd func, ConstructorCall, Proxy trap, getter "
               "under Runtime.Try, iterator under ForOf) built from real closures; compared: error type, identity of Value(), errors.Is/As reaching the "
               "Go error, top stack frame for script throws, what every catch / finally saw, uncatchable and foreign payloads unobserved" % (4 if thorough else 3))


def replay(path):
    d = json.load(open(path))
    m = d["replay"]
    wd = workdir("C14r")
    binp = os.path.join(wd, "boundary")
    go_build("boundary", binp)
    r = subprocess.run([binp, "-one", ",".join(m["chain"])], stdout=subprocess.PIPE, stderr=subprocess.STDOUT, text=True)
    print("chain (innermost first):", m["chain"])
    print("specified:", m["want"])
    print("observed :", r.stdout.strip()[-800:])
    if r.stdout.strip() == m["want"]:
        print("replay: agrees with the specification now")
        return 0
    print("VIOLATION property=C14 replay=%s" % path)
    return 1
