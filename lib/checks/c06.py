"""C06 — strings with equal UTF-16 content are indistinguishable, whatever their origin (StrPool.tla)."""
import json
import os
import subprocess

import edges
import replay as rp
from vlib import HARNESS, Inconclusive, go_build, phase, probe_known, workdir

CFG = """SPECIFICATION Spec
CONSTANTS Alpha <- %s
 Menu <- %s
 MaxLen = %d
INVARIANTS TypeOK Laws
ACTION_CONSTRAINT Emit
VIEW View
CHECK_DEADLOCK FALSE
"""
INIT = {"a": []}


def run(chk, tier):
    wd = workdir("C06")
    thorough = tier == "thorough"
    binp = os.path.join(wd, "jsreplay")
    go_build("jsreplay", binp)
    cfg = CFG % (("AlphaFull", "MenuFull", 3) if thorough else ("AlphaQuick", "MenuQuick", 3))
    with phase(chk, "tlc-strpool"):
        g, st = edges.build_graph("StrPool", cfg, wd, INIT, obs0=INIT, timeout=2400)
    chk.add("states", st["states"])
    chk.add("transitions", st["transitions"])
    ad = os.path.join(HARNESS, "adaptors", "strpool.js")
    with phase(chk, "replay-strpool"):
        reps, crashes = rp.run_walkers(binp, g, wd, ["-adaptor", ad, "-fresh=false"], procs=4 if thorough else 2, walks=200 if thorough else 30, walklen=30,
                                       maxtour=30, timeout=3000)
    tot, nodes = rp.fold(chk, reps, crashes, "StrPool", {}, {"module": "StrPool"})
    chk.add("edges_replayed", tot["covered"])
    chk.add("distinct_nontrivial", tot["nontrivial"])
    chk.add("evaluations", tot["steps"])
    chk.setcov("traces_validated_against_impl", tot["tours"])
    chk.setcov("edges_total", tot["edges"])
    chk.setcov("exhaustive", True)
    if tot["covered"] + tot["lost_to_known"] < tot["mine"] and not chk.violations:
        raise Inconclusive("StrPool: %d of %d assigned edges not replayed" % (tot["mine"] - tot["covered"], tot["mine"]))
    jsrun = os.path.join(wd, "jsrun")
    go_build("jsrun", jsrun)
    probe_known(chk, jsrun, wd)
    chk.setcov("rule", "every transition of StrPool.tla (one register over all strings of length <= 3 on the code-unit alphabet %s; literals in 8 origins incl. "
               "short/long Go imports, concatenation in 6 forms, slice/substring/substr at every index pair incl. negative and out of range, code unit / code "
               "point extraction in 10 forms, pad*, repeat, trim*, replace/replaceAll with string, regexp, callback and split-join forms, split, 28 identity "
               "operations incl. case round trip, normalize, JSON, escape, spread; indexOf family, relational order) replayed on the engine; after every step the "
               "engine's string is compared unit by unit with the model, its representation must be in normal form and 24 observers (===, ==, SameValue, "
               "relational, switch, Map, Set, property key, indexOf, includes, localeCompare, Symbol.for, Go export, JSON) compare it with 6 reference "
               "strings of the same content built in other ways" % ("{space, a, b, e-acute, alef, H, L}" if thorough else "{space, a, e-acute, H, L}"))
    chk.assumptions += ["case mapping and normalisation only through identities that hold on the alphabet (Unicode tables are not modelled)",
                        "Go export of lone surrogates is lossy by documentation: only equality of the exports of equal strings is required there"]


def replay(path):
    wd = workdir("C06r")
    binp = os.path.join(wd, "jsreplay")
    go_build("jsreplay", binp)
    m = json.load(open(path))["replay"]
    r = subprocess.run([binp, "-replay", path, "-adaptor", os.path.join(HARNESS, "adaptors", "strpool.js")], stdout=subprocess.PIPE, text=True)
    got = json.loads(r.stdout)
    for l in m.get("path", []):
        print("   ", json.dumps(l))
    print("want res=%s obs=%s" % (m.get("want_res"), m.get("want_obs")))
    print("got  res=%s obs=%s %s" % (got.get("res"), got["obs"], got.get("panic", "")[:400]))
    if got["obs"] == m.get("want_obs") and got.get("res") == m.get("want_res"):
        print("replay: agrees with the specification now")
        return 0
    print("VIOLATION property=C06 replay=%s" % path)
    return 1
