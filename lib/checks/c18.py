"""C18 — Map/Set are insertion-ordered SameValueZero dictionaries, even while mutated (OMap.tla)."""
import os

import edges
import replay as rp
from vlib import HARNESS, Inconclusive, go_build, phase, run_tlc, tlc_must_pass, workdir

CFG = """SPECIFICATION Spec
CONSTANTS
  Keys = {%(keys)s}
  Reps = {%(reps)s}
  Vals = {%(vals)s}
  NIter = %(niter)d
  MaxLen = %(maxlen)d
  MaxEs = %(maxes)d
  Kinds = {%(kinds)s}
INVARIANTS NoDup PosOK SizeOK %(inv)s
PROPERTIES Yielded SizeStep
%(extra)s
CHECK_DEADLOCK FALSE
"""


def q(xs):
    return ", ".join('"%s"' % x for x in xs)


def cfg(keys, reps, vals, niter, maxlen, maxes=0, kinds=("entries", "keys", "values"), emit=True):
    return CFG % dict(keys=q(keys), reps=q(reps), vals=q(vals), niter=niter, maxlen=maxlen, maxes=maxes,
                      kinds=q(kinds), inv="Refines" if maxes else "",
                      extra="ACTION_CONSTRAINT Emit\nVIEW View" if emit else "CONSTRAINT EsBound")


def init_state(niter):
    return {"e": [], "i": [{"st": "none", "pos": 0, "kind": "entries"} for _ in range(niter)]}


def run(chk, tier):
    wd = workdir("C18")
    thorough = tier == "thorough"
    binp = os.path.join(wd, "jsreplay")
    go_build("jsreplay", binp)
    # 1. the compact model refines ECMA-262's list-with-emptied-slots formulation (pure model check)
    with phase(chk, "refine"):
        r = run_tlc("OMap", cfg(["n1", "s1", "z"], ["a"], ["v1"], 2 if thorough else 1, 3, 5,      # (thorough with 6 slots: 35 M states, 50 min)
                                kinds=["entries"], emit=False), os.path.join(wd, "refine"), timeout=1500)
    tlc_must_pass(r, "OMap refinement")
    chk.add("states", r.distinct)
    chk.add("transitions", r.generated)
    chk.setcov("refinement_states", r.distinct)
    # 2. edge replay on Map and Set
    plans = [
        ("map", ["n1", "slu", "z"], ["v1", "v2"], 2, 3),
        ("set", ["nan", "sl", "s1"], ["v"], 2, 3),
        # keys sharing a hash bucket (the integer 1 and the float with bit pattern 1; 2 likewise): collision chains
        ("map", ["n1", "c3", "n2", "c2"], ["v1"], 1, 3),
    ]
    if thorough:
        # (the walker holds the whole labelled graph: these graphs need 4-13 GB; one walker process runs at a time)
        os.environ["VERIF_WALK_MEM_GB"] = "20"
        plans = [
            # (4 keys x 4 live entries x 2 cursors was measured at > 18 GB per walker process and did not finish in 25 min)
            # (2 values x 4 live entries x 2 cursors: the walker of this one graph needed > 10 GB under load)
            # (3 cursors x 2 values x 3 live entries: the walker's graph alone exceeded its memory budget)
            ("map", ["n1", "s1", "z"], ["v1", "v2"], 2, 3),
            ("map", ["n1", "s1", "z"], ["v1"], 3, 3),
            ("set", ["nan", "sl", "o1"], ["v"], 2, 4),
            ("map", ["su", "y1", "big"], ["v1", "v2"], 2, 3),
            ("set", ["slu", "s1", "u"], ["v"], 2, 3),
            ("set", ["n1", "c3", "n2", "c2"], ["v"], 2, 3),
            ("map", ["n1", "c3", "z"], ["v1", "v2"], 2, 3),
        ]
    traces = 0
    for n, (inst, keys, vals, niter, maxlen) in enumerate(plans):
        gwd = os.path.join(wd, "g%d" % n)
        os.makedirs(gwd)
        with phase(chk, "tlc-%s%d" % (inst, n)):
            gpath, st = edges.build_graph("OMap", cfg(keys, ["a", "b"], vals, niter, maxlen), gwd, init_state(niter),
                                          obs0={"size": 0, "entries": []}, timeout=1500)
        chk.add("states", st["states"])
        chk.add("transitions", st["transitions"])
        ad = ",".join(os.path.join(HARNESS, "adaptors", f) for f in ("omap_%s.js" % inst, "omap.js"))
        with phase(chk, "replay-%s%d" % (inst, n)):
            reps, crashes = rp.run_walkers(binp, gpath, gwd, ["-adaptor", ad], walks=400 if thorough else 30,
                                               walklen=80, timeout=1500)
        tot, nodes = rp.fold(chk, reps, crashes, "OMap/%s" % inst, {}, {"module": "OMap", "instance": inst,
                                                                            "keys": keys, "adaptor": ad})
        chk.add("edges_total", tot["edges"])
        chk.add("edges_replayed", tot["covered"])
        chk.add("distinct_nontrivial", tot["nontrivial"])
        chk.add("evaluations", tot["steps"])
        chk.add("abstract_states_reached_on_real_objects", nodes)
        traces += tot["tours"]
        if tot["covered"] + tot["lost_to_known"] < tot["edges"] and not chk.violations:
            raise Inconclusive("%s: %d of %d edges not replayed" % (inst, tot["edges"] - tot["covered"], tot["edges"]))
    chk.setcov("traces_validated_against_impl", traces)
    chk.setcov("exhaustive", True)
    chk.setcov("rule", "every transition TLC generates for OMap.tla under the listed constants is replayed on a real "
               "Map/Set along tours from a fresh object; an edge is non-trivial when it changes the abstract state "
               "or returns a non-default result")
    chk.assumptions += ["key representations a/b are produced by the adaptor (literal vs. parseFloat / Go-imported "
                        "string / -0 / -NaN)", "forEach with mutating callbacks is covered by the trace driver, not "
                        "by edge replay"]
