"""C20 (protocol half) — RegExp results do not depend on the matching engine or on the optimised path; indices are UTF-16
exact; invalid flags / patterns raise SyntaxError (RegExpProto.tla)."""
import json
import os

import edges
import replay as rp
from vlib import HARNESS, Inconclusive, go_build, phase, seed, workdir

CFG = """SPECIFICATION Spec
CONSTANTS
  Pats = {%(pats)s}
  FlagSets <- %(flags)s
  MaxLen = %(maxlen)d
  Extra <- %(extra)s
  CtorLen %(ctor)s
  Reps <- RepsAll
INVARIANTS LIRange PatOK ExecInv LoopInv SplitInv SearchInv
PROPERTIES FrozenLI Preserve GlobalReset Inside
ACTION_CONSTRAINT Emit
VIEW View
CHECK_DEADLOCK FALSE
"""
PATS = ["a", "ab", "(?:)", "b*", "b{0,2}", "a|b", ".", "^a", "a$", "astral", "loneH", "(a)|b", "(?<n>a)|b"]
INIT = {"pat": "none", "flags": "", "li": 0}
# the four configurations of the real engine every edge must hold in
CONFIGS = [("re2", False), ("regexp2", False), ("re2", True), ("regexp2", True)]


def q(xs):
    return ", ".join('"%s"' % x for x in xs)


def shards(thorough):
    """(name, patterns, flag menu, MaxLen, Extra, CtorLen). One TLC graph + 4 walker jobs per shard; the constructor
    checks (flag strings, syntax table) ride on the first shard only."""
    if not thorough:
        # one graph: all patterns x SUBSET {g,u,y} x (all subjects of length <= 2 + 19 longer ones with surrogate pairs)
        return [("all", PATS, "FlagMenu", 2, "ExtraQuick", 3)]
    out = []
    for n, p in enumerate(PATS):
        out.append((p, [p], "FlagMenuX", 4, "NoExtra", 3 if n == 0 else -1))
    return out


def _spread(chk):
    """Several independent defects can be open at once and only the first 40 violations get replay files: name the
    operation in the violation class and interleave the classes, so that every (configuration, operation) pair is shown."""
    groups = {}
    for what, payload in chk.violations:
        path = payload.get("path") or payload.get("paths_in_flight") or []
        op = "?"
        if isinstance(path, list) and path and isinstance(path[-1], dict):
            op = path[-1].get("op", "?")
        head, _, rest = what.partition(":")
        groups.setdefault((head, op), []).append(("%s op=%s:%s" % (head, op, rest), payload))
    out, k = [], 0
    while any(groups.values()):
        for key in sorted(groups):
            if groups[key]:
                out.append(groups[key].pop(0))
    chk.violations[:] = out
    if out:
        chk.setcov("violation_classes", sorted("%s op=%s" % k for k in groups))


def run(chk, tier):
    wd = workdir("C20")
    thorough = tier == "thorough"
    binp = os.path.join(wd, "jsreplay")
    go_build("jsreplay", binp)
    tours = 0
    for sn, (name, pats, fm, maxlen, extra, ctor) in enumerate(shards(thorough)):
        gwd = os.path.join(wd, "g%d" % sn)
        os.makedirs(gwd)
        cfg = CFG % dict(pats=q(pats), flags=fm, maxlen=maxlen, extra=extra, ctor=("= %d" % ctor) if ctor >= 0 else "<- NoCtor")
        with phase(chk, "tlc-%d" % sn):
            g, st = edges.build_graph("RegExpProto", cfg, gwd, INIT, obs0=INIT, workers=8, timeout=1500)
        chk.add("states", st["states"])
        chk.add("transitions", st["transitions"])
        jobs = []
        for engine, deopt in CONFIGS:
            tag = "%s-%s" % (engine, "generic" if deopt else "fast")
            pre = os.path.join(gwd, "prelude-%s.js" % tag)
            open(pre, "w").write("var RXCFG = %s;\n" % json.dumps({"engine": engine, "deopt": deopt}))
            ad = pre + "," + os.path.join(HARNESS, "adaptors", "regexp.js")
            jobs.append(dict(what="RegExpProto/%s engine=%s path=%s" % (name, engine, "generic" if deopt else "optimised"),
                             args=["-adaptor", ad], tag=tag, share=None,
                             meta={"module": "RegExpProto", "shard": name, "engine": engine, "deopt": deopt, "adaptor": ad}))
        with phase(chk, "replay-%d" % sn):
            results = rp.run_jobs(binp, g, gwd, jobs, conc=4, threads=4, walks=200 if thorough else 20, walklen=40,
                                  maxtour=40, timeout=2400)
        for job, (reps, crashes) in zip(jobs, results):
            tot, nodes = rp.fold(chk, reps, crashes, job["what"], {}, job["meta"])
            chk.add("edges_replayed", tot["covered"])
            chk.add("distinct_nontrivial", tot["nontrivial"])
            chk.add("evaluations", tot["steps"])
            chk.add("abstract_states_reached_on_real_objects", nodes)
            tours += tot["tours"]
            chk.cov.setdefault("variants", []).append(job["tag"] + "@" + name)
            if tot["covered"] + tot["lost_to_known"] < tot["mine"] and not chk.violations:
                raise Inconclusive("%s: %d of %d assigned edges not replayed" % (job["what"], tot["mine"] - tot["covered"], tot["mine"]))
        chk.add("edges_total", tot["edges"])
    _spread(chk)
    chk.setcov("traces_validated_against_impl", tours)
    chk.setcov("configurations", ["%s/%s" % (e, "generic" if d else "optimised") for e, d in CONFIGS])
    chk.setcov("exhaustive", True)
    chk.setcov("rule", "every transition of RegExpProto.tla (exec, test, String.prototype.match / matchAll / replace with 3 templates and a "
               "replacer function / search / split with and without limit, writes to lastIndex in {-1,0,1,2,9}; 11 patterns x %s flag sets x "
               "%s subjects over the code-unit classes a, b, high surrogate, low surrogate; constructor with every flag string of length <= 3 "
               "over gimsuy+x and a 29-row pattern-syntax table with and without u) replayed on real RegExp objects in four configurations: "
               "{pattern as is (Go regexp), neutral variant (?:P)(?=) (regexp2 only)} x {pristine RegExp.prototype (optimised paths), "
               "RegExp.prototype.exec wrapped (generic protocol paths)}, the configuration verified white-box at every step; compared: result "
               "(index, matched string, captures, replacer arguments, pieces; in the wrapped configurations also the number of RegExpExec calls), "
               "lastIndex and canonical flags after every step"
               % (("11 (SUBSET {g,u,y} + gi, my, su, gimsuy)", "all 341 of length <= 4 (40 for the flag sets with i, m, s)") if thorough
                  else ("8 (SUBSET {g,u,y})", "40 (all of length <= 2 + 19 longer ones with surrogate pairs)")))
    chk.assumptions += ["the matcher of the model is defined for the 11 menu patterns only: regular-expression engine semantics is not decided here",
                        "under u, a lastIndex between the halves of a surrogate pair is excluded where it would be honoured",
                        "the generic path is forced behaviourally (identity wrapper around RegExp.prototype.exec in a fresh runtime)"]


def replay(path):
    import subprocess
    wd = workdir("C20r")
    binp = os.path.join(wd, "jsreplay")
    go_build("jsreplay", binp)
    m = json.load(open(path))["replay"]
    ad = m.get("adaptor")
    if not ad or not os.path.exists(ad.split(",")[0]):
        pre = os.path.join(wd, "prelude.js")
        open(pre, "w").write("var RXCFG = %s;\n" % json.dumps({"engine": m.get("engine", "re2"), "deopt": bool(m.get("deopt"))}))
        ad = pre + "," + os.path.join(HARNESS, "adaptors", "regexp.js")
    r = subprocess.run([binp, "-replay", path, "-adaptor", ad], stdout=subprocess.PIPE, text=True)
    got = json.loads(r.stdout)
    print("configuration: engine=%s deopt=%s" % (m.get("engine"), m.get("deopt")))
    for l in m.get("path", []):
        print("   ", json.dumps(l))
    print("want res=%s\n     obs=%s" % (m.get("want_res"), m.get("want_obs")))
    print("got  res=%s\n     obs=%s %s" % (got["res"], got["obs"], got.get("panic", "")[:600]))
    if got["res"] == m.get("want_res") and got["obs"] == m.get("want_obs"):
        print("replay: agrees with the specification now")
        return 0
    print("VIOLATION property=C20 replay=%s" % path)
    return 1
