"""C16 — Programs and primitive values are shareable across goroutines without data races (Sharing.tla + race detector)."""
import json
import os
import random
import subprocess

import bindgen
import mjgen
from vlib import NCPU, Inconclusive, go_build, phase, run_tlc, seed, workdir

CFG = """SPECIFICATION Spec
CONSTANTS Procs = {%s}
 Lazy = "%s"
 MaxOps = %d
INVARIANTS TypeOK RaceFree Agree Immutable
ACTION_CONSTRAINT Emit
VIEW View
CHECK_DEADLOCK FALSE
"""


def run(chk, tier):
    wd = workdir("C16")
    thorough = tier == "thorough"
    procs = '"r1", "r2", "r3"' if thorough else '"r1", "r2"'
    with phase(chk, "tlc-sharing"):
        r = run_tlc("Sharing", CFG % (procs, "once", 2 if not thorough else 1), os.path.join(wd, "tlc"), timeout=1500)
        if r.violation or r.rc != 0:
            raise Inconclusive("TLC on Sharing.tla (Lazy = once): %s\n%s" % (r.violation, r.out[-2000:]))
    chk.add("states", r.distinct)
    chk.add("transitions", r.generated)
    scen = {}
    for l in r.lines:
        if isinstance(l, dict) and "obj" in l:
            scen[(l["obj"], l["o"], tuple(sorted(l["with"])))] = l
    # mutation control of the model: the unsynchronised lazy initialisation must be rejected by RaceFree
    with phase(chk, "tlc-sharing-plain"):
        r2 = run_tlc("Sharing", CFG % ('"r1", "r2"', "plain", 2), os.path.join(wd, "tlc2"), timeout=600)
    if not (r2.violation and "RaceFree" in r2.out):
        raise Inconclusive("Sharing.tla does not reject the unsynchronised design (Lazy = plain): the RaceFree invariant is vacuous")
    chk.setcov("model_rejects_unsynchronised_lazy_init", True)
    sp = os.path.join(wd, "scenarios.json")
    json.dump(sorted(scen.values(), key=lambda s: json.dumps(s, sort_keys=True)), open(sp, "w"))
    # generated programs (MiniJS + Bind families) compiled once and run concurrently as well
    rnd = random.Random(seed())
    srcs = []
    for i in range(60 if thorough else 12):
        p = mjgen.random_program(i, rnd, gen=(i % 3 == 2), maxd=3)
        srcs.append("var LOGS = []; function log(x) { LOGS.push(x) }\n" + mjgen.print_js(p) + ("\n" if p["gen"] else "\ntry { f() } catch (e) { log(-1) }\n") + "LOGS.join()")
        b = bindgen.random_program(i, rnd, 3)
        pre, src, mode = bindgen.print_js(b)
        srcs.append("var LOGS = []; function log(x) { LOGS.push(x) }\n" + src + "\ntry { LOGS.push(f()) } catch (e) { LOGS.push('t' + e) }\nLOGS.join()")
    pp = os.path.join(wd, "progs.json")
    json.dump(srcs, open(pp, "w"))
    binp = os.path.join(wd, "sharing")
    with phase(chk, "build-race"):
        go_build("sharing", binp, race=True, overlay=False, tags="")
    out = os.path.join(wd, "res.json")
    racelog = os.path.join(wd, "race")
    env = dict(os.environ, GORACE="log_path=%s halt_on_error=0 history_size=5" % racelog)
    with phase(chk, "scenarios-under-race-detector"):
        r = subprocess.run([binp, "-scenarios", sp, "-out", out, "-racelog", racelog, "-progs", pp, "-reps", "6" if thorough else "2",
                            "-goroutines", "16" if thorough else "4"], env=env, stdout=subprocess.PIPE, stderr=subprocess.PIPE, text=True, timeout=3000)
    if r.returncode not in (0, 66) or not os.path.exists(out):
        raise Inconclusive("sharing harness failed rc=%s: %s" % (r.returncode, r.stderr[-2000:]))
    res = json.load(open(out))
    seen = set()
    for f in res["findings"] or []:
        key = (f["kind"], f["detail"][:200] if f["kind"] != "race" else _race_key(f["detail"]))
        if key in seen:
            continue
        seen.add(key)
        chk.violation("%s in scenario [%s]: %s" % ({"race": "data race", "result": "result differs from the isolated run", "panic": "Go panic"}[f["kind"]],
                                                  f["scenario"][:300], f["detail"][:1200]),
                      {"module": "Sharing", "scenario": f["scenario"], "kind": f["kind"], "detail": f["detail"]})
    chk.setcov("traces_validated_against_impl", res["runs"])
    chk.setcov("scenarios_from_model", len(scen))
    chk.setcov("programs_shared", res["programs"])
    chk.setcov("goroutines_per_scenario", 16 if thorough else 4)
    chk.sample({"scenario_from_model": sorted(scen.values(), key=str)[0]})
    chk.setcov("rule", "TLC explores Sharing.tla (%s Runtimes, vector-clock happens-before, lazily initialised fields of imported strings behind sync.Once, "
               "line table behind a mutex, read-only program parts): RaceFree, Agree and Immutable hold in every interleaving, and the unsynchronised "
               "variant of the model is rejected (control). Every pair of operations the model finds concurrently in flight on one shared object becomes a "
               "scenario run under the Go race detector by %d goroutines with one Runtime each: 4 kinds of lazily scanned strings x 41 scanning / 5 raw "
               "operations, 9 primitive kinds x 9 operations, %d Programs (regexp literals, tagged templates, private names, dynamic scopes, folded constants, "
               "stack traces, async functions + generated MiniJS / Bind programs) compiled once; results compared with isolated runs; foreign Object => TypeError"
               % ("3" if thorough else "2", 16 if thorough else 4, res["programs"]))
    chk.assumptions += ["a race is only reported if the racing accesses are executed in one scenario run (the race detector is a dynamic happens-before check, not a proof)",
                        "fields the model does not list are covered only by the race detector on the executed scenarios"]


def _race_key(detail):
    """the first goja frame of each side of the report"""
    frames = [l.strip() for l in detail.splitlines() if l.strip().startswith("github.com/dop251/goja")]
    return "|".join(frames[:2])


def replay(path):
    m = json.load(open(path))["replay"]
    print("scenario:", m["scenario"])
    print(m["detail"][:3000])
    print("(re-run `bin/check C16` to execute the scenario again under the race detector)")
    wd = workdir("C16r")
    from vlib import Check
    chk = Check("C16", "model_checking", "quick")
    os.environ["VERIF_NO_EVIDENCE"] = "1"
    run(chk, "quick")
    hit = [w for w, p in chk.violations if p.get("kind") == m["kind"]]
    if hit:
        print("VIOLATION property=C16 replay=%s" % path)
        return 1
    print("replay: no %s found now" % m["kind"])
    return 0
