"""C07 — arrays behave as specification arrays regardless of dense / sparse storage (ObjArray.tla, ArrayOps.tla)."""
import json
import os

import edges
import replay as rp
from vlib import HARNESS, Inconclusive, go_build, phase, seed, workdir

CFG = """SPECIFICATION Spec
CONSTANTS
  N = 3
  DescSet <- MenuDescs
  PElems <- %(proto)s
  Vias = {%(vias)s}
INVARIANTS LenBound LenRange
PROPERTIES Essential NoGrow
ACTION_CONSTRAINT Emit
VIEW View
CHECK_DEADLOCK FALSE
"""
NONE = {"k": "none", "v": "-", "w": "-", "g": "-", "s": "-", "e": "-", "c": "-"}
INIT = {"el": {"0": NONE, "1": NONE, "2": NONE}, "len": 0, "lenW": "T", "ext": "T"}

VECTORS = [[0, 1, 2], [0, 1, 5000], [0, 4095, 4096], [3, 4097, 65536], [0, 65535, 2147483647],
           [1, 4294967293, 4294967294], [7, 20, 1000000]]


def variants(proto, thorough):
    v = []
    # quick: the identity embedding plus two others that rotate with VERIF_SEED (all seven in the thorough tier)
    rot = [VECTORS[1 + (seed() + k) % (len(VECTORS) - 1)] for k in (0, 3)]
    for c in VECTORS:
        for twin in ["dense", "sparse", "s2d"]:
            if not thorough and ((proto == "A" and c != VECTORS[0]) or (proto == "none" and c != VECTORS[0] and c not in rot)):
                continue
            v.append((c, twin, 0))
    v.append(([1200, 1300, 1400], "s2dlive", 1100))      # the first new element switches sparse -> dense
    # 9608 >> 3 = 1201: the array stays sparse while two elements are added and switches to dense at the third, so
    # elements defined while sparse (possibly non-configurable) are carried through sparseArrayObject.expand
    v.append(([1200, 1201, 9608], "s2dlive", 1200))
    return v


def run_objarray(chk, wd, binp, thorough, protos=("none", "A"), twins=None):
    """twins: restrict the replayed variants to these storage twins (C04 reuses the module for the storage transitions)"""
    tours = 0
    for proto, pname in [("none", "NoProto"), ("A", "ProtoA")]:
        if proto not in protos:
            continue
        gwd = os.path.join(wd, "arr-" + proto)
        os.makedirs(gwd)
        vias = ["obj", "refl", "sloppy", "strict"] if thorough else ["refl", "strict"] if proto == "none" else ["refl", "sloppy"]
        cfgtext = CFG % dict(proto=pname, vias=", ".join('"%s"' % x for x in vias))
        with phase(chk, "tlc-objarray-" + proto):
            g, st = edges.build_graph("ObjArray", cfgtext, gwd, INIT, obs0=INIT, timeout=1500)
        chk.add("states", st["states"])
        chk.add("transitions", st["transitions"])
        jobs = []
        for n, (c, twin, base) in enumerate(variants(proto, thorough)):
            if twins and twin not in twins:
                continue
            pre = os.path.join(gwd, "prelude-%d.js" % n)
            open(pre, "w").write("var CFG = %s;\n" % json.dumps({"c": c, "twin": twin, "proto": proto, "base": base}))
            share = None if thorough else (seed() + n, 4 if twin == "s2dlive" else 16)
            jobs.append(dict(what="ObjArray proto=%s c=%s twin=%s" % (proto, c, twin), tag="a%d" % n, share=share,
                             args=["-adaptor", pre + "," + os.path.join(HARNESS, "adaptors", "objarray.js")],
                             meta={"module": "ObjArray", "proto": proto, "c": c, "twin": twin, "base": base}))
        with phase(chk, "replay-objarray-" + proto):
            results = rp.run_jobs(binp, g, gwd, jobs, walks=200 if thorough else 10, walklen=60, timeout=2400)
        for job, (reps, crashes) in zip(jobs, results):
            tot, nodes = rp.fold(chk, reps, crashes, job["what"], {}, job["meta"])
            chk.add("edges_replayed", tot["covered"])
            chk.add("distinct_nontrivial", tot["nontrivial"])
            chk.add("evaluations", tot["steps"])
            tours += tot["tours"]
            chk.setcov("edges_per_graph_objarray_" + proto, tot["edges"])
            if tot["covered"] + tot["lost_to_known"] < tot["mine"] and not chk.violations:
                raise Inconclusive("%s: %d of %d assigned edges not replayed" % (job["what"], tot["mine"] - tot["covered"], tot["mine"]))
    return tours


def run(chk, tier):
    wd = workdir("C07")
    thorough = tier == "thorough"
    binp = os.path.join(wd, "jsreplay")
    go_build("jsreplay", binp)
    tours = run_objarray(chk, wd, binp, thorough)
    # the Array.prototype methods: ArrayOps.tla (own module, same twin replay)
    from checks import c07b
    from vlib import probe_known
    c07b.run(chk, tier)
    jsrun = os.path.join(wd, "jsrun")
    go_build("jsrun", jsrun)
    probe_known(chk, jsrun, wd)
    tours += chk.cov.get("traces_validated_against_impl", 0)
    chk.setcov("arrayops_rule", chk.cov.get("rule", ""))
    chk.setcov("traces_validated_against_impl", tours)
    chk.setcov("exhaustive", thorough)
    chk.setcov("rule", "(1) every transition of ArrayOps.tla, see arrayops_rule; (2) every transition of ObjArray.tla (3 abstract indices, element descriptor menu, ArraySetLength with every "
               "value/writable combination, prototype with indexed properties) replayed on real arrays under 7 order-preserving "
               "index embeddings x {dense, forced sparse, sparse->dense} twins; quick tier replays a rotating sixteenth of the edges per variant")


def replay(path):
    import subprocess
    d = json.load(open(path))
    m = d["replay"]
    if str(m.get("module", "")).startswith("ArrayOps"):
        from checks import c07b
        return c07b.replay(path)
    wd = workdir("C07r")
    binp = os.path.join(wd, "jsreplay")
    go_build("jsreplay", binp)
    pre = os.path.join(wd, "prelude.js")
    open(pre, "w").write("var CFG = %s;\n" % json.dumps({"c": m["c"], "twin": m["twin"], "proto": m["proto"], "base": m.get("base", 0)}))
    r = subprocess.run([binp, "-replay", path, "-adaptor", pre + "," + os.path.join(HARNESS, "adaptors", "objarray.js")],
                       stdout=subprocess.PIPE, text=True)
    got = json.loads(r.stdout)
    for l in m.get("path", []):
        print("   ", json.dumps(l))
    print("want res=%s\n     obs=%s" % (m.get("want_res"), m.get("want_obs")))
    print("got  res=%s\n     obs=%s %s" % (got["res"], got["obs"], got.get("panic", "")))
    if got["res"] == m.get("want_res") and got["obs"] == m.get("want_obs"):
        print("replay: agrees with the specification now")
        return 0
    print("VIOLATION property=%s replay=%s" % (d.get("property", "C07"), path))
    return 1
