"""C15 — an interrupt from any goroutine at any moment stops the script promptly and cleanly.
Interrupt.tla (two-goroutine protocol, safety + liveness) model-checked; the engine's executions with interrupts at
every probe point, while idle, and asynchronously from another goroutine (race detector build) validated against
VMTrace.tla plus the per-run oracles (error carries the value, nothing logged after the interrupt, reusable)."""
import json
import os
import random

import mjgen
from checks import c03
from vlib import NCPU, Inconclusive, go_build, phase, run_tlc, seed, workdir

ICFG = """SPECIFICATION Spec
CONSTANTS
  NI = %d
  MaxInstr = %d
  MaxRuns = 2
  MaxClear = 1
  PollEvery = %d
INVARIANTS Prompt CarriesSetValue ErrFromStarted IdleClean
PROPERTIES NestedKeepsFlag Stops
CHECK_DEADLOCK FALSE
"""

LOOPS = [
    "function f(){ var s=0; for (var i=0;i<1e9;i++) { s+=i } }",
    "function f(){ var a=[]; for (;;) { try { a.push(1); if (a.length>1000) a.length=0 } finally { a.length } } }",
    "function f(){ function* g(){ for(;;) yield 1 } for (var x of g()) { } }",
    "function f(){ var o={get x(){ return 1 }}; for(;;){ o.x; [3,1,2].sort(function(a,b){return a-b}) } }",
    "function f(){ (async function(){ for(;;) { await null } })(); }",
    "function f(){ function r(n){ return n>0 ? r(n-1) : 0 } for(;;) r(50) }",
    "function f(){ var p=Promise.resolve(); function again(){ p.then(again) } again(); }",
]


def run(chk, tier):
    wd = workdir("C15")
    thorough = tier == "thorough"
    with phase(chk, "tlc-interrupt"):
        r = run_tlc("Interrupt", ICFG % (2, 5 if thorough else 4, 1), os.path.join(wd, "i1"), timeout=1200)
        if not r.ok:
            chk.violation("Interrupt.tla: %s" % r.violation, {"module": "Interrupt", "tlc": r.out[-3000:]})
        chk.add("states", r.distinct)
        chk.add("transitions", r.generated)
        # vacuity control: polling only every 3rd instruction must violate Prompt
        r2 = run_tlc("Interrupt", ICFG % (2, 4, 3), os.path.join(wd, "i2"), timeout=600)
        if r2.ok or "Prompt" not in (r2.violation or "") + r2.out:
            raise Inconclusive("Interrupt.tla did not detect the poll-every-3 mutation: the Prompt invariant is vacuous")
    binp = os.path.join(wd, "vmtrace")
    go_build("vmtrace", binp)
    rnd = random.Random(seed())
    base = []
    for i in range(300 if thorough else 50):
        p = mjgen.random_program(i, rnd, gen=(i % 3 == 2), maxd=2 + i % 2)
        base.append({"gen": p["gen"], "src": mjgen.print_js(p, probes=True)})
    for s in c03.SCENARIOS:
        base.append({"gen": 0, "src": s})
    jobs0 = [dict(b, id=i, fault="", at=0, after="") for i, b in enumerate(base)]
    res0 = c03.run_jobs(binp, jobs0, wd, "p0", trace=False)
    fresh = c03.run_jobs(binp, [dict(id=0, gen=0, src="function f(){}", fault="", at=0, after=c03.AFTER)], wd, "fresh", trace=False)[0]
    want_after = fresh["after_log"]
    jobs = []
    cap = 60 if thorough else 15
    for i, b in enumerate(base):
        ks = list(range(1, res0[i]["probes"] + 1))
        if len(ks) > cap:
            ks = sorted(rnd.sample(ks, cap))
        for n, k in enumerate(ks):
            pre = ["", "idleintclear"][n % 2]
            jobs.append(dict(b, id=len(jobs), fault="interrupt", at=k, after=c03.AFTER, pre=pre, entry="new" if (b["gen"] == 0 and n % 3 == 2) else ""))
        jobs.append(dict(b, id=len(jobs), fault="", at=0, after=c03.AFTER, pre="idleint"))
    # programs whose FIRST instruction has an effect (global declaration instantiation): after an Interrupt while idle not even that runs
    for src in ("let lex0 = 5; var declared0 = 1; 2", "var declared0 = 1; declared0 = 2;", "class lex0 {}; var declared0;", "const lex0 = 1; function declared0() {}"):
        jobs.append(dict(gen=1, src=src, id=len(jobs), fault="", at=0, after=c03.AFTER, pre="idleint"))
    with phase(chk, "deterministic-interrupts"):
        res = c03.run_jobs(binp, jobs, wd, "det", trace=True)
    for j, r in zip(jobs, res):
        what = None
        if r.get("panic"):
            what = "host panic: %s" % r["panic"][:200]
        elif j["pre"] == "idleint":
            if r["outcome"] == "exception" and str(r.get("err", "")).startswith("SyntaxError"):
                # the scenario text did not compile: nothing ran, so the property says nothing about this execution. The scenario
                # texts are valid programs (a rejection is a C01 matter and is reported there); do not guess here.
                raise Inconclusive("scenario %d is rejected by the compiler (%s): the idle-interrupt expectation does not apply" % (j["id"], r["err"][:160]))
            if r["outcome"] != "interrupted" or r["probes"] != 0 or r["log"]:
                what = "Interrupt while idle: the next call must fail at once (outcome %s, %d probes ran, log %s)" % (r["outcome"], r["probes"], r["log"][:5])
            elif r.get("int_val") != "idle-injected":
                what = "InterruptedError carries %r, not the value passed to Interrupt" % r.get("int_val")
        elif r["probes"] >= j["at"]:
            if r["outcome"] != "interrupted":
                what = "interrupt at probe %d: outcome %s" % (j["at"], r["outcome"])
            elif r.get("int_val") != "injected":
                what = "InterruptedError carries %r, not the value passed to Interrupt" % r.get("int_val")
            elif len(r["log"]) != r["fault_log"]:
                what = "script code ran after the interrupt: %d log entries at the interrupt, %d at the end" % (r["fault_log"], len(r["log"]))
        if not what and not r["idle"]:
            what = "runtime not idle afterwards: %s" % r["regs"]
        if not what and (r["after_log"] != want_after or r.get("after_err")):
            what = "runtime not reusable: next script logged %s (err %s)" % (r["after_log"], r.get("after_err"))
        if what:
            chk.violation("%s [pre=%s]" % (what, j["pre"]), {"module": "VMTrace", "job": j, "result": r})
    with phase(chk, "trace-validation"):
        st, ev, rej = c03.validate_traces(os.path.join(wd, "det-trace"), wd, chk, jobs)
    chk.add("states", st)
    chk.add("transitions", ev)
    # asynchronous interrupts from a second goroutine, race detector on
    with phase(chk, "async-race"):
        rbin = os.path.join(wd, "vmtrace-race")
        go_build("vmtrace", rbin, race=True)
        ajobs = []
        for n in range(400 if thorough else 60):
            src = LOOPS[n % len(LOOPS)]
            ajobs.append(dict(id=n, gen=0, src=src, fault="", at=0, after=c03.AFTER, pre="", async_us=rnd.choice([1, 10, 50, 200, 1000, 3000])))
        env_res = c03.run_jobs(rbin, ajobs, wd, "async", trace=True)
        for j, r in zip(ajobs, env_res):
            what = None
            if r.get("panic"):
                what = "host panic: %s" % r["panic"][:200]
            elif r["outcome"] != "interrupted" or r.get("int_val") != "async-injected":
                what = "asynchronous interrupt: outcome %s value %r" % (r["outcome"], r.get("int_val"))
            elif not r["idle"]:
                what = "runtime not idle afterwards: %s" % r["regs"]
            elif r["after_log"] != want_after or r.get("after_err"):
                what = "runtime not reusable: next script logged %s (err %s)" % (r["after_log"], r.get("after_err"))
            if what:
                chk.violation("%s [async %dus] %s" % (what, j["async_us"], j["src"][:60]), {"module": "VMTrace", "job": j, "result": r})
        st2, ev2, rej2 = c03.validate_traces(os.path.join(wd, "async-trace"), wd, chk, ajobs)
        chk.add("states", st2)
        chk.add("transitions", ev2)
    chk.setcov("traces_validated_against_impl", len(jobs) + len(ajobs))
    chk.setcov("evaluations", len(jobs) + len(ajobs))
    chk.setcov("distinct_nontrivial", len(jobs) + len(ajobs))
    chk.sample({"job": {k: jobs[0].get(k) for k in ("fault", "at", "pre")}, "src": jobs[0]["src"][-300:]})
    chk.setcov("rule", "Interrupt.tla: all interleavings of 2 interrupters + 1 ClearInterrupt with <= 4-5 VM instructions, nesting 2, 2 runs (safety + "
               "liveness; the poll-every-3 mutation must violate Prompt). Engine: Interrupt(v) at every probe point of generated and hand-written "
               "programs (with / without a preceding idle Interrupt+ClearInterrupt), Interrupt while idle, and asynchronous Interrupts at random "
               "delays against 7 long-running loops in a -race build; each execution's VM trace is validated against VMTrace.tla")


def replay(path):
    return c03.replay(path)
