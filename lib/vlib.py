"""Shared plumbing for the /verif checks: scratch dirs, TLC/Go invocation, evidence, verdicts.

Exit codes of a check: 0 property held on everything explored (KNOWN-FINDING lines allowed),
1 violation (prints `VIOLATION property=<id> replay=<path>`), 2 inconclusive (tool error, timeout,
dead driver, unreproduced counterexample).
"""
import atexit
import json
import os
import re
import shutil
import subprocess
import sys
import time

VERIF = os.path.dirname(os.path.dirname(os.path.abspath(__file__)))
REPO = os.environ.get("VERIF_REPO", "/repo")
SPECS = os.path.join(VERIF, "specs")
HARNESS = os.path.join(VERIF, "harness")
EVID = os.path.join(VERIF, "evidence")
REPLAY_DIR = os.path.join(EVID, "replay") if not os.environ.get("VERIF_NO_EVIDENCE") else "/tmp/verif-seeded-replay"
NCPU = os.cpu_count() or 4


class Inconclusive(Exception):
    pass


def seed():
    try:
        return int(os.environ.get("VERIF_SEED", "1"))
    except ValueError:
        return 1


_work = None


def workdir(tag):
    """Scratch directory under /verif/.work, removed at exit."""
    global _work
    if _work is None:
        _work = os.path.join(VERIF, ".work", "%s-%d" % (tag, os.getpid()))
        shutil.rmtree(_work, ignore_errors=True)
        os.makedirs(_work)
        if not os.environ.get("VERIF_KEEP"):
            atexit.register(lambda: shutil.rmtree(_work, ignore_errors=True))
    return _work


def goenv():
    env = dict(os.environ)
    env["GOFLAGS"] = "-mod=mod"
    env["GOPROXY"] = "off"
    env.pop("GOSUMDB", None)
    env.pop("GOTOOLCHAIN", None)  # default: auto switch to the cached go1.25.0 that /repo asks for
    return env


def sh(cmd, **kw):
    return subprocess.run(cmd, **kw)


_harness_copy = None


def harness_dir():
    """The Go harness module. With VERIF_REPO set (seeded-mutation experiments on a scratch worktree) a private copy
    whose go.mod points at that tree is used, so /repo itself is never touched."""
    global _harness_copy
    if REPO == "/repo":
        return HARNESS
    if _harness_copy is None:
        _harness_copy = os.path.join(workdir("x"), "harness")
        shutil.copytree(HARNESS, _harness_copy)
        gm = os.path.join(_harness_copy, "go.mod")
        txt = open(gm).read().replace("=> /repo", "=> " + REPO)
        open(gm, "w").write(txt)
    return _harness_copy


def go_build(pkg, out, tags="verif", overlay=True, race=False):
    """Build harness/cmd/<pkg> against the repository's current working tree (hooks on)."""
    hd = harness_dir()
    gosum = os.path.join(hd, "go.sum")
    try:
        src = open(os.path.join(REPO, "go.sum")).read()
        if not os.path.exists(gosum) or open(gosum).read() != src:
            open(gosum, "w").write(src)
    except OSError:
        pass
    cmd = ["go", "build"]
    if tags:
        cmd += ["-tags", tags]
    if race:
        cmd += ["-race"]
    if overlay:
        ov = os.path.join(workdir("x"), "overlay.json")
        inj = os.path.join(HARNESS, "inject")
        rep = {}
        for f in sorted(os.listdir(inj)):
            if f.endswith(".go"):
                rep[os.path.join(REPO, "zz_verif_" + f)] = os.path.join(inj, f)
        json.dump({"Replace": rep}, open(ov, "w"))
        cmd += ["-overlay", ov]
    cmd += ["-o", out, "./cmd/" + pkg]
    t0 = time.time()
    r = sh(cmd, cwd=hd, env=goenv(), stdout=subprocess.PIPE, stderr=subprocess.STDOUT, text=True)
    if r.returncode != 0:
        raise Inconclusive("go build %s failed:\n%s" % (pkg, r.stdout[-4000:]))
    return time.time() - t0


TLC_JAR = "/opt/veriftools/tla/tla2tools.jar:/opt/veriftools/tla/CommunityModules-deps.jar"


class TlcResult:
    def __init__(self):
        self.generated = 0
        self.distinct = 0
        self.depth = 0
        self.ok = False
        self.violation = None
        self.out = ""
        self.wall = 0.0
        self.lines = []


def run_tlc(spec, cfg, wd, workers=None, timeout=600, env_extra=None, heap="8g", simulate=None,
            depth=None, seed_=None, keep_lines=True, line_cb=None, coverage=False, dfs=False, xss="64m",
            edge_file=None):
    """Run TLC on specs/<spec>.tla with config text or file `cfg` in scratch dir `wd`.

    Every module file of /verif/specs is copied into wd first. Lines that are JSON string literals
    (PrintT(ToJson(..)) output) are decoded and passed to line_cb / collected in .lines."""
    os.makedirs(wd, exist_ok=True)
    for f in os.listdir(SPECS):
        if f.endswith(".tla"):
            shutil.copy(os.path.join(SPECS, f), wd)
    cfgpath = os.path.join(wd, spec + "_run.cfg")
    if os.path.exists(os.path.join(SPECS, cfg)):
        shutil.copy(os.path.join(SPECS, cfg), cfgpath)
    else:
        open(cfgpath, "w").write(cfg)
    jtmp = os.path.join(wd, "jtmp")
    os.makedirs(jtmp, exist_ok=True)
    jopts = "-Xmx%s -Xss%s -XX:+UseParallelGC -Djava.io.tmpdir=%s" % (heap, xss, jtmp)       # nothing is left under /tmp
    if dfs:
        jopts += " -Dtlc2.tool.queue.IStateQueue=StateDeque"
    cmd = ["timeout", str(int(timeout)), "java"] + jopts.split() + ["-cp", TLC_JAR, "tlc2.TLC",
           "-workers", str(workers or NCPU), "-metadir", os.path.join(wd, "md-" + spec),
           "-config", cfgpath, "-noGenerateSpecTE"]
    if simulate:
        cmd += ["-simulate", simulate]
    if depth:
        cmd += ["-depth", str(depth)]
    if seed_ is not None:
        cmd += ["-seed", str(seed_)]
    if coverage:
        cmd += ["-coverage", "1"]
    cmd += [os.path.join(wd, spec + ".tla")]
    env = dict(os.environ)
    env.pop("JAVA_TOOL_OPTIONS", None)
    if env_extra:
        env.update(env_extra)
    res = TlcResult()
    t0 = time.time()
    p = subprocess.Popen(cmd, cwd=wd, env=env, stdout=subprocess.PIPE, stderr=subprocess.STDOUT, text=True,
                         bufsize=1 << 20)
    tail = []
    ef = open(edge_file, "w") if edge_file else None
    res.edge_lines = 0
    for line in p.stdout:
        if ef is not None and line.startswith('"'):
            ef.write(line)
            res.edge_lines += 1
            continue
        if line.startswith('"'):
            try:
                v = json.loads(json.loads(line))
            except ValueError:
                tail.append(line)
                continue
            if line_cb:
                line_cb(v)
            elif keep_lines:
                res.lines.append(v)
            continue
        tail.append(line)
        if len(tail) > 400:
            del tail[:200]
        m = re.match(r"(\d+) states generated, (\d+) distinct states found", line)
        if m:
            res.generated, res.distinct = int(m.group(1)), int(m.group(2))
        m = re.match(r"The depth of the complete state graph search is (\d+)", line)
        if m:
            res.depth = int(m.group(1))
        if "Model checking completed. No error has been found" in line:
            res.ok = True
        if line.startswith("Error:") and res.violation is None:
            res.violation = line.strip()
    rc = p.wait()
    if ef is not None:
        ef.close()
    res.wall = time.time() - t0
    res.out = "".join(tail)
    res.rc = rc
    if simulate and rc == 0:
        res.ok = True
    if rc == 124:
        raise Inconclusive("TLC timeout on %s after %ds" % (spec, timeout))
    return res


def tlc_must_pass(res, what):
    if not res.ok:
        raise Inconclusive("TLC did not complete cleanly on %s (rc=%s): %s\n%s" % (what, res.rc, res.violation, res.out[-3000:]))


def canon(v):
    return json.dumps(v, sort_keys=True, separators=(",", ":"))


def load_known(pid):
    """known_findings.json: {"findings":[{"property":..,"id":..,"what":..,"match":{...}}], "fixed":[...]}"""
    p = os.path.join(VERIF, "known_findings.json")
    if not os.path.exists(p):
        return []
    d = json.load(open(p))
    return [f for f in d.get("findings", []) if pid in f.get("properties", [f.get("property")])]


def probe_known(chk, jsrun, wd):
    """Known findings that are identified by specific inputs carry a `probe`: a JavaScript expression over exactly those inputs
    that is true while the defect is present. Each finding still present is reported as KNOWN-FINDING (never as a violation);
    the inputs are excluded from the model replay by the specification itself, everything else is still decided."""
    for f in chk.known:
        js = (f.get("probe") or {}).get("js")
        if not js:
            continue
        src = os.path.join(wd, "probe-%s.js" % f["id"])
        open(src, "w").write("String(!!(%s))" % js)
        r = subprocess.run([jsrun, src], stdout=subprocess.PIPE, stderr=subprocess.STDOUT, text=True, timeout=60)
        out = r.stdout.strip().splitlines()[-1] if r.stdout.strip() else ""
        if out == "true":
            chk.known_hit(f["id"], f["what"])
        elif out == "false":
            chk.notes.append("finding %s no longer reproduces on this tree" % f["id"])
        else:
            raise Inconclusive("probe of finding %s failed: %s" % (f["id"], r.stdout[-300:]))


class phase:
    """with phase(chk, "name"): ... records wall time per phase in the evidence."""

    def __init__(self, chk, name):
        self.chk, self.name = chk, name

    def __enter__(self):
        self.t = time.time()

    def __exit__(self, *a):
        self.chk.cov.setdefault("phase_wall_s", {})[self.name] = round(time.time() - self.t, 1)
        if os.environ.get("VERIF_VERBOSE"):
            print("  phase %s: %.1fs" % (self.name, time.time() - self.t), flush=True)


class Check:
    """Collects verdict + evidence for one property run."""

    def __init__(self, pid, level, tier):
        self.pid = pid
        self.level = level
        self.tier = tier
        self.t0 = time.time()
        self.cov = {}
        self.assumptions = []
        self.violations = []      # (what, replay_payload)
        self.known_hits = {}      # finding id -> (what, count)
        self.known = load_known(pid)
        self.notes = []

    def add(self, key, n):
        self.cov[key] = self.cov.get(key, 0) + n

    def setcov(self, key, v):
        self.cov[key] = v

    def sample(self, s, cap=6):
        l = self.cov.setdefault("samples", [])
        if len(l) < cap:
            l.append(s)

    def violation(self, what, payload):
        self.violations.append((what, payload))

    def known_hit(self, fid, what):
        w, c = self.known_hits.get(fid, (what, 0))
        self.known_hits[fid] = (w, c + 1)

    def finish(self):
        os.makedirs(REPLAY_DIR, exist_ok=True)
        for f in os.listdir(REPLAY_DIR):
            if f.startswith("%s-%s-" % (self.pid, self.tier)):
                os.unlink(os.path.join(REPLAY_DIR, f))
        for fid, (what, c) in sorted(self.known_hits.items()):
            print("KNOWN-FINDING: property=%s %s (finding %s, %d occurrence(s) this run)" % (self.pid, what, fid, c))
        rc = 0
        vio_paths = []
        shown = {}
        for i, (what, payload) in enumerate(self.violations[:40]):
            path = os.path.join(REPLAY_DIR, "%s-%s-%d.json" % (self.pid, self.tier, i))
            json.dump({"property": self.pid, "what": what, "replay": payload}, open(path, "w"), indent=1)
            cls = what.split(":")[0]
            shown[cls] = shown.get(cls, 0) + 1
            if shown[cls] <= 3:
                print("VIOLATION property=%s replay=%s" % (self.pid, path))
                print("  " + what[:900])
            rc = 1
        for cls, n in shown.items():
            if n > 3:
                print("  ... %d more violation(s) of class '%s' (replay files written)" % (n - 3, cls))
        ev = {
            "property_id": self.pid,
            "tier": self.tier,
            "seed": seed(),
            "level": self.level,
            "coverage": self.cov,
            "assumptions": self.assumptions,
            "wall_s": round(time.time() - self.t0, 2),
            "violations": len(self.violations),
        }
        if self.known_hits:
            ev["coverage"]["known_findings_hit"] = {k: v[1] for k, v in self.known_hits.items()}
        if self.notes:
            ev["coverage"]["notes"] = self.notes
        ev["coverage"].setdefault("samples", [])
        os.makedirs(EVID, exist_ok=True)
        if not os.environ.get("VERIF_NO_EVIDENCE"):
            json.dump(ev, open(os.path.join(EVID, self.pid + ".json"), "w"), indent=1)
        print("%s %s: %s in %.1fs; coverage: %s" % (
            self.pid, self.tier, "VIOLATIONS=%d" % len(self.violations) if rc else
            ("INCONCLUSIVE (exit 2, no verdict)" if any(str(n).startswith("inconclusive") for n in self.notes) else "ok"),
            time.time() - self.t0,
            {k: v for k, v in self.cov.items() if isinstance(v, (int, float, bool))}))
        return rc


def run_child(cmd, timeout, cwd=None, env=None, stdin_data=None):
    """Run a replayer child; returns (rc, stdout, stderr). rc -9 etc. on signal; 124 on timeout."""
    try:
        r = subprocess.run(cmd, cwd=cwd, env=env, input=stdin_data, stdout=subprocess.PIPE,
                           stderr=subprocess.PIPE, text=True, timeout=timeout)
        return r.returncode, r.stdout, r.stderr
    except subprocess.TimeoutExpired as e:
        return 124, (e.stdout or b"").decode("utf8", "replace") if isinstance(e.stdout, bytes) else (e.stdout or ""), "timeout"
