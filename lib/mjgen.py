"""MiniJS program generator + JavaScript printer (binding C).

A program is a node table understood by specs/MiniJS.tla; print_js() emits the same tree as JavaScript.
Generators: random (seeded, depth-bounded) and systematic (all nestings of two or three constructs with one abrupt
completion of each kind at every statement position)."""
import itertools
import json
import random
import re


class B:
    """node table builder"""

    def __init__(self, gen=False):
        self.nodes = []
        self.nid = 0
        self.tryid = 0
        self.lblid = 0
        self.itid = 0
        self.gen = gen

    def new(self, t, **kw):
        n = dict(t=t, a=0, b=0, c=0, n=0, l=0, nx=0, nt=0, k=0, fk=0)
        n.update(kw)
        self.nodes.append(n)
        return len(self.nodes)

    def chain(self, ids):
        ids = [i for i in ids if i]
        for i in range(len(ids) - 1):
            self.nodes[ids[i] - 1]['nx'] = ids[i + 1]
        return ids[0] if ids else 0

    def block(self, ids):
        b = self.new('block')
        self.nodes[b - 1]['a'] = self.chain(ids)
        return b

    def log(self):
        self.nid += 1
        return self.new('log', n=self.nid)

    def iterdesc(self, rnd):
        self.itid += 1
        return dict(n=rnd.randint(0, 2), b=rnd.randint(0, 1), c=rnd.choice([0, 0, 1]), l=self.itid,
                    nt=rnd.choice([0, 0, 0, 1, 2, 3]))


class RandomGen:
    def __init__(self, rnd, gen=False, maxd=3, focus=None):
        self.rnd = rnd
        self.b = B(gen)
        self.maxd = maxd
        self.focus = focus        # "abrupt": generator bodies dominated by try/finally around yield / yield*

    def stmts(self, d, ctx, maxn=3):
        return [self.stmt(d, ctx) for _ in range(self.rnd.randint(0, maxn))]

    def block(self, d, ctx):
        return self.b.block(self.stmts(d, ctx))

    def stmt(self, d, ctx):
        r, b = self.rnd, self.b
        choices = ['log', 'log', 'throw', 'return']
        if b.gen:
            choices += ['yield', 'yield', 'yield']
        if ctx['inloop'] or ctx['insw']:
            choices += ['break']
        if ctx['inloop']:
            choices += ['continue']
        if ctx['labels']:
            choices += ['lbreak']
        if any(il for _, il in ctx['labels']):
            choices += ['lcontinue']
        if d > 0:
            choices += ['try', 'try', 'try', 'loop', 'forof', 'forof', 'label', 'block', 'if', 'switch', 'consume', 'destr']
            if b.gen:
                choices += ['ystar']
                if self.focus == 'abrupt':
                    choices += ['ystar', 'ystar', 'try', 'try', 'try']
        c = r.choice(choices)
        if c == 'log':
            return b.log()
        if c == 'yield':
            return b.new('yield', n=r.randint(1, 9))
        if c == 'throw':
            return b.new('throw', n=r.randint(1, 9))
        if c == 'return':
            return b.new('return', n=r.randint(1, 9))
        if c == 'break':
            return b.new('break')
        if c == 'continue':
            return b.new('continue')
        if c == 'lbreak':
            return b.new('break', l=r.choice(ctx['labels'])[0])
        if c == 'lcontinue':
            return b.new('continue', l=r.choice([l for l, il in ctx['labels'] if il]))
        if c == 'block':
            return self.block(d - 1, ctx)
        if c == 'if':
            i = b.new('if', n=r.randint(0, 1))
            b.nodes[i - 1]['a'] = b.chain(self.stmts(d - 1, ctx, 2))
            if r.random() < 0.5:
                b.nodes[i - 1]['b'] = b.chain(self.stmts(d - 1, ctx, 2))
            return i
        if c == 'try':
            b.tryid += 1
            t = b.new('try', n=b.tryid)
            kind = r.choice(['c', 'f', 'cf'] + (['f', 'f', 'cf'] if self.focus == 'abrupt' else []))
            a = self.block(d - 1, ctx)
            bb = self.block(d - 1, ctx) if 'c' in kind else 0
            cc = self.block(d - 1, ctx) if 'f' in kind else 0
            b.nodes[t - 1].update(a=a, b=bb, c=cc)
            return t
        if c in ('loop', 'forof'):
            return self.loop(d, ctx, c, None)
        if c == 'switch':
            s = b.new('switch', n=r.randint(1, 3))
            ctx2 = dict(ctx, insw=True)
            cases = []
            vals = r.sample([1, 2, 3, 0], r.randint(1, 3))
            for v in vals:
                cs = b.new('case', n=v)
                b.nodes[cs - 1]['a'] = b.chain(self.stmts(d - 1, ctx2, 2))
                cases.append(cs)
            b.nodes[s - 1]['a'] = b.chain(cases)
            return s
        if c == 'consume':
            return b.new('consume', k=r.randint(0, 6), **b.iterdesc(r))
        if c == 'destr':
            return b.new('destr', k=r.randint(0, 3), **b.iterdesc(r))
        if c == 'ystar':
            return b.new('ystar', k=r.randint(0, 2), **b.iterdesc(r))
        if c == 'label':
            b.lblid += 1
            lid = b.lblid
            L = b.new('label', l=lid)
            if r.random() < 0.6:
                w = self.loop(d, ctx, r.choice(['loop', 'forof']), lid)
                b.nodes[L - 1]['a'] = w
            else:
                ctx2 = dict(ctx, labels=ctx['labels'] + [(lid, False)])
                b.nodes[L - 1]['a'] = self.block(d - 1, ctx2)
            return L
        raise AssertionError(c)

    def loop(self, d, ctx, kind, lid):
        r, b = self.rnd, self.b
        labels = ctx['labels'] + ([(lid, True)] if lid else [])
        ctx2 = dict(inloop=True, insw=False, labels=labels)
        if kind == 'loop':
            w = b.new('loop', n=r.randint(0, 2), c=r.choice([0, 0, 1]), k=r.randint(0, 3))
        else:
            w = b.new('forof', **b.iterdesc(r))
        b.nodes[w - 1]['a'] = self.block(d - 1, ctx2)
        return w


def random_program(pid, rnd, gen=False, maxd=3, focus=None):
    g = RandomGen(rnd, gen, maxd, focus)
    root = g.b.block(g.stmts(maxd, dict(inloop=False, insw=False, labels=[]), 4))
    ops = []
    if gen:
        menu = ['next', 'next', 'next', 'throw', 'return'] if focus != 'abrupt' else ['next', 'next', 'throw', 'return', 'return']
        ops = [dict(op=rnd.choice(menu), v=rnd.randint(1, 9), ctx=rnd.choice([0, 0, 1, 2, 3, 4]))
               for _ in range(rnd.randint(1, 6) if focus != 'abrupt' else rnd.randint(2, 6))]
    return dict(id=pid, root=root, nodes=g.b.nodes, gen=1 if gen else 0, ops=ops)


def with_fault(prog, pid, rnd):
    """A copy of prog in which one abrupt statement (or one scripted iterator failure) is replaced by an uncatchable condition:
    interrupt (kind 1), stack overflow (2) or foreign Go panic (3). None if the program has no candidate site."""
    nodes = [dict(n) for n in prog['nodes']]
    for n in nodes:
        n.setdefault('fk', 0)
    sites = [i for i, n in enumerate(nodes) if n['t'] in ('throw', 'return', 'break', 'continue')]
    isites = [i for i, n in enumerate(nodes) if n['t'] in ('forof', 'consume', 'destr', 'ystar') and (n['nt'] or (n['b'] and n['c']))]
    if not sites and not isites:
        sites = [i for i, n in enumerate(nodes) if n['t'] == 'log']
        if not sites:
            return None
    kind = rnd.randint(1, 3)
    if isites and (not sites or rnd.random() < 0.4):
        nodes[rnd.choice(isites)]['fk'] = kind
    else:
        n = nodes[rnd.choice(sites)]
        n.update(t='fatal', n=kind, l=0)
    return dict(prog, id=pid, nodes=nodes)


# ---------------------------------------------------------------------------------------------------------------
# systematic family: nestings of constructs with one abrupt completion at every position

ABRUPT = ['throw', 'return', 'break', 'continue', 'lbreak', 'lcontinue', 'yield', 'none']


def systematic_programs(start_id, gen=False, depth=2, limit=None, rnd=None):
    """All programs  outer{ inner{ ... A ... } }  where each of outer/inner(/third) ranges over the construct kinds
    and positions (try body / catch / finally, loop body, for-of body with each iterator flavour, switch clause, label),
    with the abrupt statement A of each kind, surrounded by log statements. For generators every driver history of
    length <= 3 over next/throw/return is attached (sampled by rnd when given)."""
    kinds = ['try-a-c', 'try-a-f', 'try-a-cf', 'try-b-c', 'try-b-cf', 'try-c-f', 'try-c-cf', 'loop', 'do', 'forof00', 'forof10',
             'forof11', 'forofnt2', 'label', 'switch', 'block']
    out = []
    pid = start_id
    hist = [[]]
    if gen:
        ops = [('next', 1), ('throw', 5), ('return', 6)]
        hist = []
        for ln in (1, 2, 3):
            for h in itertools.product(ops, repeat=ln):
                hist.append([dict(op=o, v=v, ctx=(len(hist) + j) % 4) for j, (o, v) in enumerate(h)])
    for combo in itertools.product(kinds, repeat=depth):
        for ab in ABRUPT:
            if ab == 'yield' and not gen:
                continue
            p = build_nested(combo, ab, gen)
            if p is None:
                continue
            hs = hist
            if gen and rnd is not None:
                hs = rnd.sample(hist, min(len(hist), 4))
            for h in hs:
                q = dict(p, id=pid, ops=h)
                out.append(q)
                pid += 1
                if limit and len(out) >= limit:
                    return out
    return out


def build_nested(combo, ab, gen):
    b = B(gen)
    labels = []      # (id, isloop) of enclosing labels
    inloop = False
    insw = False
    # build inside-out: we need context to know whether break/continue are legal, so first scan the combo
    for kd in combo:
        if kd in ('loop', 'do') or kd.startswith('forof'):
            inloop = True
            insw = False
        elif kd == 'switch':
            insw = True
        elif kd == 'label':
            labels.append(True)
    if ab == 'break' and not (inloop or insw):
        return None
    if ab == 'continue' and not inloop:
        return None
    if ab in ('lbreak', 'lcontinue') and 'label' not in combo:
        return None
    # the label wraps the NEXT construct of the combo (or a block when it is innermost)
    lid_for = {}
    for i, kd in enumerate(combo):
        if kd == 'label':
            b.lblid += 1
            lid_for[i] = b.lblid
    if ab == 'lcontinue':
        ok = any(kd == 'label' and i + 1 < len(combo) and (combo[i + 1] in ('loop', 'do') or combo[i + 1].startswith('forof'))
                 for i, kd in enumerate(combo))
        if not ok:
            return None

    def abrupt():
        if ab == 'throw':
            return b.new('throw', n=3)
        if ab == 'return':
            return b.new('return', n=4)
        if ab == 'break':
            return b.new('break')
        if ab == 'continue':
            return b.new('continue')
        if ab == 'lbreak':
            return b.new('break', l=list(lid_for.values())[0])
        if ab == 'lcontinue':
            for i, kd in enumerate(combo):
                if kd == 'label' and i + 1 < len(combo) and (combo[i + 1] in ('loop', 'do') or combo[i + 1].startswith('forof')):
                    return b.new('continue', l=lid_for[i])
        if ab == 'yield':
            return b.new('yield', n=2)
        return b.log()

    def build(i):
        """statement list for level i"""
        if i == len(combo):
            return [b.log(), abrupt(), b.log()]
        kd = combo[i]
        inner = build(i + 1)
        if kd.startswith('try'):
            _, pos, shape = kd.split('-')
            b.tryid += 1
            t = b.new('try', n=b.tryid)
            body = b.block(inner if pos == 'a' else [b.log(), b.new('throw', n=1)] if pos == 'b' else [b.log()])
            cat = (b.block(inner if pos == 'b' else [b.log()])) if 'c' in shape else 0
            fin = (b.block(inner if pos == 'c' else [b.log()])) if 'f' in shape else 0
            b.nodes[t - 1].update(a=body, b=cat, c=fin)
            return [b.log(), t, b.log()]
        if kd in ('loop', 'do'):
            w = b.new('loop', n=2, c=1 if kd == 'do' else 0, k=0 if kd == 'loop' else 2)
            b.nodes[w - 1]['a'] = b.block(inner)
            return [b.log(), w, b.log()]
        if kd.startswith('forof'):
            b.itid += 1
            fl = kd[5:]
            d = dict(n=2, l=b.itid, b=0, c=0, nt=0)
            if fl == '10':
                d.update(b=1)
            elif fl == '11':
                d.update(b=1, c=1)
            elif fl == 'nt2':
                d.update(b=1, nt=2)
            w = b.new('forof', **d)
            b.nodes[w - 1]['a'] = b.block(inner)
            return [b.log(), w, b.log()]
        if kd == 'label':
            L = b.new('label', l=lid_for[i])
            if len(inner) == 3 and i + 1 < len(combo) and combo[i + 1] != 'block' and b.nodes[inner[1] - 1]['t'] in ('loop', 'forof'):
                # label directly on the loop (so that a labelled continue is legal); the logs stay outside
                b.nodes[L - 1]['a'] = inner[1]
                return [inner[0], L, inner[2]]
            b.nodes[L - 1]['a'] = b.block(inner)
            return [b.log(), L, b.log()]
        if kd == 'switch':
            s = b.new('switch', n=2)
            c1 = b.new('case', n=1)
            b.nodes[c1 - 1]['a'] = b.chain([b.log()])
            c2 = b.new('case', n=2)
            b.nodes[c2 - 1]['a'] = b.chain(inner)
            c3 = b.new('case', n=0)
            b.nodes[c3 - 1]['a'] = b.chain([b.log()])
            b.nodes[s - 1]['a'] = b.chain([c1, c2, c3])
            return [b.log(), s, b.log()]
        if kd == 'block':
            return [b.log(), b.block(inner), b.log()]
        raise AssertionError(kd)

    root = b.block(build(0))
    return dict(id=0, root=root, nodes=b.nodes, gen=1 if gen else 0, ops=[])


# ---------------------------------------------------------------------------------------------------------------
# printer

PRE = '''function E(e){ return e instanceof TypeError ? 9999 : e; }
var __fv = 0;
function __fatal(n){ __fv = n; if (n % 3 === 1) __intr(n); else if (n % 3 === 2) (function r(){ r(); })(); else __gopanic(n); log(999998); }
function __busy(id){ if (id & 1) { for (var z of [0]) { var [d0] = [z]; } for (var y in {a:1}) { try { continue; } finally { } } } }
var __REENTER = false;
function __re(){ if (__REENTER && typeof it === "object" && it) { try { it.next(1); log(999001); } catch (e) { if (!(e instanceof TypeError)) log(999002); } try { it["return"](1); log(999003); } catch (e) { if (!(e instanceof TypeError)) log(999004); } } }
function mk(id,n,hasRet,retThrows,nt,hasThrow,fk){ var it={}; it[Symbol.iterator]=function(){ var c=0; var o={ next:function(v){ __re(); c++; log(30000+id*100+c); __busy(id); if(nt===c) { if (fk) __fatal(fk); throw 7; } return c<=n ? {value:c,done:false} : {value:undefined,done:true}; } }; if(hasRet) o['return']=function(v){ __re(); log(40000+id*100); __busy(id + 1); if(retThrows) { if (fk) __fatal(fk); throw 8; } return {value:v,done:true}; }; if(hasThrow===1) o['throw']=function(e){ __re(); log(45000+id*100); throw e; }; if(hasThrow===2) o['throw']=function(e){ log(45000+id*100); return {value:55,done:true}; }; return o; }; return it; }
'''


def K(v, opts):
    """a numeric literal, or under the constvar rewrite the variable holding it"""
    return 'K%d' % v if opts.get('constvar') and 0 <= v <= 9 else '%d' % v


def mkcall(n):
    if n.get('fk'):
        return 'mk(%d,%d,%d,%d,%d,%d,%d)' % (n['l'], n['n'], n['b'], n['c'], n['nt'], n['k'] if n['t'] == 'ystar' else 0, n['fk'])
    return 'mk(%d,%d,%d,%d,%d,%d)' % (n['l'], n['n'], n['b'], n['c'], n['nt'], n['k'] if n['t'] == 'ystar' else 0)


def _scope_enter(opts, out, p):
    """variant "scopes": every statement block declares a block-scoped variable captured by a closure (so it lives in a heap scope);
    returns the options for the statements of the block"""
    if opts.get('scopes') is None:
        return opts
    opts['scopectr'][0] += 1
    ident = opts['scopectr'][0]
    name = 'v%d' % len(opts['scopes'])
    out.append(p + '  let %s = %d; var __c%d = function(){ return %s };' % (name, ident, ident, name))
    return dict(opts, scopes=opts['scopes'] + [(name, ident)])


def _chk(opts):
    """the term added to every logged number: 0 while every enclosing block's variable is seen with its own value"""
    if not opts.get('scopes'):
        return ''
    return ' + (%s ? 0 : 500000)' % ' && '.join('%s === %d' % (n, v) for n, v in opts['scopes'])


def print_stmts(nodes, i, ind=1, opts=None, single=False):
    opts = opts or {}
    out = []
    while i:
        n = nodes[i - 1]
        p = '  ' * ind
        t = n['t']
        if opts.get('probes') and t not in ('label',) and not opts.get('label_prefix') and not (single and opts.get('skip_probe')):
            out.append(p + 'probe();')          # fault-injection point at every statement boundary
        if t == 'log':
            out.append(p + 'log(%d%s);' % (n['n'], _chk(opts)))
        elif t == 'empty':
            out.append(p + ';')
        elif t == 'yield':
            if opts.get('scopes') is not None:
                out.append(p + 'log(7000 + (yield %d)%s);' % (n['n'], _chk(opts)))
            elif opts.get('async'):
                out.append(p + 'log(7000 + (await AW(%d)));' % n['n'])
            elif opts.get('yform'):
                # the same statement with the yield at a deeper operand-stack position / inside another expression kind:
                # the generator has to save and restore that part of the stack
                y = '(yield %d)' % n['n']
                forms = ['log(7000 + %s);' % y,
                         'log(7000 + [1, 2, %s][2]);' % y,
                         'log(Math.max(7000, 7000 + %s, -1));' % y,
                         'log(7000 + ({a: 1, b: %s, c: 3}).b);' % y,
                         'log(7000 + Number(`${%s}`));' % y,
                         'log(7000 + (T ? %s : 0));' % y,
                         'log(7000 + (0, [7, 8].length, %s));' % y,
                         'log(((a, b, c) => a + c)(7000, 5, %s));' % y,
                         'log(7000 + (Fa || %s));' % y,
                         # the assignment target is a reference evaluated BEFORE the yield (kept on the reference stack across the suspension)
                         '[OBJ.v = %s] = []; log(7000 + OBJ.v);' % y,
                         'with (OBJ) { v = %s; } log(7000 + OBJ.v);' % y,
                         '({a: OBJ.v = %s} = {}); log(7000 + OBJ.v);' % y,
                         # ... and is a reference to a STACK variable of the generator (resolved dynamically because of the with statement)
                         'var sl%d = 0; with (OBJ) { sl%d = %s; } log(7000 + sl%d);' % (i, i, y, i)]
                out.append(p + forms[(i * 7 + n['n']) % len(forms)])
            else:
                out.append(p + 'log(7000 + (yield %d));' % n['n'])
        elif t == 'ystar':
            out.append(p + 'log(8000 + ((yield* %s) || 0));' % mkcall(n))
        elif t == 'fatal':
            out.append(p + '__fatal(%s);' % K(n['n'], opts))
        elif t == 'throw':
            out.append(p + 'throw %s;' % K(n['n'], opts))
            if opts.get('deadcode'):
                out.append(p + 'log(987654); T = !T;')
        elif t == 'return':
            out.append(p + 'return %s;' % K(n['n'], opts))
            if opts.get('deadcode'):
                out.append(p + 'log(987655); for (;;) {}')
        elif t == 'break':
            out.append(p + ('break L%d;' % n['l'] if n['l'] else 'break;'))
        elif t == 'continue':
            out.append(p + ('continue L%d;' % n['l'] if n['l'] else 'continue;'))
        elif t == 'block':
            out.append(p + '{')
            out += print_stmts(nodes, n['a'], ind + 1, _scope_enter(opts, out, p))
            out.append(p + '}')
        elif t == 'if':
            if opts.get('constvar'):
                out.append(p + 'if (%s) {' % ('T' if n['n'] == 1 else 'Fa'))
            else:       # a literal condition: the untaken branch is compiled in the compiler's discard mode
                out.append(p + 'if (%s) {' % ('true' if n['n'] == 1 else 'false'))
            out += print_stmts(nodes, n['a'], ind + 1, _scope_enter(opts, out, p))
            if n['b']:
                out.append(p + '} else {')
                out += print_stmts(nodes, n['b'], ind + 1, _scope_enter(opts, out, p))
            out.append(p + '}')
        elif t == 'try':
            out.append(p + 'try {')
            out += print_stmts(nodes, nodes[n['a'] - 1]['a'], ind + 1, _scope_enter(opts, out, p))
            if n['b']:
                out.append(p + '} catch (e) { log(2000+E(e)%s);' % _chk(opts))
                out += print_stmts(nodes, nodes[n['b'] - 1]['a'], ind + 1, _scope_enter(opts, out, p))
            if n['c']:
                # (the finally block reads the variables of the blocks around the try statement before declaring its own)
                out.append(p + '} finally { log(%d%s);' % (1000 + n['n'], _chk(opts)))
                out += print_stmts(nodes, nodes[n['c'] - 1]['a'], ind + 1, _scope_enter(opts, out, p))
            out.append(p + '}')
        elif t == 'loop':
            v = 'i%d' % i
            sc = []
            body = print_stmts(nodes, nodes[n['a'] - 1]['a'], ind + 1, _scope_enter(dict(opts, label_prefix=''), sc, p))
            body = sc + body
            pre = opts.get('label_prefix', '')      # a label must sit directly on the loop statement, after the counter init
            if n['c'] == 1:      # do-while: body runs max(1, n) times
                out.append(p + 'var %s=0; %sdo {' % (v, pre))
                out += body
                out.append(p + '} while (++%s<%s);' % (v, K(n['n'], opts)))
            elif n['k'] == 1:    # while with explicit counter; `continue` must still advance: increment in the test
                out.append(p + 'var %s=0; %swhile (%s++<%s) {' % (v, pre, v, K(n['n'], opts)))
                out += body
                out.append(p + '}')
            elif n['k'] == 2:    # for-in over an object with n keys
                obj = '{' + ','.join('k%d:1' % j for j in range(n['n'])) + '}'
                out.append(p + '%sfor (var %s in %s) {' % (pre, v, obj))
                out += body
                out.append(p + '}')
            elif n['k'] == 3:    # for with let binding (per-iteration environment)
                out.append(p + '%sfor (let %s=0; %s<%s; %s++) {' % (pre, v, v, K(n['n'], opts), v))
                out += body
                out.append(p + '}')
            else:
                out.append(p + '%sfor (var %s=0; %s<%s; %s++) {' % (pre, v, v, K(n['n'], opts), v))
                out += body
                out.append(p + '}')
        elif t == 'forof':
            out.append(p + 'for (var x%d of %s) {' % (i, mkcall(n)))
            out += print_stmts(nodes, nodes[n['a'] - 1]['a'], ind + 1, _scope_enter(opts, out, p))
            out.append(p + '}')
        elif t == 'consume':
            c = ['Array.from(%s);', '[...%s];', 'new Set(%s);', 'Math.max(...%s);', 'new Map(%s);', 'Object.fromEntries(%s);',
                 'Array.from(%s, function (x) { if (x === 2) throw 5; return x; });'][n['k'] % 7]
            out.append(p + c % mkcall(n))
        elif t == 'destr':
            tg = ','.join('d%d_%d' % (i, j) for j in range(n['k']))
            out.append(p + 'var [%s] = %s;' % (tg, mkcall(n)))
        elif t == 'label':
            inner = nodes[n['a'] - 1]
            if inner['t'] == 'loop':
                o2 = dict(opts, label_prefix=opts.get('label_prefix', '') + 'L%d: ' % n['l'])
                out += print_stmts(nodes, n['a'], ind, o2, single=True)
            else:
                out.append(p + opts.get('label_prefix', '') + 'L%d:' % n['l'])
                out += print_stmts(nodes, n['a'], ind, dict(opts, label_prefix='', skip_probe=True), single=True)
            i = n['nx']
            continue
        elif t == 'switch':
            out.append(p + 'switch (%s) {' % K(n['n'], opts))
            c = n['a']
            while c:
                cn = nodes[c - 1]
                out.append(p + ('  default:' if cn['n'] == 0 else '  case %d:' % cn['n']))
                out += print_stmts(nodes, cn['a'], ind + 2, opts)
                c = cn['nx']
            out.append(p + '}')
        else:
            raise AssertionError(t)
        if single:
            break
        i = n['nx']
    return out


VARIANTS = ["base", "constvar", "closure", "evaldyn", "with", "block", "iife", "arrowiife", "tostring", "strict", "evalplace", "deadcode", "scopes"]


def print_js(prog, probes=False, variant="base"):
    """JavaScript source whose observable behaviour (log calls + completion) the oracle predicts.

    `variant` applies one rewrite from the C02 catalogue; every variant must behave exactly like "base":
      constvar   literal operands replaced by variables (defeats constant folding / dead-branch elimination)
      closure    the loop variables are captured by a closure that is never called (stack -> stash allocation)
      evaldyn    the function contains a direct eval("") (dynamic scope: every binding in the stash, by-name lookup)
      with       the body runs inside with({}) (object environment on the scope chain)
      block      the body is wrapped in an extra block with a lexical declaration
      iife       the body is wrapped in an immediately invoked function expression (returns travel through it)
      arrowiife  same with an arrow function (generators excluded: yield cannot cross it)
      tostring   the function is replaced by the re-evaluation of its own toString() text
      strict     "use strict" (the subset has no mode-sensitive construct except `with`)
      evalplace  the whole function is created by an indirect eval at call time
      deadcode   unreachable statements are appended after every abrupt statement (handled by the statement printer)
      scopes     every block declares a block-scoped variable captured by a closure; every logged number checks that the variables of
                 all enclosing blocks are seen with their own values (adds 500000 otherwise)"""
    nodes = prog['nodes']
    opts = {}
    if probes:
        opts['probes'] = True
    if variant == "constvar":
        opts['constvar'] = True
    if variant == "deadcode":
        opts['deadcode'] = True
    if variant == "yform":
        opts['yform'] = True
    if variant == "async":
        opts['async'] = True
    # variant "reenter": every method of every instrumented iterator first tries to re-enter the running generator (next and return):
    # 27.5.3.2 GeneratorValidate makes that a TypeError with no other effect, also while the generator delegates with yield*
    if variant == "scopes":
        # every block declares a captured block-scoped variable; every logged number checks the variables of all enclosing blocks
        opts['scopes'] = []
        opts['scopectr'] = [0]
    scope_pre = []
    if variant == "scopes":
        opts = _scope_enter(opts, scope_pre, '')
    body = '\n'.join(print_stmts(nodes, nodes[prog['root'] - 1]['a'], 1, opts))
    star = '*' if prog['gen'] else ''
    pre_body = ''.join(x + '\n' for x in scope_pre)
    if variant == "constvar":
        pre_body = '  var K0=0,K1=1,K2=2,K3=3,K4=4,K5=5,K6=6,K7=7,K8=8,K9=9;\n'
    if variant == "closure":
        loopvars = sorted(set(re.findall(r'\b(?:i|x)\d+\b', body)))
        pre_body = '  var __never = function(){ return [%s] };\n' % ','.join(loopvars)
    if variant == "evaldyn":
        pre_body = '  eval("");\n'
    if variant == "strict":
        pre_body = '  "use strict";\n'
    if variant == "with":
        body = '  with ({}) {\n' + body + '\n  }'
    if variant == "block":
        body = '  { let __blk = 1;\n' + body + '\n  }'
    if variant == "iife" or (variant == "arrowiife" and prog['gen']):
        if prog['gen']:
            body = '  return yield* (function*(){\n' + body + '\n  }).call(this);'
        else:
            body = '  return (function(){\n' + body + '\n  }).call(this);'
    elif variant == "arrowiife":
        body = '  return (() => {\n' + body + '\n  })();'
    fdef = 'function%s f(){\n' % star + pre_body + body + '\n}'
    if variant == "tostring":
        fdef += '\nf = (0, eval)("(" + f.toString() + ")");'
    if variant == "evalplace":
        fdef = 'var f = (0, eval)(%s);' % json.dumps('(' + fdef + ')')
    head = PRE + ('__REENTER = true;\n' if variant == "reenter" else '') + 'var T=true, Fa=false, OBJ={v:0}, GR;\n'
    if variant == "async":
        # the generator body as an async function: `yield n` is `await AW(n)`, and the i-th driver call next(v) / throw(e) becomes
        # the settlement of the i-th awaited operand (a promise, a plain value or a thenable, by position)
        fdef = 'async function f(){\n' + body + '\n}'
        return (head + fdef + '\nvar OPS=%s, ai=0;\n' % json.dumps([dict(op=o['op'], v=o['v']) for o in prog['ops']]) +
                'function AW(n){ log(100000+n*10); ai++; var o=OPS[ai]; if(!o) return new Promise(function(){}); var k=(ai+n)%3;\n'
                '  if (o.op==="throw") return k===0 ? Promise.reject(o.v) : k===1 ? {then:function(r,j){ j(o.v); }} : {then:function(r,j){ throw o.v; }};\n'
                '  return k===0 ? Promise.resolve(o.v) : k===1 ? o.v : {then:function(r,j){ r(o.v); }}; }\n'
                'f().then(function(v){ log(100000+(v===undefined?0:v)*10+1); }, function(e){ log(200000+E(e)); });\n')
    if prog['gen']:
        def call(i, o):
            c = 'R(function(){ return it.%s(%d) })' % (o['op'], o['v'])
            k = o.get('ctx', 0)
            if k == 1:      # inside a for-of of the CALLER (an iterator of the caller is open while the generator runs)
                return 'for (var q%d of [0]) { %s; }' % (i, c)
            if k == 2:      # at a deeper operand-stack position of the caller
                return '[7, 8, %s].length;' % c
            if k == 3:      # inside the caller's try/finally inside for-in
                return 'for (var q%d in {a:1}) { try { %s; } finally { } }' % (i, c)
            if k == 4:      # two open iterators of the caller, the result assigned through a dynamically resolved (global) reference
                return ('for (var qa%d of [0]) for (var qb%d of [0, 1]) { if (qb%d) continue; try { GR = it.%s(%d); RL(GR); } catch (e) { log(200000+E(e)); } }'
                        % (i, i, i, o['op'], o['v']))
            return c + ';'
        drv = '\n'.join(call(i, o) for i, o in enumerate(prog['ops']))
        return (head + fdef + '\nvar it=f();\n'
                'function RL(r){ log(100000 + (r.value===undefined?0:r.value)*10 + (r.done?1:0)) }\n'
                'function R(g){ try { var r=g(); log(100000 + (r.value===undefined?0:r.value)*10 + (r.done?1:0)) } '
                'catch(e){ log(200000+E(e)) } }\n' + drv)
    return head + fdef


def async_twin(p, pid):
    """the generator program whose behaviour an async function with the same body must reproduce (C09: "an async function is
    equivalent to that state machine driven by promise reactions"): driver calls up to the first return(), starting with next();
    None if the body delegates (yield*) or raises an uncatchable condition"""
    if not p.get('gen') or any(n['t'] in ('ystar', 'fatal') or n.get('fk') for n in p['nodes']):
        return None
    ops = []
    for o in p['ops']:
        if o['op'] == 'return':
            break
        ops.append(dict(o, ctx=0))
    if not ops or ops[0]['op'] != 'next':
        return None
    return dict(p, id=pid, ops=ops)


def async_expected(log):
    """the part of the generator driver's log an async function can show: everything up to the completion of the body"""
    out = []
    for e in log:
        out.append(e)
        if e >= 200000 or (e >= 100000 and e % 10 == 1):
            break
    return out


def write_programs(progs, progs_path, srcs_path):
    with open(progs_path, 'w') as f:
        for p in progs:
            f.write(json.dumps(p) + '\n')
    with open(srcs_path, 'w') as f:
        json.dump([{"id": p['id'], "gen": p['gen'], "src": print_js(p)} for p in progs], f)
