"""Binding A: run TLC with the edge stream (ACTION_CONSTRAINT Emit) into files for harness/walk."""
import json
import os

from vlib import Inconclusive, run_tlc, tlc_must_pass


def build_graph(spec, cfg, wd, init_state, devs=(), dev_cfg=None, workers=None, timeout=900, heap="8g", obs0=None):
    """Runs TLC on the pure spec (and once per deviation switch); the edge streams are written to files that the Go
    walker parses itself. Returns (graph dict for replay.run_walkers, stats)."""
    pure = os.path.join(wd, "edges-pure.txt")
    res = run_tlc(spec, cfg, os.path.join(wd, "tlc-pure"), workers=workers, timeout=timeout, heap=heap, edge_file=pure)
    tlc_must_pass(res, spec)
    if res.edge_lines == 0:
        raise Inconclusive("no edges emitted by %s" % spec)
    stats = {"states": res.distinct, "transitions": res.generated, "tlc_wall_s": round(res.wall, 1), "depth": res.depth}
    devfiles = {}
    for d in devs:
        df = os.path.join(wd, "edges-%s.txt" % d)
        r2 = run_tlc(spec, dev_cfg(d), os.path.join(wd, "tlc-" + d), workers=workers, timeout=timeout, heap=heap,
                     edge_file=df)
        tlc_must_pass(r2, spec + "+" + d)
        devfiles[d] = df
    g = {"pure": pure, "devs": devfiles, "init": json.dumps(init_state), "obs0": json.dumps(obs0) if obs0 is not None else ""}
    return g, stats
