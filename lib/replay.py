"""Run the Go edge walker (harness/cmd/jsreplay or a module-specific binary) over a graph in parallel
child processes and fold the reports into a Check."""
import json
import os
import subprocess

from vlib import NCPU, Inconclusive, seed, workdir


def run_walkers(binary, graph, wd, extra_args, procs=2, threads=None, walks=0, walklen=60, maxtour=40, timeout=900,
                tag="w"):
    """graph: dict from edges.build_graph. procs child processes x threads goroutines each."""
    threads = threads or max(1, NCPU // procs)
    total = procs * threads
    ps = []
    env = dict(os.environ, GOMAXPROCS=str(threads + 1))
    for i in range(procs):
        out = os.path.join(wd, "%s-rep-%d.json" % (tag, i))
        jr = os.path.join(wd, "%s-journal" % tag)
        cmd = [binary, "-graph", graph["pure"], "-init", graph["init"], "-obs0", graph["obs0"],
               "-devs", ",".join("%s=%s" % kv for kv in graph["devs"].items()),
               "-out", out, "-worker", str(i * threads), "-workers", str(total), "-threads", str(threads),
               "-seed", str(seed()), "-walks", str(walks), "-walklen", str(walklen), "-maxtour", str(maxtour),
               "-journal", jr] + extra_args
        ps.append((i, out, jr, subprocess.Popen(cmd, stdout=subprocess.PIPE, stderr=subprocess.PIPE, text=True, env=env)))
    reports, crashes = [], []
    for i, out, jr, p in ps:
        try:
            so, se = p.communicate(timeout=timeout)
        except subprocess.TimeoutExpired:
            p.kill()
            so, se = p.communicate()
            raise Inconclusive("walker %d timed out" % i)
        if p.returncode != 0:
            if p.returncode == 2:
                raise Inconclusive("walker %d failed: %s" % (i, se[-2000:]))
            # the child died (fatal runtime error, watchdog): the journals name the tours in flight
            paths = {}
            for t in range(i * threads, (i + 1) * threads):
                try:
                    paths[t] = [json.loads(l) for l in open("%s.%d" % (jr, t)) if l.strip()]
                except (OSError, ValueError):
                    pass
            crashes.append({"kind": "crash", "rc": p.returncode, "stderr": se[-3000:], "paths_in_flight": paths})
            continue
        reports.append(json.load(open(out)))
    return reports, crashes


def fold(chk, reports, crashes, what, devmap, replay_meta):
    """devmap: deviation switch name -> known finding id. Adds coverage + violations to chk."""
    tot = {"steps": 0, "tours": 0, "covered": 0, "mine": 0, "nontrivial": 0, "lost_to_known": 0}
    tot["edges"] = reports[0]["Edges"] if reports else 0
    tot["dev_edges"] = reports[0]["DevEdges"] if reports else 0
    flip = True
    nodes = 0
    for r in reports:
        for k in ("steps", "tours", "covered", "mine", "nontrivial", "lost_to_known"):
            tot[k] += r.get(k, 0)
        nodes = max(nodes, r.get("nodes_seen", 0))
        flip = flip and (r.get("flip_caught", False) or bool(r.get("mismatches")))
        for dev, n in (r.get("known_hits") or {}).items():
            fid = devmap.get(dev)
            ex = (r.get("known_examples") or {}).get(dev, {})
            if fid is None:
                chk.violation("%s: deviation %s has no known finding" % (what, dev), dict(replay_meta, **ex))
            else:
                f = [k for k in chk.known if k["id"] == fid]
                desc = f[0]["what"] if f else dev
                for _ in range(n):
                    chk.known_hit(fid, desc)
        for mm in r.get("mismatches") or []:
            chk.violation("%s: %s at step %d: want res=%s obs=%s; got res=%s obs=%s %s" % (
                what, mm["kind"], len(mm.get("path") or []), mm.get("want_res"), (mm.get("want_obs") or "")[:300],
                mm.get("got_res"), (mm.get("got_obs") or "")[:300], (mm.get("panic") or "")[:300]),
                dict(replay_meta, **mm))
        for s in r.get("samples") or []:
            chk.sample({"module": what, "path": s})
    for c in crashes:
        chk.violation("%s: replayer process died rc=%s: %s" % (what, c["rc"], c["stderr"][-400:]), dict(replay_meta, **c))
    if reports and not flip:
        raise Inconclusive("%s: binding self-test failed (flipped expectation not reported)" % what)
    return tot, nodes
