"""Run the Go edge walker (harness/cmd/jsreplay or a module-specific binary) over a graph in parallel
child processes and fold the reports into a Check."""
import json
import os
import subprocess

from vlib import NCPU, Inconclusive, seed, workdir


def run_walkers(binary, graph, wd, extra_args, procs=2, threads=None, walks=0, walklen=60, maxtour=40, timeout=900,
                tag="w", share=None):
    """graph: dict from edges.build_graph. procs child processes x threads goroutines each."""
    threads = threads or max(1, NCPU // procs)
    total = procs * threads
    base0 = 0
    if share:
        # share=(i, n): this run covers only the i-th of n equal slices of the edge set (quick tiers)
        total = procs * threads * share[1]
        base0 = (share[0] % share[1]) * procs * threads
    ps = []
    env = dict(os.environ, GOMAXPROCS=str(threads + 1))
    for i in range(procs):
        out = os.path.join(wd, "%s-rep-%d.json" % (tag, i))
        jr = os.path.join(wd, "%s-journal" % tag)
        cmd = [binary, "-graph", graph["pure"], "-init", graph["init"], "-obs0", graph["obs0"],
               "-devs", ",".join("%s=%s" % kv for kv in graph["devs"].items()),
               "-out", out, "-worker", str(base0 + i * threads), "-workers", str(total), "-threads", str(threads),
               "-seed", str(seed()), "-walks", str(walks), "-walklen", str(walklen), "-maxtour", str(maxtour),
               "-journal", jr] + extra_args
        ps.append((i, out, jr, subprocess.Popen(cmd, stdout=subprocess.PIPE, stderr=subprocess.PIPE, text=True, env=env)))
    reports, crashes = [], []
    for i, out, jr, p in ps:
        try:
            so, se = p.communicate(timeout=timeout)
        except subprocess.TimeoutExpired:
            p.kill()
            so, se = p.communicate()
            raise Inconclusive("walker %d timed out" % i)
        if p.returncode != 0:
            if p.returncode == 2:
                raise Inconclusive("walker %d failed: %s" % (i, se[-2000:]))
            # the child died (fatal runtime error, watchdog): the journals name the tours in flight
            paths = {}
            for t in range(base0 + i * threads, base0 + (i + 1) * threads):
                try:
                    paths[t] = [json.loads(l) for l in open("%s.%d" % (jr, t)) if l.strip()]
                except (OSError, ValueError):
                    pass
            crashes.append({"kind": "crash", "rc": p.returncode, "stderr": se[-3000:], "paths_in_flight": paths})
            continue
        reports.append(json.load(open(out)))
    return reports, crashes


def run_jobs(binary, graph, wd, jobs, conc=4, threads=4, walks=0, walklen=60, maxtour=40, timeout=1500):
    """Runs the jobs (dicts with args=["-adaptor", files], tag, optional share=(i, n)) in `conc` walker processes,
    each loading the graph once and working through its jobs one after the other with `threads` goroutines.
    Returns [(reports, crashes)] in job order."""
    groups = [[] for _ in range(min(conc, max(1, len(jobs))))]
    for n, job in enumerate(jobs):
        groups[n % len(groups)].append((n, job))
    env = dict(os.environ, GOMAXPROCS=str(threads + 1))
    ps = []
    for gi, grp in enumerate(groups):
        spec = []
        for n, job in grp:
            share = job.get("share") or (0, 1)
            spec.append({"Adaptor": job["args"][1], "Out": os.path.join(wd, "job-%d.json" % n),
                         "Worker": (share[0] % share[1]) * threads, "Workers": threads * share[1],
                         "Journal": os.path.join(wd, "job-%d-journal" % n)})
        jf = os.path.join(wd, "jobs-%d.json" % gi)
        json.dump(spec, open(jf, "w"))
        cmd = [binary, "-graph", graph["pure"], "-init", graph["init"], "-obs0", graph["obs0"],
               "-devs", ",".join("%s=%s" % kv for kv in graph["devs"].items()), "-threads", str(threads),
               "-seed", str(seed()), "-walks", str(walks), "-walklen", str(walklen), "-maxtour", str(maxtour),
               "-jobs", jf]
        ps.append((grp, spec, jf, subprocess.Popen(cmd, stdout=subprocess.PIPE, stderr=subprocess.PIPE, text=True, env=env)))
    results = [None] * len(jobs)
    for grp, spec, jf, p in ps:
        try:
            so, se = p.communicate(timeout=timeout)
        except subprocess.TimeoutExpired:
            p.kill()
            p.communicate()
            raise Inconclusive("walker process timed out")
        if p.returncode == 2:
            raise Inconclusive("walker failed: %s" % se[-2000:])
        cur = None
        if p.returncode != 0:
            try:
                cur = open(jf + ".current").read()
            except OSError:
                pass
        for (n, job), sp in zip(grp, spec):
            if os.path.exists(sp["Out"]):
                results[n] = ([json.load(open(sp["Out"]))], [])
            elif p.returncode != 0 and sp["Out"] == cur:
                paths = {}
                for t in range(sp["Worker"], sp["Worker"] + threads):
                    try:
                        paths[t] = [json.loads(l) for l in open("%s.%d" % (sp["Journal"], t)) if l.strip()]
                    except (OSError, ValueError):
                        pass
                results[n] = ([], [{"mkind": "crash", "rc": p.returncode, "stderr": se[-3000:], "paths_in_flight": paths}])
            else:
                results[n] = ([], [])   # not started because an earlier job of the same process died
    return results


def fold(chk, reports, crashes, what, devmap, replay_meta):
    """devmap: deviation switch name -> known finding id. Adds coverage + violations to chk."""
    tot = {"steps": 0, "tours": 0, "covered": 0, "mine": 0, "nontrivial": 0, "lost_to_known": 0}
    tot["edges"] = reports[0]["Edges"] if reports else 0
    tot["dev_edges"] = reports[0]["DevEdges"] if reports else 0
    flip = True
    nodes = 0
    for r in reports:
        for k in ("steps", "tours", "covered", "mine", "nontrivial", "lost_to_known"):
            tot[k] += r.get(k, 0)
        nodes = max(nodes, r.get("nodes_seen", 0))
        flip = flip and (r.get("flip_caught", False) or bool(r.get("mismatches")))
        for dev, n in (r.get("known_hits") or {}).items():
            fid = devmap.get(dev)
            ex = (r.get("known_examples") or {}).get(dev, {})
            if fid is None:
                chk.violation("%s: deviation %s has no known finding" % (what, dev), dict(replay_meta, **ex))
            else:
                f = [k for k in chk.known if k["id"] == fid]
                desc = f[0]["what"] if f else dev
                for _ in range(n):
                    chk.known_hit(fid, desc)
        for mm in r.get("mismatches") or []:
            chk.violation("%s: %s at step %d: want res=%s obs=%s; got res=%s obs=%s %s" % (
                what, mm["mkind"], len(mm.get("path") or []), mm.get("want_res"), (mm.get("want_obs") or "")[:300],
                mm.get("got_res"), (mm.get("got_obs") or "")[:300], (mm.get("panic") or "")[:300]),
                dict(replay_meta, **mm))
        for s in r.get("samples") or []:
            chk.sample({"module": what, "path": s})
    for c in crashes:
        if c["rc"] == 5 and "WATCHDOG memory" in (c.get("stderr") or ""):
            # the walker process itself (graph + journal + the engine's heap) outgrew its memory budget: a resource limit of this
            # machinery, not an observation about the engine
            raise Inconclusive("%s: replayer stopped by its memory watchdog: %s" % (what, c["stderr"][-200:]))
        chk.violation("%s: replayer process died rc=%s: %s" % (what, c["rc"], c["stderr"][-400:]), dict(replay_meta, **c))
    if reports and not flip:
        raise Inconclusive("%s: binding self-test failed (flipped expectation not reported)" % what)
    return tot, nodes
