#!/usr/bin/env python3
"""seeded.py confirm <dir>            -- in a scratch worktree: demo passes clean, fails patched; full suite passes patched
   seeded.py detect <dir> <CHECK...>  -- run /verif checks against a scratch worktree with the patch applied (VERIF_REPO)
<dir> holds patch.diff, demo_test.go, meta.json (from a mutation agent or /verif/seeded/<id>)."""
import json
import os
import subprocess
import sys

ENV = dict(os.environ, GOFLAGS="-mod=mod", GOPROXY="off")
ENV.pop("GOSUMDB", None)
ENV.pop("GOTOOLCHAIN", None)


def sh(cmd, cwd=None, env=None, timeout=3600):
    r = subprocess.run(cmd, cwd=cwd, env=env or ENV, shell=isinstance(cmd, str), stdout=subprocess.PIPE,
                       stderr=subprocess.STDOUT, text=True, timeout=timeout)
    return r.returncode, r.stdout


def worktree(tag):
    wt = "/tmp/wt-seed-%s-%d" % (tag, os.getpid())
    rc, out = sh(["git", "-C", "/repo", "worktree", "add", "-q", "--detach", wt, "HEAD"])
    if rc != 0:
        sys.exit("worktree: " + out)
    return wt


def rm_worktree(wt):
    sh(["git", "-C", "/repo", "worktree", "remove", "--force", wt])


def demo_name(d):
    import re
    m = re.search(r"func (TestSeeded\w*)\(", open(os.path.join(d, "demo_test.go")).read())
    return m.group(1)


def confirm(d):
    d = os.path.abspath(d)
    wt = worktree("c")
    res = {}
    try:
        name = demo_name(d)
        sh(["cp", os.path.join(d, "demo_test.go"), os.path.join(wt, "zz_seeded_demo_test.go")])
        rc, out = sh(["go", "test", "-vet=off", "-count=1", "-run", "^%s$" % name, "."], cwd=wt)
        res["demo_clean_pass"] = rc == 0
        rc, out = sh(["git", "apply", os.path.join(d, "patch.diff")], cwd=wt)
        res["patch_applies"] = rc == 0
        rc, out = sh(["go", "test", "-vet=off", "-count=1", "-run", "^%s$" % name, "."], cwd=wt)
        res["demo_patched_fails"] = rc != 0
        res["demo_output"] = out[-600:]
        os.unlink(os.path.join(wt, "zz_seeded_demo_test.go"))
        rc, out = sh(["go", "build", "./..."], cwd=wt)
        res["builds"] = rc == 0
        rc, out = sh(["go", "test", "-vet=off", "-count=1", "-timeout", "25m", "./..."], cwd=wt)
        res["suite_passes_patched"] = rc == 0
        if rc != 0:
            res["suite_output"] = out[-1500:]
    finally:
        rm_worktree(wt)
    res["confirmed"] = all(res.get(k) for k in ("demo_clean_pass", "patch_applies", "demo_patched_fails", "builds", "suite_passes_patched"))
    print(json.dumps(res, indent=1))
    return 0 if res["confirmed"] else 1


def detect(d, checks, tier="quick"):
    d = os.path.abspath(d)
    wt = worktree("d")
    out_all = {}
    try:
        rc, out = sh(["git", "apply", os.path.join(d, "patch.diff")], cwd=wt)
        if rc != 0:
            # the patch was written against an older HEAD (before later fix:/hook commits): three-way merge it
            rc, out = sh(["git", "apply", "--3way", os.path.join(d, "patch.diff")], cwd=wt)
        if rc != 0:
            sys.exit("patch does not apply: " + out)
        rc, out = sh(["go", "build", "./..."], cwd=wt)
        if rc != 0:
            sys.exit("patched tree does not build: " + out[-500:])
        for c in checks:
            env = dict(os.environ, VERIF_REPO=wt, VERIF_NO_EVIDENCE="1")
            rc, out = sh(["/verif/bin/check", c, "--tier", tier], cwd="/verif", env=env, timeout=7200)
            vio = [l for l in out.splitlines() if l.startswith("VIOLATION")]
            out_all[c] = {"rc": rc, "violations": len(vio), "first": (out[out.find("VIOLATION"):][:700] if vio else out[-400:])}
    finally:
        rm_worktree(wt)
    print(json.dumps(out_all, indent=1))
    return 0


if __name__ == "__main__":
    if sys.argv[1] == "confirm":
        sys.exit(confirm(sys.argv[2]))
    tier = os.environ.get("SEEDED_TIER", "quick")
    sys.exit(detect(sys.argv[2], sys.argv[3:], tier))
