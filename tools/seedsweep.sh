#!/bin/sh
# run every registered quick check with several VERIF_SEED values on the current tree (false-alarm control)
out=${1:-/tmp/seedsweep.log}
for sd in ${SEEDS:-2 3}; do
  for c in C01 C02 C03 C04 C05 C06 C07 C08 C09 C10 C11 C13 C14 C15 C16 C17 C18 C19 C20; do
    s=$(date +%s)
    VERIF_SEED=$sd VERIF_NO_EVIDENCE=1 timeout 3000 /verif/bin/check $c > /tmp/seedsweep_${c}_$sd.log 2>&1
    rc=$?
    echo "seed=$sd $c rc=$rc $(( $(date +%s) - s ))s $(grep -c '^VIOLATION' /tmp/seedsweep_${c}_$sd.log) violations" >> $out
  done
done
