#!/bin/sh
# confirm every mutation under /tmp/mut/<prop>/<n> (not yet confirmed) and copy it to /verif/seeded/<prop>-<n>
for d in /tmp/mut/*/[0-9]*; do
  prop=$(basename $(dirname $d)); n=$(basename $d); out=/verif/seeded/$prop-$n
  [ -f $d/patch.diff ] || continue
  [ -f $out/confirm.json ] && continue
  mkdir -p $out
  /verif/tools/seeded.py confirm $d > $out/confirm.json 2>&1
  cp $d/patch.diff $d/demo_test.go $d/meta.json $out/ 2>/dev/null
done
