#!/bin/sh
# detect_some.sh <seed-id>... : re-run the property's quick check against the given seeded mutations, sequentially
for id in "$@"; do
  d=/verif/seeded/$id; prop=${id%-*}
  /verif/tools/seeded.py detect $d $prop > $d/detect.json 2>&1
  echo "$id $(grep -o '"rc": [0-9]*' $d/detect.json | head -1) $(grep -o '"violations": [0-9]*' $d/detect.json | head -1)"
done
