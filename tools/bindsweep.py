#!/usr/bin/env python3
"""Run the Bind.tla comparison for a range of seeds (development aid): bindsweep.py <from> <to> [n]"""
import collections
import json
import os
import random
import sys

sys.path.insert(0, "/verif/lib")
import bindgen
import oracle
from vlib import go_build

wd = "/verif/.work/bindsweep"
os.makedirs(wd, exist_ok=True)
go_build("mjsrun", wd + "/mjsrun", overlay=False)
a, b = int(sys.argv[1]), int(sys.argv[2])
n = int(sys.argv[3]) if len(sys.argv) > 3 else 1500
allrest = []
for sd in range(a, b):
    r = random.Random(sd)
    progs = [bindgen.random_program(i, r, int(os.environ.get("BIND_DEPTH", "2")) + i % 3) for i in range(n)]
    want = oracle.bind_eval(progs, wd, "t")
    bad = []
    for v in bindgen.VARIANTS:
        sel = [p for p in progs if want[p["id"]]["ty"] != "fuel" and bindgen.applicable(p, v)]
        got = oracle.bind_run(wd + "/mjsrun", sel, wd, "t", v)
        bad += [(p, v, got[p["id"]]) for p in sel if not oracle.bind_agree(want[p["id"]], got[p["id"]])]
    uniq = list({p["id"]: p for p, _, _ in bad}.values())
    w2 = oracle.bind_eval(uniq, wd, "d", devs=["calleeLate"], shards=8) if uniq else {}
    rest = [(p, v, g) for p, v, g in bad if w2[p["id"]]["ty"] != "fuel" and not oracle.bind_agree(w2[p["id"]], g)]
    print("seed", sd, "disagree", len(bad), "unexplained", len(rest), dict(collections.Counter(v for _, v, _ in rest)), flush=True)
    for p, v, g in rest:
        allrest.append((p, v, g))
    json.dump(allrest, open(wd + "/rest.json", "w"))
