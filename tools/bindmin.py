#!/usr/bin/env python3
"""Delta-debugger for Bind.tla disagreements: shrink a program while goja (variant v) still disagrees with the oracle.
usage: bindmin.py <rest.json index | program.json> <variant>"""
import copy
import json
import os
import sys

sys.path.insert(0, "/verif/lib")
import bindgen
import oracle
from vlib import go_build

WD = "/verif/.work/bindmin"
os.makedirs(WD, exist_ok=True)


def lists(node, acc):
    """all (container list, index) positions of statements and expressions"""
    if isinstance(node, dict):
        k = node.get("k") or []
        for i, c in enumerate(k):
            if not (node.get("t") == "prop" and node.get("kind") == "get"):      # (a getter's function stays a function)
                acc.append((k, i))
            lists(c, acc)
        for d in node.get("d") or []:
            lists(d, acc)
        for key in ("ctor", "ext"):          # class nodes: constructor function and heritage expression
            for c in node.get(key) or []:
                lists(c, acc)
        if node.get("t") in ("classd", "classe") and node.get("ctor"):
            acc.append((node["ctor"], 0))    # (deleting the constructor: handled by mode "del" below)
    return acc


def reductions(prog):
    out = []
    root = {"k": prog["body"]}
    pos = lists(root, [])
    for n in range(len(pos)):
        for mode in ("del", "num", "child0", "child1"):
            q = copy.deepcopy(prog)
            root2 = {"k": q["body"]}
            k, i = lists(root2, [])[n]
            node = k[i]
            t = node["t"]
            stmt = t in ("expr", "var", "let", "const", "fdecl", "block", "if", "for", "return", "throw", "try", "switch", "break", "continue", "case", "forof", "evalcode", "varp", "letp", "constp", "with", "classd")
            if t in ("pel", "arr") or (t in ("prop", "member") and mode != "del") or (t == "classd" and mode != "del"):
                continue
            if mode == "del":
                if not stmt and t not in ("prop", "member") and not (t == "fn" and k is not None and len(k) == 1 and i == 0 and mode == "del" and False):
                    continue
                # structural children (blocks of if/for/try) cannot be deleted, only emptied
                del k[i]
            elif mode == "num":
                if stmt or t in ("num", "none"):
                    continue
                k[i] = bindgen.N("num", n=0)
            else:
                ci = 0 if mode == "child0" else 1
                ch = node.get("k") or []
                if stmt or len(ch) <= ci or not isinstance(ch[ci], dict) or ch[ci]["t"] in ("block", "case", "expr", "var", "let", "const", "return", "arr", "prop"):
                    continue
                if t in ("fn",):
                    continue
                k[i] = ch[ci]
            out.append(q)
    return out


def valid(p):
    try:
        bindgen.print_js(p)
        return True
    except Exception:
        return False


def main():
    src, v = sys.argv[1], sys.argv[2]
    if src.isdigit():
        rest = json.load(open("/verif/.work/bindsweep/rest.json"))
        prog = rest[int(src)][0]
    else:
        prog = json.load(open(src))
        prog = prog.get("replay", prog).get("program", prog)
    binp = os.path.join(WD, "mjsrun")
    go_build("mjsrun", binp, overlay=False)

    def mismatch(ps):
        for i, p in enumerate(ps):
            p["id"] = i
        want = oracle.bind_eval(ps, WD, "m", shards=min(8, len(ps) // 20 + 1))
        sel = [p for p in ps if want[p["id"]]["ty"] != "fuel" and bindgen.applicable(p, v)]
        got = oracle.bind_run(binp, sel, WD, "m", v)
        bad = [p for p in sel if not oracle.bind_agree(want[p["id"]], got[p["id"]]) and not got[p["id"]].get("err", "").startswith("SyntaxError")]
        if bad:
            # a disagreement that the recorded deviation (F-CALL-UNRESOLVED-ORDER) explains is not what is being minimised
            w2 = oracle.bind_eval(bad, WD, "md", devs=["calleeLate"], shards=min(8, len(bad) // 20 + 1))
            bad = [p for p in bad if w2[p["id"]]["ty"] != "fuel" and not oracle.bind_agree(w2[p["id"]], got[p["id"]])]
        return bad, want, got

    cur = prog
    bad, want, got = mismatch([copy.deepcopy(cur)])
    if not bad:
        print("no mismatch")
        return
    while True:
        cands = [c for c in reductions(cur) if valid(c)]
        if not cands:
            break
        bad, want, got = mismatch(cands)
        if not bad:
            break
        bad.sort(key=lambda p: len(json.dumps(p)))
        cur = bad[0]
        print("size", len(json.dumps(cur)), flush=True)
    bad, want, got = mismatch([copy.deepcopy(cur)])
    print(bindgen.print_js(cur, v)[1].split("function __F")[-1])
    print("want", want[0])
    print("got ", got[0])
    json.dump(cur, open(os.path.join(WD, "min.json"), "w"))


main()
