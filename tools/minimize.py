#!/usr/bin/env python3
"""minimize.py <replay.json> — delta-debug a MiniJS program (statement deletions, driver-op deletions) while goja keeps
disagreeing with the oracle; prints the minimal JavaScript."""
import copy
import json
import os
import sys

sys.path.insert(0, os.path.join(os.path.dirname(os.path.dirname(os.path.abspath(__file__))), "lib"))
import mjgen  # noqa
import oracle  # noqa
from vlib import go_build, workdir  # noqa


def candidates(p):
    out = []
    nodes = p["nodes"]
    # unlink node j from whatever references it through 'nx' / 'a' / 'b' (list heads)
    for j in range(1, len(nodes) + 1):
        nj = nodes[j - 1]
        if nj["t"] in ("case",) or j == p["root"]:
            continue
        for i, n in enumerate(nodes):
            ptrs = ["nx"]
            if n["t"] in ("block", "case", "if"):
                ptrs.append("a")           # head of a statement list
            if n["t"] == "if":
                ptrs.append("b")
            for fld in ptrs:
                if n[fld] == j:
                    q = copy.deepcopy(p)
                    q["nodes"][i][fld] = nj["nx"]
                    out.append(q)
    for i in range(len(p["ops"])):
        q = copy.deepcopy(p)
        del q["ops"][i]
        out.append(q)
    # replace a compound statement by its body list is not attempted
    return out


def valid(q):
    try:
        mjgen.print_js(q)
        return True
    except Exception:
        return False


def main():
    d = json.load(open(sys.argv[1]))
    p = d["replay"]["program"]
    wd = workdir("min")
    binp = os.path.join(wd, "mjsrun")
    go_build("mjsrun", binp, overlay=False)
    rounds = 0
    while True:
        cs = [q for q in candidates(p) if valid(q)]
        for i, q in enumerate(cs):
            q["id"] = i
        if not cs:
            break
        want, _ = oracle.tlc_eval(cs, wd, "m%d" % rounds)
        got = oracle.goja_run(binp, cs, wd, "m%d" % rounds)
        nxt = None
        for q in cs:
            g = got[q["id"]]
            if g.get("err") and "SyntaxError" in g["err"]:
                continue
            if not oracle.agree(q, want[q["id"]], g):
                nxt = q
                break
        rounds += 1
        if nxt is None:
            break
        p = nxt
    p["id"] = 0
    want, _ = oracle.tlc_eval([p], wd, "final")
    got = oracle.goja_run(binp, [p], wd, "final")
    print(mjgen.print_js(p).split("var T=true, Fa=false;\n")[1])
    print("specified:", want[0])
    print("goja     :", got[0])
    json.dump({"property": d.get("property"), "what": "minimized", "replay": {"module": "MiniJS", "program": p}}, open(sys.argv[1] + ".min.json", "w"))


if __name__ == "__main__":
    main()
