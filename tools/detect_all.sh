#!/bin/sh
# run the relevant checks against every confirmed seeded mutation that has no detect.json yet (or all with FORCE=1)
for d in /verif/seeded/*/; do
  id=$(basename $d); prop=${id%-*}
  grep -q '"confirmed": true' $d/confirm.json 2>/dev/null || continue
  [ -z "$FORCE" ] && [ -f $d/detect.json ] && continue
  case $prop in
    C08) checks="C08 C03";;
    C09) checks="C09 C03";;
    C03) checks="C03 C09";;
    C15) checks="C15 C03";;
    C01) checks="C01 C03";;
    *) checks="$prop";;
  esac
  avail=""
  for c in $checks; do [ -f /verif/lib/checks/$(echo $c | tr A-Z a-z).py ] && avail="$avail $c"; done
  [ -z "$avail" ] && continue
  /verif/tools/seeded.py detect $d $avail > $d/detect.json 2>&1
done
