#!/bin/sh
# install_seeds.sh <agent-tag> <prop> <first-number>: copy /tmp/mut/<tag>/{1,2} to seeded/<prop>-<n>, remove the agent's worktree, confirm + detect
tag=$1; prop=$2; n=$3
for i in 1 2; do
  d=/verif/seeded/$prop-$n; mkdir -p $d; cp /tmp/mut/$tag/$i/* $d/
  n=$((n+1))
done
git -C /repo worktree remove --force /tmp/wt-$tag 2>/dev/null
n=$3
for i in 1 2; do
  d=/verif/seeded/$prop-$n
  /verif/tools/seeded.py confirm $d > $d/confirm.json 2>&1
  /verif/tools/seeded.py detect $d $prop > $d/detect.json 2>&1
  echo "$prop-$n confirmed=$(grep -c '"confirmed": true' $d/confirm.json) $(grep -o '"rc": [0-9]*' $d/detect.json | head -1) $(grep -o '"violations": [0-9]*' $d/detect.json | head -1)"
  n=$((n+1))
done
